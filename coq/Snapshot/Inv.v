(* The reachable-state invariant [Inv] (Snapshot/Defs.v) holds after every well-formed history.

   Part 1: what the session/check cascades do to the catalog "shape" (nodes, services, and which
           service each check names): nothing.
   Part 2: the catalog part of the invariant (ids unique, create indexes positive, no orphans).
   Part 3: the session-link and index-row parts, for which the catalog rows are irrelevant.
   Part 4: [apply] and [run]. *)
From stdpp Require Import gmap strings.
From RecordUpdate Require Import RecordSet.
From Coq Require Import NArith.
From Verif Require Import Store.Model Store.Inv Snapshot.Model Snapshot.Lemmas Snapshot.Defs.
Import RecordSetNotations.
Local Open Scope N_scope.

(* ================================================================ Part 1: the catalog shape *)
Definition cmap (s : st) : gmap (string * string) string := c_service <$> checks s.

Definition shape_eq (s p : st) : Prop :=
  nodes p = nodes s /\ services p = services s /\ cmap p = cmap s.

Lemma shape_eq_refl s : shape_eq s s.
Proof. repeat split. Qed.
Lemma shape_eq_trans a b c : shape_eq a b -> shape_eq b c -> shape_eq a c.
Proof. intros (H1 & H2 & H3) (H4 & H5 & H6). repeat split; congruence. Qed.

Lemma cmap_lookup s k : cmap s !! k = c_service <$> checks s !! k.
Proof. unfold cmap. apply lookup_fmap. Qed.

Lemma drop_session_shape idx sid ss s : shape_eq s (drop_session idx sid ss s).
Proof.
  unfold drop_session. cbn zeta.
  pose proof (release_or_delete_keys_frame idx sid ss (set_index "sessions" idx (s <| sessions ::= delete sid |>)))
    as (_ & _ & _ & Hn & Hs & Hc).
  match goal with |- context [bool_decide ?P] => destruct (bool_decide P) end;
    unfold shape_eq, cmap; cbn; rewrite Hn, Hs, Hc; repeat split.
Qed.

(* ensureCheckTxn: on success the check (nd, cid) names hc's service, whose registration exists *)
Definition check_spec (nd cid : string) (hc : check) (s : st) (r : result st) : Prop :=
  match r with
  | Ok s' => nodes s' = nodes s /\ services s' = services s /\
             cmap s' = <[(nd, cid) := c_service hc]> (cmap s) /\
             is_Some (nodes s !! nd) /\
             (c_service hc <> "" -> is_Some (services s !! (nd, c_service hc)))
  | Err _ p => shape_eq s p
  end.

Lemma ensure_check_with_shape del pre idx nd cid hc s :
  (forall i sid t, outcome (shape_eq t) id (del i sid t)) ->
  check_spec nd cid hc s (ensure_check_with del pre idx nd cid hc s).
Proof.
  intros Hdel. unfold ensure_check_with.
  destruct (nodes s !! nd) as [n|] eqn:En; [|apply shape_eq_refl].
  assert (Htail : forall hc1, c_service hc1 = c_service hc ->
            (c_service hc <> "" -> is_Some (services s !! (nd, c_service hc))) ->
            check_spec nd cid hc s
              (s1 ← invalidate_if_critical del idx nd cid hc1 s;
               Ok (store_check pre idx nd cid hc1 (checks s !! (nd, cid)) s1))).
  { intros hc1 Hsvc Hok.
    assert (Hi : outcome (shape_eq s) id (invalidate_if_critical del idx nd cid hc1 s)).
    { unfold invalidate_if_critical. destruct (bool_decide _); [|apply shape_eq_refl].
      apply rfold_outcome; [|apply shape_eq_refl]. intros sid t Ht. specialize (Hdel idx sid t).
      destruct (del idx sid t); cbn in *; eapply shape_eq_trans; eassumption. }
    destruct (invalidate_if_critical del idx nd cid hc1 s) as [s1|e p]; cbn in Hi; [|exact Hi].
    rewrite bind_Ok. cbn [check_spec]. destruct Hi as (Hn & Hs & Hc).
    assert (Hcm : cmap (store_check pre idx nd cid hc1 (checks s !! (nd, cid)) s1) = <[(nd, cid) := c_service hc]> (cmap s)).
    { unfold store_check. destruct (checks s !! (nd, cid)) as [x|] eqn:Ex.
      - destruct (negb (check_same x hc1)) eqn:Esame.
        + unfold cmap in *. cbn. rewrite fmap_insert. cbn. rewrite Hc, Hsvc. reflexivity.
        + rewrite Hc. symmetry. apply insert_id. rewrite cmap_lookup, Ex. cbn. f_equal.
          apply negb_false_iff in Esame. unfold check_same in Esame.
          repeat (apply andb_true_iff in Esame as [Esame ?]).
          match goal with H : bool_decide (c_service x = c_service hc1) = true |- _ => apply bool_decide_eq_true in H; rewrite H end.
          exact Hsvc.
      - unfold cmap in *. cbn. rewrite fmap_insert. cbn. rewrite Hc, Hsvc. reflexivity. }
    assert (Hfr : nodes (store_check pre idx nd cid hc1 (checks s !! (nd, cid)) s1) = nodes s1 /\
                  services (store_check pre idx nd cid hc1 (checks s !! (nd, cid)) s1) = services s1).
    { unfold store_check. destruct (match checks s !! (nd, cid) with Some x => negb (check_same x hc1) | None => true end); split; reflexivity. }
    destruct Hfr as [Hfn Hfs]. rewrite Hfn, Hfs. repeat split; try assumption. rewrite En. eauto. }
  unfold resolve_service. destruct (bool_decide (c_service hc = "")) eqn:Ee.
  - rewrite bind_Ok. apply Htail; [reflexivity|]. apply bool_decide_eq_true in Ee. intros Hne. contradiction.
  - destruct (services s !! (nd, c_service hc)) as [sv|] eqn:Esv; [|apply shape_eq_refl].
    rewrite bind_Ok. apply Htail; [destruct hc; reflexivity|]. intros _. eauto.
Qed.

Lemma delete_session_shape fuel : forall idx sid s, outcome (shape_eq s) id (delete_session fuel idx sid s).
Proof.
  induction fuel as [|fuel IH]; intros idx sid s; cbn [delete_session]; [apply shape_eq_refl|].
  destruct (sessions s !! sid) as [ss|]; [|apply shape_eq_refl].
  pose proof (drop_session_shape idx sid ss s) as H4.
  set (s4 := drop_session idx sid ss s) in *.
  assert (Hfold : outcome (shape_eq s4) id
            (rfold (fun s' cid =>
                      match checks s4 !! (s_node ss, cid) with
                      | None => Ok s'
                      | Some c => ensure_check_with (delete_session fuel) true idx (s_node ss) cid
                                    (c <| c_status := critical |> <| c_output := OInvalid sid |>) s'
                      end) (session_checks_of_node (s_node ss) (s_name ss) s4) s4)).
  { apply rfold_outcome; [|apply shape_eq_refl]. intros cid s' Hs'.
    destruct (checks s4 !! (s_node ss, cid)) as [c|] eqn:Ec; [|exact Hs'].
    pose proof (ensure_check_with_shape (delete_session fuel) true idx (s_node ss) cid
                  (c <| c_status := critical |> <| c_output := OInvalid sid |>) s' (fun i sd t => IH i sd t)) as Hx.
    destruct (ensure_check_with _ _ _ _ _ _ s') as [s''|e p]; cbn in *.
    - destruct Hx as (Hn & Hs & Hc & _). destruct Hs' as (Hn' & Hs'' & Hc').
      repeat split; [congruence|congruence|]. rewrite Hc, Hc'. apply insert_id.
      rewrite cmap_lookup, Ec. destruct c; reflexivity.
    - eapply shape_eq_trans; eassumption. }
  destruct (rfold _ _ s4) as [s'|e p]; cbn in *; eapply shape_eq_trans; eassumption.
Qed.

Lemma delete_session_top_shape idx sid s : outcome (shape_eq s) id (delete_session_top idx sid s).
Proof. apply delete_session_shape. Qed.

Lemma ensure_check_p_shape pre idx nd cid hc s : check_spec nd cid hc s (ensure_check_p pre idx nd cid hc s).
Proof.
  unfold ensure_check_p. apply ensure_check_with_shape. intros i sid t. apply delete_session_shape.
Qed.

(* deleteCheckTxn removes exactly the check, whatever the cascade does *)
Lemma delete_check_shape idx nd cid s :
  outcome (fun p => nodes p = nodes s /\ services p = services s /\ cmap p = delete (nd, cid) (cmap s)) id
          (delete_check idx nd cid s).
Proof.
  unfold delete_check. destruct (checks s !! (nd, cid)) as [c|] eqn:Ec.
  - set (s1 := s <| checks ::= delete (nd, cid) |>).
    assert (H1 : nodes s1 = nodes s /\ services s1 = services s /\ cmap s1 = delete (nd, cid) (cmap s)).
    { repeat split. unfold cmap, s1. cbn. apply fmap_delete. }
    assert (Hf : outcome (shape_eq s1) id (rfold (fun s' sid => delete_session_top idx sid s') (sessions_of_check nd cid s1) s1)).
    { apply rfold_outcome; [|apply shape_eq_refl]. intros sid t Ht.
      pose proof (delete_session_top_shape idx sid t) as Hx.
      destruct (delete_session_top idx sid t); cbn in *; eapply shape_eq_trans; eassumption. }
    destruct H1 as (A & B & C).
    destruct (rfold _ _ s1) as [s'|e p]; cbn in *; destruct Hf as (A' & B' & C'); unfold id;
      rewrite A', B', C'; repeat split; assumption.
  - cbn. repeat split. symmetry. apply delete_notin. rewrite cmap_lookup, Ec. reflexivity.
Qed.

(* ================================================================ Part 2: the catalog invariant *)
Definition CatS (no : gmap string node) (sv : gmap (string * string) service)
           (cm : gmap (string * string) string) : Prop :=
  (forall n1 n2 a b, no !! n1 = Some a -> no !! n2 = Some b -> n_id a = n_id b -> n_id a <> "" -> n1 = n2) /\
  (forall n a, no !! n = Some a -> n_create a <> 0) /\
  (forall nd sid x, sv !! (nd, sid) = Some x -> is_Some (no !! nd)) /\
  (forall nd cid v, cm !! (nd, cid) = Some v -> is_Some (no !! nd) /\ (v <> "" -> is_Some (sv !! (nd, v)))).

Definition Cat (s : st) : Prop := CatS (nodes s) (services s) (cmap s).

Lemma Cat_iff s : Cat s <-> NodeIdUniq s /\ NodeCreatePos s /\ SvcNode s /\ ChkRef s.
Proof.
  unfold Cat, CatS, NodeIdUniq, NodeCreatePos, SvcNode, ChkRef. split.
  - intros (A & B & C & D). repeat split; try assumption.
    + eapply (D nd cid (c_service c)). rewrite cmap_lookup, H. reflexivity.
    + eapply (D nd cid (c_service c)). rewrite cmap_lookup, H. reflexivity.
  - intros (A & B & C & D). repeat split; try assumption.
    + rewrite cmap_lookup in H. destruct (checks s !! (nd, cid)) as [c|] eqn:Ec; [|discriminate].
      exact (proj1 (D nd cid c Ec)).
    + rewrite cmap_lookup in H. destruct (checks s !! (nd, cid)) as [c|] eqn:Ec; [|discriminate].
      cbn in H. injection H as <-. exact (proj2 (D nd cid c Ec)).
Qed.

Lemma Cat_shape s p : shape_eq s p -> Cat s -> Cat p.
Proof. intros (A & B & C). unfold Cat. rewrite A, B, C. tauto. Qed.

Lemma CatS_check_sub no sv cm cm' : cm' ⊆ cm -> CatS no sv cm -> CatS no sv cm'.
Proof.
  intros Hsub (A & B & C & D). repeat split; try assumption.
  - eapply D. eapply lookup_weaken; eassumption.
  - eapply D. eapply lookup_weaken; eassumption.
Qed.

Lemma CatS_check_insert no sv cm nd cid v :
  is_Some (no !! nd) -> (v <> "" -> is_Some (sv !! (nd, v))) -> CatS no sv cm -> CatS no sv (<[(nd, cid) := v]> cm).
Proof.
  intros Hn Hs (A & B & C & D). repeat split; try assumption.
  - destruct (decide ((nd0, cid0) = (nd, cid))) as [Heq|Hne].
    + injection Heq as -> ->. exact Hn.
    + rewrite lookup_insert_ne in H by congruence. eapply D; eassumption.
  - destruct (decide ((nd0, cid0) = (nd, cid))) as [Heq|Hne].
    + injection Heq as -> ->. rewrite lookup_insert in H. injection H as <-. exact Hs.
    + rewrite lookup_insert_ne in H by congruence. eapply D; eassumption.
Qed.

Lemma CatS_service_insert no sv cm nd sid x :
  is_Some (no !! nd) -> CatS no sv cm -> CatS no (<[(nd, sid) := x]> sv) cm.
Proof.
  intros Hn (A & B & C & D). repeat split; try assumption.
  - intros nd' sid' x' H. destruct (decide ((nd', sid') = (nd, sid))) as [Heq|Hne].
    + injection Heq as -> ->. exact Hn.
    + rewrite lookup_insert_ne in H by congruence. eapply C; eassumption.
  - eapply D; eassumption.
  - intros Hv. destruct (decide ((nd0, v) = (nd, sid))) as [Heq|Hne].
    + rewrite Heq, lookup_insert. eauto.
    + rewrite lookup_insert_ne by congruence. eapply D; eassumption.
Qed.

Lemma CatS_service_delete no sv cm nd svc :
  (forall cid, cm !! (nd, cid) = Some svc -> svc = "") -> CatS no sv cm -> CatS no (delete (nd, svc) sv) cm.
Proof.
  intros Hno (A & B & C & D). repeat split; try assumption.
  - intros nd' sid' x' H. apply lookup_delete_Some in H as [_ H]. eapply C; eassumption.
  - eapply D; eassumption.
  - intros Hv. destruct (decide ((nd0, v) = (nd, svc))) as [Heq|Hne].
    + injection Heq as -> ->. exfalso. apply Hv. eapply Hno. eassumption.
    + rewrite lookup_delete_ne by congruence. eapply D; eassumption.
Qed.

Lemma CatS_node_insert no sv cm nd id addr c m :
  c <> 0 -> (forall nm x, no !! nm = Some x -> nm <> nd -> id <> "" -> n_id x <> id) ->
  CatS no sv cm -> CatS (<[nd := Node id addr c m]> no) sv cm.
Proof.
  intros Hc Hid (A & B & C & D). repeat split.
  - intros n1 n2 a b H1 H2 Hab Hne.
    destruct (decide (n1 = nd)) as [->|N1]; destruct (decide (n2 = nd)) as [->|N2]; [reflexivity| | |].
    + rewrite lookup_insert in H1. injection H1 as <-. rewrite lookup_insert_ne in H2 by congruence.
      cbn in *. exfalso. eapply (Hid n2 b H2 N2); [exact Hne|symmetry; exact Hab].
    + rewrite lookup_insert in H2. injection H2 as <-. rewrite lookup_insert_ne in H1 by congruence.
      cbn in *. exfalso. eapply (Hid n1 a H1 N1); [rewrite <- Hab; exact Hne|exact Hab].
    + rewrite lookup_insert_ne in H1, H2 by congruence. eapply A; eassumption.
  - intros n a H. destruct (decide (n = nd)) as [->|N]; [rewrite lookup_insert in H; injection H as <-; exact Hc|].
    rewrite lookup_insert_ne in H by congruence. eapply B; eassumption.
  - intros nd' sid x H. destruct (decide (nd' = nd)) as [->|N]; [rewrite lookup_insert; eauto|].
    rewrite lookup_insert_ne by congruence. eapply C; eassumption.
  - destruct (decide (nd0 = nd)) as [->|N]; [rewrite lookup_insert; eauto|].
    rewrite lookup_insert_ne by congruence. eapply D; eassumption.
  - eapply D; eassumption.
Qed.

Lemma CatS_node_delete no sv cm nd :
  (forall sid, sv !! (nd, sid) = None) -> (forall cid, cm !! (nd, cid) = None) ->
  CatS no sv cm -> CatS (delete nd no) sv cm.
Proof.
  intros Hs Hc (A & B & C & D). repeat split.
  - intros n1 n2 a b H1 H2. apply lookup_delete_Some in H1 as [_ H1]. apply lookup_delete_Some in H2 as [_ H2].
    eapply A; eassumption.
  - intros n a H. apply lookup_delete_Some in H as [_ H]. eapply B; eassumption.
  - intros nd' sid x H. destruct (decide (nd' = nd)) as [->|N]; [rewrite Hs in H; discriminate|].
    rewrite lookup_delete_ne by congruence. eapply C; eassumption.
  - destruct (decide (nd0 = nd)) as [->|N]; [rewrite Hc in H; discriminate|].
    rewrite lookup_delete_ne by congruence. eapply D; eassumption.
  - eapply D; eassumption.
Qed.

(* folding deleteCheckTxn over a list of check ids of node [nd] *)
Definition less_checks (s p : st) : Prop :=
  nodes p = nodes s /\ services p = services s /\ cmap p ⊆ cmap s.

Lemma less_checks_refl s : less_checks s s.
Proof. split; [reflexivity|split; reflexivity]. Qed.
Lemma less_checks_trans a b c : less_checks a b -> less_checks b c -> less_checks a c.
Proof. intros (A & B & C) (D & E & F). repeat split; [congruence|congruence|etrans; eassumption]. Qed.
Lemma less_checks_Cat s p : less_checks s p -> Cat s -> Cat p.
Proof. intros (A & B & C) H. unfold Cat. rewrite A, B. eapply CatS_check_sub; eassumption. Qed.

Lemma fold_delete_check idx nd l : forall s,
  match rfold (fun s' cid => delete_check idx nd cid s') l s with
  | Ok p => less_checks s p /\ forall cid, cid ∈ l -> cmap p !! (nd, cid) = None
  | Err _ p => less_checks s p
  end.
Proof.
  induction l as [|x l IH]; intros s; [split; [apply less_checks_refl|intros cid H; inversion H]|].
  rewrite rfold_cons. pose proof (delete_check_shape idx nd x s) as Hx.
  destruct (delete_check idx nd x s) as [s1|e p]; cbn in Hx; destruct Hx as (A & B & C).
  - rewrite bind_Ok. assert (H1 : less_checks s s1) by (repeat split; try assumption; rewrite C; apply delete_subseteq).
    specialize (IH s1). destruct (rfold _ l s1) as [p|e p].
    + destruct IH as [H2 H3]. split; [eapply less_checks_trans; eassumption|].
      intros cid Hin. apply elem_of_cons in Hin as [->|Hin]; [|apply H3, Hin].
      destruct H2 as (_ & _ & Hsub). apply eq_None_not_Some. intros [v Hv].
      eapply lookup_weaken in Hv; [|exact Hsub]. rewrite C, lookup_delete in Hv. discriminate.
    + eapply less_checks_trans; eassumption.
  - rewrite bind_Err. repeat split; try assumption. rewrite C. apply delete_subseteq.
Qed.

Lemma delete_service_Cat idx nd svc s :
  Cat s ->
  match delete_service idx nd svc s with
  | Ok p => nodes p = nodes s /\ cmap p ⊆ cmap s /\ services p = delete (nd, svc) (services s) /\ Cat p
  | Err _ p => less_checks s p /\ Cat p
  end.
Proof.
  intros HC. unfold delete_service. destruct (services s !! (nd, svc)) as [x|] eqn:Ex.
  - pose proof (fold_delete_check idx nd (checks_of_service nd svc s) s) as Hf.
    destruct (rfold _ _ s) as [s1|e p].
    + rewrite bind_Ok. destruct Hf as [(A & B & C) Hgone]. cbn.
      split; [exact A|]. split; [exact C|]. split; [rewrite B; reflexivity|].
      unfold Cat. cbn. rewrite A, B. apply CatS_service_delete.
      * intros cid Hc. exfalso.
        assert (Hin : cid ∈ checks_of_service nd svc s).
        { apply elem_of_checks_of_service. eapply lookup_weaken in Hc; [|exact C].
          rewrite cmap_lookup in Hc. destruct (checks s !! (nd, cid)) as [c|]; [|discriminate].
          cbn in Hc. injection Hc as Hc. eauto. }
        rewrite (Hgone cid Hin) in Hc. discriminate.
      * eapply CatS_check_sub; [exact C|exact HC].
    + rewrite bind_Err. split; [exact Hf|eapply less_checks_Cat; eassumption].
  - split; [reflexivity|]. split; [reflexivity|]. split; [symmetry; apply delete_notin; exact Ex|exact HC].
Qed.

Definition less_cat (s p : st) : Prop :=
  nodes p = nodes s /\ services p ⊆ services s /\ cmap p ⊆ cmap s.
Lemma less_cat_trans a b c : less_cat a b -> less_cat b c -> less_cat a c.
Proof. intros (A & B & C) (D & E & F). repeat split; [congruence|etrans; eassumption|etrans; eassumption]. Qed.

Lemma fold_delete_service idx nd l : forall s, Cat s ->
  match rfold (fun s' svc => delete_service idx nd svc s') l s with
  | Ok p => less_cat s p /\ Cat p /\ forall sid, sid ∈ l -> services p !! (nd, sid) = None
  | Err _ p => less_cat s p /\ Cat p
  end.
Proof.
  induction l as [|x l IH]; intros s HC;
    [split; [split; [reflexivity|split; reflexivity]|split; [exact HC|intros sid H; inversion H]]|].
  rewrite rfold_cons. pose proof (delete_service_Cat idx nd x s HC) as Hx.
  destruct (delete_service idx nd x s) as [s1|e p].
  - rewrite bind_Ok. destruct Hx as (A & B & C & D).
    assert (H1 : less_cat s s1) by (split; [exact A|split; [rewrite C; apply delete_subseteq|exact B]]).
    specialize (IH s1 D). destruct (rfold _ l s1) as [p|e p].
    + destruct IH as (H2 & H3 & H4). split; [eapply less_cat_trans; eassumption|]. split; [exact H3|].
      intros sid Hin. apply elem_of_cons in Hin as [->|Hin]; [|apply H4, Hin].
      destruct H2 as (_ & Hsub & _). apply eq_None_not_Some. intros [v Hv].
      eapply lookup_weaken in Hv; [|exact Hsub]. rewrite C, lookup_delete in Hv. discriminate.
    + destruct IH as (H2 & H3). split; [eapply less_cat_trans; eassumption|exact H3].
  - rewrite bind_Err. destruct Hx as ((A & B & C) & D). split; [|exact D].
    split; [exact A|split; [rewrite B; reflexivity|exact C]].
Qed.

Lemma fold_session_top_shape idx l : forall s,
  outcome (shape_eq s) id (rfold (fun s' sid => delete_session_top idx sid s') l s).
Proof.
  intros s. apply rfold_outcome; [|apply shape_eq_refl]. intros sid t Ht.
  pose proof (delete_session_top_shape idx sid t) as Hx.
  destruct (delete_session_top idx sid t); cbn in *; eapply shape_eq_trans; eassumption.
Qed.

Lemma delete_node_Cat idx nd s :
  Cat s ->
  match delete_node idx nd s with
  | Ok p => nodes p = delete nd (nodes s) /\ Cat p
  | Err _ p => Cat p
  end.
Proof.
  intros HC. unfold delete_node. destruct (nodes s !! nd) as [n|] eqn:En.
  - pose proof (fold_delete_service idx nd (services_of_node nd s) s HC) as H1.
    destruct (rfold _ (services_of_node nd s) s) as [s1|e p]; [|rewrite bind_Err; exact (proj2 H1)].
    rewrite bind_Ok. destruct H1 as ((A1 & B1 & C1) & D1 & G1).
    pose proof (fold_delete_check idx nd (checks_of_node nd s1) s1) as H2.
    destruct (rfold _ (checks_of_node nd s1) s1) as [s2|e p];
      [|rewrite bind_Err; eapply less_checks_Cat; eassumption].
    rewrite bind_Ok. destruct H2 as ((A2 & B2 & C2) & G2). cbn zeta.
    set (s3 := s2 <| nodes ::= delete nd |>).
    assert (HC3 : Cat s3).
    { unfold Cat, s3. cbn. apply CatS_node_delete.
      - intros sid. rewrite B2. apply eq_None_not_Some. intros [v Hv].
        assert (Hin : sid ∈ services_of_node nd s).
        { apply elem_of_services_of_node. eapply lookup_weaken in Hv; [|exact B1]. eauto. }
        rewrite (G1 sid Hin) in Hv. discriminate.
      - intros cid. apply eq_None_not_Some. intros [v Hv].
        assert (Hin : cid ∈ checks_of_node nd s1).
        { apply elem_of_checks_of_node. eapply lookup_weaken in Hv; [|exact C2].
          rewrite cmap_lookup in Hv. destruct (checks s1 !! (nd, cid)); [eauto|discriminate]. }
        rewrite (G2 cid Hin) in Hv. discriminate.
      - eapply (less_checks_Cat s1 s2); [split; [exact A2|split; [exact B2|exact C2]]|exact D1]. }
    pose proof (fold_session_top_shape idx (sessions_of_node nd s3) s3) as H3.
    destruct (rfold _ (sessions_of_node nd s3) s3) as [p|e p]; cbn in H3.
    + split; [|eapply Cat_shape; eassumption]. destruct H3 as (A3 & _). rewrite A3. unfold s3. cbn. rewrite A2, A1. reflexivity.
    + eapply Cat_shape; eassumption.
  - split; [|exact HC]. symmetry. apply delete_notin. exact En.
Qed.
