(* Cutting a history at any point: the store restored from the snapshot taken there behaves, for
   the rest of the history, exactly like the store that took the snapshot.  The lock-delay map is
   local and not restored; that it never flows into replicated state or results is property C01
   (FSM/NonInterference.v: run_sim), reused here. *)
From stdpp Require Import gmap strings.
From RecordUpdate Require Import RecordSet.
From Coq Require Import NArith.
From Verif Require Import Store.Model FSM.NonInterference Snapshot.Model Snapshot.Lemmas Snapshot.Defs
     Snapshot.Proofs Snapshot.Inv.
Import RecordSetNotations.
Local Open Scope N_scope.

Lemma run_app l1 l2 s :
  run (l1 ++ l2) s = let '(s1, r1) := run l1 s in let '(s2, r2) := run l2 s1 in (s2, r1 ++ r2).
Proof.
  revert s. induction l1 as [|[idx c] l1 IH]; intros s; cbn.
  - destruct (run l2 s); reflexivity.
  - destruct (apply idx c s) as [s' r]. rewrite IH. destruct (run l1 s') as [s1 r1].
    destruct (run l2 s1) as [s2 r2]. reflexivity.
Qed.

Lemma wf_log_app l1 l2 s : wf_log (l1 ++ l2) s <-> wf_log l1 s /\ wf_log l2 (run l1 s).1.
Proof.
  revert s. induction l1 as [|[idx c] l1 IH]; intros s; cbn; [tauto|].
  rewrite IH. destruct (apply idx c s) as [s' r]; cbn. destruct (run l1 s') as [s1 r1]; cbn. tauto.
Qed.

Lemma repl_idem s : repl (repl s) = repl s.
Proof. destruct s; reflexivity. Qed.

Theorem cut li qm h k :
  wf_log h st0 ->
  let s := (run (firstn k h) st0).1 in
  Fresh s ->
  exists r, restore li (snapshot qm s) = Ok r /\ r = repl s /\
            (run (skipn k h) r).2 = (run (skipn k h) s).2 /\
            repl (run (skipn k h) r).1 = repl (run (skipn k h) s).1 /\
            (run h st0).2 = (run (firstn k h) st0).2 ++ (run (skipn k h) r).2 /\
            repl (run h st0).1 = repl (run (skipn k h) r).1.
Proof.
  intros Hwf s Hf.
  rewrite <- (firstn_skipn k h) in Hwf. apply wf_log_app in Hwf as [Hwf1 Hwf2].
  assert (HI : Inv s) by (apply run_Inv; [exact Hwf1|apply Inv_st0]).
  exists (repl s). split; [apply roundtrip; assumption|]. split; [reflexivity|].
  pose proof (run_sim (skipn k h) (repl s) s (repl_idem s)) as [Hs Hr].
  split; [exact Hr|]. split; [exact Hs|].
  assert (Hrun : run h st0 = let '(s1, r1) := run (firstn k h) st0 in
                             let '(s2, r2) := run (skipn k h) s1 in (s2, r1 ++ r2)).
  { rewrite <- (firstn_skipn k h) at 1. apply run_app. }
  rewrite Hrun. subst s.
  destruct (run (firstn k h) st0) as [s' r1] eqn:E1. cbn [fst snd] in *.
  destruct (run (skipn k h) s') as [s2 r2] eqn:E2. cbn [fst snd] in *. rewrite Hr. split; [reflexivity|]. symmetry. exact Hs.
Qed.

(* the modelled reads do not look at the lock-delay map *)
Lemma run_query_repl q s : run_query q (repl s) = run_query q s.
Proof. destruct s; destruct q; reflexivity. Qed.

Theorem queries_after_restore li qm s r q :
  Inv s -> Fresh s -> restore li (snapshot qm s) = Ok r -> run_query q r = run_query q s.
Proof.
  intros HI Hf Hr. rewrite (roundtrip li qm s HI Hf) in Hr. injection Hr as <-. apply run_query_repl.
Qed.
