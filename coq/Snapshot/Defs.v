(* The reachable-state invariant the snapshot/restore round trip needs, and the well-formedness of
   histories (what a leader emits).  Definitions only. *)
From stdpp Require Import gmap strings.
From RecordUpdate Require Import RecordSet.
From Coq Require Import NArith.
From Verif Require Import Store.Model Snapshot.Model.
Import RecordSetNotations.
Local Open Scope N_scope.

(* a node id names at most one node (ensureNodeTxn renames, i.e. deletes the old name) *)
Definition NodeIdUniq (s : st) : Prop :=
  forall n1 n2 a b, nodes s !! n1 = Some a -> nodes s !! n2 = Some b -> n_id a = n_id b -> n_id a <> "" -> n1 = n2.
(* no node was created at index 0 (a restore would take CreateIndex 0 for "no saved indexes") *)
Definition NodeCreatePos (s : st) : Prop := forall n a, nodes s !! n = Some a -> n_create a <> 0.
(* no orphans: a service's node exists; a check's node exists and so does the service it names *)
Definition SvcNode (s : st) : Prop := forall nd sid sv, services s !! (nd, sid) = Some sv -> is_Some (nodes s !! nd).
Definition ChkRef (s : st) : Prop :=
  forall nd cid c, checks s !! (nd, cid) = Some c ->
    is_Some (nodes s !! nd) /\ (c_service c <> "" -> is_Some (services s !! (nd, c_service c))).
(* the session-check link table is exactly what the session rows say *)
Definition SCheckExact (s : st) : Prop :=
  forall n c sid, (n, c, sid) ∈ schecks s <-> exists ss, sessions s !! sid = Some ss /\ s_node ss = n /\ c ∈ s_checks ss.
(* a non-empty table has its index row *)
Definition IdxPresence (s : st) : Prop :=
  (kvs s <> ∅ -> is_Some (index s !! "kvs")) /\
  (tombs s <> ∅ -> is_Some (index s !! "tombstones")) /\
  (sessions s <> ∅ -> is_Some (index s !! "sessions")) /\
  (queries s <> ∅ -> is_Some (index s !! "prepared-queries")).

Definition Inv (s : st) : Prop :=
  NodeIdUniq s /\ NodeCreatePos s /\ SvcNode s /\ ChkRef s /\ SCheckExact s /\ IdxPresence s.

(* every service check carries the CURRENT name of its service (false after a service was
   re-registered under another name: see C02_roundtrip_refuted) *)
Definition Fresh (s : st) : Prop :=
  forall nd cid c sv, checks s !! (nd, cid) = Some c -> c_service c <> "" ->
    services s !! (nd, c_service c) = Some sv -> c_svcname c = sv_name sv.

(* what a leader emits: Raft indexes start at 1, and SessionCreate carries an id that is not in
   use (Session.Apply draws UUIDs until state.SessionGet finds none) *)
Definition wf_cmd (idx : N) (c : cmd) (s : st) : Prop :=
  0 < idx /\ match c with SessionCreate sid _ => sessions s !! sid = None | _ => True end.

Fixpoint wf_log (log : list (N * cmd)) (s : st) : Prop :=
  match log with
  | [] => True
  | (idx, c) :: rest => wf_cmd idx c s /\ wf_log rest (apply idx c s).1
  end.

Definition reachable (s : st) : Prop := exists log, wf_log log st0 /\ s = (run log st0).1.
