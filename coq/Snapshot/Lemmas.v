(* Small lemmas shared by the snapshot/restore proofs: the insertion sort used for memdb iteration
   order is a permutation, list-of-keys characterisations, rfold over appended lists, and a
   "post" that does not single out the fuel error. *)
From stdpp Require Import gmap strings sorting.
From RecordUpdate Require Import RecordSet.
From Coq Require Import NArith.
From Verif Require Import Store.Model Snapshot.Model.
Import RecordSetNotations.
Local Open Scope N_scope.

(* ---------- ssort ---------- *)
Lemma sinsert_perm x l : sinsert x l ≡ₚ x :: l.
Proof.
  induction l as [|y l IH]; cbn; [reflexivity|].
  destruct (String.leb x y); [reflexivity|].
  rewrite IH. apply perm_swap.
Qed.

Lemma ssort_perm l : ssort l ≡ₚ l.
Proof.
  induction l as [|x l IH]; cbn; [reflexivity|].
  rewrite sinsert_perm. rewrite IH. reflexivity.
Qed.

Lemma elem_of_ssort x l : x ∈ ssort l <-> x ∈ l.
Proof. rewrite (ssort_perm l). reflexivity. Qed.

Lemma NoDup_ssort l : NoDup l -> NoDup (ssort l).
Proof. intros H. rewrite (ssort_perm l). exact H. Qed.

Lemma elem_of_sorted_keys {V} (m : gmap string V) k : k ∈ sorted_keys m <-> is_Some (m !! k).
Proof. unfold sorted_keys. rewrite elem_of_ssort, elem_of_elements, elem_of_dom. reflexivity. Qed.

Lemma NoDup_sorted_keys {V} (m : gmap string V) : NoDup (sorted_keys m).
Proof. apply NoDup_ssort, NoDup_elements. Qed.

(* ---------- omap over the entries of a map, keyed lists ---------- *)
Lemma NoDup_omap_inj {A B} (f : A -> option B) (l : list A) :
  NoDup l ->
  (forall x y z, x ∈ l -> y ∈ l -> f x = Some z -> f y = Some z -> x = y) ->
  NoDup (omap f l).
Proof.
  induction 1 as [|x l Hx Hl IH]; intros Hinj; cbn; [constructor|].
  destruct (f x) as [z|] eqn:Ez.
  - constructor.
    + intros Hin. apply elem_of_list_omap in Hin as (y & Hy & Hfy).
      assert (x = y) by (eapply Hinj; [left|right; exact Hy|exact Ez|exact Hfy]). subst. contradiction.
    + apply IH. intros a b c Ha Hb. apply Hinj; right; assumption.
  - apply IH. intros a b c Ha Hb. apply Hinj; right; assumption.
Qed.

Lemma elem_of_services_of_node nd sid s :
  sid ∈ services_of_node nd s <-> is_Some (services s !! (nd, sid)).
Proof.
  unfold services_of_node. rewrite elem_of_ssort, elem_of_list_omap. split.
  - intros ([[n x] v] & Hin & Hf). apply elem_of_map_to_list in Hin.
    destruct (bool_decide (n = nd)) eqn:E; [|discriminate]. apply bool_decide_eq_true in E. subst.
    injection Hf as <-. eauto.
  - intros [v Hv]. exists ((nd, sid), v). split; [apply elem_of_map_to_list; exact Hv|].
    rewrite bool_decide_eq_true_2 by reflexivity. reflexivity.
Qed.

Lemma NoDup_services_of_node nd s : NoDup (services_of_node nd s).
Proof.
  unfold services_of_node. apply NoDup_ssort. apply NoDup_omap_inj; [apply NoDup_map_to_list|].
  intros [[n1 x1] v1] [[n2 x2] v2] z H1 H2 Hf1 Hf2.
  apply elem_of_map_to_list in H1, H2.
  destruct (bool_decide (n1 = nd)) eqn:E1; [|discriminate].
  destruct (bool_decide (n2 = nd)) eqn:E2; [|discriminate].
  apply bool_decide_eq_true in E1, E2. subst. injection Hf1 as ->. injection Hf2 as ->.
  rewrite H1 in H2. injection H2 as ->. reflexivity.
Qed.

Lemma elem_of_checks_of_node nd cid s :
  cid ∈ checks_of_node nd s <-> is_Some (checks s !! (nd, cid)).
Proof.
  unfold checks_of_node. rewrite elem_of_ssort, elem_of_list_omap. split.
  - intros ([[n x] v] & Hin & Hf). apply elem_of_map_to_list in Hin.
    destruct (bool_decide (n = nd)) eqn:E; [|discriminate]. apply bool_decide_eq_true in E. subst.
    injection Hf as <-. eauto.
  - intros [v Hv]. exists ((nd, cid), v). split; [apply elem_of_map_to_list; exact Hv|].
    rewrite bool_decide_eq_true_2 by reflexivity. reflexivity.
Qed.

Lemma NoDup_checks_of_node nd s : NoDup (checks_of_node nd s).
Proof.
  unfold checks_of_node. apply NoDup_ssort. apply NoDup_omap_inj; [apply NoDup_map_to_list|].
  intros [[n1 x1] v1] [[n2 x2] v2] z H1 H2 Hf1 Hf2.
  apply elem_of_map_to_list in H1, H2.
  destruct (bool_decide (n1 = nd)) eqn:E1; [|discriminate].
  destruct (bool_decide (n2 = nd)) eqn:E2; [|discriminate].
  apply bool_decide_eq_true in E1, E2. subst. injection Hf1 as ->. injection Hf2 as ->.
  rewrite H1 in H2. injection H2 as ->. reflexivity.
Qed.

Lemma elem_of_checks_of_service nd svc cid s :
  cid ∈ checks_of_service nd svc s <-> exists c, checks s !! (nd, cid) = Some c /\ c_service c = svc.
Proof.
  unfold checks_of_service. rewrite elem_of_ssort, elem_of_list_omap. split.
  - intros ([[n x] v] & Hin & Hf). apply elem_of_map_to_list in Hin.
    destruct (bool_decide (n = nd)) eqn:E; [|discriminate]. apply bool_decide_eq_true in E. subst.
    destruct (bool_decide (c_service v = svc)) eqn:E2; [|discriminate]. apply bool_decide_eq_true in E2.
    cbn in Hf. injection Hf as <-. eauto.
  - intros (v & Hv & Hs). exists ((nd, cid), v). split; [apply elem_of_map_to_list; exact Hv|].
    rewrite (bool_decide_eq_true_2 (nd = nd)) by reflexivity.
    rewrite (bool_decide_eq_true_2 (c_service v = svc)) by exact Hs. reflexivity.
Qed.

Lemma elem_of_sessions_of_check nd cid sid s :
  sid ∈ sessions_of_check nd cid s <-> (nd, cid, sid) ∈ schecks s.
Proof.
  unfold sessions_of_check. rewrite elem_of_ssort, elem_of_list_omap. split.
  - intros ([[n c] x] & Hin & Hf). apply elem_of_elements in Hin.
    destruct (bool_decide (n = nd /\ c = cid)) eqn:E; [|discriminate].
    apply bool_decide_eq_true in E as [-> ->]. injection Hf as <-. exact Hin.
  - intros Hin. exists (nd, cid, sid). split; [apply elem_of_elements; exact Hin|].
    rewrite bool_decide_eq_true_2 by (split; reflexivity). reflexivity.
Qed.

(* ---------- the result monad ---------- *)
Lemma bind_Ok {A B} (a : A) (f : A -> result B) : Ok a ≫= f = f a.
Proof. reflexivity. Qed.
Lemma bind_Err {A B} e p (f : A -> result B) : (Err e p : result A) ≫= f = Err e p.
Proof. reflexivity. Qed.

(* ---------- rfold ---------- *)
Lemma rfold_cons {A S} (f : S -> A -> result S) x l s : rfold f (x :: l) s = f s x ≫= rfold f l.
Proof. reflexivity. Qed.

Lemma rfold_app {A S} (f : S -> A -> result S) l1 l2 s :
  rfold f (l1 ++ l2) s = rfold f l1 s ≫= rfold f l2.
Proof.
  revert s. induction l1 as [|x l1 IH]; intros s; cbn; [reflexivity|].
  destruct (f s x) as [s'|e p]; cbn; [apply IH|reflexivity].
Qed.

(* ---------- outcomes: the final state, or the partial state of a failure ---------- *)
Definition outcome {A} (P : st -> Prop) (proj : A -> st) (r : result A) : Prop :=
  match r with Ok a => P (proj a) | Err _ p => P p end.

Lemma rfold_outcome {A} (P : st -> Prop) (f : st -> A -> result st) l :
  (forall x s, P s -> outcome P id (f s x)) -> forall s, P s -> outcome P id (rfold f l s).
Proof.
  intros Hf. induction l as [|x l IH]; intros s Hs; cbn; [exact Hs|].
  specialize (Hf x s Hs). destruct (f s x) as [s'|e p]; cbn in *; [apply IH; exact Hf|exact Hf].
Qed.

Lemma bind_outcome {A B} (P : st -> Prop) (Q : A -> Prop) (pa : A -> st) (pb : B -> st)
      (m : result A) (k : A -> result B) :
  match m with Ok a => Q a | Err _ p => P p end ->
  (forall a, Q a -> outcome P pb (k a)) ->
  outcome P pb (m ≫= k).
Proof. intros Hm Hk. destruct m as [a|e p]; cbn; [apply Hk; exact Hm|exact Hm]. Qed.

(* record eta *)
Lemma node_eta n : Node (n_id n) (n_addr n) (n_create n) (n_modify n) = n.
Proof. destruct n; reflexivity. Qed.
Lemma check_set_same (c : check) : c <| c_create := c_create c |> <| c_modify := c_modify c |> = c.
Proof. destruct c; reflexivity. Qed.
