(* Concrete requests and histories: witnesses for the refuted clauses of C12 and non-vacuity
   examples for the hypotheses of the theorems.  Everything here is closed by computation. *)
From Verif Require Import Base.Prelude.
From Verif Require Import CA.Model.
From Verif Require Import CA.Proofs.
From Verif Require Import CA.UrlProofs.
From Verif Require Import CA.Confusion.
Open Scope string_scope.
Open Scope N_scope.
Open Scope list_scope.

Definition w_env : ca_env := CaEnv "dc1" "11111111-2222-3333-4444-555555555555".
Definition w_td : string := "11111111-2222-3333-4444-555555555555.consul".

(* a token with node:write on "n1" and service:write on "web" only *)
Definition w_az : authz :=
  Authz (fun n => (n =? "web")%string) (fun n => (n =? "n1")%string) false false.

Definition w_csr (u : url) : csr := Csr [u] [] [] 0.

(* ---- an ordinary request: service "web" in this trust domain and datacenter ---- *)
Definition w_web : url := Url "spiffe" w_td "/ns/default/dc/dc1/svc/web" "" DNone.

Lemma w_web_issued :
  sign_request w_env w_az (w_csr w_web) empty_store =
  Ok (Cert [w_web] [] [] false 1, incr_serial empty_store).
Proof. vm_compute. reflexivity. Qed.

Lemma w_web_wf : url_wf w_web.
Proof. left. reflexivity. Qed.

(* ---- an escaped spelling: the ACL question is asked about the decoded name ---- *)
Definition w_web_esc : url :=
  Url "spiffe" w_td "/ns/default/dc/dc1/svc/web" "/ns/default/dc/dc1/svc/we%62" DNone.

Lemma w_web_esc_issued :
  sign_request w_env w_az (w_csr w_web_esc) empty_store =
  Ok (Cert [w_web_esc] [] [] false 1, incr_serial empty_store).
Proof. vm_compute. reflexivity. Qed.

Lemma w_web_esc_wf : url_wf w_web_esc.
Proof. right. split; [reflexivity | discriminate]. Qed.

(* ---- agent identity of another datacenter: refused like every other kind (commit 88c1fa0) ---- *)
Definition w_agent_dc2 : url := Url "spiffe" w_td "/agent/client/dc/dc2/id/n1" "" DNone.

Lemma w_agent_dc2_refused :
  parse_cert_uri w_agent_dc2 = Ok (IdAgent w_td "default" "dc2" "n1") /\
  sign_request w_env w_az (w_csr w_agent_dc2) empty_store = Err EDatacenter.
Proof. vm_compute. split; reflexivity. Qed.

(* ---- agent identity with a foreign host in a non-canonical spelling: the URI is compared as an
        identity and re-printed in the trust domain (commit b4828e2) ---- *)
Definition w_agent_foreign : url :=
  Url "spiffe" "dummy.consul" "/ap/default/agent/client/dc/dc1/id/n1" "" DNone.

Definition w_agent_esc : url :=
  Url "spiffe" "other-cluster.consul" "/agent/client/dc/dc1/id/n1" "/agent/client/dc/dc1/id/n%31" DNone.

Definition w_agent_td : url := Url "spiffe" w_td "/agent/client/dc/dc1/id/n1" "" DNone.

Lemma w_agent_foreign_coerced :
  sign_request w_env w_az (w_csr w_agent_foreign) empty_store =
    Ok (Cert [w_agent_td] [] [] false 1, incr_serial empty_store) /\
  sign_request w_env w_az (w_csr w_agent_esc) empty_store =
    Ok (Cert [w_agent_td] [] [] false 1, incr_serial empty_store).
Proof. vm_compute. split; reflexivity. Qed.

(* the canonical spelling with a dummy host, as auto-encrypt sends it *)
Definition w_agent_dummy : url := Url "spiffe" "dummy.consul" "/agent/client/dc/dc1/id/n1" "" DNone.

Lemma w_agent_dummy_issued :
  sign_request w_env w_az (w_csr w_agent_dummy) empty_store =
  Ok (Cert [w_agent_td] [] [] false 1, incr_serial empty_store).
Proof. vm_compute. reflexivity. Qed.

(* ---- an encoded "/" in a name plus a byte net/url does not accept in a RawPath: the certificate's
        URI is re-encoded from the decoded path and no longer reads as an identity ---- *)
Definition w_az_any : authz := Authz (fun _ => true) (fun _ => true) true true.

Definition w_slash : url :=
  Url "spiffe" w_td "/ns/default/dc/dc1/svc/web/x " "/ns/default/dc/dc1/svc/web%2Fx " DNone.

Lemma w_slash_issued :
  sign_request w_env w_az_any (w_csr w_slash) empty_store =
  Ok (Cert [w_slash] [] [] false 1, incr_serial empty_store) /\
  parse_cert_uri w_slash = Ok (IdService w_td "default" "default" "dc1" "web/x ") /\
  reparse w_slash = Url "spiffe" w_td "/ns/default/dc/dc1/svc/web/x " "" DNone /\
  parse_cert_uri (reparse w_slash) = Err PFormat.
Proof. vm_compute. repeat split; reflexivity. Qed.

(* ---- root sets ---- *)
Definition w_hist : list (N * op) :=
  [ (3, OpSetConfig (ConfigIn "consul" "c1" 0 7));
    (4, OpSetRootsAndConfig 0 [("r1", true)] (ConfigIn "consul" "c1" 3 8));
    (6, OpSetRoots 4 [("r1", false); ("r2", true)]);
    (7, OpSetRoots 4 [("r3", true)]);            (* stale index: refused *)
    (8, OpIncrementSerial);
    (9, OpSnapshotRestore) ].

Lemma w_hist_result :
  run_ops empty_store w_hist =
  Store [Root "r1" false 4 6; Root "r2" true 6 6] 6 (Some (Config "consul" "c1" 3 4 8)) [] 0 (Some 1).
Proof. vm_compute. reflexivity. Qed.

Lemma reach_run_ops ops : forall s, Reach s -> Reach (run_ops s ops).
Proof.
  induction ops as [|[idx o] ops IH]; intros s Hs; cbn [run_ops]; [exact Hs|].
  apply IH. apply ReachStep. exact Hs.
Qed.

Lemma w_hist_reach : Reach (run_ops empty_store w_hist).
Proof. apply reach_run_ops. constructor. Qed.

(* ------------------------------------------------------------------ the refuted clauses, as statements *)

Lemma refuted_readable :
  exists e az c s crt s' u id,
    sign_request e az c s = Ok (crt, s') /\ url_wf u /\ csr_uris c = [u] /\ c_uris crt = [u] /\
    parse_cert_uri u = Ok id /\ parse_cert_uri (reparse u) = Err PFormat.
Proof.
  exists w_env, w_az_any, (w_csr w_slash), empty_store, (Cert [w_slash] [] [] false 1),
         (incr_serial empty_store), w_slash, (IdService w_td "default" "default" "dc1" "web/x ").
  destruct w_slash_issued as (H1 & H2 & H3 & H4).
  repeat split; try assumption. right. split; [reflexivity | discriminate].
Qed.

Lemma agent_example :
  sign_request w_env w_az (w_csr w_agent_dummy) empty_store =
    Ok (Cert [w_agent_td] [] [] false 1, incr_serial empty_store) /\
  sign_request w_env w_az (w_csr w_agent_foreign) empty_store =
    Ok (Cert [w_agent_td] [] [] false 1, incr_serial empty_store) /\
  sign_request w_env w_az (w_csr w_agent_esc) empty_store =
    Ok (Cert [w_agent_td] [] [] false 1, incr_serial empty_store) /\
  sign_request w_env w_az (w_csr w_agent_dc2) empty_store = Err EDatacenter.
Proof.
  destruct w_agent_foreign_coerced as [H1 H2]. destruct w_agent_dc2_refused as [_ H3].
  split; [exact w_agent_dummy_issued|]. split; [exact H1|]. split; [exact H2 | exact H3].
Qed.

Lemma wf_id_example :
  wf_id (IdService w_td "default" "default" "dc1" "web") /\ wf_id (IdAgent w_td "default" "dc1" "n1") /\
  wf_id (IdGateway w_td "default" "dc1") /\ wf_id (IdServer w_td "dc1").
Proof. vm_compute. repeat split. Qed.

(* ------------------------------------------------------------------ witnesses added after the audit *)

(* regression: auto-config refuses the agent identity of another datacenter (bf079b3) *)
Lemma autoconfig_datacenter_refused :
  parse_cert_uri w_agent_dc2 = Ok (IdAgent w_td "default" "dc2" "n1") /\
  autoconfig_sign w_env "n1" (w_csr w_agent_dc2) empty_store = Err EDatacenter.
Proof. vm_compute. split; reflexivity. Qed.

(* auto-config inside its datacenter: issued, dummy host coerced *)
Lemma autoconfig_example :
  autoconfig_sign w_env "n1" (w_csr w_agent_dummy) empty_store =
    Ok (Cert [w_agent_td] [] [] false 1, incr_serial empty_store) /\
  autoconfig_sign w_env "n2" (w_csr w_agent_dummy) empty_store = Err EWrongNode /\
  autoconfig_sign w_env "web" (w_csr w_web) empty_store = Err ENotAgent.
Proof. vm_compute. repeat split. Qed.

(* a service:write token obtains a leaf that also carries the DNS name of the servers *)
Definition w_csr_server_san : csr := Csr [w_web] ["server.dc1.consul"] [] 0.

Lemma server_dns_san_refuted :
  exists e az c s crt s' u svc,
    sign_request e az c s = Ok (crt, s') /\ csr_uris c = [u] /\
    parse_cert_uri u = Ok (IdService w_td "default" "default" "dc1" svc) /\
    az_acl_write az = false /\ In "server.dc1.consul" (c_dns crt).
Proof.
  exists w_env, w_az, w_csr_server_san, empty_store, (Cert [w_web] ["server.dc1.consul"] [] false 1),
         (incr_serial empty_store), w_web, "web".
  repeat split; try (vm_compute; reflexivity). left. reflexivity.
Qed.

(* an agent identity in a partition (the community edition has none) is issued verbatim *)
Definition w_agent_ap : url := Url "spiffe" w_td "/ap/foo/agent/client/dc/dc1/id/n1" "" DNone.

Lemma agent_partition_refuted :
  exists e az c s crt s' u host ap dc agent,
    sign_request e az c s = Ok (crt, s') /\ csr_uris c = [u] /\ c_uris crt = [u] /\
    parse_cert_uri u = Ok (IdAgent host ap dc agent) /\ ap <> "default".
Proof.
  exists w_env, w_az, (w_csr w_agent_ap), empty_store, (Cert [w_agent_ap] [] [] false 1),
         (incr_serial empty_store), w_agent_ap, w_td, "foo", "dc1", "n1".
  repeat split; try (vm_compute; reflexivity). discriminate.
Qed.

(* regression: a URI with a query / fragment / userinfo (not a SPIFFE ID) is refused through both
   entry points (3ebfd83); the omit-host form of an agent URI is not such a decoration and is still
   re-printed *)
Definition w_web_query : url := Url "spiffe" w_td "/ns/default/dc/dc1/svc/web" "" DUser.
Definition w_agent_query : url := Url "spiffe" "dummy.consul" "/agent/client/dc/dc1/id/n1" "" DUser.
Definition w_agent_omithost : url := Url "spiffe" "" "/agent/client/dc/dc1/id/n1" "" DForm.

Lemma decorated_uri_refused :
  sign_request w_env w_az (w_csr w_web_query) empty_store = Err EDecorated /\
  autoconfig_sign w_env "n1" (w_csr w_agent_query) empty_store = Err EDecorated /\
  sign_request w_env w_az (w_csr w_agent_omithost) empty_store =
    Ok (Cert [w_agent_td] [] [] false 1, incr_serial empty_store).
Proof. vm_compute. repeat split. Qed.

(* both arms of the conditional configuration update *)
Lemma config_cas_example :
  let s := fst (step empty_store 3 (OpSetConfig (ConfigIn "consul" "c1" 0 7))) in
  snd (step s 5 (OpSetConfig (ConfigIn "consul" "c1" 3 8))) = OBool true /\
  step s 5 (OpSetConfig (ConfigIn "consul" "c1" 2 8)) = (s, OErr EConfigCAS).
Proof. vm_compute. split; reflexivity. Qed.

(* the trust domain follows the stored ClusterID *)
Lemma store_env_example :
  let s := fst (step empty_store 3 (OpSetConfig (ConfigIn "consul" "11111111-2222-3333-4444-555555555555" 0 7))) in
  store_env "dc1" s = Some w_env /\
  store_env "dc1" (fst (step s 4 (OpSetConfig (ConfigIn "consul" "c2" 0 7)))) = Some (CaEnv "dc1" "c2").
Proof. vm_compute. split; reflexivity. Qed.
