(* Model of the Connect CA signing path and of the CA tables of the state store (property C12).

   Anchors (hashicorp/consul):
     agent/connect/uri.go                 ParseCertURI                       -> [parse_cert_uri]
     agent/connect/uri_{service,agent,mesh_gateway,server,signing}*.go  URI()-> [uri_of]
     agent/connect/uri_signing.go         CanSign, Host                      -> [can_sign], [trust_domain]
     agent/consul/leader_connect_ca_ce.go validateSupportedIdentityScopes... -> [validate_supported]
     agent/consul/leader_connect_ca.go    AuthorizeAndSignCertificate        -> [authorize]
                                          SignCertificate                    -> [sign_certificate]
     agent/connect/ca/provider_consul.go  Sign                               -> [provider_sign]
     agent/consul/state/connect_ca.go     caRootCheckAndSetTxn, CARootSetCAS, CARootsAndConfigCAS,
                                          CASetConfig, CACheckAndSetConfig, CASetProviderState,
                                          CADeleteProviderState, CAIncrementProviderSerialNumber,
                                          Restore.CAConfig                   -> [step]
     agent/consul/fsm/commands_ce.go      ApplyConnectCAOperationFromRequest -> [step]
     net/url (Go 1.26)                    unescape, escape(encodePath), validEncoded, EscapedPath,
                                          setPath                            -> [unescape] ... [reparse]

   A certificate URI is the part of a Go [url.URL] that the code reads: Scheme, Host, Path,
   RawPath, and a three-valued mark for what else is set (nothing; userinfo / query / fragment;
   only an opaque part or the omit-host flag).  The ACL authorizer is an arbitrary function.  X.509 encoding,
   signatures and chain validation are not modelled.  No proofs in this file. *)
From Verif Require Import Base.Prelude.
Open Scope string_scope.
Open Scope N_scope.

(* ------------------------------------------------------------------ results *)

Inductive res (E A : Type) := Ok (a : A) | Err (e : E).
Arguments Ok {E A} a.
Arguments Err {E A} e.

(* ------------------------------------------------------------------ bytes and strings *)

Definition code (c : ascii) : N := N_of_ascii c.

Definition in_range (lo hi n : N) : bool := (lo <=? n) && (n <=? hi).

Definition ascii_lower (c : ascii) : ascii :=
  if in_range 65 90 (code c) then ascii_of_N (code c + 32) else c.

(* strings.ToLower on ASCII text (hosts and cluster IDs are ASCII) *)
Fixpoint lower (s : string) : string :=
  match s with
  | EmptyString => EmptyString
  | String c r => String (ascii_lower c) (lower r)
  end.

Definition nonempty (s : string) : bool := negb (s =? "")%string.

Definition slash : ascii := "/"%char.
Definition percent : ascii := "%"%char.

(* strings.Split(s, "/") *)
Fixpoint split_slash (s : string) : list string :=
  match s with
  | EmptyString => [EmptyString]
  | String c r =>
      if Ascii.eqb c slash then EmptyString :: split_slash r
      else match split_slash r with
           | h :: t => String c h :: t
           | [] => [String c EmptyString]
           end
  end.

(* strings.Index(s, ".") cut: the text before and after the first dot *)
Fixpoint cut_dot (s : string) : option (string * string) :=
  match s with
  | EmptyString => None
  | String c r =>
      if Ascii.eqb c "."%char then Some (EmptyString, r)
      else match cut_dot r with
           | Some (a, b) => Some (String c a, b)
           | None => None
           end
  end.

(* ------------------------------------------------------------------ net/url: percent-encoding of paths *)

Definition is_alnum (n : N) : bool := in_range 48 57 n || in_range 65 90 n || in_range 97 122 n.

(* shouldEscape(c, encodePath) = false:  alphanumerics, - _ . ~  and  $ & + , / : ; = @ *)
Definition path_safe (c : ascii) : bool :=
  is_alnum (code c) ||
  existsb (N.eqb (code c)) [45; 95; 46; 126; 36; 38; 43; 44; 47; 58; 59; 61; 64].

Definition should_escape_path (c : ascii) : bool := negb (path_safe c).

Definition upperhex (n : N) : ascii := if n <? 10 then ascii_of_N (48 + n) else ascii_of_N (55 + n).

(* unhex; None when the byte is not a hexadecimal digit (ishex) *)
Definition unhex (c : ascii) : option N :=
  let n := code c in
  if in_range 48 57 n then Some (n - 48)
  else if in_range 97 102 n then Some (n - 87)
  else if in_range 65 70 n then Some (n - 55)
  else None.

(* escape(s, encodePath) *)
Fixpoint escape_path (s : string) : string :=
  match s with
  | EmptyString => EmptyString
  | String c r =>
      if should_escape_path c
      then String percent (String (upperhex (code c / 16)) (String (upperhex (code c mod 16)) (escape_path r)))
      else String c (escape_path r)
  end.

(* unescape(s, encodePath / encodePathSegment): every % must be followed by two hex digits;
   nothing else is special in a path.  url.PathUnescape is this function. *)
Fixpoint unescape (s : string) : option string :=
  match s with
  | EmptyString => Some EmptyString
  | String c r =>
      if Ascii.eqb c percent then
        match r with
        | String h (String l r') =>
            match unhex h, unhex l with
            | Some a, Some b =>
                match unescape r' with
                | Some t => Some (String (ascii_of_N (16 * a + b)) t)
                | None => None
                end
            | _, _ => None
            end
        | _ => None
        end
      else match unescape r with
           | Some t => Some (String c t)
           | None => None
           end
  end.

(* validEncoded(s, encodePath) *)
Definition valid_enc_char (c : ascii) : bool :=
  existsb (N.eqb (code c)) [33; 36; 38; 39; 40; 41; 42; 43; 44; 59; 61; 58; 64; 91; 93; 37]
  || path_safe c.

Fixpoint valid_encoded (s : string) : bool :=
  match s with
  | EmptyString => true
  | String c r => valid_enc_char c && valid_encoded r
  end.

(* what else a URL carries besides scheme, host and path *)
Inductive deco :=
| DNone      (* nothing *)
| DUser      (* userinfo, a query (or a bare "?") or a fragment: what 3ebfd83 refuses *)
| DForm.     (* only an opaque part or the omit-host form "scheme:/path" *)

Definition is_duser (d : deco) : bool := match d with DUser => true | _ => false end.

Record url := Url {
  u_scheme : string;
  u_host : string;
  u_path : string;      (* Path: decoded *)
  u_raw : string;       (* RawPath: "" unless the original spelling differs from the default encoding *)
  u_deco : deco
}.

(* URL.EscapedPath *)
Definition escaped_path (u : url) : string :=
  if nonempty (u_raw u) && valid_encoded (u_raw u) &&
     match unescape (u_raw u) with Some p => (p =? u_path u)%string | None => false end
  then u_raw u
  else if (u_path u =? "*")%string then "*"
  else escape_path (u_path u).

(* URL.setPath: (Path, RawPath) for a path as written *)
Definition set_path (p : string) : option (string * string) :=
  match unescape p with
  | Some path => Some (path, if (p =? escape_path path)%string then EmptyString else p)
  | None => None
  end.

(* What a reader of the certificate gets: crypto/x509 writes u.String() into the SAN and
   url.Parse reads it back.  Scheme, host and the decorations are carried unchanged; the path
   goes through EscapedPath and setPath. *)
Definition reparse (u : url) : url :=
  match set_path (escaped_path u) with
  | Some (p, r) => Url (u_scheme u) (u_host u) p r (u_deco u)
  | None => u
  end.

(* ------------------------------------------------------------------ identities *)

Inductive cert_id :=
| IdService (host ap ns dc svc : string)
| IdAgent (host ap dc agent : string)
| IdGateway (host ap dc : string)
| IdServer (host dc : string)
| IdSigning (cluster domain : string).

Inductive perr := PScheme | PUnescape | PFormat.

(* ^(?:/ap/([^/]+))?/ns/([^/]+)/dc/([^/]+)/svc/([^/]+)$  on the split path *)
Definition m_service (segs : list string) : option (string * string * string * string) :=
  match segs with
  | [e; k1; ns; k2; dc; k3; svc] =>
      if (e =? "")%string && (k1 =? "ns")%string && (k2 =? "dc")%string && (k3 =? "svc")%string
         && nonempty ns && nonempty dc && nonempty svc
      then Some (EmptyString, ns, dc, svc) else None
  | [e; k0; ap; k1; ns; k2; dc; k3; svc] =>
      if (e =? "")%string && (k0 =? "ap")%string && (k1 =? "ns")%string && (k2 =? "dc")%string
         && (k3 =? "svc")%string && nonempty ap && nonempty ns && nonempty dc && nonempty svc
      then Some (ap, ns, dc, svc) else None
  | _ => None
  end.

(* ^(?:/ap/([^/]+))?/agent/client/dc/([^/]+)/id/([^/]+)$ *)
Definition m_agent (segs : list string) : option (string * string * string) :=
  match segs with
  | [e; k1; k2; k3; dc; k4; agent] =>
      if (e =? "")%string && (k1 =? "agent")%string && (k2 =? "client")%string && (k3 =? "dc")%string
         && (k4 =? "id")%string && nonempty dc && nonempty agent
      then Some (EmptyString, dc, agent) else None
  | [e; k0; ap; k1; k2; k3; dc; k4; agent] =>
      if (e =? "")%string && (k0 =? "ap")%string && (k1 =? "agent")%string && (k2 =? "client")%string
         && (k3 =? "dc")%string && (k4 =? "id")%string && nonempty ap && nonempty dc && nonempty agent
      then Some (ap, dc, agent) else None
  | _ => None
  end.

(* ^(?:/ap/([^/]+))?/gateway/mesh/dc/([^/]+)$ *)
Definition m_gateway (segs : list string) : option (string * string) :=
  match segs with
  | [e; k1; k2; k3; dc] =>
      if (e =? "")%string && (k1 =? "gateway")%string && (k2 =? "mesh")%string && (k3 =? "dc")%string
         && nonempty dc
      then Some (EmptyString, dc) else None
  | [e; k0; ap; k1; k2; k3; dc] =>
      if (e =? "")%string && (k0 =? "ap")%string && (k1 =? "gateway")%string && (k2 =? "mesh")%string
         && (k3 =? "dc")%string && nonempty ap && nonempty dc
      then Some (ap, dc) else None
  | _ => None
  end.

(* ^/agent/server/dc/([^/]+)$ *)
Definition m_server (segs : list string) : option string :=
  match segs with
  | [e; k1; k2; k3; dc] =>
      if (e =? "")%string && (k1 =? "agent")%string && (k2 =? "server")%string && (k3 =? "dc")%string
         && nonempty dc
      then Some dc else None
  | _ => None
  end.

(* url.PathUnescape only "if input.RawPath != ''" *)
Definition unesc_if (raw : bool) (s : string) : option string := if raw then unescape s else Some s.

Definition default_ap (ap : string) : string := if (ap =? "")%string then "default" else ap.

(* connect.ParseCertURI *)
Definition parse_cert_uri (u : url) : res perr cert_id :=
  if negb (u_scheme u =? "spiffe")%string then Err PScheme else
  let raw := nonempty (u_raw u) in
  let path := if raw then u_raw u else u_path u in
  let segs := split_slash path in
  match m_service segs with
  | Some (ap, ns, dc, svc) =>
      match unesc_if raw ap with None => Err PUnescape | Some ap =>
      match unesc_if raw ns with None => Err PUnescape | Some ns =>
      match unesc_if raw dc with None => Err PUnescape | Some dc =>
      match unesc_if raw svc with None => Err PUnescape | Some svc =>
        Ok (IdService (u_host u) (default_ap ap) ns dc svc) end end end end
  | None =>
  match m_agent segs with
  | Some (ap, dc, agent) =>
      match unesc_if raw ap with None => Err PUnescape | Some ap =>
      match unesc_if raw dc with None => Err PUnescape | Some dc =>
      match unesc_if raw agent with None => Err PUnescape | Some agent =>
        Ok (IdAgent (u_host u) (default_ap ap) dc agent) end end end
  | None =>
  match m_gateway segs with
  | Some (ap, dc) =>
      match unesc_if raw ap with None => Err PUnescape | Some ap =>
      match unesc_if raw dc with None => Err PUnescape | Some dc =>
        Ok (IdGateway (u_host u) (default_ap ap) dc) end end
  | None =>
  match m_server segs with
  | Some dc =>
      match unesc_if raw dc with None => Err PUnescape | Some dc =>
        Ok (IdServer (u_host u) dc) end
  | None =>
      if (u_path u =? "")%string then
        match cut_dot (u_host u) with
        | Some (cl, dom) => if nonempty cl then Ok (IdSigning cl dom) else Err PFormat
        | None => Err PFormat
        end
      else Err PFormat
  end end end end.

(* URI() of each identity type (community edition: no namespaces; partitions only printed for
   services, lower-cased; agents and gateways print no partition). *)
Definition fresh_url (host path : string) : url := Url "spiffe" host path EmptyString DNone.

Definition service_ap (ap : string) : string := if (ap =? "")%string then "default" else lower ap.

Definition uri_of (id : cert_id) : url :=
  match id with
  | IdService host ap ns dc svc =>
      let p := "/ns/default/dc/" ++ dc ++ "/svc/" ++ svc in
      let a := service_ap ap in
      fresh_url host (if nonempty a && negb (a =? "default")%string then "/ap/" ++ a ++ p else p)
  | IdAgent host ap dc agent => fresh_url host ("/agent/client/dc/" ++ dc ++ "/id/" ++ agent)
  | IdGateway host ap dc => fresh_url host ("/gateway/mesh/dc/" ++ dc)
  | IdServer host dc => fresh_url host ("/agent/server/dc/" ++ dc)
  | IdSigning cl dom => fresh_url (lower (cl ++ "." ++ dom)) EmptyString
  end.

(* ------------------------------------------------------------------ authorization *)

Record authz := Authz {
  az_service_write : string -> bool;
  az_node_write : string -> bool;
  az_mesh_write : bool;
  az_acl_write : bool
}.

Record csr := Csr {
  csr_uris : list url;
  csr_dns : list string;
  csr_ips : list string;
  csr_emails : N               (* number of e-mail SANs *)
}.

Inductive serr :=
| EUriCount          (* "CSR SAN contains an invalid number of URIs" *)
| EEmail             (* "CSR SAN does not allow specifying email addresses" *)
| EParse (e : perr)  (* ParseCertURI failed *)
| EUnsupported       (* validateSupportedIdentityScopesInCertificate *)
| EDenied            (* acl.PermissionDenied *)
| EDatacenter        (* "SPIFFE ID in CSR from a different datacenter" *)
| ETrustDomain       (* "SPIFFE ID in CSR from a different trust domain" *)
| EDecorated         (* "SPIFFE ID in CSR must not have userinfo, a query or a fragment" *)
| ENotAgent          (* auto-config: "SPIFFE ID is not an Agent ID" *)
| EWrongNode.        (* auto-config: "... is not for the correct node" *)

Record ca_env := CaEnv {
  e_dc : string;          (* serverConf.Datacenter *)
  e_cluster : string      (* CAConfiguration.ClusterID *)
}.

(* SpiffeIDSigning.Host() for SpiffeIDSigningForCluster(clusterID) *)
Definition trust_domain (e : ca_env) : string := lower (e_cluster e ++ ".consul").

(* validateSupportedIdentityScopesInCertificate (community edition) *)
Definition validate_supported (id : cert_id) : bool :=
  match id with
  | IdService _ ap ns _ _ => (ns =? "default")%string && (ap =? "default")%string
  | IdGateway _ ap _ => (ap =? "default")%string
  | IdAgent _ _ _ _ => true
  | IdServer _ _ => true
  | IdSigning _ _ => false
  end.

(* the switch in AuthorizeAndSignCertificate: the ACL question first, then the datacenter test *)
Definition authorize_id (e : ca_env) (az : authz) (id : cert_id) : res serr unit :=
  match id with
  | IdService _ _ _ dc svc =>
      if negb (az_service_write az svc) then Err EDenied
      else if negb (dc =? e_dc e)%string then Err EDatacenter else Ok tt
  | IdAgent _ _ dc agent =>
      if negb (az_node_write az agent) then Err EDenied
      else if negb (dc =? e_dc e)%string then Err EDatacenter else Ok tt
  | IdGateway _ _ dc =>
      if negb (az_mesh_write az) then Err EDenied
      else if negb (dc =? e_dc e)%string then Err EDatacenter else Ok tt
  | IdServer _ dc =>
      if negb (az_acl_write az) then Err EDenied
      else if negb (dc =? e_dc e)%string then Err EDatacenter else Ok tt
  | IdSigning _ _ => Err EUnsupported
  end.

Definition authorize (e : ca_env) (az : authz) (c : csr) : res serr cert_id :=
  match csr_uris c with
  | [u] =>
      if negb (csr_emails c =? 0) then Err EEmail else
      if is_duser (u_deco u) then Err EDecorated else
      match parse_cert_uri u with
      | Err pe => Err (EParse pe)
      | Ok id =>
          if negb (validate_supported id) then Err EUnsupported else
          match authorize_id e az id with
          | Err x => Err x
          | Ok _ => Ok id
          end
      end
  | _ => Err EUriCount
  end.

(* SpiffeIDSigning.CanSign for service / mesh gateway / server identities *)
Definition can_sign (e : ca_env) (host : string) : bool := (lower host =? trust_domain e)%string.

(* SignCertificate up to the call of provider.Sign: the list of URIs handed to the provider.
   Agents: "here we are just automatically fixing the trust domain" - every URI of the CSR that
   parses as this agent identity (same host, datacenter and node; the community edition has one
   partition), however it is spelled, is replaced by the identity printed with the trust domain
   as host. *)
Definition same_agent (host dc agent : string) (u : url) : bool :=
  match parse_cert_uri u with
  | Ok (IdAgent h2 _ dc2 agent2) => (h2 =? host)%string && (dc2 =? dc)%string && (agent2 =? agent)%string
  | _ => false
  end.

Definition sign_uris (e : ca_env) (uris : list url) (id : cert_id) : res serr (list url) :=
  match id with
  | IdService host _ _ _ _ | IdGateway host _ _ | IdServer host _ =>
      if can_sign e host then Ok uris else Err ETrustDomain
  | IdAgent host ap dc agent =>
      let td := trust_domain e in
      if negb (host =? td)%string then
        let fixed := uri_of (IdAgent td ap dc agent) in
        Ok (map (fun u => if same_agent host dc agent u then fixed else u) uris)
      else Ok uris
  | IdSigning _ _ => Err EUnsupported
  end.

Record cert := Cert {
  c_uris : list url;      (* the template's URIs, before encoding *)
  c_dns : list string;
  c_ips : list string;
  c_is_ca : bool;
  c_serial : N
}.

(* ------------------------------------------------------------------ the CA tables of the state store *)

Record root := Root { r_id : string; r_active : bool; r_create : N; r_modify : N }.

Record config := Config {
  g_provider : string; g_cluster : string; g_create : N; g_modify : N;
  g_payload : N     (* stands for the rest of the content (Config / State maps) *)
}.

Record pstate := PState { p_id : string; p_create : N; p_modify : N }.

Record store := Store {
  s_roots : list root;           (* table connect-ca-roots, primary key ID *)
  s_roots_idx : N;               (* index entry connect-ca-roots *)
  s_config : option config;      (* table connect-ca-config (one row) *)
  s_pstates : list pstate;       (* table connect-ca-builtin *)
  s_builtin_idx : N;             (* index entry connect-ca-builtin *)
  s_serial : option N            (* index entry connect-ca-builtin-serial *)
}.

Definition empty_store : store := Store [] 0 None [] 0 None.

(* a root as it arrives in a command: ID and Active flag *)
Definition root_in := (string * bool)%type.

Record config_in := ConfigIn { gi_provider : string; gi_cluster : string; gi_modify : N; gi_payload : N }.

Inductive op :=
| OpSetRoots (cidx : N) (rs : list root_in)
| OpSetRootsAndConfig (cidx : N) (rs : list root_in) (cfg : config_in)
| OpSetConfig (cfg : config_in)
| OpSetProviderState (id : string)
| OpDeleteProviderState (id : string)
| OpIncrementSerial
| OpSnapshotRestore
| OpInvalid.

Inductive cerr := EOneActive | EActiveOverwritten | EMissingID | EConfigCAS | EInvalidOp.

Inductive out := OBool (b : bool) | ONil | OSerial (n : N) | OErr (e : cerr).

Definition count_active (rs : list root_in) : nat := List.length (filter snd rs).

Fixpoint find_root (id : string) (rs : list root) : option root :=
  match rs with
  | [] => None
  | r :: t => if (r_id r =? id)%string then Some r else find_root id t
  end.

(* memdb Insert on the primary key: replace the row with the same ID, else add *)
Fixpoint insert_root (r : root) (rs : list root) : list root :=
  match rs with
  | [] => [r]
  | x :: t => if (r_id x =? r_id r)%string then r :: t else x :: insert_root r t
  end.

(* caRootCheckAndSetTxn.  [None]: an error aborted the transaction. *)
Inductive cas_res := CasErr (e : cerr) | CasNo | CasYes (rs : list root).

Definition stamp (old : list root) (idx : N) (ri : root_in) : root :=
  Root (fst ri) (snd ri)
       (match find_root (fst ri) old with Some x => r_create x | None => idx end) idx.

(* "the active CA root is replaced by a later entry with the same ID": rows are keyed by ID and a
   later entry of the list overwrites an earlier one *)
Fixpoint active_overwritten (rs : list root_in) : bool :=
  match rs with
  | [] => false
  | ri :: t => (snd ri && existsb (fun rj => (fst rj =? fst ri)%string) t) || active_overwritten t
  end.

Definition root_check_and_set (s : store) (idx cidx : N) (rs : list root_in) : cas_res :=
  if negb (Nat.eqb (count_active rs) 1) then CasErr EOneActive
  else if active_overwritten rs then CasErr EActiveOverwritten
  else if negb (s_roots_idx s =? cidx) then CasNo
  else if existsb (fun ri => (fst ri =? "")%string) rs then CasErr EMissingID
  else CasYes (fold_left (fun acc ri => insert_root (stamp (s_roots s) idx ri) acc) rs []).

(* caCheckConfigIndexTxn *)
Definition config_index_ok (s : store) (cidx : N) : bool :=
  match s_config s with
  | Some c => g_modify c =? cidx
  | None => cidx =? 0
  end.

(* caSetConfigTxn *)
Definition set_config (s : store) (idx : N) (ci : config_in) : config :=
  match s_config s with
  | Some prev => Config (gi_provider ci)
                        (if (gi_cluster ci =? "")%string then g_cluster prev else gi_cluster ci)
                        (g_create prev) idx (gi_payload ci)
  | None => Config (gi_provider ci) (gi_cluster ci) idx idx (gi_payload ci)
  end.

Fixpoint find_pstate (id : string) (ps : list pstate) : option pstate :=
  match ps with
  | [] => None
  | p :: t => if (p_id p =? id)%string then Some p else find_pstate id t
  end.

Fixpoint insert_pstate (p : pstate) (ps : list pstate) : list pstate :=
  match ps with
  | [] => [p]
  | x :: t => if (p_id x =? p_id p)%string then p :: t else x :: insert_pstate p t
  end.

Definition remove_pstate (id : string) (ps : list pstate) : list pstate :=
  filter (fun p => negb (p_id p =? id)%string) ps.

(* CAIncrementProviderSerialNumber *)
Definition next_serial (s : store) : N :=
  match s_serial s with
  | Some last => last + 1
  | None => s_builtin_idx s + 1      (* "bootstrap off" the provider table's index *)
  end.

Definition incr_serial (s : store) : store :=
  Store (s_roots s) (s_roots_idx s) (s_config s) (s_pstates s) (s_builtin_idx s) (Some (next_serial s)).

(* FSM snapshot + restore of the CA tables: everything comes back, except that
   Restore.CAConfig drops a configuration whose Provider is "" (issue 4954). *)
Definition snapshot_restore (s : store) : store :=
  Store (s_roots s) (s_roots_idx s)
        (match s_config s with
         | Some c => if (g_provider c =? "")%string then None else Some c
         | None => None
         end)
        (s_pstates s) (s_builtin_idx s) (s_serial s).

(* ApplyConnectCAOperationFromRequest at Raft index [idx] *)
Definition step (s : store) (idx : N) (o : op) : store * out :=
  match o with
  | OpSetRoots cidx rs =>
      match root_check_and_set s idx cidx rs with
      | CasErr e => (s, OErr e)
      | CasNo => (s, OBool false)
      | CasYes rs' => (Store rs' idx (s_config s) (s_pstates s) (s_builtin_idx s) (s_serial s), OBool true)
      end
  | OpSetRootsAndConfig cidx rs ci =>
      match root_check_and_set s idx cidx rs with
      | CasErr e => (s, OErr e)
      | CasNo => (s, OBool false)
      | CasYes rs' =>
          if config_index_ok s (gi_modify ci)
          then (Store rs' idx (Some (set_config s idx ci)) (s_pstates s) (s_builtin_idx s) (s_serial s), OBool true)
          else (s, OErr EConfigCAS)
      end
  | OpSetConfig ci =>
      if negb (gi_modify ci =? 0) then
        if config_index_ok s (gi_modify ci)
        then (Store (s_roots s) (s_roots_idx s) (Some (set_config s idx ci)) (s_pstates s) (s_builtin_idx s) (s_serial s), OBool true)
        else (s, OErr EConfigCAS)
      else (Store (s_roots s) (s_roots_idx s) (Some (set_config s idx ci)) (s_pstates s) (s_builtin_idx s) (s_serial s), ONil)
  | OpSetProviderState id =>
      let p := PState id (match find_pstate id (s_pstates s) with Some x => p_create x | None => idx end) idx in
      (Store (s_roots s) (s_roots_idx s) (s_config s) (insert_pstate p (s_pstates s)) idx (s_serial s), OBool true)
  | OpDeleteProviderState id =>
      match find_pstate id (s_pstates s) with
      | None => (s, OBool true)
      | Some _ => (Store (s_roots s) (s_roots_idx s) (s_config s) (remove_pstate id (s_pstates s)) idx (s_serial s), OBool true)
      end
  | OpIncrementSerial => (incr_serial s, OSerial (next_serial s))
  | OpSnapshotRestore => (snapshot_restore s, ONil)
  | OpInvalid => (s, OErr EInvalidOp)
  end.

(* ------------------------------------------------------------------ signing *)

(* ConsulProvider.Sign: the serial comes from the replicated counter; the template copies the
   CSR's URIs, DNS names and IP addresses; IsCA is never set. *)
Definition provider_sign (s : store) (uris : list url) (c : csr) : cert * store :=
  (Cert uris (csr_dns c) (csr_ips c) false (next_serial s), incr_serial s).

(* CAManager.AuthorizeAndSignCertificate on an initialised primary CA *)
Definition sign_request (e : ca_env) (az : authz) (c : csr) (s : store) : res serr (cert * store) :=
  match authorize e az c with
  | Err x => Err x
  | Ok id =>
      match sign_uris e (csr_uris c) id with
      | Err x => Err x
      | Ok uris => Ok (provider_sign s uris c)
      end
  end.

(* The second entry point: AutoConfig.InitialConfiguration.  parseAutoConfigCSR (one URI, no
   e-mail, the URI parses, it is an agent identity), jwtAuthorizer.Authorize (the agent name is the
   node the JWT was validated for; partitions are all equal in the community edition), then
   the datacenter test of InitialConfiguration (bf079b3), then CAManager.SignCertificate directly -
   no ACL question and no supported-scope test on this path. *)
Definition autoconfig_sign (e : ca_env) (node : string) (c : csr) (s : store) : res serr (cert * store) :=
  match csr_uris c with
  | [u] =>
      if negb (csr_emails c =? 0) then Err EEmail else
      if is_duser (u_deco u) then Err EDecorated else
      match parse_cert_uri u with
      | Err pe => Err (EParse pe)
      | Ok (IdAgent host ap dc agent) =>
          if negb (agent =? node)%string then Err EWrongNode else
          if negb (dc =? e_dc e)%string then Err EDatacenter else
          match sign_uris e (csr_uris c) (IdAgent host ap dc agent) with
          | Err x => Err x
          | Ok uris => Ok (provider_sign s uris c)
          end
      | Ok _ => Err ENotAgent
      end
  | _ => Err EUriCount
  end.

(* SignCertificate reads the ClusterID from the stored CA configuration on every request *)
Definition store_env (dc : string) (s : store) : option ca_env :=
  match s_config s with
  | Some g => Some (CaEnv dc (g_cluster g))
  | None => None
  end.

(* the URIs a reader finds in the issued certificate *)
Definition leaf_uris (c : cert) : list url := map reparse (c_uris c).

(* ------------------------------------------------------------------ histories *)

Inductive event :=
| EvOp (idx : N) (o : op)
| EvSign (az : authz) (c : csr).

(* every serial number handed out along a history, in order *)
Fixpoint run_events (e : ca_env) (s : store) (evs : list event) : store * list N :=
  match evs with
  | [] => (s, [])
  | EvOp idx o :: t =>
      let '(s', r) := step s idx o in
      let '(s'', l) := run_events e s' t in
      (s'', match r with OSerial n => n :: l | _ => l end)
  | EvSign az c :: t =>
      match sign_request e az c s with
      | Ok (crt, s') => let '(s'', l) := run_events e s' t in (s'', c_serial crt :: l)
      | Err _ => run_events e s t
      end
  end.

Fixpoint run_ops (s : store) (ops : list (N * op)) : store :=
  match ops with
  | [] => s
  | (idx, o) :: t => run_ops (fst (step s idx o)) t
  end.
