(* No identity confusion (property C12): whatever identity a reader of the issued certificate
   obtains by parsing its URI SAN is the identity the ACL check was made for.

   The certificate carries u.String(); the reader parses that string again ([reparse]).  The
   only case in which the reader does not see the very URL the CA looked at is a RawPath that
   net/url does not accept as a valid encoding (or a URI re-printed for an agent): the path is then
   re-encoded from its decoded form, "%2F" becomes a separator, and the reader splits the path
   differently.  The theorems show that the reader then either fails to parse or still obtains
   the same identity - never another one. *)
From Verif Require Import Base.Prelude.
From Verif Require Import CA.Model.
From Verif Require Import CA.Proofs.
From Verif Require Import CA.UrlProofs.
Open Scope string_scope.
Open Scope N_scope.
Open Scope list_scope.

Local Arguments uri_of : simpl never.
Local Arguments trust_domain : simpl never.

(* ------------------------------------------------------------------ splitting and decoding *)

Lemma split_app a b :
  split_slash (a ++ String slash b)%string = split_slash a ++ split_slash b.
Proof.
  induction a as [|c a IH]; cbn [String.append split_slash].
  - rewrite Ascii.eqb_refl. reflexivity.
  - destruct (Ascii.eqb c slash).
    + rewrite IH. reflexivity.
    + rewrite IH. destruct (split_slash_nonnil a) as (h & t & ->). reflexivity.
Qed.

Lemma split_single x h : split_slash x = [h] -> h = x.
Proof.
  revert h. induction x as [|c x IH]; intros h; cbn [split_slash].
  - intros H; injection H as <-. reflexivity.
  - destruct (Ascii.eqb c slash).
    + intros H. injection H as _ H. destruct (split_slash_nonnil x) as (h' & t' & E). congruence.
    + destruct (split_slash x) as [|h' t'] eqn:E.
      * destruct (split_slash_nonnil x) as (h'' & t'' & E'). congruence.
      * intros H. injection H as <- ->. f_equal. apply IH. reflexivity.
Qed.

Lemma unhex_not_slash c a : unhex c = Some a -> Ascii.eqb c slash = false.
Proof.
  destruct c as [[|] [|] [|] [|] [|] [|] [|] [|]]; vm_compute; intros H;
    first [discriminate H | reflexivity].
Qed.

Fixpoint unescape_all (l : list string) : option (list string) :=
  match l with
  | [] => Some []
  | x :: t => match unescape x, unescape_all t with
              | Some d, Some dt => Some (d :: dt)
              | _, _ => None
              end
  end.

Lemma split_cons_char c t : Ascii.eqb c slash = false ->
  split_slash (String c t) = match split_slash t with h :: r => String c h :: r | [] => [String c ""] end.
Proof. intros H. cbn [split_slash]. rewrite H. reflexivity. Qed.

(* Decoding a whole path = decoding its segments; the decoded path splits into the splits of
   the decoded segments. *)
Lemma unescape_split_fuel n : forall r p, (String.length r <= n)%nat ->
  unescape r = Some p ->
  exists ds, unescape_all (split_slash r) = Some ds /\ split_slash p = List.concat (map split_slash ds).
Proof.
  induction n as [|n IH]; intros r p Hn Hu.
  - destruct r; [|cbn in Hn; lia]. cbn in Hu. injection Hu as <-. exists [""]. split; reflexivity.
  - destruct r as [|c r]; [cbn in Hu; injection Hu as <-; exists [""]; split; reflexivity|].
    cbn [String.length] in Hn.
    destruct (Ascii.eqb c percent) eqn:Ep.
    + apply Ascii.eqb_eq in Ep. subst c.
      destruct r as [|h [|l r]]; try (cbn in Hu; discriminate).
      rewrite unescape_pct in Hu.
      destruct (unhex h) as [a|] eqn:Hh; [|discriminate].
      destruct (unhex l) as [b|] eqn:Hl; [|discriminate].
      destruct (unescape r) as [t|] eqn:Ht; [|discriminate]. injection Hu as <-.
      cbn [String.length] in Hn.
      destruct (IH r t ltac:(lia) Ht) as (ds & Hds & Hsp).
      destruct (split_slash r) as [|s0 st] eqn:Esr; [destruct (split_slash_nonnil r) as (? & ? & ?); congruence|].
      cbn [unescape_all] in Hds.
      destruct (unescape s0) as [d0|] eqn:Hd0; [|discriminate].
      destruct (unescape_all st) as [dt|] eqn:Hdt; [|discriminate]. injection Hds as <-.
      set (x := ascii_of_N (16 * a + b)).
      exists (String x d0 :: dt). split.
      * rewrite (split_cons_char percent) by reflexivity.
        rewrite (split_cons_char h) by (eapply unhex_not_slash; eassumption).
        rewrite (split_cons_char l) by (eapply unhex_not_slash; eassumption).
        rewrite Esr. cbn [unescape_all]. rewrite unescape_pct, Hh, Hl, Hd0, Hdt. reflexivity.
      * cbn [map List.concat] in *. cbn [split_slash]. destruct (Ascii.eqb x slash).
        -- rewrite Hsp. reflexivity.
        -- rewrite Hsp. destruct (split_slash_nonnil d0) as (e0 & et & ->). reflexivity.
    + destruct (unescape r) as [t|] eqn:Ht; [|rewrite (unescape_plain _ _ Ep), Ht in Hu; discriminate].
      rewrite (unescape_plain _ _ Ep), Ht in Hu. injection Hu as <-.
      destruct (IH r t ltac:(lia) Ht) as (ds & Hds & Hsp).
      destruct (split_slash r) as [|s0 st] eqn:Esr; [destruct (split_slash_nonnil r) as (? & ? & ?); congruence|].
      cbn [unescape_all] in Hds.
      destruct (unescape s0) as [d0|] eqn:Hd0; [|discriminate].
      destruct (unescape_all st) as [dt|] eqn:Hdt; [|discriminate]. injection Hds as <-.
      cbn [split_slash]. destruct (Ascii.eqb c slash) eqn:Es.
      * exists ("" :: d0 :: dt). split.
        -- rewrite Esr. cbn [unescape_all unescape]. rewrite Hd0, Hdt. reflexivity.
        -- cbn [map List.concat] in *. rewrite Hsp. reflexivity.
      * exists (String c d0 :: dt). split.
        -- rewrite Esr. cbn [unescape_all]. rewrite (unescape_plain _ _ Ep), Hd0, Hdt. reflexivity.
        -- cbn [map List.concat] in *. cbn [split_slash]. rewrite Es, Hsp.
           destruct (split_slash_nonnil d0) as (e0 & et & ->). reflexivity.
Qed.

Lemma unescape_split r p : unescape r = Some p ->
  exists ds, unescape_all (split_slash r) = Some ds /\ split_slash p = List.concat (map split_slash ds).
Proof. apply (unescape_split_fuel (String.length r)). lia. Qed.

(* ------------------------------------------------------------------ inversion of the four patterns *)

Ltac and_true H :=
  repeat match type of H with
         | (_ && _)%bool = true => let H' := fresh H in apply andb_true_iff in H as [H H']; and_true H'
         end.

Ltac eqs_to_eq :=
  repeat match goal with
         | H : (_ =? _)%string = true |- _ => apply String.eqb_eq in H
         end.

Lemma m_service_inv l ap ns dc svc : m_service l = Some (ap, ns, dc, svc) ->
  (l = [""; "ns"; ns; "dc"; dc; "svc"; svc] /\ ap = "") \/
  (l = [""; "ap"; ap; "ns"; ns; "dc"; dc; "svc"; svc]).
Proof.
  destruct l as [|e [|k1 [|a [|b [|c0 [|d [|f [|g [|i [|j t]]]]]]]]]]; cbn [m_service]; try discriminate.
  - destruct (_ && _)%bool eqn:C; [|discriminate]. intros H; injection H as <- <- <- <-.
    and_true C. eqs_to_eq. subst. left. split; reflexivity.
  - destruct (_ && _)%bool eqn:C; [|discriminate]. intros H; injection H as <- <- <- <-.
    and_true C. eqs_to_eq. subst. right. reflexivity.
Qed.

Lemma m_agent_inv l ap dc agent : m_agent l = Some (ap, dc, agent) ->
  (l = [""; "agent"; "client"; "dc"; dc; "id"; agent] /\ ap = "") \/
  (l = [""; "ap"; ap; "agent"; "client"; "dc"; dc; "id"; agent]).
Proof.
  destruct l as [|e [|k1 [|a [|b [|c0 [|d [|f [|g [|i [|j t]]]]]]]]]]; cbn [m_agent]; try discriminate.
  - destruct (_ && _)%bool eqn:C; [|discriminate]. intros H; injection H as <- <- <-.
    and_true C. eqs_to_eq. subst. left. split; reflexivity.
  - destruct (_ && _)%bool eqn:C; [|discriminate]. intros H; injection H as <- <- <-.
    and_true C. eqs_to_eq. subst. right. reflexivity.
Qed.

Lemma m_gateway_inv l ap dc : m_gateway l = Some (ap, dc) ->
  (l = [""; "gateway"; "mesh"; "dc"; dc] /\ ap = "") \/
  (l = [""; "ap"; ap; "gateway"; "mesh"; "dc"; dc]).
Proof.
  destruct l as [|e [|k1 [|a [|b [|c0 [|d [|f [|g t]]]]]]]]; cbn [m_gateway]; try discriminate.
  - destruct (_ && _)%bool eqn:C; [|discriminate]. intros H; injection H as <- <-.
    and_true C. eqs_to_eq. subst. left. split; reflexivity.
  - destruct (_ && _)%bool eqn:C; [|discriminate]. intros H; injection H as <- <-.
    and_true C. eqs_to_eq. subst. right. reflexivity.
Qed.

Lemma m_server_inv l dc : m_server l = Some dc -> l = [""; "agent"; "server"; "dc"; dc].
Proof.
  destruct l as [|e [|k1 [|a [|b [|c0 [|d t]]]]]]; cbn [m_server]; try discriminate.
  destruct (_ && _)%bool eqn:C; [|discriminate]. intros H; injection H as <-.
  and_true C. eqs_to_eq. subst. reflexivity.
Qed.

(* ------------------------------------------------------------------ comparing two readings of one list *)

(* [peel M] decomposes an equation between a list built from conses and appends of unknown
   tails and an explicit list; contradictory positions are discharged. *)
Lemma cons_inj {A} (a b : A) x y : a :: x = b :: y -> a = b /\ x = y.
Proof. intros H; injection H as -> ->. split; reflexivity. Qed.

Ltac peel M :=
  cbn [app] in M;
  lazymatch type of M with
  | @nil _ = @nil _ => clear M
  | (_ :: _) = @nil _ => discriminate M
  | @nil _ = (_ :: _) => discriminate M
  | (?a :: ?x) = (?b :: ?y) =>
      let E := fresh "E" in apply cons_inj in M as [E M]; first [discriminate E | peel M]
  | (?t ++ _) = _ => destruct t; peel M
  | ?t = @nil _ => first [subst t | idtac]
  | ?t = (_ :: _) => first [subst t | idtac]
  end.

Ltac expose_in L :=
  repeat match type of L with
         | _ = ?rhs =>
             match rhs with
             | context [split_slash ?x] =>
                 let h := fresh "h" in let t := fresh "t" in let E := fresh "Esp" in
                 destruct (split_slash_nonnil x) as (h & t & E); rewrite E in L
             end
         end.

Ltac close_singletons :=
  repeat match goal with
         | E : split_slash ?x = [?h] |- _ => apply split_single in E; subst
         end.

(* unescape_all on a list whose literal positions are explicit *)
Ltac decode_list Hds :=
  cbn [unescape_all] in Hds;
  repeat match type of Hds with
         | context [unescape ?s] =>
             lazymatch goal with
             | H : unescape s = Some _ |- _ => rewrite H in Hds
             end
         end;
  cbn in Hds.

(* ------------------------------------------------------------------ the decoded path reads as the same identity *)

Definition with_raw (u : url) (r : string) : url := Url (u_scheme u) (u_host u) (u_path u) r (u_deco u).

Lemma parse_decoded_inv sch h p pl id :
  parse_cert_uri (Url sch h p "" pl) = Ok id ->
  sch = "spiffe" /\
  ((exists ap ns dc svc, m_service (split_slash p) = Some (ap, ns, dc, svc) /\ id = IdService h (default_ap ap) ns dc svc) \/
   (exists ap dc agent, m_agent (split_slash p) = Some (ap, dc, agent) /\ id = IdAgent h (default_ap ap) dc agent) \/
   (exists ap dc, m_gateway (split_slash p) = Some (ap, dc) /\ id = IdGateway h (default_ap ap) dc) \/
   (exists dc, m_server (split_slash p) = Some dc /\ id = IdServer h dc) \/
   (p = "" /\ exists cl dom, id = IdSigning cl dom)).
Proof.
  unfold parse_cert_uri. cbn [u_scheme u_raw u_path u_host].
  destruct (sch =? "spiffe")%string eqn:Es; cbn [negb]; [|discriminate].
  apply String.eqb_eq in Es. change (nonempty "") with false. cbn [unesc_if].
  intros H. split; [exact Es|].
  destruct (m_service (split_slash p)) as [[[[ap ns] dc] svc]|] eqn:M.
  { injection H as <-. left. eauto 8. }
  destruct (m_agent (split_slash p)) as [[[ap dc] agent]|] eqn:M2.
  { injection H as <-. right. left. eauto 8. }
  destruct (m_gateway (split_slash p)) as [[ap dc]|] eqn:M3.
  { injection H as <-. right. right. left. eauto 8. }
  destruct (m_server (split_slash p)) as [dc|] eqn:M4.
  { injection H as <-. right. right. right. left. eauto. }
  destruct (p =? "")%string eqn:Ep; [|discriminate]. apply String.eqb_eq in Ep.
  right. right. right. right. split; [exact Ep|].
  destruct (cut_dot h) as [[cl dom]|]; [|discriminate].
  destruct (nonempty cl); [|discriminate]. injection H as <-. eauto.
Qed.

Lemma parse_raw_inv sch h p r pl id : nonempty r = true ->
  parse_cert_uri (Url sch h p r pl) = Ok id ->
  sch = "spiffe" /\
  ((exists ap ns dc svc ap' ns' dc' svc', m_service (split_slash r) = Some (ap, ns, dc, svc) /\
      unescape ap = Some ap' /\ unescape ns = Some ns' /\ unescape dc = Some dc' /\ unescape svc = Some svc' /\
      id = IdService h (default_ap ap') ns' dc' svc') \/
   (exists ap dc agent ap' dc' agent', m_agent (split_slash r) = Some (ap, dc, agent) /\
      unescape ap = Some ap' /\ unescape dc = Some dc' /\ unescape agent = Some agent' /\
      id = IdAgent h (default_ap ap') dc' agent') \/
   (exists ap dc ap' dc', m_gateway (split_slash r) = Some (ap, dc) /\
      unescape ap = Some ap' /\ unescape dc = Some dc' /\ id = IdGateway h (default_ap ap') dc') \/
   (exists dc dc', m_server (split_slash r) = Some dc /\ unescape dc = Some dc' /\ id = IdServer h dc') \/
   (p = "" /\ exists cl dom, id = IdSigning cl dom)).
Proof.
  intros Hr. unfold parse_cert_uri. cbn [u_scheme u_raw u_path u_host]. rewrite Hr.
  destruct (sch =? "spiffe")%string eqn:Es; cbn [negb]; [|discriminate].
  apply String.eqb_eq in Es. cbn [unesc_if]. intros H. split; [exact Es|].
  destruct (m_service (split_slash r)) as [[[[ap ns] dc] svc]|] eqn:M.
  { destruct (unescape ap) as [ap'|] eqn:U1; [|discriminate]. destruct (unescape ns) as [ns'|] eqn:U2; [|discriminate].
    destruct (unescape dc) as [dc'|] eqn:U3; [|discriminate]. destruct (unescape svc) as [svc'|] eqn:U4; [|discriminate].
    injection H as <-. left. exists ap, ns, dc, svc, ap', ns', dc', svc'. repeat split; assumption. }
  destruct (m_agent (split_slash r)) as [[[ap dc] agent]|] eqn:M2.
  { destruct (unescape ap) as [ap'|] eqn:U5; [|discriminate]. destruct (unescape dc) as [dc'|] eqn:U6; [|discriminate].
    destruct (unescape agent) as [agent'|] eqn:U7; [|discriminate].
    injection H as <-. right. left. exists ap, dc, agent, ap', dc', agent'. repeat split; assumption. }
  destruct (m_gateway (split_slash r)) as [[ap dc]|] eqn:M3.
  { destruct (unescape ap) as [ap'|] eqn:U8; [|discriminate]. destruct (unescape dc) as [dc'|] eqn:U9; [|discriminate].
    injection H as <-. right. right. left. exists ap, dc, ap', dc'. repeat split; assumption. }
  destruct (m_server (split_slash r)) as [dc|] eqn:M4.
  { destruct (unescape dc) as [dc'|] eqn:U10; [|discriminate].
    injection H as <-. right. right. right. left. exists dc, dc'. repeat split; assumption. }
  destruct (p =? "")%string eqn:Ep; [|discriminate]. apply String.eqb_eq in Ep.
  right. right. right. right. split; [exact Ep|].
  destruct (cut_dot h) as [[cl dom]|]; [|discriminate].
  destruct (nonempty cl); [|discriminate]. injection H as <-. eauto.
Qed.

Lemma unescape_empty r : unescape r = Some "" -> r = "".
Proof.
  destruct r as [|c r]; [reflexivity|]. cbn [unescape].
  destruct (Ascii.eqb c percent).
  - destruct r as [|h [|l r]]; try discriminate.
    destruct (unhex h); [|discriminate]. destruct (unhex l); [|discriminate].
    destruct (unescape r); discriminate.
  - destruct (unescape r); discriminate.
Qed.

(* all the ways the second reading can go, given the list it splits into *)
Ltac second_reading Hp2 L :=
  destruct Hp2 as [(ap2 & ns2 & dc2 & svc2 & M2 & ->) | [(ap2 & dc2 & ag2 & M2 & ->) | [(ap2 & dc2 & M2 & ->) | [(dc2 & M2 & ->) | (Pe & _)]]]];
  [ apply m_service_inv in M2 as [[M2 ->] | M2]; rewrite L in M2; peel M2
  | apply m_agent_inv in M2 as [[M2 ->] | M2]; rewrite L in M2; peel M2
  | apply m_gateway_inv in M2 as [[M2 ->] | M2]; rewrite L in M2; peel M2
  | apply m_server_inv in M2; rewrite L in M2; peel M2
  | idtac ].

Ltac prep Hds L :=
  decode_list Hds; injection Hds as <-;
  cbn [map List.concat app split_slash] in L; cbn in L; expose_in L.

Ltac fin :=
  try (exfalso; auto; fail); subst; close_singletons; try reflexivity.

(* The core: a URL whose RawPath decodes to its Path, read once through the RawPath (as the
   CA does) and once through the decoded Path alone (as a reader of the re-encoded
   certificate does), yields the same identity whenever the second reading succeeds. *)
Theorem reading_same sch h p r pl id id2 :
  nonempty r = true -> unescape r = Some p ->
  parse_cert_uri (Url sch h p r pl) = Ok id ->
  parse_cert_uri (Url sch h p "" pl) = Ok id2 ->
  id2 = id.
Proof.
  intros Hr Hu Hp1 Hp2.
  apply (parse_raw_inv _ _ _ _ _ _ Hr) in Hp1 as [_ Hp1].
  apply parse_decoded_inv in Hp2 as [_ Hp2].
  destruct (unescape_split _ _ Hu) as (ds & Hds & L).
  assert (Hpe : p = "" -> False).
  { intros ->. apply unescape_empty in Hu. subst r. discriminate Hr. }
  destruct Hp1 as [(ap & ns & dc & svc & ap' & ns' & dc' & svc' & M1 & Ua & Un & Ud & Us & ->)
                  | [(ap & dc & ag & ap' & dc' & ag' & M1 & Ua & Ud & Ug & ->)
                  | [(ap & dc & ap' & dc' & M1 & Ua & Ud & ->)
                  | [(dc & dc' & M1 & Ud & ->) | (Pe & _)]]]]; [| | | |exfalso; auto].
  - apply m_service_inv in M1 as [[M1 ->] | M1]; rewrite M1 in Hds.
    + cbn in Ua. injection Ua as <-. prep Hds L. second_reading Hp2 L; fin.
    + prep Hds L. second_reading Hp2 L; fin.
  - apply m_agent_inv in M1 as [[M1 ->] | M1]; rewrite M1 in Hds.
    + cbn in Ua. injection Ua as <-. prep Hds L. second_reading Hp2 L; fin.
    + prep Hds L. second_reading Hp2 L; fin.
  - apply m_gateway_inv in M1 as [[M1 ->] | M1]; rewrite M1 in Hds.
    + cbn in Ua. injection Ua as <-. prep Hds L. second_reading Hp2 L; fin.
    + prep Hds L. second_reading Hp2 L; fin.
  - apply m_server_inv in M1; rewrite M1 in Hds.
    prep Hds L. second_reading Hp2 L; fin.
Qed.

(* the URI re-printed for an agent reads as that agent in the trust domain, or not at all *)
Theorem reading_reprinted_agent td ap dc agent id2 :
  parse_cert_uri (uri_of (IdAgent td ap dc agent)) = Ok id2 -> id2 = IdAgent td "default" dc agent.
Proof.
  unfold uri_of, fresh_url. intros Hp2. apply parse_decoded_inv in Hp2 as [_ Hp2].
  assert (L : split_slash ("/agent/client/dc/" ++ dc ++ "/id/" ++ agent)%string =
              "" :: "agent" :: "client" :: "dc" :: split_slash dc ++ "id" :: split_slash agent).
  { rewrite path_agent. repeat rewrite split_app. reflexivity. }
  assert (Hpe : ("/agent/client/dc/" ++ dc ++ "/id/" ++ agent)%string = "" -> False) by discriminate.
  expose_in L.
  second_reading Hp2 L; fin.
Qed.

(* ------------------------------------------------------------------ the theorem *)

Lemma parse_ok_not_star u id : parse_cert_uri u = Ok id -> u_raw u = "" -> u_path u <> "*".
Proof.
  intros H Hr Hs. destruct u as [sch h p r pl]. cbn [u_raw u_path] in *. subst r p.
  unfold parse_cert_uri in H. cbn in H. destruct (negb (sch =? "spiffe")%string); discriminate.
Qed.

Lemma unescape_head_slash r p : unescape r = Some p ->
  (exists r', r = String slash r') -> exists p', p = String slash p'.
Proof.
  intros Hu (r' & ->). rewrite unescape_plain in Hu by reflexivity.
  destruct (unescape r') as [t|]; [|discriminate]. injection Hu as <-. eauto.
Qed.

Lemma split_head_empty s t : split_slash s = "" :: t -> t <> [] -> exists s', s = String slash s'.
Proof.
  destruct s as [|c s]; cbn [split_slash].
  - intros H Ht. injection H as <-. contradiction.
  - destruct (Ascii.eqb c slash) eqn:E.
    + apply Ascii.eqb_eq in E. subst c. eauto.
    + destruct (split_slash s); discriminate.
Qed.

(* a RawPath that parses as an identity begins with "/" and so does its decoding: never "*" *)
Lemma parse_raw_not_star sch h p r pl id :
  nonempty r = true -> unescape r = Some p ->
  parse_cert_uri (Url sch h p r pl) = Ok id -> p <> "*".
Proof.
  intros Hr Hu Hp. apply (parse_raw_inv _ _ _ _ _ _ Hr) in Hp as [_ Hp].
  assert (Hh : (exists t, split_slash r = "" :: t /\ t <> []) -> p <> "*").
  { intros (t & Ht & Hne). destruct (split_head_empty _ _ Ht Hne) as (r' & ->).
    destruct (unescape_head_slash _ _ Hu ltac:(eauto)) as (p' & ->). discriminate. }
  destruct Hp as [(ap & ns & dc & svc & ap' & ns' & dc' & svc' & M1 & _)
                  | [(ap & dc & ag & ap' & dc' & ag' & M1 & _)
                  | [(ap & dc & ap' & dc' & M1 & _)
                  | [(dc & dc' & M1 & _) | (Pe & _)]]]].
  - apply Hh. apply m_service_inv in M1 as [[M1 _] | M1]; rewrite M1; eexists; split; [reflexivity | discriminate | reflexivity | discriminate].
  - apply Hh. apply m_agent_inv in M1 as [[M1 _] | M1]; rewrite M1; eexists; split; [reflexivity | discriminate | reflexivity | discriminate].
  - apply Hh. apply m_gateway_inv in M1 as [[M1 _] | M1]; rewrite M1; eexists; split; [reflexivity | discriminate | reflexivity | discriminate].
  - apply Hh. apply m_server_inv in M1; rewrite M1; eexists; split; [reflexivity | discriminate].
  - subst p. discriminate.
Qed.

(* what the reader of the certificate gets for the URL the CA looked at *)
Theorem reading_certificate u id id2 :
  url_wf u -> parse_cert_uri u = Ok id -> parse_cert_uri (reparse u) = Ok id2 -> id2 = id.
Proof.
  intros Hwf Hp Hp2. destruct u as [sch h p r pl]. destruct Hwf as [Hr|[Hu Hne]]; cbn [u_raw u_path] in *.
  - subst r. rewrite reparse_fresh in Hp2 by (apply (parse_ok_not_star _ _ Hp); reflexivity). congruence.
  - destruct (r =? "")%string eqn:Er.
    + apply String.eqb_eq in Er. subst r. cbn in Hu. injection Hu as <-. cbn in Hne. contradiction.
    + assert (Hn : nonempty r = true) by (unfold nonempty; rewrite Er; reflexivity).
      assert (Hr : r <> "") by (apply String.eqb_neq; exact Er).
      pose proof (parse_raw_not_star _ _ _ _ _ _ Hn Hu Hp) as Hs.
      rewrite (reparse_raw _ _ _ _ _ Hr Hu Hne Hs) in Hp2.
      destruct (valid_encoded r); [congruence|].
      eapply reading_same; eassumption.
Qed.

(* the identity the certificate carries, as far as a reader can obtain one *)
Definition cert_identity (e : ca_env) (u : url) (id : cert_id) : cert_id :=
  match id with
  | IdAgent host ap dc agent =>
      if (host =? trust_domain e)%string then id else IdAgent (trust_domain e) "default" dc agent
  | _ => id
  end.

(* the ACL question: which resource, which name *)
Inductive scope := ScService (name : string) | ScNode (name : string) | ScMesh | ScACL | ScNone.

Definition scope_of (id : cert_id) : scope :=
  match id with
  | IdService _ _ _ _ svc => ScService svc
  | IdAgent _ _ _ agent => ScNode agent
  | IdGateway _ _ _ => ScMesh
  | IdServer _ _ => ScACL
  | IdSigning _ _ => ScNone
  end.

Lemma scope_cert_identity e u id : scope_of (cert_identity e u id) = scope_of id.
Proof.
  destruct id; try reflexivity. cbn [cert_identity].
  destruct (host =? trust_domain e)%string; reflexivity.
Qed.

(* C12_no_confusion *)
Theorem no_confusion e az c s crt s' :
  sign_request e az c s = Ok (crt, s') ->
  (forall u, In u (csr_uris c) -> url_wf u) ->
  exists u id u',
    csr_uris c = [u] /\ parse_cert_uri u = Ok id /\ granted az id /\ c_uris crt = [u'] /\
    forall id2, parse_cert_uri (reparse u') = Ok id2 ->
      id2 = cert_identity e u id /\ scope_of id2 = scope_of id /\ granted az id2.
Proof.
  intros H Hwf.
  destruct (issue_sound _ _ _ _ _ _ H) as (u & id & Hu & _ & Hp & Hv & Hg & _ & Hn & Ha & _).
  assert (Hwu : url_wf u) by (apply Hwf; rewrite Hu; left; reflexivity).
  assert (Hfin : forall id2, id2 = cert_identity e u id -> id2 = cert_identity e u id /\ scope_of id2 = scope_of id /\ granted az id2).
  { intros id2 ->. split; [reflexivity|]. split; [apply scope_cert_identity|].
    destruct id; try exact Hg. cbn [cert_identity].
    destruct (host =? trust_domain e)%string; exact Hg. }
  destruct (is_agent id) eqn:Ag.
  - destruct id; try discriminate. specialize (Ha eq_refl). cbn [agent_cert_uri coerce] in Ha.
    destruct (host =? trust_domain e)%string eqn:Eh.
    + exists u, (IdAgent host ap dc agent), u.
      split; [exact Hu|]. split; [exact Hp|]. split; [exact Hg|]. split; [exact Ha|].
      intros id2 H0. apply Hfin. unfold cert_identity. rewrite Eh.
      eapply reading_certificate; eassumption.
    + exists u, (IdAgent host ap dc agent), (uri_of (IdAgent (trust_domain e) ap dc agent)).
      split; [exact Hu|]. split; [exact Hp|]. split; [exact Hg|]. split; [exact Ha|].
      intros id2 H0. apply Hfin. unfold cert_identity. rewrite Eh.
      apply (reading_reprinted_agent _ ap).
      unfold uri_of, fresh_url in H0. rewrite reparse_fresh in H0 by discriminate. exact H0.
  - destruct (Hn eq_refl) as (_ & Hc).
    exists u, id, u.
    split; [exact Hu|]. split; [exact Hp|]. split; [exact Hg|]. split; [exact Hc|].
    intros id2 H0. apply Hfin.
    assert (E : cert_identity e u id = id) by (destruct id; try reflexivity; discriminate).
    rewrite E. eapply reading_certificate; eassumption.
Qed.
