(* Proofs about CA/Model.v: what a successful signing request implies, freshness of serial
   numbers along every history, the one-active-root invariant and the atomicity of root-set
   commands.  Stdlib only, no axioms. *)
From Verif Require Import Base.Prelude.
From Verif Require Import CA.Model.
From Coq Require Import Sorted.
Open Scope string_scope.
Open Scope N_scope.
Open Scope list_scope.

Local Arguments uri_of : simpl never.
Local Arguments trust_domain : simpl never.

(* ------------------------------------------------------------------ small facts *)

Lemma negb_false_true b : negb b = false -> b = true.
Proof. destruct b; cbn; congruence. Qed.

Lemma streqb_eq a b : (a =? b)%string = true -> a = b.
Proof. apply String.eqb_eq. Qed.

(* ------------------------------------------------------------------ the signing path *)

Definition id_host (id : cert_id) : string :=
  match id with
  | IdService h _ _ _ _ | IdAgent h _ _ _ | IdGateway h _ _ | IdServer h _ => h
  | IdSigning cl dom => lower (cl ++ "." ++ dom)%string
  end.

Definition id_dc (id : cert_id) : string :=
  match id with
  | IdService _ _ _ dc _ | IdAgent _ _ dc _ | IdGateway _ _ dc | IdServer _ dc => dc
  | IdSigning _ _ => EmptyString
  end.

Definition is_agent (id : cert_id) : bool := match id with IdAgent _ _ _ _ => true | _ => false end.

(* the write permission the token must hold for the identity *)
Definition granted (az : authz) (id : cert_id) : Prop :=
  match id with
  | IdService _ _ _ _ svc => az_service_write az svc = true
  | IdAgent _ _ _ agent => az_node_write az agent = true
  | IdGateway _ _ _ => az_mesh_write az = true
  | IdServer _ _ => az_acl_write az = true
  | IdSigning _ _ => False
  end.

(* the identity with the host coerced to the trust domain (agents only) *)
Definition coerce (e : ca_env) (id : cert_id) : cert_id :=
  match id with
  | IdAgent _ ap dc agent => IdAgent (trust_domain e) ap dc agent
  | _ => id
  end.

(* the URI an agent's certificate gets *)
Definition agent_cert_uri (e : ca_env) (u : url) (id : cert_id) : url :=
  match id with
  | IdAgent host ap dc agent =>
      if (host =? trust_domain e)%string then u else uri_of (coerce e id)
  | _ => u
  end.

Lemma authorize_id_ok e az id :
  authorize_id e az id = Ok tt -> granted az id /\ id_dc id = e_dc e.
Proof.
  destruct id; cbn [authorize_id granted is_agent id_dc]; intros H.
  - destruct (az_service_write az svc) eqn:A; cbn in H; try discriminate.
    destruct (dc =? e_dc e)%string eqn:D; cbn in H; try discriminate.
    split; [reflexivity | apply streqb_eq; exact D].
  - destruct (az_node_write az agent) eqn:A; cbn in H; try discriminate.
    destruct (dc =? e_dc e)%string eqn:D; cbn in H; try discriminate.
    split; [reflexivity | apply streqb_eq; exact D].
  - destruct (az_mesh_write az) eqn:A; cbn in H; try discriminate.
    destruct (dc =? e_dc e)%string eqn:D; cbn in H; try discriminate.
    split; [reflexivity | apply streqb_eq; exact D].
  - destruct (az_acl_write az) eqn:A; cbn in H; try discriminate.
    destruct (dc =? e_dc e)%string eqn:D; cbn in H; try discriminate.
    split; [reflexivity | apply streqb_eq; exact D].
  - discriminate.
Qed.

Lemma authorize_ok e az c id :
  authorize e az c = Ok id ->
  exists u, csr_uris c = [u] /\ csr_emails c = 0 /\ parse_cert_uri u = Ok id /\
            validate_supported id = true /\ granted az id /\ id_dc id = e_dc e /\
            is_duser (u_deco u) = false.
Proof.
  unfold authorize. destruct (csr_uris c) as [|u [|u2 t]]; try discriminate.
  destruct (csr_emails c =? 0) eqn:Em; cbn [negb]; try discriminate.
  destruct (is_duser (u_deco u)) eqn:Dd; try discriminate.
  destruct (parse_cert_uri u) as [id0|pe] eqn:P; try discriminate.
  destruct (validate_supported id0) eqn:V; cbn [negb]; try discriminate.
  destruct (authorize_id e az id0) as [[]|x] eqn:A; try discriminate.
  intros H; injection H as <-.
  destruct (authorize_id_ok _ _ _ A) as [G D].
  exists u. repeat split; try assumption. apply N.eqb_eq; exact Em.
Qed.

Lemma sign_uris_ok e u id uris :
  sign_uris e [u] id = Ok uris ->
  parse_cert_uri u = Ok id ->
  (is_agent id = false -> uris = [u] /\ lower (id_host id) = trust_domain e) /\
  (is_agent id = true -> uris = [agent_cert_uri e u id]).
Proof.
  destruct id; cbn [sign_uris is_agent id_host]; intros H Hp.
  - unfold can_sign in H. destruct (lower host =? trust_domain e)%string eqn:C; try discriminate.
    injection H as <-. split; [|discriminate]. intros _. split; [reflexivity | apply streqb_eq; exact C].
  - split; [discriminate|]. intros _. cbn [agent_cert_uri coerce].
    destruct (host =? trust_domain e)%string eqn:Hh; cbn [negb] in H; injection H as <-; cbn [map].
    + reflexivity.
    + unfold same_agent. rewrite Hp, !String.eqb_refl. reflexivity.
  - unfold can_sign in H. destruct (lower host =? trust_domain e)%string eqn:C; try discriminate.
    injection H as <-. split; [|discriminate]. intros _. split; [reflexivity | apply streqb_eq; exact C].
  - unfold can_sign in H. destruct (lower host =? trust_domain e)%string eqn:C; try discriminate.
    injection H as <-. split; [|discriminate]. intros _. split; [reflexivity | apply streqb_eq; exact C].
  - discriminate.
Qed.

(* Everything a successful AuthorizeAndSignCertificate implies, as the code has it. *)
Theorem issue_sound e az c s crt s' :
  sign_request e az c s = Ok (crt, s') ->
  exists u id,
    csr_uris c = [u] /\ csr_emails c = 0 /\ parse_cert_uri u = Ok id /\
    validate_supported id = true /\ granted az id /\ id_dc id = e_dc e /\
    (is_agent id = false -> lower (id_host id) = trust_domain e /\ c_uris crt = [u]) /\
    (is_agent id = true -> c_uris crt = [agent_cert_uri e u id]) /\
    c_is_ca crt = false /\ c_dns crt = csr_dns c /\ c_ips crt = csr_ips c /\
    c_serial crt = next_serial s /\ s' = incr_serial s.
Proof.
  unfold sign_request. destruct (authorize e az c) as [id|x] eqn:A; try discriminate.
  destruct (authorize_ok _ _ _ _ A) as (u & Hu & Hem & Hp & Hv & Hg & Hd & _).
  rewrite Hu. destruct (sign_uris e [u] id) as [uris|x] eqn:S; try discriminate.
  unfold provider_sign. intros H; injection H as <- <-.
  destruct (sign_uris_ok _ _ _ _ S Hp) as [Hn Ha].
  exists u, id. cbn [c_uris c_is_ca c_dns c_ips c_serial].
  split; [reflexivity|]. split; [exact Hem|]. split; [exact Hp|]. split; [exact Hv|].
  split; [exact Hg|]. split; [exact Hd|]. split.
  { intros Hna. destruct (Hn Hna) as [-> Hl]. split; [exact Hl | reflexivity]. }
  split; [exact Ha|]. repeat split.
Qed.

(* the clauses of the property about the identity in the certificate: this datacenter, and a
   certificate URI in this trust domain that is the requested URI or (agents) the identity
   printed with the host coerced *)
Definition identity_clauses (e : ca_env) (u : url) (id : cert_id) (crt : cert) : Prop :=
  id_dc id = e_dc e /\
  exists u', c_uris crt = [u'] /\ lower (u_host u') = trust_domain e /\
             (u' = u \/ (is_agent id = true /\ u' = uri_of (coerce e id))).

Lemma ascii_lower_idem c : ascii_lower (ascii_lower c) = ascii_lower c.
Proof.
  unfold ascii_lower at 2 3. destruct (in_range 65 90 (code c)) eqn:R.
  - unfold ascii_lower, code. rewrite N_ascii_embedding.
    + replace (in_range 65 90 (N_of_ascii c + 32)) with false; [reflexivity|].
      unfold in_range, code in *. lia.
    + unfold in_range, code in R. lia.
  - unfold ascii_lower. rewrite R. reflexivity.
Qed.

Lemma lower_idem s : lower (lower s) = lower s.
Proof.
  induction s as [|c s IH]; cbn [lower]; [reflexivity|]. rewrite ascii_lower_idem, IH. reflexivity.
Qed.

Lemma parse_host u id : parse_cert_uri u = Ok id -> is_agent id = false ->
  (forall cl dom, id <> IdSigning cl dom) -> id_host id = u_host u.
Proof.
  unfold parse_cert_uri. intros H _ Hs.
  destruct (negb (u_scheme u =? "spiffe")%string); try discriminate.
  destruct (m_service _) as [[[[ap ns] dc] svc]|].
  { repeat match type of H with context [match ?x with _ => _ end] => destruct x; try discriminate end.
    injection H as <-. reflexivity. }
  destruct (m_agent _) as [[[ap dc] agent]|].
  { repeat match type of H with context [match ?x with _ => _ end] => destruct x; try discriminate end.
    injection H as <-. reflexivity. }
  destruct (m_gateway _) as [[ap dc]|].
  { repeat match type of H with context [match ?x with _ => _ end] => destruct x; try discriminate end.
    injection H as <-. reflexivity. }
  destruct (m_server _) as [dc|].
  { repeat match type of H with context [match ?x with _ => _ end] => destruct x; try discriminate end.
    injection H as <-. reflexivity. }
  repeat match type of H with context [match ?x with _ => _ end] => destruct x; try discriminate end.
  injection H as <-. exfalso. eapply Hs; reflexivity.
Qed.

Lemma parse_agent_host u host ap dc agent :
  parse_cert_uri u = Ok (IdAgent host ap dc agent) -> host = u_host u.
Proof.
  unfold parse_cert_uri. intros H.
  destruct (negb (u_scheme u =? "spiffe")%string); try discriminate.
  destruct (m_service _) as [[[[ap' ns] dc'] svc]|].
  { repeat match type of H with context [match ?x with _ => _ end] => destruct x; try discriminate end. }
  destruct (m_agent _) as [[[ap' dc'] agent']|].
  { repeat match type of H with context [match ?x with _ => _ end] => destruct x; try discriminate end.
    injection H as <- _ _ _. reflexivity. }
  destruct (m_gateway _) as [[ap' dc']|].
  { repeat match type of H with context [match ?x with _ => _ end] => destruct x; try discriminate end. }
  destruct (m_server _) as [dc'|].
  { repeat match type of H with context [match ?x with _ => _ end] => destruct x; try discriminate end. }
  repeat match type of H with context [match ?x with _ => _ end] => destruct x; try discriminate end.
Qed.

(* C12_issue_sound in the property's wording: the identity clauses hold for EVERY issued
   certificate, agents included. *)
Theorem issue_sound_full e az c s crt s' :
  sign_request e az c s = Ok (crt, s') ->
  exists u id,
    csr_uris c = [u] /\ csr_emails c = 0 /\ parse_cert_uri u = Ok id /\
    validate_supported id = true /\ granted az id /\ c_is_ca crt = false /\
    c_serial crt = next_serial s /\ identity_clauses e u id crt.
Proof.
  intros H. destruct (issue_sound _ _ _ _ _ _ H) as (u & id & Hu & Hem & Hp & Hv & Hg & Hd & Hn & Ha & Hca & _ & _ & Hser & _).
  exists u, id. do 7 (split; [assumption|]).
  unfold identity_clauses. split; [exact Hd|].
  destruct (is_agent id) eqn:Ag.
  - destruct id; try discriminate.
    specialize (Ha eq_refl). cbn [agent_cert_uri coerce] in Ha.
    pose proof (parse_agent_host _ _ _ _ _ Hp) as Hh.
    destruct (host =? trust_domain e)%string eqn:Ht.
    + exists u. split; [exact Ha|]. apply streqb_eq in Ht. split; [|left; reflexivity].
      rewrite <- Hh, Ht. unfold trust_domain. apply lower_idem.
    + exists (uri_of (IdAgent (trust_domain e) ap dc agent)). split; [exact Ha|].
      split; [cbn [uri_of fresh_url u_host]; unfold trust_domain; apply lower_idem|].
      right. split; reflexivity.
  - destruct (Hn eq_refl) as (Hh & Hc).
    exists u. split; [exact Hc|]. split; [|left; reflexivity].
    rewrite <- Hh. f_equal. symmetry. apply (parse_host _ _ Hp Ag).
    intros cl dom ->. cbn in Hv. discriminate.
Qed.

(* ------------------------------------------------------------------ serial numbers *)

(* the last serial handed out through the counter (0 before the first one) *)
Definition last_serial (s : store) : N := match s_serial s with Some n => n | None => 0 end.

Lemma next_serial_gt s : last_serial s < next_serial s.
Proof. unfold last_serial, next_serial. destruct (s_serial s); lia. Qed.

Lemma step_serial s idx o s1 r :
  step s idx o = (s1, r) ->
  (r = OSerial (next_serial s) /\ last_serial s1 = next_serial s) \/
  ((forall n, r <> OSerial n) /\ last_serial s1 = last_serial s).
Proof.
  destruct o; cbn [step]; intros H.
  - destruct (root_check_and_set s idx cidx rs); injection H as <- <-; right; split; (discriminate || reflexivity).
  - destruct (root_check_and_set s idx cidx rs); [| |destruct (config_index_ok s (gi_modify cfg))];
      injection H as <- <-; right; split; (discriminate || reflexivity).
  - destruct (negb (gi_modify cfg =? 0)); [destruct (config_index_ok s (gi_modify cfg))|];
      injection H as <- <-; right; split; (discriminate || reflexivity).
  - injection H as <- <-; right; split; (discriminate || reflexivity).
  - destruct (find_pstate id (s_pstates s)); injection H as <- <-; right; split; (discriminate || reflexivity).
  - injection H as <- <-. left. split; reflexivity.
  - injection H as <- <-; right; split; (discriminate || reflexivity).
  - injection H as <- <-; right; split; (discriminate || reflexivity).
Qed.

Lemma sign_serial e az c s crt s1 :
  sign_request e az c s = Ok (crt, s1) -> c_serial crt = next_serial s /\ last_serial s1 = next_serial s.
Proof.
  intros H. destruct (issue_sound _ _ _ _ _ _ H) as (u & id & _ & _ & _ & _ & _ & _ & _ & _ & _ & _ & _ & Hs & ->).
  split; [exact Hs | reflexivity].
Qed.

(* Along any history of CA commands (including provider-state writes, snapshot/restore) and
   signing requests, the serial numbers handed out are strictly increasing, and all above the
   last one handed out before. *)
Theorem serials_increasing e evs : forall s s' l,
  run_events e s evs = (s', l) ->
  StronglySorted N.lt l /\ Forall (fun n => last_serial s < n) l.
Proof.
  induction evs as [|ev evs IH]; intros s s' l H.
  - cbn in H. injection H as <- <-. split; constructor.
  - destruct ev as [idx o|az c]; cbn [run_events] in H.
    + destruct (step s idx o) as [s1 r] eqn:St.
      destruct (run_events e s1 evs) as [s2 l2] eqn:R.
      destruct (IH _ _ _ R) as [Hs Hf].
      destruct (step_serial _ _ _ _ _ St) as [[-> Hl]|[Hn Hl]].
      * injection H as <- <-. rewrite Hl in Hf. split.
        -- constructor; assumption.
        -- constructor; [apply next_serial_gt|].
           eapply Forall_impl; [|exact Hf]. cbn. intros a Ha. pose proof (next_serial_gt s). lia.
      * rewrite Hl in Hf. destruct r; injection H as <- <-; try (split; assumption).
        exfalso. eapply Hn; reflexivity.
    + destruct (sign_request e az c s) as [[crt s1]|x] eqn:Sg.
      * destruct (run_events e s1 evs) as [s2 l2] eqn:R.
        destruct (IH _ _ _ R) as [Hs Hf].
        destruct (sign_serial _ _ _ _ _ _ Sg) as [Hc Hl].
        injection H as <- <-. rewrite Hl in Hf. rewrite Hc. split.
        -- constructor; assumption.
        -- constructor; [apply next_serial_gt|].
           eapply Forall_impl; [|exact Hf]. cbn. intros a Ha. pose proof (next_serial_gt s). lia.
      * apply IH in H. exact H.
Qed.

(* ------------------------------------------------------------------ the root set *)

Definition active_count (rs : list root) : nat := List.length (filter r_active rs).

Definition one_active (s : store) : Prop := s_roots s = [] \/ active_count (s_roots s) = 1%nat.

Inductive Reach : store -> Prop :=
| ReachInit : Reach empty_store
| ReachStep s idx o : Reach s -> Reach (fst (step s idx o)).

Lemma insert_root_fresh r acc :
  ~ In (r_id r) (map r_id acc) -> insert_root r acc = acc ++ [r].
Proof.
  induction acc as [|x acc IH]; cbn [insert_root map In app]; intros H; [reflexivity|].
  destruct (r_id x =? r_id r)%string eqn:E.
  - apply String.eqb_eq in E. exfalso. apply H. left. exact E.
  - f_equal. apply IH. intros Hin. apply H. right. exact Hin.
Qed.

Lemma fold_insert_nodup old idx rs : forall acc,
  NoDup (map r_id acc ++ map fst rs) ->
  fold_left (fun a ri => insert_root (stamp old idx ri) a) rs acc = acc ++ map (stamp old idx) rs.
Proof.
  induction rs as [|ri rs IH]; intros acc H; cbn [fold_left map].
  - rewrite app_nil_r. reflexivity.
  - rewrite insert_root_fresh.
    + rewrite IH.
      * rewrite <- app_assoc. reflexivity.
      * rewrite map_app, <- app_assoc. cbn [map app]. exact H.
    + cbn [stamp r_id]. cbn [map] in H. apply NoDup_remove_2 in H.
      intros Hin. apply H. apply in_or_app. left. exact Hin.
Qed.

(* ---- counting the active rows after "delete all, insert each" with repeated IDs ---- *)

Definition cnt (Q : root -> bool) (l : list root) : nat := List.length (filter Q l).

Lemma cnt_ext Q Q' l : (forall x, In x l -> Q x = Q' x) -> cnt Q l = cnt Q' l.
Proof.
  unfold cnt. induction l as [|x l IH]; intros H; [reflexivity|]. cbn [filter].
  rewrite (H x (or_introl eq_refl)). destruct (Q' x); cbn [List.length]; rewrite IH; auto; intros y Hy; apply H; right; exact Hy.
Qed.

(* inserting a row: the row with the same ID (if any) no longer counts, the new row does *)
Lemma cnt_insert Q r acc : NoDup (map r_id acc) ->
  cnt Q (insert_root r acc) =
  (cnt (fun x => Q x && negb (r_id x =? r_id r)%string) acc + (if Q r then 1 else 0))%nat.
Proof.
  unfold cnt. induction acc as [|x acc IH]; intros Hnd; cbn [insert_root filter List.length].
  - destruct (Q r); reflexivity.
  - inversion Hnd as [|? ? Hx Hnd']; subst. destruct (r_id x =? r_id r)%string eqn:E.
    + cbn [filter]. rewrite andb_false_r.
      assert (Hsame : filter Q acc = filter (fun y => Q y && negb (r_id y =? r_id r)%string) acc).
      { apply filter_ext_in. intros y Hy. destruct (r_id y =? r_id r)%string eqn:Ey; [|rewrite andb_true_r; reflexivity].
        exfalso. apply String.eqb_eq in E, Ey. apply Hx. rewrite E, <- Ey. apply in_map. exact Hy. }
      rewrite <- Hsame. destruct (Q r); cbn [List.length]; lia.
    + cbn [filter]. rewrite andb_true_r. destruct (Q x); cbn [List.length]; rewrite (IH Hnd'); lia.
Qed.

Lemma insert_root_ids r acc id :
  In id (map r_id (insert_root r acc)) <-> id = r_id r \/ In id (map r_id acc).
Proof.
  induction acc as [|x acc IH]; cbn [insert_root map In].
  - intuition.
  - destruct (r_id x =? r_id r)%string eqn:E; cbn [map In].
    + apply String.eqb_eq in E. rewrite E. intuition.
    + rewrite IH. intuition.
Qed.

Lemma insert_root_nodup r acc : NoDup (map r_id acc) -> NoDup (map r_id (insert_root r acc)).
Proof.
  induction acc as [|x acc IH]; intros Hnd; cbn [insert_root map].
  - constructor; [intros [] | constructor].
  - inversion Hnd as [|? ? Hx Hnd']; subst. destruct (r_id x =? r_id r)%string eqn:E; cbn [map].
    + apply String.eqb_eq in E. rewrite <- E. constructor; assumption.
    + constructor; [|apply IH; exact Hnd'].
      intros Hin. apply insert_root_ids in Hin as [Hin|Hin]; [|contradiction].
      apply String.eqb_neq in E. congruence.
Qed.

Definition id_in (rs : list root_in) (id : string) : bool :=
  existsb (fun rj => (fst rj =? id)%string) rs.

(* entries of the list that are active and not overwritten by a later entry with the same ID *)
Fixpoint eff_active (rs : list root_in) : nat :=
  match rs with
  | [] => 0%nat
  | ri :: t => ((if snd ri && negb (id_in t (fst ri)) then 1 else 0) + eff_active t)%nat
  end.

Lemma eff_active_count rs : active_overwritten rs = false -> eff_active rs = count_active rs.
Proof.
  unfold count_active. induction rs as [|ri rs IH]; [reflexivity|].
  cbn [active_overwritten eff_active filter]. intros H. apply orb_false_iff in H as [H1 H2].
  rewrite (IH H2). fold (id_in rs (fst ri)) in H1.
  destruct (snd ri); cbn [andb] in *; [rewrite H1|]; reflexivity.
Qed.

Lemma fold_insert_count old idx rs : forall acc, NoDup (map r_id acc) ->
  cnt r_active (fold_left (fun a ri => insert_root (stamp old idx ri) a) rs acc) =
  (cnt (fun x => r_active x && negb (id_in rs (r_id x))) acc + eff_active rs)%nat.
Proof.
  induction rs as [|ri rs IH]; intros acc Hnd; cbn [fold_left eff_active].
  - rewrite Nat.add_0_r. apply cnt_ext. intros x _. cbn [id_in existsb negb]. rewrite andb_true_r. reflexivity.
  - rewrite IH by (apply insert_root_nodup; exact Hnd).
    rewrite cnt_insert by exact Hnd. cbn [stamp r_active r_id].
    rewrite (cnt_ext _ (fun x => r_active x && negb (id_in (ri :: rs) (r_id x))) acc).
    + lia.
    + intros x _. cbn [id_in existsb]. fold (id_in rs (r_id x)).
      rewrite (String.eqb_sym (r_id x) (fst ri)).
      destruct (r_active x), (id_in rs (r_id x)), (fst ri =? r_id x)%string; reflexivity.
Qed.

Lemma cas_yes_one_active s idx cidx rs rs' :
  root_check_and_set s idx cidx rs = CasYes rs' -> active_count rs' = 1%nat.
Proof.
  unfold root_check_and_set. intros H.
  destruct (Nat.eqb (count_active rs) 1) eqn:C; cbn [negb] in H; try discriminate.
  destruct (active_overwritten rs) eqn:O; try discriminate.
  destruct (s_roots_idx s =? cidx) eqn:I; cbn [negb] in H; try discriminate.
  match type of H with (if ?b then _ else _) = _ => destruct b; try discriminate end.
  injection H as <-. change (active_count ?l) with (cnt r_active l).
  rewrite fold_insert_count by constructor. unfold cnt at 1. cbn [filter List.length].
  rewrite (eff_active_count _ O). apply Nat.eqb_eq. exact C.
Qed.

Lemma cas_yes_nodup s idx cidx rs rs' :
  NoDup (map fst rs) -> root_check_and_set s idx cidx rs = CasYes rs' ->
  rs' = map (stamp (s_roots s) idx) rs /\ count_active rs = 1%nat /\ s_roots_idx s = cidx.
Proof.
  unfold root_check_and_set. intros Hnd H.
  destruct (Nat.eqb (count_active rs) 1) eqn:C; cbn [negb] in H; try discriminate.
  destruct (active_overwritten rs); try discriminate.
  destruct (s_roots_idx s =? cidx) eqn:I; cbn [negb] in H; try discriminate.
  match type of H with (if ?b then _ else _) = _ => destruct b; try discriminate end.
  injection H as <-. rewrite fold_insert_nodup by (cbn [map app]; exact Hnd).
  repeat split; [apply Nat.eqb_eq; exact C | apply N.eqb_eq; exact I].
Qed.

Lemma step_one_active s idx o : one_active s -> one_active (fst (step s idx o)).
Proof.
  intros Hinv. destruct o; cbn [step] in *;
    try (repeat match goal with |- context [match ?x with _ => _ end] => destruct x end; exact Hinv).
  - destruct (root_check_and_set s idx cidx rs) as [x| |rs'] eqn:C; try exact Hinv.
    right. cbn [fst s_roots]. apply (cas_yes_one_active _ _ _ _ _ C).
  - destruct (root_check_and_set s idx cidx rs) as [x| |rs'] eqn:C; try exact Hinv.
    destruct (config_index_ok s (gi_modify cfg)); [|exact Hinv].
    right. cbn [fst s_roots]. apply (cas_yes_one_active _ _ _ _ _ C).
Qed.

(* every reachable state has no roots or exactly one active root - for ALL commands, root lists
   with repeated IDs included *)
Theorem reach_one_active s : Reach s -> one_active s.
Proof.
  induction 1 as [|s idx o _ IH].
  - left. reflexivity.
  - apply step_one_active; assumption.
Qed.

(* the list that used to leave the set without an active root is refused and changes nothing *)
Lemma active_overwritten_refused :
  step empty_store 1 (OpSetRoots 0 [("a", true); ("a", false)]) = (empty_store, OErr EActiveOverwritten) /\
  (* while the list the leader emits when only the intermediates of root "a" change is accepted *)
  step empty_store 1 (OpSetRoots 0 [("a", false); ("a", true)]) =
    (Store [Root "a" true 1 1] 1 None [] 0 None, OBool true).
Proof. vm_compute. split; reflexivity. Qed.

(* ---- atomicity ---- *)

Definition same_but_roots (s s' : store) : Prop :=
  s_config s' = s_config s /\ s_pstates s' = s_pstates s /\ s_builtin_idx s' = s_builtin_idx s /\
  s_serial s' = s_serial s.

Lemma fold_insert_members old idx rs : forall acc x,
  In x (fold_left (fun a ri => insert_root (stamp old idx ri) a) rs acc) ->
  In x acc \/ exists ri, In ri rs /\ x = stamp old idx ri.
Proof.
  induction rs as [|ri rs IH]; intros acc x H; cbn [fold_left] in H; [left; exact H|].
  apply IH in H as [H|(rj & Hj & ->)].
  - assert (Hins : forall acc r y, In y (insert_root r acc) -> In y acc \/ y = r).
    { clear. induction acc as [|a acc IHa]; cbn [insert_root In]; intros r y H.
      - destruct H as [<-|[]]. right. reflexivity.
      - destruct (r_id a =? r_id r)%string.
        + destruct H as [<-|H]; [right; reflexivity | left; right; exact H].
        + destruct H as [<-|H]; [left; left; reflexivity|].
          apply IHa in H as [H| ->]; [left; right; exact H | right; reflexivity]. }
    apply Hins in H as [H| ->]; [left; exact H|]. right. exists ri. split; [left; reflexivity | reflexivity].
  - right. exists rj. split; [right; exact Hj | reflexivity].
Qed.

Lemma insert_root_has r acc : exists y, In y (insert_root r acc) /\ r_id y = r_id r.
Proof.
  induction acc as [|a acc IH]; cbn [insert_root].
  - exists r. split; [left; reflexivity | reflexivity].
  - destruct (r_id a =? r_id r)%string.
    + exists r. split; [left; reflexivity | reflexivity].
    + destruct IH as (y & Hy & E). exists y. split; [right; exact Hy | exact E].
Qed.

Lemma insert_root_keeps_ids r acc id :
  (exists y, In y acc /\ r_id y = id) -> exists y, In y (insert_root r acc) /\ r_id y = id.
Proof.
  induction acc as [|a acc IH]; intros (y & Hy & E); [destruct Hy|].
  cbn [insert_root]. destruct (r_id a =? r_id r)%string eqn:Ea.
  - destruct Hy as [<-|Hy].
    + exists r. split; [left; reflexivity|]. apply String.eqb_eq in Ea. congruence.
    + exists y. split; [right; exact Hy | exact E].
  - destruct Hy as [<-|Hy].
    + exists a. split; [left; reflexivity | exact E].
    + destruct IH as (z & Hz & Ez); [exists y; split; assumption|].
      exists z. split; [right; exact Hz | exact Ez].
Qed.

Lemma fold_insert_covers old idx rs : forall acc ri,
  In ri rs ->
  exists y, In y (fold_left (fun a rj => insert_root (stamp old idx rj) a) rs acc) /\ r_id y = fst ri.
Proof.
  assert (Hkeep : forall rs0 acc id, (exists y, In y acc /\ r_id y = id) ->
            exists y, In y (fold_left (fun a rj => insert_root (stamp old idx rj) a) rs0 acc) /\ r_id y = id).
  { induction rs0 as [|rj rs0 IH]; intros acc id H; cbn [fold_left]; [exact H|].
    apply IH. apply insert_root_keeps_ids. exact H. }
  induction rs as [|rj rs IH]; intros acc ri Hin; [destruct Hin|].
  cbn [fold_left]. destruct Hin as [->|Hin].
  - apply Hkeep. destruct (insert_root_has (stamp old idx ri) acc) as (y & Hy & E).
    exists y. split; [exact Hy | exact E].
  - apply IH. exact Hin.
Qed.

(* the whole set is replaced: nothing of the old set survives, every given ID is present *)
Definition replaced_by (old : list root) (idx : N) (rs : list root_in) (new : list root) : Prop :=
  (forall x, In x new -> r_modify x = idx /\ In (r_id x, r_active x) rs) /\
  (forall ri, In ri rs -> exists x, In x new /\ r_id x = fst ri) /\
  (NoDup (map fst rs) -> new = map (stamp old idx) rs).

Lemma cas_yes_replaced s idx cidx rs rs' :
  root_check_and_set s idx cidx rs = CasYes rs' ->
  s_roots_idx s = cidx /\ count_active rs = 1%nat /\ replaced_by (s_roots s) idx rs rs'.
Proof.
  intros H. pose proof H as H0. unfold root_check_and_set in H.
  destruct (Nat.eqb (count_active rs) 1) eqn:C; cbn [negb] in H; try discriminate.
  destruct (active_overwritten rs); try discriminate.
  destruct (s_roots_idx s =? cidx) eqn:I; cbn [negb] in H; try discriminate.
  match type of H with (if ?b then _ else _) = _ => destruct b; try discriminate end.
  injection H as <-. split; [apply N.eqb_eq; exact I|]. split; [apply Nat.eqb_eq; exact C|].
  split; [|split].
  - intros x Hx. apply fold_insert_members in Hx as [[]|(ri & Hri & ->)].
    cbn [stamp r_modify r_id r_active]. split; [reflexivity|]. destruct ri; exact Hri.
  - intros ri Hri. apply fold_insert_covers. exact Hri.
  - intros Hnd. apply (cas_yes_nodup _ _ _ _ _ Hnd H0).
Qed.

Lemma cas_mismatch s idx cidx rs :
  s_roots_idx s <> cidx ->
  root_check_and_set s idx cidx rs = CasNo \/ root_check_and_set s idx cidx rs = CasErr EOneActive
  \/ root_check_and_set s idx cidx rs = CasErr EActiveOverwritten.
Proof.
  intros Hne. unfold root_check_and_set.
  destruct (Nat.eqb (count_active rs) 1); cbn [negb]; [|right; left; reflexivity].
  destruct (active_overwritten rs); [right; right; reflexivity|].
  destruct (s_roots_idx s =? cidx) eqn:I; [apply N.eqb_eq in I; contradiction|].
  left. reflexivity.
Qed.

(* A set-roots command replaces the whole set and answers true, or changes nothing at all and
   does not answer true; with a non-matching index it changes nothing and answers false (or one
   of the two errors about the list itself). *)
Theorem set_roots_atomic s idx cidx rs s' r :
  step s idx (OpSetRoots cidx rs) = (s', r) ->
  (r = OBool true /\ s_roots_idx s = cidx /\ count_active rs = 1%nat /\
   replaced_by (s_roots s) idx rs (s_roots s') /\ s_roots_idx s' = idx /\ same_but_roots s s')
  \/ (s' = s /\ r <> OBool true /\
      (s_roots_idx s <> cidx -> r = OBool false \/ r = OErr EOneActive \/ r = OErr EActiveOverwritten)).
Proof.
  cbn [step]. destruct (root_check_and_set s idx cidx rs) as [x| |rs'] eqn:C; intros H; injection H as <- <-.
  - right. split; [reflexivity|]. split; [discriminate|]. intros Hne.
    destruct (cas_mismatch s idx cidx rs Hne) as [E|[E|E]]; rewrite E in C; [discriminate| |];
      injection C as <-; right; [left | right]; reflexivity.
  - right. split; [reflexivity|]. split; [discriminate|]. intros _. left. reflexivity.
  - left. destruct (cas_yes_replaced _ _ _ _ _ C) as (Hi & Hc & Hr).
    split; [reflexivity|]. split; [exact Hi|]. split; [exact Hc|]. split; [exact Hr|].
    split; [reflexivity|]. repeat split.
Qed.

(* Roots and configuration together: both are replaced, or nothing changes. *)
Theorem set_roots_config_atomic s idx cidx rs ci s' r :
  step s idx (OpSetRootsAndConfig cidx rs ci) = (s', r) ->
  (r = OBool true /\ s_roots_idx s = cidx /\ config_index_ok s (gi_modify ci) = true /\
   replaced_by (s_roots s) idx rs (s_roots s') /\ s_roots_idx s' = idx /\
   s_config s' = Some (set_config s idx ci) /\
   s_pstates s' = s_pstates s /\ s_builtin_idx s' = s_builtin_idx s /\ s_serial s' = s_serial s)
  \/ (s' = s /\ r <> OBool true).
Proof.
  cbn [step]. destruct (root_check_and_set s idx cidx rs) as [x| |rs'] eqn:C.
  - intros H; injection H as <- <-. right. split; [reflexivity | discriminate].
  - intros H; injection H as <- <-. right. split; [reflexivity | discriminate].
  - destruct (config_index_ok s (gi_modify ci)) eqn:G; intros H; injection H as <- <-.
    + left. destruct (cas_yes_replaced _ _ _ _ _ C) as (Hi & Hc & Hr).
      split; [reflexivity|]. split; [exact Hi|]. split; [reflexivity|]. split; [exact Hr|].
      repeat split.
    + right. split; [reflexivity | discriminate].
Qed.

(* a conditional configuration update that fails changes nothing *)
Theorem set_config_cas_honest s idx ci s' r :
  step s idx (OpSetConfig ci) = (s', r) -> gi_modify ci <> 0 ->
  (r = OBool true /\ config_index_ok s (gi_modify ci) = true /\ s_config s' = Some (set_config s idx ci) /\
   s_roots s' = s_roots s /\ s_roots_idx s' = s_roots_idx s)
  \/ (s' = s /\ r = OErr EConfigCAS /\ config_index_ok s (gi_modify ci) = false).
Proof.
  cbn [step]. intros H Hne. destruct (gi_modify ci =? 0) eqn:Z; [apply N.eqb_eq in Z; contradiction|].
  cbn [negb] in H. destruct (config_index_ok s (gi_modify ci)) eqn:G; injection H as <- <-.
  - left. repeat split.
  - right. repeat split.
Qed.

(* commands other than the two root-set commands never touch the roots table *)
Theorem other_ops_keep_roots s idx o :
  match o with OpSetRoots _ _ | OpSetRootsAndConfig _ _ _ => False | _ => True end ->
  s_roots (fst (step s idx o)) = s_roots s /\ s_roots_idx (fst (step s idx o)) = s_roots_idx s.
Proof.
  destruct o; cbn [step]; intros H; try contradiction;
    repeat match goal with |- context [match ?x with _ => _ end] => destruct x end; split; reflexivity.
Qed.

(* ------------------------------------------------------------------ the auto-config entry point *)

(* What a certificate issued through AutoConfig.InitialConfiguration implies.  There is no ACL
   question (the JWT authorized [node]) and no supported-scope test on this path; since bf079b3
   the datacenter of the identity is the server's. *)
Theorem autoconfig_sound e node c s crt s' :
  autoconfig_sign e node c s = Ok (crt, s') ->
  exists u host ap,
    csr_uris c = [u] /\ csr_emails c = 0 /\ is_duser (u_deco u) = false /\
    parse_cert_uri u = Ok (IdAgent host ap (e_dc e) node) /\
    c_uris crt = [agent_cert_uri e u (IdAgent host ap (e_dc e) node)] /\
    (exists u', c_uris crt = [u'] /\ lower (u_host u') = trust_domain e /\
                (u' = u \/ u' = uri_of (IdAgent (trust_domain e) ap (e_dc e) node))) /\
    c_is_ca crt = false /\ c_serial crt = next_serial s /\ s' = incr_serial s.
Proof.
  unfold autoconfig_sign. destruct (csr_uris c) as [|u [|u2 t]] eqn:Hu; try discriminate.
  destruct (csr_emails c =? 0) eqn:Em; cbn [negb]; try discriminate.
  destruct (is_duser (u_deco u)) eqn:Dd; try discriminate.
  destruct (parse_cert_uri u) as [id|pe] eqn:Hp; try discriminate.
  destruct id as [| host ap dc agent | | |]; try discriminate.
  destruct (agent =? node)%string eqn:En; cbn [negb]; try discriminate.
  apply streqb_eq in En. subst agent.
  destruct (dc =? e_dc e)%string eqn:Ed; cbn [negb]; try discriminate.
  apply streqb_eq in Ed. subst dc.
  destruct (sign_uris e [u] (IdAgent host ap (e_dc e) node)) as [uris|x] eqn:S; try discriminate.
  unfold provider_sign. intros H; injection H as <- <-.
  destruct (sign_uris_ok _ _ _ _ S Hp) as [_ Ha]. specialize (Ha eq_refl).
  exists u, host, ap. cbn [c_uris c_is_ca c_serial].
  split; [reflexivity|]. split; [apply N.eqb_eq; exact Em|]. split; [exact Dd|].
  split; [exact Hp|]. split; [exact Ha|].
  split; [|repeat split].
  rewrite Ha. cbn [agent_cert_uri coerce].
  pose proof (parse_agent_host _ _ _ _ _ Hp) as Hh.
  destruct (host =? trust_domain e)%string eqn:Ht.
  - exists u. split; [reflexivity|]. apply streqb_eq in Ht. split; [|left; reflexivity].
    rewrite <- Hh, Ht. unfold trust_domain. apply lower_idem.
  - exists (uri_of (IdAgent (trust_domain e) ap (e_dc e) node)). split; [reflexivity|].
    split; [cbn [uri_of fresh_url u_host]; unfold trust_domain; apply lower_idem | right; reflexivity].
Qed.

(* No certificate is issued, through either entry point, for a URI with userinfo, a query or a
   fragment (3ebfd83); the URI that goes into the certificate has none either. *)
Theorem no_decorated_uri e az c s crt s' :
  sign_request e az c s = Ok (crt, s') ->
  exists u u', csr_uris c = [u] /\ is_duser (u_deco u) = false /\
               c_uris crt = [u'] /\ is_duser (u_deco u') = false.
Proof.
  intros H. pose proof H as H0. unfold sign_request in H0.
  destruct (authorize e az c) as [id|x] eqn:A; try discriminate.
  destruct (authorize_ok _ _ _ _ A) as (u & Hu & _ & Hp & _ & _ & _ & Hd).
  destruct (issue_sound _ _ _ _ _ _ H) as (u2 & id2 & Hu2 & _ & Hp2 & _ & _ & _ & Hn & Ha & _).
  rewrite Hu in Hu2. injection Hu2 as <-. rewrite Hp in Hp2. injection Hp2 as <-.
  exists u. destruct (is_agent id) eqn:Ag.
  - specialize (Ha eq_refl). destruct id; try discriminate. cbn [agent_cert_uri coerce] in Ha.
    destruct (host =? trust_domain e)%string.
    + exists u. repeat split; assumption.
    + eexists. split; [exact Hu|]. split; [exact Hd|]. split; [exact Ha | reflexivity].
  - destruct (Hn eq_refl) as [_ Hc]. exists u. repeat split; assumption.
Qed.

(* ------------------------------------------------------------------ the environment comes from the store *)

(* SignCertificate derives the trust domain from the ClusterID of the stored configuration; a
   signing request does not change it, and no command but the two configuration writes does. *)
Theorem sign_keeps_env dc az c s crt s' e :
  store_env dc s = Some e -> sign_request e az c s = Ok (crt, s') -> store_env dc s' = Some e.
Proof.
  intros He H. destruct (issue_sound _ _ _ _ _ _ H) as (u & id & _ & _ & _ & _ & _ & _ & _ & _ & _ & _ & _ & _ & ->).
  exact He.
Qed.

Theorem step_keeps_env dc s idx o :
  match o with OpSetConfig _ | OpSetRootsAndConfig _ _ _ | OpSnapshotRestore => False | _ => True end ->
  store_env dc (fst (step s idx o)) = store_env dc s.
Proof.
  destruct o; cbn [step]; intros H; try contradiction;
    repeat match goal with |- context [match ?x with _ => _ end] => destruct x end; reflexivity.
Qed.

(* the statement of [issue_sound] without the two conjuncts about DNS / IP SANs (those describe
   the code, they are not a soundness clause: see [sans_copied]) *)
Theorem issue_sound_detailed e az c s crt s' :
  sign_request e az c s = Ok (crt, s') ->
  exists u id,
    csr_uris c = [u] /\ csr_emails c = 0 /\ parse_cert_uri u = Ok id /\
    validate_supported id = true /\ granted az id /\ id_dc id = e_dc e /\
    (is_agent id = false -> lower (id_host id) = trust_domain e /\ c_uris crt = [u]) /\
    (is_agent id = true -> c_uris crt = [agent_cert_uri e u id]) /\
    c_is_ca crt = false /\ c_serial crt = next_serial s /\ s' = incr_serial s.
Proof.
  intros H. destruct (issue_sound _ _ _ _ _ _ H) as (u & id & H1 & H2 & H3 & H4 & H5 & H6 & H7 & H8 & H9 & _ & _ & H10 & H11).
  exists u, id. repeat (split; [assumption|]). assumption.
Qed.

(* The DNS names and IP addresses of the request are copied into the certificate whatever the
   identity is - a fact about the code, and the reason the clause "the certificate carries
   exactly that identity" fails for the extra names. *)
Theorem sans_copied e az c s crt s' :
  sign_request e az c s = Ok (crt, s') -> c_dns crt = csr_dns c /\ c_ips crt = csr_ips c.
Proof.
  intros H. destruct (issue_sound _ _ _ _ _ _ H) as (u & id & _ & _ & _ & _ & _ & _ & _ & _ & _ & Hd & Hi & _).
  split; assumption.
Qed.
