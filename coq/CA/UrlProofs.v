(* Proofs about the URL layer of CA/Model.v: percent-encoding round trips, what a reader of the
   certificate sees ([reparse]), and parse-after-print for well-formed identities. *)
From Verif Require Import Base.Prelude.
From Verif Require Import CA.Model.
Open Scope string_scope.
Open Scope N_scope.

Local Arguments N.add : simpl nomatch.

(* ------------------------------------------------------------------ bytes *)

Lemma esc_char c : should_escape_path c = true ->
  unhex (upperhex (code c / 16)) = Some (code c / 16) /\
  unhex (upperhex (code c mod 16)) = Some (code c mod 16) /\
  ascii_of_N (16 * (code c / 16) + code c mod 16) = c.
Proof.
  destruct c as [[|] [|] [|] [|] [|] [|] [|] [|]]; vm_compute; intros H;
    first [discriminate H | repeat split].
Qed.

Lemma safe_not_percent c : should_escape_path c = false -> Ascii.eqb c percent = false.
Proof.
  destruct c as [[|] [|] [|] [|] [|] [|] [|] [|]]; vm_compute; intros H;
    first [discriminate H | reflexivity].
Qed.

Lemma safe_not_star c : should_escape_path c = false -> Ascii.eqb c "*"%char = false.
Proof.
  destruct c as [[|] [|] [|] [|] [|] [|] [|] [|]]; vm_compute; intros H;
    first [discriminate H | reflexivity].
Qed.

(* ------------------------------------------------------------------ unescape / escape *)

Lemma unescape_pct h l r :
  unescape (String percent (String h (String l r))) =
  match unhex h, unhex l with
  | Some a, Some b => match unescape r with Some t => Some (String (ascii_of_N (16 * a + b)) t) | None => None end
  | _, _ => None
  end.
Proof. reflexivity. Qed.

Lemma unescape_plain c r : Ascii.eqb c percent = false ->
  unescape (String c r) = match unescape r with Some t => Some (String c t) | None => None end.
Proof. intros H. cbn [unescape]. rewrite H. reflexivity. Qed.

(* percent-decoding the default encoding gives the text back *)
Theorem unescape_escape s : unescape (escape_path s) = Some s.
Proof.
  induction s as [|c s IH]; [reflexivity|].
  cbn [escape_path]. destruct (should_escape_path c) eqn:E.
  - rewrite unescape_pct. destruct (esc_char c E) as (H1 & H2 & H3).
    rewrite H1, H2, IH, H3. reflexivity.
  - rewrite (unescape_plain _ _ (safe_not_percent c E)), IH. reflexivity.
Qed.

Lemma escape_path_not_star s : s <> "*" -> escape_path s <> "*".
Proof.
  destruct s as [|c s]; [intros _; discriminate|].
  cbn [escape_path]. destruct (should_escape_path c) eqn:E; [intros _; discriminate|].
  intros Hne Heq. injection Heq as -> Hs.
  destruct s; [apply Hne; reflexivity|]. cbn [escape_path] in Hs.
  destruct (should_escape_path a); discriminate.
Qed.

(* ------------------------------------------------------------------ reading the certificate back *)

(* what url.Parse guarantees about (Path, RawPath) *)
Definition url_wf (u : url) : Prop :=
  u_raw u = "" \/ (unescape (u_raw u) = Some (u_path u) /\ u_raw u <> escape_path (u_path u)).

(* the same as a boolean, evaluated on every real CSR URL by the correspondence run *)
Definition url_wfb (u : url) : bool :=
  (u_raw u =? "")%string ||
  (match unescape (u_raw u) with Some p => (p =? u_path u)%string | None => false end
   && negb (u_raw u =? escape_path (u_path u))%string).

Lemma url_wfb_spec u : url_wfb u = true -> url_wf u.
Proof.
  unfold url_wfb, url_wf. intros H. apply orb_true_iff in H as [H|H].
  - left. apply String.eqb_eq. exact H.
  - right. apply andb_true_iff in H as [H1 H2].
    destruct (unescape (u_raw u)) as [p|]; [|discriminate]. apply String.eqb_eq in H1. subst p.
    split; [reflexivity|]. apply String.eqb_neq. apply negb_true_iff. exact H2.
Qed.

Lemma set_path_wf p path raw : set_path p = Some (path, raw) ->
  forall sch h pl, url_wf (Url sch h path raw pl).
Proof.
  unfold set_path. destruct (unescape p) as [q|] eqn:U; [|discriminate].
  intros H sch h pl. injection H as <- <-. unfold url_wf. cbn [u_raw u_path].
  destruct (p =? escape_path q)%string eqn:E; [left; reflexivity|].
  right. split; [exact U|]. apply String.eqb_neq. exact E.
Qed.

Lemma streqb_refl s : (s =? s)%string = true.
Proof. apply String.eqb_refl. Qed.

Lemma set_path_escape p : set_path (escape_path p) = Some (p, "").
Proof. unfold set_path. rewrite unescape_escape, streqb_refl. reflexivity. Qed.

(* a URL without RawPath (e.g. one built by URI()) is read back unchanged *)
Theorem reparse_fresh sch h p pl : p <> "*" -> reparse (Url sch h p "" pl) = Url sch h p "" pl.
Proof.
  intros Hne. unfold reparse, escaped_path. cbn [u_raw u_path u_scheme u_host u_deco nonempty].
  change (nonempty "") with false. cbn [andb].
  destruct (p =? "*")%string eqn:E; [apply String.eqb_eq in E; contradiction|].
  rewrite set_path_escape. reflexivity.
Qed.

(* a parsed URL with a RawPath is read back unchanged when the RawPath is a valid encoding, and
   loses its RawPath (the path is re-encoded from the decoded text) otherwise *)
Theorem reparse_raw sch h p r pl :
  r <> "" -> unescape r = Some p -> r <> escape_path p -> p <> "*" ->
  reparse (Url sch h p r pl) = if valid_encoded r then Url sch h p r pl else Url sch h p "" pl.
Proof.
  intros Hr Hu Hne Hstar. unfold reparse, escaped_path. cbn [u_raw u_path u_scheme u_host u_deco].
  assert (Hn : nonempty r = true).
  { unfold nonempty. destruct (r =? "")%string eqn:E; [apply String.eqb_eq in E; contradiction | reflexivity]. }
  rewrite Hn, Hu, streqb_refl. cbn [andb]. destruct (valid_encoded r) eqn:V; cbn [andb].
  - unfold set_path. rewrite Hu. destruct (r =? escape_path p)%string eqn:E.
    + apply String.eqb_eq in E. contradiction.
    + reflexivity.
  - destruct (p =? "*")%string eqn:E; [apply String.eqb_eq in E; contradiction|].
    rewrite set_path_escape. reflexivity.
Qed.

(* ------------------------------------------------------------------ splitting *)

Fixpoint no_slash (s : string) : bool :=
  match s with
  | EmptyString => true
  | String c r => negb (Ascii.eqb c slash) && no_slash r
  end.

Lemma split_slash_nonnil s : exists h t, split_slash s = h :: t.
Proof.
  induction s as [|c s (h & t & IH)]; cbn [split_slash]; [eauto|].
  destruct (Ascii.eqb c slash); [eauto|]. rewrite IH. eauto.
Qed.

Lemma split_noslash s : no_slash s = true -> split_slash s = [s].
Proof.
  induction s as [|c s IH]; cbn [no_slash split_slash]; [reflexivity|].
  intros H. apply andb_true_iff in H as [Hc Hs]. apply negb_true_iff in Hc. rewrite Hc, (IH Hs). reflexivity.
Qed.

Lemma split_app_slash a b : no_slash a = true ->
  split_slash (a ++ String slash b) = a :: split_slash b.
Proof.
  induction a as [|c a IH]; cbn [no_slash String.append split_slash]; intros H.
  - rewrite Ascii.eqb_refl. reflexivity.
  - apply andb_true_iff in H as [Hc Hs]. apply negb_true_iff in Hc. rewrite Hc, (IH Hs). reflexivity.
Qed.

(* ------------------------------------------------------------------ parse after print *)

Definition seg_ok (s : string) : bool := nonempty s && no_slash s.

(* identities that URI() prints faithfully in the community edition *)
Definition wf_id (id : cert_id) : Prop :=
  match id with
  | IdService _ ap ns dc svc =>
      ns = "default" /\ seg_ok ap = true /\ lower ap = ap /\ seg_ok dc = true /\ seg_ok svc = true
  | IdAgent _ ap dc agent => ap = "default" /\ seg_ok dc = true /\ seg_ok agent = true
  | IdGateway _ ap dc => ap = "default" /\ seg_ok dc = true
  | IdServer _ dc => seg_ok dc = true
  | IdSigning cl dom =>
      nonempty cl = true /\ lower cl = cl /\ lower dom = dom /\
      (forall a b, cut_dot cl <> Some (a, b))
  end.

Lemma seg_ok_split s : seg_ok s = true -> split_slash s = [s] /\ nonempty s = true /\ no_slash s = true.
Proof.
  unfold seg_ok. intros H. apply andb_true_iff in H as [Hn Hs].
  split; [apply split_noslash; exact Hs | split; assumption].
Qed.

Lemma nonempty_neq s : nonempty s = true -> (s =? "")%string = false.
Proof. unfold nonempty. destruct (s =? "")%string; [discriminate | reflexivity]. Qed.

Local Ltac split_literal :=
  repeat first
    [ rewrite split_app_slash by (first [assumption | reflexivity])
    | rewrite split_noslash by (first [assumption | reflexivity]) ].

(* helper: write a literal-prefixed path as appends of slash-free pieces *)
Lemma path_service dc svc :
  "/ns/default/dc/" ++ dc ++ "/svc/" ++ svc =
  "" ++ String slash ("ns" ++ String slash ("default" ++ String slash ("dc" ++ String slash
     (dc ++ String slash ("svc" ++ String slash svc))))).
Proof. reflexivity. Qed.

Lemma path_service_ap ap dc svc :
  "/ap/" ++ ap ++ "/ns/default/dc/" ++ dc ++ "/svc/" ++ svc =
  "" ++ String slash ("ap" ++ String slash (ap ++ String slash ("ns" ++ String slash ("default" ++
     String slash ("dc" ++ String slash (dc ++ String slash ("svc" ++ String slash svc))))))).
Proof. reflexivity. Qed.

Lemma path_agent dc agent :
  "/agent/client/dc/" ++ dc ++ "/id/" ++ agent =
  "" ++ String slash ("agent" ++ String slash ("client" ++ String slash ("dc" ++ String slash
     (dc ++ String slash ("id" ++ String slash agent))))).
Proof. reflexivity. Qed.

Lemma path_gateway dc :
  "/gateway/mesh/dc/" ++ dc =
  "" ++ String slash ("gateway" ++ String slash ("mesh" ++ String slash ("dc" ++ String slash dc))).
Proof. reflexivity. Qed.

Lemma path_server dc :
  "/agent/server/dc/" ++ dc =
  "" ++ String slash ("agent" ++ String slash ("server" ++ String slash ("dc" ++ String slash dc))).
Proof. reflexivity. Qed.

Lemma split_service dc svc : no_slash dc = true -> no_slash svc = true ->
  split_slash ("/ns/default/dc/" ++ dc ++ "/svc/" ++ svc) = [""; "ns"; "default"; "dc"; dc; "svc"; svc].
Proof. intros Hd Hs. rewrite path_service. split_literal. reflexivity. Qed.

Lemma split_service_ap ap dc svc : no_slash ap = true -> no_slash dc = true -> no_slash svc = true ->
  split_slash ("/ap/" ++ ap ++ "/ns/default/dc/" ++ dc ++ "/svc/" ++ svc) =
  [""; "ap"; ap; "ns"; "default"; "dc"; dc; "svc"; svc].
Proof. intros Ha Hd Hs. rewrite path_service_ap. split_literal. reflexivity. Qed.

Lemma split_agent dc agent : no_slash dc = true -> no_slash agent = true ->
  split_slash ("/agent/client/dc/" ++ dc ++ "/id/" ++ agent) = [""; "agent"; "client"; "dc"; dc; "id"; agent].
Proof. intros Hd Hs. rewrite path_agent. split_literal. reflexivity. Qed.

Lemma split_gateway dc : no_slash dc = true ->
  split_slash ("/gateway/mesh/dc/" ++ dc) = [""; "gateway"; "mesh"; "dc"; dc].
Proof. intros Hd. rewrite path_gateway. split_literal. reflexivity. Qed.

Lemma split_server dc : no_slash dc = true ->
  split_slash ("/agent/server/dc/" ++ dc) = [""; "agent"; "server"; "dc"; dc].
Proof. intros Hd. rewrite path_server. split_literal. reflexivity. Qed.

Lemma lower_app a b : lower (a ++ b) = lower a ++ lower b.
Proof. induction a as [|c a IH]; cbn [String.append lower]; [reflexivity | rewrite IH; reflexivity]. Qed.

Lemma cut_dot_app cl dom : (forall a b, cut_dot cl <> Some (a, b)) ->
  cut_dot (cl ++ String "."%char dom) = Some (cl, dom).
Proof.
  induction cl as [|c cl IH]; intros H; cbn [String.append cut_dot].
  - reflexivity.
  - cbn [cut_dot] in H. destruct (Ascii.eqb c "."%char) eqn:E.
    + exfalso. eapply H. reflexivity.
    + rewrite IH; [reflexivity|]. intros a b Hc. rewrite Hc in H. eapply H. reflexivity.
Qed.

Lemma uri_path_not_star id : u_path (uri_of id) <> "*".
Proof. destruct id; cbn [uri_of fresh_url u_path]; try discriminate. destruct (_ && _); discriminate. Qed.

(* C12_parse_print *)
Theorem parse_print id : wf_id id -> parse_cert_uri (uri_of id) = Ok id.
Proof.
  destruct id; cbn [wf_id]; intros H.
  - destruct H as (-> & Hap & Hlow & Hdc & Hsvc).
    destruct (seg_ok_split _ Hap) as (_ & Hap1 & Hap2).
    destruct (seg_ok_split _ Hdc) as (_ & Hdc1 & Hdc2).
    destruct (seg_ok_split _ Hsvc) as (_ & Hs1 & Hs2).
    unfold uri_of, service_ap. rewrite (nonempty_neq _ Hap1), Hlow, Hap1.
    destruct (ap =? "default")%string eqn:Ed; cbn [negb andb].
    + apply String.eqb_eq in Ed. subst ap.
      unfold parse_cert_uri, fresh_url. cbn [u_scheme u_raw u_path u_host nonempty String.eqb Ascii.eqb Bool.eqb negb].
      rewrite (split_service _ _ Hdc2 Hs2). cbn [m_service].
      cbn [String.eqb Ascii.eqb Bool.eqb andb nonempty negb]. rewrite Hdc1, Hs1. cbn [andb unesc_if default_ap String.eqb].
      reflexivity.
    + unfold parse_cert_uri, fresh_url. cbn [u_scheme u_raw u_path u_host nonempty String.eqb Ascii.eqb Bool.eqb negb].
      rewrite (split_service_ap _ _ _ Hap2 Hdc2 Hs2). cbn [m_service].
      cbn [String.eqb Ascii.eqb Bool.eqb andb nonempty negb]. rewrite Hap1, Hdc1, Hs1.
      cbn [andb unesc_if]. unfold default_ap. rewrite (nonempty_neq _ Hap1). reflexivity.
  - destruct H as (-> & Hdc & Hag).
    destruct (seg_ok_split _ Hdc) as (_ & Hdc1 & Hdc2).
    destruct (seg_ok_split _ Hag) as (_ & Ha1 & Ha2).
    unfold uri_of, parse_cert_uri, fresh_url. cbn [u_scheme u_raw u_path u_host nonempty String.eqb Ascii.eqb Bool.eqb negb].
    rewrite (split_agent _ _ Hdc2 Ha2). cbn [m_service m_agent].
    cbn [String.eqb Ascii.eqb Bool.eqb andb nonempty negb]. rewrite Hdc1, Ha1. cbn [andb unesc_if default_ap String.eqb].
    reflexivity.
  - destruct H as (-> & Hdc). destruct (seg_ok_split _ Hdc) as (_ & Hdc1 & Hdc2).
    unfold uri_of, parse_cert_uri, fresh_url. cbn [u_scheme u_raw u_path u_host nonempty String.eqb Ascii.eqb Bool.eqb negb].
    rewrite (split_gateway _ Hdc2). cbn [m_service m_agent m_gateway].
    cbn [String.eqb Ascii.eqb Bool.eqb andb nonempty negb]. rewrite Hdc1. cbn [andb unesc_if default_ap String.eqb].
    reflexivity.
  - destruct (seg_ok_split _ H) as (_ & Hdc1 & Hdc2).
    unfold uri_of, parse_cert_uri, fresh_url. cbn [u_scheme u_raw u_path u_host nonempty String.eqb Ascii.eqb Bool.eqb negb].
    rewrite (split_server _ Hdc2). cbn [m_service m_agent m_gateway m_server].
    cbn [String.eqb Ascii.eqb Bool.eqb andb nonempty negb]. rewrite Hdc1. cbn [andb unesc_if].
    reflexivity.
  - destruct H as (Hn & Hlc & Hld & Hnd).
    unfold uri_of, parse_cert_uri, fresh_url. cbn [u_scheme u_raw u_path u_host nonempty String.eqb Ascii.eqb Bool.eqb negb].
    cbn [split_slash m_service m_agent m_gateway m_server].
    cbn [String.append]. rewrite lower_app. cbn [lower]. change (ascii_lower ".") with "."%char.
    rewrite Hlc, Hld, (cut_dot_app _ _ Hnd), Hn. reflexivity.
Qed.

(* ... and the identity survives the certificate: print, encode into the SAN, parse back *)
Theorem parse_print_cert id : wf_id id -> parse_cert_uri (reparse (uri_of id)) = Ok id.
Proof.
  intros H. pose proof (uri_path_not_star id) as Hs.
  assert (E : reparse (uri_of id) = uri_of id).
  { destruct id; cbn [uri_of] in *; unfold fresh_url in *; cbn [u_path] in Hs; apply reparse_fresh; exact Hs. }
  rewrite E. apply parse_print. exact H.
Qed.
