(* A concrete regex-engine fragment meeting the hypothesis of the C14 theorems
   ([re_alternation]): [re_inst p m] reads the pattern as an alternation of literal fields
   separated by '|' and accepts [m] when it equals one of them.  Shows the hypothesis is
   satisfiable; the theorems then compute on a concrete example. *)
From Verif Require Import Base.Prelude.
From Verif Require Import RBAC.Model.
From Verif Require Import RBAC.Perms.
From Verif Require Import RBAC.Proofs.
Local Open Scope string_scope.
Local Open Scope bool_scope.

Definition bar : ascii := "|"%char.

(* automaton over the pattern: [st] = what is left of [m] to match in the current field,
   None when the current field already differs *)
Fixpoint fm (m : string) (st : option string) (p : string) : bool :=
  match p with
  | EmptyString => match st with Some EmptyString => true | _ => false end
  | String ch p' =>
      if Ascii.eqb ch bar
      then match st with Some EmptyString => true | _ => fm m (Some m) p' end
      else match st with
           | Some (String c r) => if Ascii.eqb c ch then fm m (Some r) p' else fm m None p'
           | _ => fm m None p'
           end
  end.

Definition re_inst (p m : string) : bool := fm m (Some m) p.

Fixpoint bar_free (s : string) : bool :=
  match s with
  | EmptyString => true
  | String c s' => negb (Ascii.eqb c bar) && bar_free s'
  end.

Lemma fm_none_end m x : bar_free x = true -> fm m None x = false.
Proof.
  induction x as [|c x IH]; cbn; [reflexivity|]. intros H. apply andb_true_iff in H as [Hc Hx].
  destruct (Ascii.eqb c bar); [discriminate|]. apply IH; exact Hx.
Qed.

Lemma fm_none_bar m x rest : bar_free x = true ->
  fm m None (x ++ String bar rest) = fm m (Some m) rest.
Proof.
  induction x as [|c x IH]; cbn.
  - intros _. reflexivity.
  - intros H. apply andb_true_iff in H as [Hc Hx].
    destruct (Ascii.eqb c bar); [discriminate|]. apply IH; exact Hx.
Qed.

Lemma fm_some_end m r x : bar_free x = true -> fm m (Some r) x = (x =? r).
Proof.
  revert r; induction x as [|c x IH]; intros r; cbn.
  - intros _. destruct r; reflexivity.
  - intros H. apply andb_true_iff in H as [Hc Hx].
    destruct (Ascii.eqb c bar) eqn:Eb; [discriminate|].
    destruct r as [|c' r].
    + apply fm_none_end; exact Hx.
    + rewrite (Ascii.eqb_sym c c'). destruct (Ascii.eqb c' c); [apply IH; exact Hx|apply fm_none_end; exact Hx].
Qed.

Lemma fm_some_bar m r x rest : bar_free x = true ->
  fm m (Some r) (x ++ String bar rest) = (x =? r) || fm m (Some m) rest.
Proof.
  revert r; induction x as [|c x IH]; intros r; cbn.
  - intros _. destruct r; reflexivity.
  - intros H. apply andb_true_iff in H as [Hc Hx].
    destruct (Ascii.eqb c bar) eqn:Eb; [discriminate|].
    destruct r as [|c' r].
    + apply fm_none_bar; exact Hx.
    + rewrite (Ascii.eqb_sym c c'). destruct (Ascii.eqb c' c); [apply IH; exact Hx|apply fm_none_bar; exact Hx].
Qed.

Lemma valid_method_bar_free x : valid_method x -> bar_free x = true.
Proof.
  unfold valid_method. cbn. intros H.
  repeat (destruct H as [<-|H]; [reflexivity|]). destruct H.
Qed.

Lemma re_inst_nonempty m ms x :
  Forall valid_method (x :: ms) ->
  fm m (Some m) (join "|" (x :: ms)) = existsb (fun y => y =? m) (x :: ms).
Proof.
  revert x; induction ms as [|y ms IH]; intros x Hv; inversion Hv as [|? ? Hx Hv']; subst.
  - cbn [join existsb]. rewrite orb_false_r. apply fm_some_end, valid_method_bar_free, Hx.
  - change (join "|" (x :: y :: ms)) with (x ++ String bar (join "|" (y :: ms))).
    rewrite (fm_some_bar m m x _ (valid_method_bar_free x Hx)), (IH y Hv'). reflexivity.
Qed.

Theorem re_inst_alternation : re_alternation re_inst.
Proof.
  intros ms m Hne Hv. unfold re_inst. destruct ms as [|x ms]; [contradiction|].
  apply re_inst_nonempty; exact Hv.
Qed.

(* the theorem's hypotheses hold together on a non-trivial input, where it then decides every request *)
Theorem instance_equiv q :
  eval_rbac re_inst (translate ex_cfg ex_ixns false true) ex_conn q
  = intention_allows re_inst ex_cfg ex_ixns false true ex_conn q.
Proof.
  destruct example_hyps as (H1 & H2 & H3 & H4).
  exact (equiv re_inst re_inst_alternation ex_cfg ex_ixns false true ex_conn q H1 H2 H3 (ex_ixns_inv q)).
Qed.

(* and it is not decided trivially: GET / is allowed, GET /admin and DELETE / are not *)
Example instance_values :
  eval_rbac re_inst (translate ex_cfg ex_ixns false true) ex_conn (Req "/x" [(":method", "GET")]) = true
  /\ eval_rbac re_inst (translate ex_cfg ex_ixns false true) ex_conn (Req "/admin/x" [(":method", "GET")]) = false
  /\ eval_rbac re_inst (translate ex_cfg ex_ixns false true) ex_conn (Req "/x" [(":method", "DELETE")]) = false.
Proof. repeat split; vm_compute; reflexivity. Qed.

(* the repaired translator on the superset witness list, for every request and default: no hypothesis
   on the precedence order is needed *)
Theorem instance_repaired d q :
  eval_rbac re_inst (translate w_cfg w_superset d false) (w_conn "api") q
  = intention_allows re_inst w_cfg w_superset d false (w_conn "api") q.
Proof.
  destruct superset_witness_hyps as (H1 & H2 & H3 & _).
  exact (equiv re_inst re_inst_alternation w_cfg w_superset d false (w_conn "api") q H1 H2 H3 (w_superset_inv q)).
Qed.
