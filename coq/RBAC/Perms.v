(* Permissions: convertPermission produces an Envoy permission that matches exactly the requests
   the intention permission matches, and removePermissionPrecedence turns "first matching
   permission decides" into an unordered list. *)
From Verif Require Import Base.Prelude.
From Verif Require Import RBAC.Model.
Local Open Scope string_scope.
Local Open Scope bool_scope.
Local Open Scope list_scope.

Definition valid_method (m : string) : Prop :=
  In m ["GET"; "HEAD"; "POST"; "PUT"; "PATCH"; "DELETE"; "CONNECT"; "OPTIONS"; "TRACE"].

(* what is assumed of the regex engine: an alternation of method names matches its members *)
Definition re_alternation (re : string -> string -> bool) : Prop :=
  forall ms m, ms <> [] -> Forall valid_method ms ->
               re (join "|" ms) m = existsb (fun x => x =? m) ms.

(* Envoy ignores a value matcher on an ABSENT header even when it is inverted, consul's Invert
   means "the header does not have that value": the two agree on a request that carries every
   header an inverted value matcher asks about. *)
Definition is_value_matcher (h : hdr_perm) : bool :=
  negb (h_exact h =? "") || negb (h_regex h =? "") || negb (h_prefix h =? "")
  || negb (h_suffix h =? "") || negb (h_contains h =? "").
Definition hdr_inv_okb (h : hdr_perm) (q : request) : bool :=
  negb (h_invert h && is_value_matcher h)
  || match header_lookup (h_name h) q with Some _ => true | None => false end.
Definition inv_ok (p : ixn_perm) (q : request) : Prop :=
  match ip_http p with Some h => Forall (fun hd => hdr_inv_okb hd q = true) (hp_header h) | None => True end.

Definition methods_ok (p : ixn_perm) : Prop :=
  match ip_http p with Some h => Forall valid_method (hp_methods h) | None => True end.

Section Perms.
  Variable re : string -> string -> bool.
  Hypothesis re_methods : re_alternation re.

  Lemma eval_and_permissions q l :
    eval_perm re q (and_permissions l) = forallb (eval_perm re q) l.
  Proof.
    destruct l as [|x [|y l]]; cbn; try reflexivity. rewrite andb_true_r. reflexivity.
  Qed.

  Lemma convert_header_sem q h :
    hdr_inv_okb h q = true ->
    match convert_header h with Some p => eval_perm re q p | None => true end = hdr_matches re h q.
  Proof.
    unfold convert_header, hdr_matches, hdr_inv_okb, is_value_matcher. intros H.
    destruct (header_lookup (h_name h) q) as [v|] eqn:L.
    - clear H.
      repeat match goal with
             | |- context [negb (?x =? "")] => destruct (x =? ""); cbn [negb]
             end;
        try (destruct (h_present h));
        cbn [eval_perm]; unfold eval_header; rewrite ?L; cbn [eval_sm];
        try (destruct (h_ignore_case h)); reflexivity.
    - cbn [orb] in H. rewrite orb_false_r in H.
      destruct (h_invert h); cbn [andb negb] in H;
        repeat match goal with
               | _ : context [negb (?x =? "")] |- _ => destruct (x =? ""); cbn [negb orb] in *
               | |- context [negb (?x =? "")] => destruct (x =? ""); cbn [negb]
               end;
        try discriminate;
        try (destruct (h_present h));
        cbn [eval_perm]; unfold eval_header; rewrite ?L; reflexivity.
  Qed.

  Lemma convert_headers_sem q hs :
    Forall (fun h => hdr_inv_okb h q = true) hs ->
    forallb (eval_perm re q) (filter_map convert_header hs) = forallb (fun h => hdr_matches re h q) hs.
  Proof.
    induction 1 as [|h hs Hh _ IH]; cbn [filter_map forallb]; [reflexivity|].
    rewrite <- (convert_header_sem q h Hh). destruct (convert_header h); cbn [forallb]; rewrite IH; reflexivity.
  Qed.

  Lemma convert_permission_sem q p :
    methods_ok p -> inv_ok p q -> eval_perm re q (convert_permission p) = ixn_perm_matches re p q.
  Proof.
    unfold methods_ok, inv_ok, convert_permission, ixn_perm_matches.
    destruct (ip_http p) as [h|]; [|reflexivity].
    intros Hm Hi. rewrite eval_and_permissions, !forallb_app, (convert_headers_sem q _ Hi).
    unfold http_perm_matches. rewrite andb_assoc. f_equal; [f_equal|].
    - destruct (hp_path_exact h =? ""); cbn [negb]; [|cbn; rewrite andb_true_r; reflexivity].
      destruct (hp_path_prefix h =? ""); cbn [negb]; [|cbn; rewrite andb_true_r; reflexivity].
      destruct (hp_path_regex h =? ""); cbn [negb]; [|cbn; rewrite andb_true_r; reflexivity].
      reflexivity.
    - destruct (hp_methods h) as [|m ms] eqn:E; [reflexivity|].
      cbn [forallb eval_perm]. rewrite andb_true_r. unfold eval_header.
      destruct (header_lookup ":method" q) as [v|]; [|reflexivity].
      rewrite xorb_false_l. cbn [eval_sm]. apply re_methods; [discriminate|exact Hm].
  Qed.

  (* ---------------------------------------------------------------- removePermissionPrecedence *)

  Variable dflt_allow : bool.
  Let dflt := action_of_bool dflt_allow.

  Definition fresh_perm (p : rperm) : Prop := rp_not p = [] /\ rp_skip p = false.

  (* what the marking walk computes, told from the left: [pre] = the permissions before *)
  Fixpoint mark_perms_spec (pre : list permission) (l : list rperm) : list rperm :=
    match l with
    | [] => []
    | x :: r =>
        (if Bool.eqb (rp_allow x) dflt_allow
         then RPerm (rp_allow x) (rp_perm x) (rp_not x) true
         else RPerm (rp_allow x) (rp_perm x) (rp_not x ++ rev pre) (rp_skip x))
          :: mark_perms_spec (pre ++ [rp_perm x]) r
    end.

  Lemma action_eqb_bool a b : action_eqb (action_of_bool a) (action_of_bool b) = Bool.eqb a b.
  Proof. destruct a, b; reflexivity. Qed.

  Lemma add_not_perm_spec s pre l :
    Forall fresh_perm l ->
    map (add_not_perm s) (mark_perms_spec pre l) = mark_perms_spec (s :: pre) l.
  Proof.
    revert pre; induction l as [|x l IH]; intros pre Hf; [reflexivity|].
    inversion Hf as [|? ? [Hn Hs] Hf']; subst.
    cbn [mark_perms_spec map]. rewrite (IH (pre ++ [rp_perm x]) Hf'). f_equal.
    destruct (Bool.eqb (rp_allow x) dflt_allow); unfold add_not_perm; cbn [rp_skip rp_allow rp_perm rp_not].
    - reflexivity.
    - rewrite Hs. cbn [rev]. rewrite <- app_assoc. reflexivity.
  Qed.

  Lemma mark_perms_is_spec l : Forall fresh_perm l -> mark_perms dflt l = mark_perms_spec [] l.
  Proof.
    induction l as [|x l IH]; intros Hf; [reflexivity|].
    inversion Hf as [|? ? [Hn Hs] Hf']; subst.
    cbn [mark_perms mark_perms_spec]. rewrite (IH Hf'), (add_not_perm_spec _ _ _ Hf').
    unfold dflt. rewrite action_eqb_bool. f_equal.
    destruct (Bool.eqb (rp_allow x) dflt_allow); [reflexivity|].
    destruct x as [a p n s]; cbn in *. subst. reflexivity.
  Qed.

  Lemma eval_flatten_perm q p :
    eval_perm re q (flatten_perm p) =
    eval_perm re q (rp_perm p) && forallb (fun n => negb (eval_perm re q n)) (rp_not p).
  Proof.
    unfold flatten_perm. destruct (rp_not p) as [|n ns] eqn:E.
    - cbn. rewrite andb_true_r. reflexivity.
    - rewrite eval_and_permissions. cbn [forallb map eval_perm]. f_equal.
      f_equal. clear E. induction ns as [|y ns IH]; cbn; [reflexivity|]. rewrite IH. reflexivity.
  Qed.

  Definition live (q : request) (l : list rperm) : bool :=
    existsb (eval_perm re q) (map flatten_perm (filter (fun p => negb (rp_skip p)) l)).

  Lemma live_blocked q l pre :
    Forall fresh_perm l -> existsb (eval_perm re q) pre = true -> live q (mark_perms_spec pre l) = false.
  Proof.
    unfold live. revert pre; induction l as [|x l IH]; intros pre Hf Hp; [reflexivity|].
    inversion Hf as [|? ? [Hn Hs] Hf']; subst.
    assert (Hp' : existsb (eval_perm re q) (pre ++ [rp_perm x]) = true)
      by (rewrite existsb_app, Hp; reflexivity).
    cbn [mark_perms_spec]. destruct (Bool.eqb (rp_allow x) dflt_allow); cbn [filter rp_skip negb].
    - apply IH; assumption.
    - rewrite Hs. cbn [negb map existsb]. rewrite (IH _ Hf' Hp'), orb_false_r.
      rewrite eval_flatten_perm. cbn [rp_perm rp_not]. rewrite Hn. cbn [app].
      apply andb_false_iff. right.
      apply not_true_iff_false. intros Hall. rewrite forallb_forall in Hall.
      apply existsb_exists in Hp as (n & Hin & Hev).
      specialize (Hall n (proj1 (in_rev pre n) Hin)). rewrite Hev in Hall. discriminate.
  Qed.

  Lemma live_spec q l pre :
    Forall fresh_perm l -> existsb (eval_perm re q) pre = false ->
    live q (mark_perms_spec pre l) =
    match find (fun p => eval_perm re q (rp_perm p)) l with
    | Some p => xorb dflt_allow (rp_allow p)
    | None => false
    end.
  Proof.
    revert pre; induction l as [|x l IH]; intros pre Hf Hp; [reflexivity|].
    inversion Hf as [|? ? [Hn Hs] Hf']; subst.
    cbn [find]. destruct (eval_perm re q (rp_perm x)) eqn:Ex.
    - (* x is the first matching permission *)
      assert (Hp' : existsb (eval_perm re q) (pre ++ [rp_perm x]) = true)
        by (rewrite existsb_app; cbn; rewrite Ex, orb_true_r; reflexivity).
      unfold live. cbn [mark_perms_spec]. destruct (Bool.eqb (rp_allow x) dflt_allow) eqn:Eq; cbn [filter rp_skip negb].
      + apply eqb_prop in Eq. rewrite Eq, xorb_nilpotent. apply (live_blocked q l _ Hf' Hp').
      + rewrite Hs. cbn [negb map existsb]. rewrite eval_flatten_perm. cbn [rp_perm rp_not].
        rewrite Ex, Hn. cbn [app andb].
        assert (Hall : forallb (fun n => negb (eval_perm re q n)) (rev pre) = true).
        { apply forallb_forall. intros n Hin. apply in_rev in Hin.
          destruct (eval_perm re q n) eqn:En; [|reflexivity].
          assert (existsb (eval_perm re q) pre = true) by (apply existsb_exists; eauto). congruence. }
        rewrite Hall. cbn [orb]. destruct dflt_allow, (rp_allow x); try reflexivity; discriminate.
    - assert (Hp' : existsb (eval_perm re q) (pre ++ [rp_perm x]) = false)
        by (rewrite existsb_app; cbn; rewrite Hp, Ex; reflexivity).
      rewrite <- (IH _ Hf' Hp'). unfold live. cbn [mark_perms_spec].
      destruct (Bool.eqb (rp_allow x) dflt_allow); cbn [filter rp_skip negb]; [reflexivity|].
      rewrite Hs. cbn [negb map existsb]. rewrite eval_flatten_perm. cbn [rp_perm]. rewrite Ex. reflexivity.
  Qed.

  Theorem perm_precedence q ps :
    Forall fresh_perm ps ->
    existsb (eval_perm re q) (map flatten_perm (remove_permission_precedence dflt ps)) =
    match find (fun p => eval_perm re q (rp_perm p)) ps with
    | Some p => xorb dflt_allow (rp_allow p)
    | None => false
    end.
  Proof.
    intros Hf. destruct ps as [|x ps]; [reflexivity|].
    unfold remove_permission_precedence. rewrite (mark_perms_is_spec _ Hf).
    apply (live_spec q (x :: ps) [] Hf). reflexivity.
  Qed.
End Perms.
