(* Model of agent/xds/rbac.go: translation of the intentions that match one destination into an
   Envoy RBAC rule set, an evaluator with Envoy's semantics, and the precedence reference.

   Shaped like the Go code: one Gallina function per Go function, same order of passes, same
   early returns.  No proofs here.  JWT requirements are left out (providerMap = nil).

   What is concrete and what is external:
   * the regex engine (Envoy safe_regex / RE2) is a Section variable [re] for the patterns the
     USER supplies (PathRegex, header Regex) and for the method alternation "GET|POST";
   * the SPIFFE patterns the CODE builds are kept structured ([idpat]: host + path segments,
     a segment is regex text spliced in or the literal [^/]+) and rendered to the very regex
     string the Go code emits ([render_id], compared with the implementation on every run).
     Their meaning is given segment-wise by [raw_match], a reader of the regex fragment that
     occurs: a backslash makes the next character literal, an unescaped '.' matches any
     character, every other character matches itself.  Since /repo d976793 makeSpiffePattern
     passes the exact namespace and service name through regexp.QuoteMeta ([quote_meta]);
     trust domain and partition are still spliced as they are. *)
From Verif Require Import Base.Prelude.
Local Open Scope string_scope.
Local Open Scope bool_scope.

(* ------------------------------------------------------------------ strings *)

Definition wild : string := "*".

Definition or_default (s : string) : string := if s =? "" then "default" else s.

Definition lower_ascii (c : ascii) : ascii :=
  let n := N_of_ascii c in
  if (65 <=? n)%N && (n <=? 90)%N then ascii_of_N (n + 32) else c.

Fixpoint to_lower (s : string) : string :=
  match s with
  | EmptyString => EmptyString
  | String c s' => String (lower_ascii c) (to_lower s')
  end.

Fixpoint has_prefix (p s : string) : bool :=
  match p, s with
  | EmptyString, _ => true
  | String a p', String b s' => Ascii.eqb a b && has_prefix p' s'
  | String _ _, EmptyString => false
  end.

Fixpoint str_contains (p s : string) : bool :=
  has_prefix p s ||
  match s with
  | EmptyString => false
  | String _ s' => str_contains p s'
  end.

Fixpoint srev_acc (s acc : string) : string :=
  match s with
  | EmptyString => acc
  | String c s' => srev_acc s' (String c acc)
  end.
Definition srev (s : string) : string := srev_acc s EmptyString.

Definition has_suffix (p s : string) : bool := has_prefix (srev p) (srev s).

Fixpoint join (sep : string) (l : list string) : string :=
  match l with
  | [] => ""
  | [x] => x
  | x :: r => x ++ sep ++ join sep r
  end.

Fixpoint sconcat (l : list string) : string :=
  match l with
  | [] => ""
  | x :: r => x ++ sconcat r
  end.

(* regex text [p] (literals, '.', backslash escapes) against [s] *)
Definition bslash : ascii := "092"%char.

Fixpoint raw_match (p s : string) {struct p} : bool :=
  match p with
  | EmptyString => match s with EmptyString => true | _ => false end
  | String a p' =>
      match s with
      | EmptyString => false
      | String b s' =>
          if Ascii.eqb a bslash
          then match p' with
               | String c p'' => Ascii.eqb c b && raw_match p'' s'
               | EmptyString => Ascii.eqb a b && raw_match p' s'     (* lone trailing backslash *)
               end
          else (Ascii.eqb a "." || Ascii.eqb a b) && raw_match p' s'
      end
  end.

(* regexp.QuoteMeta: a backslash before each of \.+*?()|[]{}^$ *)
Definition special_chars : list ascii :=
  [bslash; "."; "+"; "*"; "?"; "("; ")"; "|"; "["; "]"; "{"; "}"; "^"; "$"]%char.
Definition is_special (c : ascii) : bool := existsb (Ascii.eqb c) special_chars.
Fixpoint quote_meta (s : string) : string :=
  match s with
  | EmptyString => EmptyString
  | String c s' => if is_special c then String bslash (String c (quote_meta s')) else String c (quote_meta s')
  end.

(* ------------------------------------------------------------------ generic list helpers *)

Section ListHelpers.
  Context {A : Type}.

  (* stable insertion sort; [lt y x] = y sorts strictly before x.  Go: sort.SliceStable, and
     sort.Sort on at most 12 elements (pdqsort falls back to insertion sort there). *)
  Fixpoint insert_by (lt : A -> A -> bool) (x : A) (l : list A) : list A :=
    match l with
    | [] => [x]
    | y :: l' => if lt y x then y :: insert_by lt x l' else x :: y :: l'
    end.
  Definition sort_by (lt : A -> A -> bool) (l : list A) : list A := fold_right (insert_by lt) [] l.

  Context {B : Type}.
  Fixpoint forall2b (f : A -> B -> bool) (l : list A) (m : list B) : bool :=
    match l, m with
    | [], [] => true
    | x :: l', y :: m' => f x y && forall2b f l' m'
    | _, _ => false
    end.
End ListHelpers.

(* ------------------------------------------------------------------ intentions (agent/structs) *)

Record hdr_perm := HdrPerm {
  h_name : string; h_present : bool;
  h_exact : string; h_prefix : string; h_suffix : string; h_contains : string; h_regex : string;
  h_invert : bool; h_ignore_case : bool }.

Record http_perm := HttpPerm {
  hp_path_exact : string; hp_path_prefix : string; hp_path_regex : string;
  hp_header : list hdr_perm; hp_methods : list string }.

(* IntentionPermission: Action == "allow", HTTP may be nil *)
Record ixn_perm := IxnPerm { ip_allow : bool; ip_http : option http_perm }.

(* structs.Intention, the fields rbac.go and IntentionPrecedenceSorter read.
   [i_allow] is Action == "allow" (intentionActionFromString maps everything else to deny). *)
Record intention := Ixn {
  i_src_peer : string; i_src_ap : string; i_src_ns : string; i_src_name : string;
  i_dst_ap : string; i_dst_ns : string; i_dst_name : string;
  i_allow : bool; i_perms : list ixn_perm; i_prec : N }.

(* IntentionPrecedenceSorter.Less: precedence descending, then the tuple
   (SrcPeer, SrcPxn, SrcNS, Src, DstPxn, DstNS, Dst); sameness groups are expanded before. *)
Definition lex (c1 c2 : comparison) : comparison := match c1 with Eq => c2 | _ => c1 end.

Definition ixn_cmp (a b : intention) : comparison :=
  lex (N.compare (i_prec b) (i_prec a))
 (lex (String.compare (i_src_peer a) (i_src_peer b))
 (lex (String.compare (i_src_ap a) (i_src_ap b))
 (lex (String.compare (i_src_ns a) (i_src_ns b))
 (lex (String.compare (i_src_name a) (i_src_name b))
 (lex (String.compare (i_dst_ap a) (i_dst_ap b))
 (lex (String.compare (i_dst_ns a) (i_dst_ns b))
      (String.compare (i_dst_name a) (i_dst_name b)))))))).

Definition ixn_less (a b : intention) : bool := match ixn_cmp a b with Lt => true | _ => false end.

Definition sort_ixns (l : list intention) : list intention := sort_by ixn_less l.

(* Intention.UpdatePrecedence / countExact *)
Definition count_exact (ns n : string) : N :=
  if ns =? wild then 0 else if n =? wild then 1 else 2.
Definition precedence_of (i : intention) : N :=
  let mx := match count_exact (i_dst_ns i) (i_dst_name i) with 2 => 9 | 1 => 6 | _ => 3 end%N in
  (mx - (2 - count_exact (i_src_ns i) (i_src_name i)))%N.

(* ------------------------------------------------------------------ configuration *)

(* pbpeering.PeeringTrustBundle: the fields read *)
Record bundle := Bundle { b_peer : string; b_td : string; b_exp_ap : string }.

(* rbacLocalInfo (trust domain, partition; the datacenter is never read) + peer trust bundles *)
Record config := Config { c_td : string; c_ap : string; c_bundles : list bundle }.

(* trustBundlesByPeer[ptb.PeerName] = ptb : later entries overwrite earlier ones *)
Definition lookup_bundle (bs : list bundle) (peer : string) : option bundle :=
  find (fun b => b_peer b =? peer) (rev bs).

(* ------------------------------------------------------------------ Envoy RBAC AST *)

Inductive seg := SText (s : string) | SAny.
Record idpat := IdPat { ip_host : string; ip_segs : list seg }.

Inductive principal :=
| PAuth (p : idpat)                  (* authenticated.principal_name safe_regex *)
| PXfcc (p : idpat)                  (* header x-forwarded-client-cert safe_regex *)
| PAnd (l : list principal)
| POr (l : list principal)
| PNot (p : principal).

Inductive strmatch :=
| SMExact (s : string) (ic : bool)
| SMPrefix (s : string) (ic : bool)
| SMSuffix (s : string) (ic : bool)
| SMContains (s : string) (ic : bool)
| SMRegex (s : string).

Inductive permission :=
| PermAny
| PermPath (m : strmatch)                                     (* url_path.path *)
| PermHeader (name : string) (m : option strmatch) (invert : bool)   (* None = present_match *)
| PermAnd (l : list permission)
| PermOr (l : list permission)
| PermNot (p : permission).

Inductive polkey := KL4 | KL7 (i : N).     (* consul-intentions-layer4 / -layer7-<i> *)
Record policy := Policy { pol_principals : list principal; pol_permissions : list permission }.
(* rb_allow = true: action ALLOW (safe list); false: action DENY (block list) *)
Record rbac := Rbac { rb_allow : bool; rb_policies : list (polkey * policy) }.

Definition and_principals (l : list principal) : principal := match l with [x] => x | _ => PAnd l end.
Definition or_principals (l : list principal) : principal := match l with [x] => x | _ => POr l end.
Definition and_permissions (l : list permission) : permission :=
  match l with [] => PermAny | [x] => x | _ => PermAnd l end.

(* ------------------------------------------------------------------ intermediate form *)

Inductive action := ADeny | AAllow | AL7.
Definition action_eqb (a b : action) : bool :=
  match a, b with ADeny, ADeny | AAllow, AAllow | AL7, AL7 => true | _, _ => false end.
Definition action_of_bool (b : bool) : action := if b then AAllow else ADeny.

(* rbacService *)
Record rsvc := RSvc {
  s_ap : string; s_ns : string; s_name : string;
  s_peer : string; s_exp_ap : string; s_td : string }.

(* rbacPermission *)
Record rperm := RPerm { rp_allow : bool; rp_perm : permission; rp_not : list permission; rp_skip : bool }.

(* rbacIntention *)
Record rixn := RIxn {
  r_src : rsvc; r_not : list rsvc; r_act : action; r_perms : list rperm; r_skip : bool }.

(* countWild *)
Definition count_wild (s : rsvc) : N :=
  if s_ns s =? wild then 2 else if s_name s =? wild then 1 else 0.

(* ixnSourceMatches *)
Definition ixn_source_matches (tester against : rsvc) : bool :=
  let nt := count_wild tester in
  let na := count_wild against in
  if (nt =? na)%N then false
  else if (na <? nt)%N then false
  else (s_ap tester =? s_ap against) && (s_peer tester =? s_peer against)
       && ((s_ns tester =? s_ns against) || (s_ns against =? wild))
       && ((s_name tester =? s_name against) || (s_name against =? wild)).

(* simplifyNotSourceSlice *)
Fixpoint keep_unmatched (l : list rsvc) : list rsvc :=
  match l with
  | [] => []
  | si :: rest =>
      if existsb (fun sj => ixn_source_matches si sj) rest then keep_unmatched rest
      else si :: keep_unmatched rest
  end.
Definition simplify_not (l : list rsvc) : list rsvc :=
  if (List.length l <=? 1)%nat then l
  else keep_unmatched (sort_by (fun a b => (count_wild a <? count_wild b)%N) l).

(* removeSameSourceIntentions: key = PeeredServiceName{ServiceName, Peer} *)
Definition src_key (i : intention) : string * string * string * string :=
  (or_default (i_src_ap i), or_default (i_src_ns i), i_src_name i, i_src_peer i).
Definition key_eqb (a b : string * string * string * string) : bool :=
  let '(a1, a2, a3, a4) := a in let '(b1, b2, b3, b4) := b in
  (a1 =? b1) && (a2 =? b2) && (a3 =? b3) && (a4 =? b4).
Fixpoint dedupe (seen : list (string * string * string * string)) (l : list intention) : list intention :=
  match l with
  | [] => []
  | i :: r => if existsb (key_eqb (src_key i)) seen then dedupe seen r
              else i :: dedupe (src_key i :: seen) r
  end.
Definition remove_same_source (l : list intention) : list intention :=
  if (List.length l <? 2)%nat then l else dedupe [] l.

(* convertPermission *)
Definition convert_header (h : hdr_perm) : option permission :=
  let mk m := Some (PermHeader (h_name h) m (h_invert h)) in
  if negb (h_exact h =? "") then mk (Some (SMExact (h_exact h) (h_ignore_case h)))
  else if negb (h_regex h =? "") then mk (Some (SMRegex (h_regex h)))
  else if negb (h_prefix h =? "") then mk (Some (SMPrefix (h_prefix h) (h_ignore_case h)))
  else if negb (h_suffix h =? "") then mk (Some (SMSuffix (h_suffix h) (h_ignore_case h)))
  else if negb (h_contains h =? "") then mk (Some (SMContains (h_contains h) (h_ignore_case h)))
  else if h_present h then mk None
  else None.                      (* "skip this impossible situation" *)

Fixpoint filter_map {A B} (f : A -> option B) (l : list A) : list B :=
  match l with
  | [] => []
  | x :: r => match f x with Some y => y :: filter_map f r | None => filter_map f r end
  end.

Definition convert_permission (p : ixn_perm) : permission :=
  match ip_http p with
  | None => PermAny
  | Some h =>
      let path :=
        if negb (hp_path_exact h =? "") then [PermPath (SMExact (hp_path_exact h) false)]
        else if negb (hp_path_prefix h =? "") then [PermPath (SMPrefix (hp_path_prefix h) false)]
        else if negb (hp_path_regex h =? "") then [PermPath (SMRegex (hp_path_regex h))]
        else [] in
      let hdrs := filter_map convert_header (hp_header h) in
      let meth := match hp_methods h with
                  | [] => []
                  | ms => [PermHeader ":method" (Some (SMRegex (join "|" ms))) false]
                  end in
      and_permissions (path ++ hdrs ++ meth)%list
  end.

(* intentionToIntermediateRBACForm (JWT omitted) *)
Definition src_of (cfg : config) (i : intention) (tb : option bundle) : rsvc :=
  RSvc (or_default (i_src_ap i)) (or_default (i_src_ns i)) (i_src_name i) (i_src_peer i)
       (match tb with Some b => b_exp_ap b | None => "" end)
       (match tb with Some b => b_td b | None => c_td cfg end).

Definition to_rixn (cfg : config) (http : bool) (i : intention) (tb : option bundle) : rixn :=
  let src := src_of cfg i tb in
  match i_perms i with
  | [] => RIxn src [] (action_of_bool (i_allow i)) [] false
  | ps =>
      if http then RIxn src [] AL7 (map (fun p => RPerm (ip_allow p) (convert_permission p) [] false) ps) false
      else RIxn src [] ADeny [] false       (* L7 intention on a TCP listener: treated as deny *)
  end.

(* intentionListToIntermediateRBACForm *)
Fixpoint to_rixns (cfg : config) (http : bool) (l : list intention) : list rixn :=
  match l with
  | [] => []
  | i :: r =>
      let tb := lookup_bundle (c_bundles cfg) (i_src_peer i) in
      if negb (i_src_peer i =? "") && match tb with None => true | Some _ => false end
      then to_rixns cfg http r                     (* no trust bundle (yet): fail silently *)
      else to_rixn cfg http i tb :: to_rixns cfg http r
  end.
Definition to_intermediate (cfg : config) (http : bool) (ixns : list intention) : list rixn :=
  to_rixns cfg http (remove_same_source (sort_ixns ixns)).

(* removeShadowedSourceIntentions (/repo 214d73a): an intention whose source is strictly contained
   in the source of a kept higher-precedence intention can never be the first to match and is dropped. *)
Fixpoint drop_shadowed (kept : list rsvc) (l : list rixn) : list rixn :=
  match l with
  | [] => []
  | r :: rest =>
      if existsb (fun p => ixn_source_matches (r_src r) p) kept then drop_shadowed kept rest
      else r :: drop_shadowed (kept ++ [r_src r]) rest
  end.
Definition to_intermediate_gen (repaired : bool) (cfg : config) (http : bool) (ixns : list intention) : list rixn :=
  if repaired then drop_shadowed [] (to_intermediate cfg http ixns) else to_intermediate cfg http ixns.

(* removeSourcePrecedence, the marking walk: i from the end to the front; [i] is added as
   AND NOT to every later non-skipped [j] it is a strict subset of; then [i] is marked for
   deletion when its action is the default action. *)
Definition add_not_source (x : rsvc) (y : rixn) : rixn :=
  if r_skip y then y
  else if ixn_source_matches x (r_src y)
       then RIxn (r_src y) (r_not y ++ [x])%list (r_act y) (r_perms y) (r_skip y)
       else y.
Fixpoint mark_sources (dflt : action) (l : list rixn) : list rixn :=
  match l with
  | [] => []
  | x :: rest =>
      let rest' := map (add_not_source (r_src x)) (mark_sources dflt rest) in
      (if action_eqb (r_act x) dflt
       then RIxn (r_src x) (r_not x) (r_act x) (r_perms x) true else x) :: rest'
  end.

(* makeSpiffePattern (connect.SpiffeIDService.URI: host + uriPath) *)
Definition spiffe_pat (src : rsvc) : idpat :=
  let ns := if s_ns src =? wild then SAny else SText (quote_meta (s_ns src)) in
  let svc := if s_name src =? wild then SAny else SText (quote_meta (s_name src)) in
  let ap := if s_peer src =? "" then s_ap src else s_exp_ap src in
  let apl := to_lower (or_default ap) in          (* SpiffeIDService.PartitionOrDefault *)
  let path := [SText "ns"; ns; SText "dc"; SAny; SText "svc"; svc] in
  IdPat (s_td src) (if (apl =? "") || (apl =? "default") then path else SText "ap" :: SText apl :: path).

(* makeSpiffeMeshGatewayPattern (community edition: the partition is not part of the path) *)
Definition gateway_pat (td : string) : idpat :=
  IdPat td [SText "gateway"; SText "mesh"; SText "dc"; SAny].

(* flattenPrincipalFromCert / flattenPrincipalFromXFCC *)
Definition flatten_with (mk : idpat -> principal) (r : rixn) : principal :=
  match simplify_not (r_not r) with
  | [] => mk (spiffe_pat (r_src r))
  | ns => and_principals (mk (spiffe_pat (r_src r)) :: map (fun s => PNot (mk (spiffe_pat s))) ns)
  end.

(* FlattenPrincipal *)
Definition flatten_principal (cfg : config) (expect_xfcc : bool) (r : rixn) : principal :=
  if negb expect_xfcc then flatten_with PAuth r
  else if s_peer (r_src r) =? "" then flatten_with PAuth r
  else and_principals [PAuth (gateway_pat (c_td cfg)); flatten_with PXfcc r].

Definition remove_source_precedence (dflt : action) (l : list rixn) : list rixn :=
  match l with
  | [] => []
  | _ => filter (fun r => negb (r_skip r)) (mark_sources dflt l)
  end.

(* removePermissionPrecedence: same walk, every earlier permission is subtracted *)
Definition add_not_perm (x : permission) (y : rperm) : rperm :=
  if rp_skip y then y else RPerm (rp_allow y) (rp_perm y) (rp_not y ++ [x])%list (rp_skip y).
Fixpoint mark_perms (dflt : action) (l : list rperm) : list rperm :=
  match l with
  | [] => []
  | x :: rest =>
      let rest' := map (add_not_perm (rp_perm x)) (mark_perms dflt rest) in
      (if action_eqb (action_of_bool (rp_allow x)) dflt
       then RPerm (rp_allow x) (rp_perm x) (rp_not x) true else x) :: rest'
  end.
Definition remove_permission_precedence (dflt : action) (l : list rperm) : list rperm :=
  match l with
  | [] => []
  | _ => filter (fun p => negb (rp_skip p)) (mark_perms dflt l)
  end.

(* rbacPermission.Flatten (no JWT) *)
Definition flatten_perm (p : rperm) : permission :=
  match rp_not p with
  | [] => rp_perm p
  | ns => and_permissions (rp_perm p :: map PermNot ns)
  end.

(* removeIntentionPrecedence *)
Definition remove_intention_precedence (dflt : action) (l : list rixn) : list rixn :=
  let l1 := remove_source_precedence dflt l in
  let l2 := map (fun r => RIxn (r_src r) (r_not r) (r_act r)
                               (remove_permission_precedence dflt (r_perms r)) (r_skip r)) l1 in
  filter (fun r => negb (action_eqb (r_act r) AL7 && match r_perms r with [] => true | _ => false end)) l2.

(* optimizePrincipals *)
Fixpoint collect_or (l : list principal) : option (list principal) :=
  match l with
  | [] => Some []
  | POr ids :: r => match collect_or r with Some t => Some (ids ++ t)%list | None => None end
  | _ => None
  end.
Definition optimize_principals (l : list principal) : list principal :=
  match collect_or l with Some ids => [or_principals ids] | None => l end.

(* the policy-building loop of makeRBACRules; [i] is the index in the retained list *)
Fixpoint build_policies (cfg : config) (xf : bool) (i : N) (l : list rixn)
  : list (polkey * policy) * list principal :=
  match l with
  | [] => ([], [])
  | r :: rest =>
      let '(l7, l4) := build_policies cfg xf (N.succ i) rest in
      if action_eqb (r_act r) AL7
      then ((KL7 i, Policy (optimize_principals [flatten_principal cfg xf r])
                           (map flatten_perm (r_perms r))) :: l7, l4)
      else (l7, flatten_principal cfg xf r :: l4)
  end.

(* makeRBACRules *)
Definition expect_xfcc (cfg : config) (ixns : list intention) (http : bool) : bool :=
  http && negb (List.length (c_bundles cfg) =? 0)%nat
       && existsb (fun i => negb (i_src_peer i =? "")) ixns.

Definition translate_gen (repaired : bool) (cfg : config) (ixns : list intention) (dflt_allow http : bool) : rbac :=
  let xf := expect_xfcc cfg ixns http in
  let rixns := to_intermediate_gen repaired cfg http ixns in
  let dflt := action_of_bool dflt_allow in
  let rixns := remove_intention_precedence dflt rixns in
  let '(l7, l4) := build_policies cfg xf 0 rixns in
  Rbac (negb dflt_allow)
       (l7 ++ match l4 with
              | [] => []
              | _ => [(KL4, Policy (optimize_principals l4) [PermAny])]
              end)%list.

(* makeRBACRules as it is in /repo (since 214d73a shadowed intentions are dropped) *)
Definition translate := translate_gen true.
(* makeRBACRules as it was before 214d73a: kept for the regression witness only *)
Definition translate_before_214d73a := translate_gen false.

(* ------------------------------------------------------------------ rendering (what Go emits) *)

Definition any_path : string := "[^/]+".
Definition render_seg (s : seg) : string := match s with SText t => t | SAny => any_path end.
Definition render_body (p : idpat) : string :=
  "spiffe://" ++ ip_host p ++ sconcat (map (fun s => "/" ++ render_seg s) (ip_segs p)).
Definition render_id (p : idpat) : string := "^" ++ render_body p ++ "$".
Definition render_xfcc (p : idpat) : string := "^[^,]+;URI=" ++ render_body p ++ "(?:,.*)?$".

(* ------------------------------------------------------------------ evaluation (Envoy semantics) *)

(* a SPIFFE URI as presented: host and path segments (segments never contain '/') *)
Record uri := Uri { u_host : string; u_segs : list string }.
(* the connection: URI SAN of the client certificate, URI of the first XFCC element if any *)
Record conn := Conn { cn_tls : uri; cn_xfcc : option uri }.
(* header names are lower case, ":method" is a header *)
Record request := Req { q_path : string; q_headers : list (string * string) }.

Definition seg_match (p : seg) (s : string) : bool :=
  match p with SText t => raw_match t s | SAny => negb (s =? "") end.
Definition pat_match (p : idpat) (u : uri) : bool :=
  raw_match (ip_host p) (u_host u) && forall2b seg_match (ip_segs p) (u_segs u).

Fixpoint eval_principal (c : conn) (p : principal) : bool :=
  match p with
  | PAuth pt => pat_match pt (cn_tls c)
  | PXfcc pt => match cn_xfcc c with Some u => pat_match pt u | None => false end
  | PAnd l => forallb (eval_principal c) l
  | POr l => existsb (eval_principal c) l
  | PNot q => negb (eval_principal c q)
  end.

Definition header_lookup (name : string) (q : request) : option string :=
  match find (fun kv => fst kv =? to_lower name) (q_headers q) with
  | Some kv => Some (snd kv)
  | None => None
  end.

Section Eval.
  (* safe_regex: [re pattern subject] = the pattern matches the whole subject *)
  Variable re : string -> string -> bool.

  Definition eval_sm (m : strmatch) (v : string) : bool :=
    match m with
    | SMExact s ic => if ic then to_lower s =? to_lower v else s =? v
    | SMPrefix s ic => if ic then has_prefix (to_lower s) (to_lower v) else has_prefix s v
    | SMSuffix s ic => if ic then has_suffix (to_lower s) (to_lower v) else has_suffix s v
    | SMContains s ic => if ic then str_contains (to_lower s) (to_lower v) else str_contains s v
    | SMRegex r => re r v
    end.

  (* HeaderMatcher without treat_missing_header_as_empty (consul never sets it): when the header
     is absent the value matchers are "ignored, will not match" even with invert_match; only
     present_match is inverted.  (route_components.proto, HeaderMatcher.invert_match /
     treat_missing_header_as_empty; HeaderUtility::matchHeaders.) *)
  Definition eval_header (name : string) (m : option strmatch) (inv : bool) (q : request) : bool :=
    match header_lookup name q with
    | None => match m with None => inv | Some _ => false end
    | Some v => xorb inv match m with None => true | Some sm => eval_sm sm v end
    end.

  Fixpoint eval_perm (q : request) (p : permission) : bool :=
    match p with
    | PermAny => true
    | PermPath m => eval_sm m (q_path q)
    | PermHeader n m inv => eval_header n m inv q
    | PermAnd l => forallb (eval_perm q) l
    | PermOr l => existsb (eval_perm q) l
    | PermNot r => negb (eval_perm q r)
    end.

  Definition policy_matches (c : conn) (q : request) (p : policy) : bool :=
    existsb (eval_principal c) (pol_principals p) && existsb (eval_perm q) (pol_permissions p).

  (* ALLOW: allowed iff some policy matches.  DENY: allowed iff none matches. *)
  Definition eval_rbac (r : rbac) (c : conn) (q : request) : bool :=
    let m := existsb (fun kp => policy_matches c q (snd kp)) (rb_policies r) in
    if rb_allow r then m else negb m.

  (* ---------------------------------------------------------------- the reference: precedence *)

  (* the meaning of an IntentionHTTPPermission (docs of service-intentions) *)
  Definition hdr_matches (h : hdr_perm) (q : request) : bool :=
    let on (f : string -> bool) :=
      xorb (h_invert h) match header_lookup (h_name h) q with Some v => f v | None => false end in
    let ic := h_ignore_case h in
    let norm s := if ic then to_lower s else s in
    if negb (h_exact h =? "") then on (fun v => norm (h_exact h) =? norm v)
    else if negb (h_regex h =? "") then on (fun v => re (h_regex h) v)
    else if negb (h_prefix h =? "") then on (fun v => has_prefix (norm (h_prefix h)) (norm v))
    else if negb (h_suffix h =? "") then on (fun v => has_suffix (norm (h_suffix h)) (norm v))
    else if negb (h_contains h =? "") then on (fun v => str_contains (norm (h_contains h)) (norm v))
    else if h_present h then on (fun _ => true)
    else true.

  Definition http_perm_matches (h : http_perm) (q : request) : bool :=
    (if negb (hp_path_exact h =? "") then hp_path_exact h =? q_path q
     else if negb (hp_path_prefix h =? "") then has_prefix (hp_path_prefix h) (q_path q)
     else if negb (hp_path_regex h =? "") then re (hp_path_regex h) (q_path q)
     else true)
    && forallb (fun hd => hdr_matches hd q) (hp_header h)
    && match hp_methods h with
       | [] => true
       | ms => match header_lookup ":method" q with
               | Some m => existsb (fun x => x =? m) ms
               | None => false
               end
       end.

  Definition ixn_perm_matches (p : ixn_perm) (q : request) : bool :=
    match ip_http p with None => true | Some h => http_perm_matches h q end.

  (* the decision of ONE intention on a request: L4 action; with permissions on an HTTP
     listener the first matching permission decides and no match falls to the default policy;
     permissions on a TCP listener deny. *)
  Definition decide (dflt_allow http : bool) (i : intention) (q : request) : bool :=
    match i_perms i with
    | [] => i_allow i
    | ps => if http
            then match find (fun p => ixn_perm_matches p q) ps with
                 | Some p => ip_allow p
                 | None => dflt_allow
                 end
            else false
    end.
End Eval.

(* the authenticated identity a service URI denotes.  /ap/<x> is only present for a
   non-default partition (Consul never issues /ap/default). *)
Record ident := Ident { id_td : string; id_ap : string; id_ns : string; id_dc : string; id_svc : string }.

Definition parse_service (u : uri) : option ident :=
  match u_segs u with
  | [a; ns; b; dc; c; svc] =>
      if ("ns" =? a) && ("dc" =? b) && ("svc" =? c)
         && negb (ns =? "") && negb (dc =? "") && negb (svc =? "")
      then Some (Ident (u_host u) "default" ns dc svc) else None
  | [p; ap; a; ns; b; dc; c; svc] =>
      if ("ap" =? p) && ("ns" =? a) && ("dc" =? b) && ("svc" =? c)
         && negb (ap =? "") && negb (ap =? "default")
         && negb (ns =? "") && negb (dc =? "") && negb (svc =? "")
      then Some (Ident (u_host u) ap ns dc svc) else None
  | _ => None
  end.

Definition is_gateway (td : string) (u : uri) : bool :=
  (td =? u_host u) &&
  match u_segs u with
  | [a; b; c; dc] => ("gateway" =? a) && ("mesh" =? b) && ("dc" =? c) && negb (dc =? "")
  | _ => false
  end.

(* partition a source stands for in SPIFFE IDs: its own partition, or the partition the peer exported from *)
Definition eff_ap (s : rsvc) : string :=
  to_lower (or_default (if s_peer s =? "" then s_ap s else s_exp_ap s)).

Definition src_covers (s : rsvc) (id : ident) : bool :=
  (s_td s =? id_td id) && (eff_ap s =? id_ap id)
  && ((s_ns s =? wild) || (s_ns s =? id_ns id))
  && ((s_name s =? wild) || (s_name s =? id_svc id)).

Definition covers_uri (s : rsvc) (u : uri) : bool :=
  match parse_service u with Some id => src_covers s id | None => false end.

(* Does a (resolved) source cover the connection?  Identities of the local trust domain
   and, on TCP listeners, of peers are taken from the client certificate.  On an HTTP listener
   that expects peered traffic ([xf]), a peer identity is only established by the local mesh
   gateway forwarding it in the first XFCC element. *)
Definition src_matches (cfg : config) (xf : bool) (s : rsvc) (c : conn) : bool :=
  if xf && negb (s_peer s =? "")
  then is_gateway (c_td cfg) (cn_tls c)
       && match cn_xfcc c with Some u => covers_uri s u | None => false end
  else covers_uri s (cn_tls c).

(* an intention whose peer has no trust bundle cannot be matched by anybody *)
Definition resolve (cfg : config) (i : intention) : option rsvc :=
  let tb := lookup_bundle (c_bundles cfg) (i_src_peer i) in
  if negb (i_src_peer i =? "") && match tb with None => true | Some _ => false end
  then None else Some (src_of cfg i tb).

Definition ixn_matches (cfg : config) (xf : bool) (c : conn) (i : intention) : bool :=
  match resolve cfg i with Some s => src_matches cfg xf s c | None => false end.

(* the matching intention of highest precedence: smallest under IntentionPrecedenceSorter's
   order; among intentions the sorter does not distinguish, the first in the given list *)
Fixpoint best (P : intention -> bool) (l : list intention) (acc : option intention) : option intention :=
  match l with
  | [] => acc
  | i :: r =>
      if P i
      then best P r (match acc with
                     | None => Some i
                     | Some b => if ixn_less i b then Some i else Some b
                     end)
      else best P r acc
  end.

Definition intention_allows (re : string -> string -> bool) (cfg : config) (ixns : list intention)
           (dflt_allow http : bool) (c : conn) (q : request) : bool :=
  match best (ixn_matches cfg (expect_xfcc cfg ixns http) c) ixns None with
  | Some i => decide re dflt_allow http i q
  | None => dflt_allow
  end.
