(* Order facts for C14: IntentionPrecedenceSorter's comparison is a strict weak order, the
   stable insertion sort sorts, and "first match in the sorted list" is "the smallest
   matching element, first one on ties" ([best]). *)
From Coq Require Import OrderedTypeEx Sorted.
From Verif Require Import Base.Prelude.
From Verif Require Import RBAC.Model.
Local Open Scope bool_scope.

(* ------------------------------------------------------------------ comparisons *)

Record good_cmp {A : Type} (c : A -> A -> comparison) : Prop := {
  gc_antisym : forall a b, c a b = CompOpp (c b a);
  gc_trans : forall a b d, c a b = Lt -> c b d = Lt -> c a d = Lt;
  gc_eq_l : forall a b d, c a b = Eq -> c a d = c b d }.

Lemma gc_eq_r {A} (c : A -> A -> comparison) : good_cmp c ->
  forall a b d, c a b = Eq -> c d a = c d b.
Proof.
  intros G a b d H. rewrite (gc_antisym c G d a), (gc_antisym c G d b).
  f_equal. apply (gc_eq_l c G); exact H.
Qed.

Lemma good_lex {A} (c1 c2 : A -> A -> comparison) :
  good_cmp c1 -> good_cmp c2 -> good_cmp (fun a b => lex (c1 a b) (c2 a b)).
Proof.
  intros G1 G2. split.
  - intros a b. rewrite (gc_antisym c1 G1 a b), (gc_antisym c2 G2 a b).
    destruct (c1 b a); reflexivity.
  - intros a b d Hab Hbd. unfold lex in *.
    destruct (c1 a b) eqn:E1; try discriminate.
    + rewrite (gc_eq_l c1 G1 a b d E1).
      destruct (c1 b d) eqn:E2; try discriminate; [|reflexivity].
      apply (gc_trans c2 G2 a b d); assumption.
    + destruct (c1 b d) eqn:E2; try discriminate.
      * rewrite <- (gc_eq_r c1 G1 b d a E2), E1. reflexivity.
      * rewrite (gc_trans c1 G1 a b d E1 E2). reflexivity.
  - intros a b d Hab. unfold lex in *.
    destruct (c1 a b) eqn:E1; try discriminate.
    rewrite (gc_eq_l c1 G1 a b d E1), (gc_eq_l c2 G2 a b d Hab). reflexivity.
Qed.

Lemma good_string {A} (f : A -> string) : good_cmp (fun a b => String.compare (f a) (f b)).
Proof.
  split.
  - intros a b. apply String.compare_antisym.
  - intros a b d H1 H2.
    apply String_as_OT.cmp_lt in H1. apply String_as_OT.cmp_lt in H2.
    apply String_as_OT.cmp_lt. eapply String_as_OT.lt_trans; eassumption.
  - intros a b d H. apply String.compare_eq_iff in H. rewrite H. reflexivity.
Qed.

Lemma good_N_desc {A} (f : A -> N) : good_cmp (fun a b => N.compare (f b) (f a)).
Proof.
  split.
  - intros a b. apply N.compare_antisym.
  - intros a b d H1 H2. rewrite N.compare_lt_iff in *. lia.
  - intros a b d H. apply N.compare_eq_iff in H. rewrite H. reflexivity.
Qed.

Lemma ixn_cmp_good : good_cmp ixn_cmp.
Proof.
  unfold ixn_cmp.
  repeat (apply good_lex; [first [apply good_N_desc with (f := i_prec) | apply good_string] |]).
  apply good_string.
Qed.

(* a boolean strict weak order *)
Record swo {A : Type} (lt : A -> A -> bool) : Prop := {
  swo_asym : forall a b, lt a b = true -> lt b a = false;
  swo_trans : forall a b d, lt a b = true -> lt b d = true -> lt a d = true;
  swo_ntrans : forall a b d, lt a b = false -> lt b d = false -> lt a d = false }.

Lemma swo_of_cmp {A} (c : A -> A -> comparison) :
  good_cmp c -> swo (fun a b => match c a b with Lt => true | _ => false end).
Proof.
  intros G. split.
  - intros a b H. rewrite (gc_antisym c G b a). destruct (c a b); try discriminate. reflexivity.
  - intros a b d H1 H2.
    destruct (c a b) eqn:E1; try discriminate. destruct (c b d) eqn:E2; try discriminate.
    rewrite (gc_trans c G a b d E1 E2). reflexivity.
  - intros a b d H1 H2. destruct (c a d) eqn:E; try reflexivity. exfalso.
    destruct (c a b) eqn:E1; try discriminate.
    + rewrite (gc_eq_l c G a b d E1) in E. rewrite E in H2. discriminate.
    + assert (Hba : c b a = Lt) by (rewrite (gc_antisym c G b a), E1; reflexivity).
      rewrite (gc_trans c G b a d Hba E) in H2. discriminate.
Qed.

Lemma ixn_less_swo : swo ixn_less.
Proof. exact (swo_of_cmp ixn_cmp ixn_cmp_good). Qed.

(* ------------------------------------------------------------------ insertion sort *)

Section Sort.
  Context {A : Type} (lt : A -> A -> bool) (W : swo lt).

  (* every element is not-greater than all later ones *)
  Definition sorted (l : list A) : Prop := StronglySorted (fun a b => lt b a = false) l.

  Lemma In_insert_by x l z : In z (insert_by lt x l) <-> z = x \/ In z l.
  Proof.
    induction l as [|y l IH]; cbn.
    - intuition congruence.
    - destruct (lt y x); cbn; rewrite ?IH; intuition congruence.
  Qed.

  Lemma In_sort_by l z : In z (sort_by lt l) <-> In z l.
  Proof.
    induction l as [|x l IH]; [cbn; tauto|].
    change (sort_by lt (x :: l)) with (insert_by lt x (sort_by lt l)).
    rewrite In_insert_by, IH. cbn. intuition congruence.
  Qed.

  Lemma insert_sorted x l : sorted l -> sorted (insert_by lt x l).
  Proof.
    induction 1 as [|y l Hs IH Hy]; cbn.
    - constructor; constructor.
    - destruct (lt y x) eqn:E.
      + constructor; [exact IH|].
        apply Forall_forall. intros z Hz. apply In_insert_by in Hz as [->|Hz].
        * apply (swo_asym lt W); exact E.
        * rewrite Forall_forall in Hy. apply Hy; exact Hz.
      + constructor; [constructor; assumption|].
        constructor; [exact E|].
        apply Forall_forall. intros z Hz. rewrite Forall_forall in Hy.
        apply (swo_ntrans lt W z y x); [apply Hy; exact Hz | exact E].
  Qed.

  Lemma sort_sorted l : sorted (sort_by lt l).
  Proof.
    induction l as [|x l IH]; [constructor|].
    change (sort_by lt (x :: l)) with (insert_by lt x (sort_by lt l)). apply insert_sorted; exact IH.
  Qed.

  (* the smallest P-element, computed from the right: x wins unless a later one is strictly smaller *)
  Fixpoint rmin (P : A -> bool) (l : list A) : option A :=
    match l with
    | [] => None
    | x :: r =>
        if P x then match rmin P r with
                    | None => Some x
                    | Some b => if lt b x then Some b else Some x
                    end
        else rmin P r
    end.

  Lemma find_insert P x l : sorted l ->
    find P (insert_by lt x l) =
    if P x then match find P l with
                | None => Some x
                | Some b => if lt b x then Some b else Some x
                end
    else find P l.
  Proof.
    induction 1 as [|y l Hs IH Hy]; cbn.
    - destruct (P x); reflexivity.
    - destruct (lt y x) eqn:E; cbn.
      + destruct (P y) eqn:Py.
        * destruct (P x); [rewrite E|]; reflexivity.
        * exact IH.
      + destruct (P x) eqn:Px; [|reflexivity].
        destruct (P y) eqn:Py; [rewrite E; reflexivity|].
        destruct (find P l) as [b|] eqn:F; [|reflexivity].
        apply find_some in F as [Hb _]. rewrite Forall_forall in Hy.
        rewrite (swo_ntrans lt W b y x (Hy b Hb) E). reflexivity.
  Qed.

  Lemma find_sort P l : find P (sort_by lt l) = rmin P l.
  Proof.
    induction l as [|x l IH]; [reflexivity|].
    change (sort_by lt (x :: l)) with (insert_by lt x (sort_by lt l)).
    rewrite find_insert by apply sort_sorted. rewrite IH. reflexivity.
  Qed.

  (* the left-to-right formulation: keep the best so far, replace it only by a strictly smaller one *)
  Fixpoint best_by (P : A -> bool) (l : list A) (acc : option A) : option A :=
    match l with
    | [] => acc
    | i :: r =>
        if P i
        then best_by P r (match acc with
                          | None => Some i
                          | Some b => if lt i b then Some i else Some b
                          end)
        else best_by P r acc
    end.

  Lemma best_by_some P l a :
    best_by P l (Some a) =
    match rmin P l with
    | None => Some a
    | Some b => if lt b a then Some b else Some a
    end.
  Proof.
    revert a; induction l as [|x l IH]; intros a; cbn; [reflexivity|].
    destruct (P x) eqn:Px; [|apply IH].
    destruct (lt x a) eqn:Exa; rewrite IH; destruct (rmin P l) as [b|] eqn:R.
    - destruct (lt b x) eqn:Ebx.
      + rewrite (swo_trans lt W b x a Ebx Exa). reflexivity.
      + rewrite Exa. reflexivity.
    - rewrite Exa. reflexivity.
    - destruct (lt b x) eqn:Ebx.
      + reflexivity.
      + rewrite Exa. rewrite (swo_ntrans lt W b x a Ebx Exa). reflexivity.
    - rewrite Exa. reflexivity.
  Qed.

  Lemma best_by_none P l : best_by P l None = rmin P l.
  Proof.
    induction l as [|x l IH]; cbn; [reflexivity|].
    destruct (P x); [|exact IH]. rewrite best_by_some. reflexivity.
  Qed.

  Theorem find_sort_best P l : find P (sort_by lt l) = best_by P l None.
  Proof. rewrite find_sort, best_by_none. reflexivity. Qed.
End Sort.

Lemma best_is_best_by P l acc : best P l acc = best_by ixn_less P l acc.
Proof. revert acc; induction l as [|x l IH]; intros acc; cbn; [reflexivity|]. destruct (P x); apply IH. Qed.

Theorem find_sorted_is_best P l : find P (sort_ixns l) = best P l None.
Proof. rewrite best_is_best_by. apply find_sort_best. exact ixn_less_swo. Qed.

Lemma sort_ixns_sorted l : sorted ixn_less (sort_ixns l).
Proof. apply sort_sorted. exact ixn_less_swo. Qed.

Lemma In_sort_ixns l i : In i (sort_ixns l) <-> In i l.
Proof. apply In_sort_by. Qed.
