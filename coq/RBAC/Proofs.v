(* C14: the RBAC rule set produced by [translate] against the precedence decision.

   Main results
     equiv                 eval_rbac (translate ..) = intention_allows ..  for the translator of /repo HEAD (with
                           removeShadowedSourceIntentions, 214d73a): no hypothesis on the precedence order
     inverted_header_witness   the full statement still fails for an inverted header value matcher and a request without the header
     equiv_before_repair, nondefault_kept_before_repair, superset_witness   the translator before 214d73a (regression)
     regex_regression      `web.v1` no longer admits `webxv1` (d976793) *)
From Coq Require Import Btauto Sorted.
From Verif Require Import Base.Prelude.
From Verif Require Import RBAC.Model.
From Verif Require Import RBAC.Order.
From Verif Require Import RBAC.Patterns.
From Verif Require Import RBAC.Perms.
Local Open Scope string_scope.
Local Open Scope bool_scope.
Local Open Scope list_scope.

(* ------------------------------------------------------------------ small list facts *)

Lemma forallb_same_members {A} (g : A -> bool) l1 l2 :
  (forall x, In x l1 <-> In x l2) -> forallb g l1 = forallb g l2.
Proof.
  intros H. destruct (forallb g l1) eqn:E1.
  - symmetry. apply forallb_forall. intros x Hx. rewrite forallb_forall in E1. apply E1, H, Hx.
  - destruct (forallb g l2) eqn:E2; [|reflexivity].
    rewrite forallb_forall in E2.
    assert (forallb g l1 = true) by (apply forallb_forall; intros x Hx; apply E2, H, Hx). congruence.
Qed.

Lemma forallb_ext_in_bool {A} (f g : A -> bool) l :
  (forall x, In x l -> f x = g x) -> forallb f l = forallb g l.
Proof.
  induction l as [|x l IH]; intros H; cbn; [reflexivity|].
  rewrite (H x (or_introl eq_refl)), IH; [reflexivity|]. intros y Hy. apply H. right; exact Hy.
Qed.

Lemma existsb_filter_implied {A} (f g : A -> bool) l :
  (forall x, f x = true -> g x = true) -> existsb f (filter g l) = existsb f l.
Proof.
  intros H. induction l as [|x l IH]; cbn; [reflexivity|].
  destruct (g x) eqn:G; cbn; rewrite IH; [reflexivity|].
  destruct (f x) eqn:F; [|reflexivity]. rewrite (H x F) in G. discriminate.
Qed.

Lemma existsb_map {A B} (f : B -> bool) (h : A -> B) l : existsb f (map h l) = existsb (fun x => f (h x)) l.
Proof. induction l as [|x l IH]; cbn; [reflexivity|]. rewrite IH. reflexivity. Qed.

Lemma find_map {A B} (f : B -> bool) (h : A -> B) l :
  find f (map h l) = option_map h (find (fun x => f (h x)) l).
Proof. induction l as [|x l IH]; cbn; [reflexivity|]. destruct (f (h x)); [reflexivity|exact IH]. Qed.

Lemma find_ext_in {A} (f g : A -> bool) l :
  (forall x, In x l -> f x = g x) -> find f l = find g l.
Proof.
  induction l as [|x l IH]; intros H; cbn; [reflexivity|].
  rewrite (H x (or_introl eq_refl)), IH; [reflexivity|]. intros y Hy. apply H. right; exact Hy.
Qed.

Lemma FOP_strongly_sorted {A} (R : A -> A -> Prop) l : StronglySorted R l -> ForallOrdPairs R l.
Proof. induction 1; constructor; assumption. Qed.

Lemma FOP_impl {A} (R S : A -> A -> Prop) l :
  (forall a b, In a l -> In b l -> R a b -> S a b) -> ForallOrdPairs R l -> ForallOrdPairs S l.
Proof.
  intros H F. induction F as [|a l Ha F IH]; constructor.
  - apply Forall_forall. intros b Hb. rewrite Forall_forall in Ha. apply H; cbn; auto.
  - apply IH. intros x y Hx Hy. apply H; cbn; auto.
Qed.

(* ------------------------------------------------------------------ principals *)

Lemma eval_and_principals c l : eval_principal c (and_principals l) = forallb (eval_principal c) l.
Proof. destruct l as [|x [|y l]]; cbn; try reflexivity. rewrite andb_true_r. reflexivity. Qed.

Lemma eval_or_principals c l : eval_principal c (or_principals l) = existsb (eval_principal c) l.
Proof. destruct l as [|x [|y l]]; cbn; try reflexivity. rewrite orb_false_r. reflexivity. Qed.

Lemma collect_or_sem c l ids :
  collect_or l = Some ids -> existsb (eval_principal c) l = existsb (eval_principal c) ids.
Proof.
  revert ids; induction l as [|p l IH]; intros ids H; cbn in H.
  - injection H as <-. reflexivity.
  - destruct p; try discriminate. destruct (collect_or l) as [t|]; [|discriminate].
    injection H as <-. cbn. rewrite existsb_app, (IH t eq_refl). reflexivity.
Qed.

Lemma optimize_sem c l :
  existsb (eval_principal c) (optimize_principals l) = existsb (eval_principal c) l.
Proof.
  unfold optimize_principals. destruct (collect_or l) as [ids|] eqn:E; [|reflexivity].
  cbn. rewrite orb_false_r, eval_or_principals. symmetry. apply collect_or_sem; exact E.
Qed.

(* ------------------------------------------------------------------ sources and connections *)

Definition consistent (a b : rsvc) : Prop :=
  s_peer a = s_peer b -> s_td a = s_td b /\ s_exp_ap a = s_exp_ap b.

(* ixnSourceMatches is sound: a matched tester covers nothing its "against" does not cover *)
Lemma covers_subset a b u :
  consistent a b -> ixn_source_matches a b = true -> covers_uri a u = true -> covers_uri b u = true.
Proof.
  intros Hc Hm. unfold covers_uri. destruct (parse_service u) as [id|]; [|discriminate].
  unfold ixn_source_matches in Hm.
  destruct (count_wild a =? count_wild b)%N; [discriminate|].
  destruct (count_wild b <? count_wild a)%N; [discriminate|].
  apply andb_true_iff in Hm as [Hm Hname]. apply andb_true_iff in Hm as [Hm Hns].
  apply andb_true_iff in Hm as [Hap Hpeer].
  apply String.eqb_eq in Hap, Hpeer. destruct (Hc Hpeer) as [Htd Hexp].
  unfold src_covers, eff_ap. rewrite <- Htd, <- Hexp, <- Hap, <- Hpeer.
  intros H. apply andb_true_iff in H as [H Hn]. apply andb_true_iff in H as [H Hs].
  rewrite H. cbn [andb]. apply andb_true_iff. split.
  - apply orb_true_iff in Hns as [E|E]; [|rewrite E; reflexivity].
    apply String.eqb_eq in E. rewrite <- E. exact Hs.
  - apply orb_true_iff in Hname as [E|E]; [|rewrite E; reflexivity].
    apply String.eqb_eq in E. rewrite <- E. exact Hn.
Qed.

Section Conn.
  Variable cfg : config.
  Variable c : conn.

  (* a configured trust domain, read as regex text, matches a presented host iff it IS that host *)
  Definition host_ok (t : string) : Prop :=
    raw_match t (u_host (cn_tls c)) = (t =? u_host (cn_tls c)) /\
    (forall u, cn_xfcc c = Some u -> raw_match t (u_host u) = (t =? u_host u)).

  Let ctls (s : rsvc) : bool := covers_uri s (cn_tls c).
  Let cx (s : rsvc) : bool := match cn_xfcc c with Some u => covers_uri s u | None => false end.

  (* everything assumed of a set of (resolved) sources *)
  Record srcs_ok (S : list rsvc) : Prop := {
    so_wf : forall s, In s S -> wf_src s;
    so_lit : forall s, In s S -> lit_src s;
    so_host : forall s, In s S -> host_ok (s_td s);
    so_cons : forall a b, In a S -> In b S -> consistent a b;
    so_sep : forall a b, In a S -> In b S -> s_peer a <> s_peer b -> s_td a <> s_td b }.

  Lemma src_matches_subset xf a b :
    consistent a b -> ixn_source_matches a b = true ->
    src_matches cfg xf a c = true -> src_matches cfg xf b c = true.
  Proof.
    intros Hc Hm. unfold src_matches.
    assert (Hp : s_peer a = s_peer b).
    { unfold ixn_source_matches in Hm.
      destruct (count_wild a =? count_wild b)%N; [discriminate|].
      destruct (count_wild b <? count_wild a)%N; [discriminate|].
      apply andb_true_iff in Hm as [Hm _]. apply andb_true_iff in Hm as [Hm _].
      apply andb_true_iff in Hm as [_ Hp]. apply String.eqb_eq in Hp. exact Hp. }
    rewrite <- Hp. destruct (xf && negb (s_peer a =? "")).
    - intros H. apply andb_true_iff in H as [Hg H]. rewrite Hg. cbn [andb].
      destruct (cn_xfcc c) as [u|]; [|discriminate]. eapply covers_subset; eassumption.
    - apply covers_subset; assumption.
  Qed.

  Lemma eval_auth s : wf_src s -> lit_src s -> host_ok (s_td s) ->
    eval_principal c (PAuth (spiffe_pat s)) = ctls s.
  Proof. intros W L [H _]. cbn. apply spiffe_pat_covers; assumption. Qed.

  Lemma eval_xfcc s : wf_src s -> lit_src s -> host_ok (s_td s) ->
    eval_principal c (PXfcc (spiffe_pat s)) = cx s.
  Proof.
    intros W L [_ H]. cbn. unfold cx. destruct (cn_xfcc c) as [u|] eqn:E; [|reflexivity].
    apply spiffe_pat_covers; auto.
  Qed.

  (* simplifyNotSourceSlice keeps the meaning of a conjunction of negations *)
  Lemma In_keep_unmatched x l : In x (keep_unmatched l) -> In x l.
  Proof.
    induction l as [|y l IH]; cbn; [tauto|].
    destruct (existsb (fun sj => ixn_source_matches y sj) l); cbn; intuition.
  Qed.

  Lemma In_simplify_not x l : In x (simplify_not l) -> In x l.
  Proof.
    unfold simplify_not. destruct (List.length l <=? 1)%nat; [tauto|].
    intros H. apply In_keep_unmatched in H. apply In_sort_by in H. exact H.
  Qed.

  Lemma keep_unmatched_sem (f : rsvc -> bool) l :
    (forall a b, In a l -> In b l -> ixn_source_matches a b = true -> f a = true -> f b = true) ->
    forallb (fun n => negb (f n)) (keep_unmatched l) = forallb (fun n => negb (f n)) l.
  Proof.
    induction l as [|x l IH]; intros H; cbn; [reflexivity|].
    assert (IH' : forallb (fun n => negb (f n)) (keep_unmatched l) = forallb (fun n => negb (f n)) l)
      by (apply IH; intros a b Ha Hb; apply H; cbn; auto).
    destruct (existsb (fun sj => ixn_source_matches x sj) l) eqn:E; cbn; rewrite IH'; [|reflexivity].
    destruct (forallb (fun n => negb (f n)) l) eqn:F; [|rewrite andb_false_r; reflexivity].
    apply existsb_exists in E as (y & Hy & Hxy).
    rewrite forallb_forall in F. specialize (F y Hy).
    destruct (f x) eqn:Fx; [|reflexivity].
    rewrite (H x y (or_introl eq_refl) (or_intror Hy) Hxy Fx) in F. discriminate.
  Qed.

  Lemma simplify_not_sem (f : rsvc -> bool) l :
    (forall a b, In a l -> In b l -> ixn_source_matches a b = true -> f a = true -> f b = true) ->
    forallb (fun n => negb (f n)) (simplify_not l) = forallb (fun n => negb (f n)) l.
  Proof.
    intros H. unfold simplify_not. destruct (List.length l <=? 1)%nat; [reflexivity|].
    rewrite keep_unmatched_sem.
    - apply forallb_same_members. intros x. apply In_sort_by.
    - intros a b Ha Hb. apply H; apply In_sort_by in Ha, Hb; assumption.
  Qed.

  Lemma forallb_map_not (mk : idpat -> principal) (f : rsvc -> bool) l :
    (forall s, In s l -> eval_principal c (mk (spiffe_pat s)) = f s) ->
    forallb (eval_principal c) (map (fun s => PNot (mk (spiffe_pat s))) l) = forallb (fun n => negb (f n)) l.
  Proof.
    induction l as [|y l IH]; intros H; cbn; [reflexivity|].
    rewrite (H y (or_introl eq_refl)), IH; [reflexivity|]. intros s Hs. apply H. right; exact Hs.
  Qed.

  Lemma eval_flatten_with (mk : idpat -> principal) (f : rsvc -> bool) r :
    (forall s, In s (r_src r :: r_not r) -> eval_principal c (mk (spiffe_pat s)) = f s) ->
    (forall a b, In a (r_not r) -> In b (r_not r) -> ixn_source_matches a b = true -> f a = true -> f b = true) ->
    eval_principal c (flatten_with mk r) = f (r_src r) && forallb (fun n => negb (f n)) (r_not r).
  Proof.
    intros Hmk Hsub. rewrite <- (simplify_not_sem f (r_not r) Hsub).
    unfold flatten_with.
    assert (Hin : forall s, In s (simplify_not (r_not r)) -> eval_principal c (mk (spiffe_pat s)) = f s)
      by (intros s Hs; apply Hmk; right; apply In_simplify_not; exact Hs).
    destruct (simplify_not (r_not r)) as [|n ns].
    - cbn. rewrite andb_true_r. apply Hmk. left; reflexivity.
    - rewrite eval_and_principals.
      change (forallb (eval_principal c) (mk (spiffe_pat (r_src r)) :: map (fun s => PNot (mk (spiffe_pat s))) (n :: ns)))
        with (eval_principal c (mk (spiffe_pat (r_src r)))
              && forallb (eval_principal c) (map (fun s => PNot (mk (spiffe_pat s))) (n :: ns))).
      rewrite (Hmk (r_src r) (or_introl eq_refl)), (forallb_map_not mk f (n :: ns) Hin). reflexivity.
  Qed.

  Lemma eval_flatten_principal xf S r :
    srcs_ok S -> host_ok (c_td cfg) ->
    (forall s, In s (r_src r :: r_not r) -> In s S) ->
    (forall n, In n (r_not r) -> s_peer n = s_peer (r_src r)) ->
    eval_principal c (flatten_principal cfg xf r)
    = src_matches cfg xf (r_src r) c && forallb (fun n => negb (src_matches cfg xf n c)) (r_not r).
  Proof.
    intros OK Hgw Hin Hpeer.
    assert (Hsubc : forall u a b, In a (r_not r) -> In b (r_not r) -> ixn_source_matches a b = true ->
                                  covers_uri a u = true -> covers_uri b u = true).
    { intros u a b Ha Hb. apply covers_subset. apply (so_cons S OK); apply Hin; right; assumption. }
    assert (Hcert : eval_principal c (flatten_with PAuth r)
                    = ctls (r_src r) && forallb (fun n => negb (ctls n)) (r_not r)).
    { apply eval_flatten_with.
      - intros s Hs. apply eval_auth; [apply (so_wf S OK)|apply (so_lit S OK)|apply (so_host S OK)]; auto.
      - intros a b Ha Hb. apply Hsubc; assumption. }
    unfold flatten_principal, src_matches.
    destruct xf; cbn [negb andb].
    2:{ exact Hcert. }
    destruct (s_peer (r_src r) =? "") eqn:Ep; cbn [negb].
    - rewrite Hcert. f_equal. apply forallb_ext_in_bool.
      intros n Hn. rewrite (Hpeer n Hn), Ep. reflexivity.
    - rewrite eval_and_principals. cbn [forallb]. rewrite andb_true_r.
      change (eval_principal c (PAuth (gateway_pat (c_td cfg)))) with (pat_match (gateway_pat (c_td cfg)) (cn_tls c)).
      rewrite (gateway_pat_is_gateway _ _ (proj1 Hgw)).
      rewrite (eval_flatten_with PXfcc cx).
      + destruct (is_gateway (c_td cfg) (cn_tls c)); cbn [andb]; [|reflexivity].
        unfold cx. f_equal. apply forallb_ext_in_bool.
        intros n Hn. rewrite (Hpeer n Hn), Ep. reflexivity.
      + intros s Hs. apply eval_xfcc; [apply (so_wf S OK)|apply (so_lit S OK)|apply (so_host S OK)]; auto.
      + intros a b Ha Hb. unfold cx. destruct (cn_xfcc c) as [u|]; [|discriminate]. apply Hsubc; assumption.
  Qed.

  (* ---------------------------------------------------------------- overlapping sources are comparable *)

  Definition skey (s : rsvc) : string * string * string * string := (s_ap s, s_ns s, s_name s, s_peer s).

  Lemma or_default_id x : x <> "" -> or_default x = x.
  Proof. intros H. unfold or_default. destruct (x =? "") eqn:E; [apply String.eqb_eq in E; contradiction|reflexivity]. Qed.

  Lemma eff_ap_wf s : wf_src s -> eff_ap s = if s_peer s =? "" then s_ap s else to_lower (or_default (s_exp_ap s)).
  Proof.
    intros (_ & _ & Hap & _ & Hlow & _). unfold eff_ap. destruct (s_peer s =? ""); [|reflexivity].
    rewrite (or_default_id _ Hap). exact Hlow.
  Qed.

  Ltac ism_true :=
    unfold ixn_source_matches, count_wild;
    repeat match goal with H : (_ =? _) = _ |- _ => rewrite H end;
    repeat match goal with |- context [if (?x =? wild) then _ else _] => destruct (x =? wild) end;
    cbn; rewrite ?String.eqb_refl, ?orb_true_r; reflexivity.

  Lemma covers_both a b u :
    wf_src a -> wf_src b -> consistent a b -> s_peer a = s_peer b ->
    covers_uri a u = true -> covers_uri b u = true ->
    skey a = skey b \/ ixn_source_matches a b = true \/ ixn_source_matches b a = true.
  Proof.
    intros Wa Wb Hc Hp. unfold covers_uri. destruct (parse_service u) as [id|]; [|discriminate].
    unfold src_covers. rewrite (eff_ap_wf a Wa), (eff_ap_wf b Wb).
    destruct (Hc Hp) as [_ Hexp]. rewrite <- Hp, <- Hexp.
    intros Ha Hb.
    apply andb_true_iff in Ha as [Ha Hna]. apply andb_true_iff in Ha as [Ha Hsa]. apply andb_true_iff in Ha as [_ Hapa].
    apply andb_true_iff in Hb as [Hb Hnb]. apply andb_true_iff in Hb as [Hb Hsb]. apply andb_true_iff in Hb as [_ Hapb].
    assert (Hap : s_ap a = s_ap b).
    { destruct Wa as (_ & _ & _ & _ & _ & Pa). destruct Wb as (_ & _ & _ & _ & _ & Pb).
      destruct (String.eqb_spec (s_peer a) "") as [E|E].
      - apply String.eqb_eq in Hapa, Hapb. congruence.
      - rewrite (Pa E). rewrite Hp in E. rewrite (Pb E). reflexivity. }
    assert (Eap : (s_ap a =? s_ap b) = true) by (rewrite Hap; apply String.eqb_refl).
    assert (Eap' : (s_ap b =? s_ap a) = true) by (rewrite Hap; apply String.eqb_refl).
    assert (Epe : (s_peer a =? s_peer b) = true) by (rewrite Hp; apply String.eqb_refl).
    assert (Epe' : (s_peer b =? s_peer a) = true) by (rewrite Hp; apply String.eqb_refl).
    destruct Wa as (_ & _ & _ & Wa & _ & _). destruct Wb as (_ & _ & _ & Wb & _ & _).
    clear Hapa Hapb.
    destruct (s_ns a =? wild) eqn:Ena; destruct (s_ns b =? wild) eqn:Enb.
    - (* both */* *)
      left. apply String.eqb_eq in Ena, Enb. unfold skey. rewrite Hap, Hp, Ena, Enb, (Wa Ena), (Wb Enb). reflexivity.
    - right; right.
      assert (Ema : (s_name a =? wild) = true) by (apply String.eqb_eq, Wa, String.eqb_eq, Ena).
      ism_true.
    - right; left.
      assert (Emb : (s_name b =? wild) = true) by (apply String.eqb_eq, Wb, String.eqb_eq, Enb).
      ism_true.
    - cbn [orb] in Hsa, Hsb. apply String.eqb_eq in Hsa, Hsb.
      assert (Hns : s_ns a = s_ns b) by congruence.
      assert (Ens : (s_ns a =? s_ns b) = true) by (rewrite Hns; apply String.eqb_refl).
      assert (Ens' : (s_ns b =? s_ns a) = true) by (rewrite Hns; apply String.eqb_refl).
      destruct (s_name a =? wild) eqn:Ema; destruct (s_name b =? wild) eqn:Emb.
      + left. apply String.eqb_eq in Ema, Emb. unfold skey. rewrite Hap, Hp, Hns, Ema, Emb. reflexivity.
      + right; right. ism_true.
      + right; left. ism_true.
      + left. cbn [orb] in Hna, Hnb. apply String.eqb_eq in Hna, Hnb.
        unfold skey. rewrite Hap, Hp, Hns. replace (s_name a) with (s_name b) by congruence. reflexivity.
  Qed.

  Lemma covers_td s u : covers_uri s u = true -> exists id, parse_service u = Some id /\ s_td s = id_td id.
  Proof.
    unfold covers_uri. destruct (parse_service u) as [id|]; [|discriminate].
    intros H. exists id. split; [reflexivity|].
    unfold src_covers in H. apply andb_true_iff in H as [H _]. apply andb_true_iff in H as [H _].
    apply andb_true_iff in H as [H _]. apply String.eqb_eq in H. exact H.
  Qed.

  Lemma trichotomy xf S a b :
    srcs_ok S -> In a S -> In b S ->
    src_matches cfg xf a c = true -> src_matches cfg xf b c = true ->
    skey a = skey b \/ ixn_source_matches a b = true \/ ixn_source_matches b a = true.
  Proof.
    intros OK Ha Hb.
    pose proof (so_wf S OK a Ha) as Wa. pose proof (so_wf S OK b Hb) as Wb.
    pose proof (so_cons S OK a b Ha Hb) as Hc.
    destruct (String.eqb_spec (s_peer a) (s_peer b)) as [Hp|Hp].
    - unfold src_matches. rewrite <- Hp. destruct (xf && negb (s_peer a =? "")).
      + intros H1 H2. apply andb_true_iff in H1 as [_ H1]. apply andb_true_iff in H2 as [_ H2].
        destruct (cn_xfcc c) as [u|]; [|discriminate]. eapply covers_both; eassumption.
      + apply covers_both; assumption.
    - pose proof (so_sep S OK a b Ha Hb Hp) as Htd. unfold src_matches.
      intros H1 H2. exfalso.
      destruct (xf && negb (s_peer a =? "")); destruct (xf && negb (s_peer b =? "")).
      + apply andb_true_iff in H1 as [_ H1]. apply andb_true_iff in H2 as [_ H2].
        destruct (cn_xfcc c) as [u|]; [|discriminate].
        apply covers_td in H1 as (i1 & P1 & T1). apply covers_td in H2 as (i2 & P2 & T2). congruence.
      + apply andb_true_iff in H1 as [G _]. apply gateway_not_service in G.
        apply covers_td in H2 as (i2 & P2 & _). congruence.
      + apply andb_true_iff in H2 as [G _]. apply gateway_not_service in G.
        apply covers_td in H1 as (i1 & P1 & _). congruence.
      + apply covers_td in H1 as (i1 & P1 & T1). apply covers_td in H2 as (i2 & P2 & T2). congruence.
  Qed.
End Conn.

(* ------------------------------------------------------------------ the precedence-removal passes *)

Lemma existsb_filter {A} (f g : A -> bool) l :
  existsb f (filter g l) = existsb (fun x => g x && f x) l.
Proof. induction l as [|x l IH]; cbn; [reflexivity|]. destruct (g x); cbn; rewrite IH; reflexivity. Qed.

Lemma existsb_ext_in {A} (f g : A -> bool) l :
  (forall x, In x l -> f x = g x) -> existsb f l = existsb g l.
Proof.
  induction l as [|x l IH]; intros H; cbn; [reflexivity|].
  rewrite (H x (or_introl eq_refl)), IH; [reflexivity|]. intros y Hy. apply H. right; exact Hy.
Qed.

Section Core.
  Variable re : string -> string -> bool.
  Hypothesis re_methods : re_alternation re.
  Variable cfg : config.
  Variable xf : bool.
  Variable c : conn.
  Variable q : request.
  Variable dflt_allow : bool.
  Let dflt := action_of_bool dflt_allow.
  Let m (s : rsvc) : bool := src_matches cfg xf s c.

  Definition fresh_rixn (r : rixn) : Prop :=
    r_not r = [] /\ r_skip r = false /\ Forall fresh_perm (r_perms r).

  (* the marking walk of removeSourcePrecedence told from the left: [pre] = the sources before *)
  Fixpoint mark_sources_spec (pre : list rsvc) (l : list rixn) : list rixn :=
    match l with
    | [] => []
    | x :: r =>
        (if action_eqb (r_act x) dflt
         then RIxn (r_src x) (r_not x) (r_act x) (r_perms x) true
         else RIxn (r_src x) (r_not x ++ filter (fun s => ixn_source_matches s (r_src x)) (rev pre))
                   (r_act x) (r_perms x) (r_skip x))
          :: mark_sources_spec (pre ++ [r_src x]) r
    end.

  Lemma add_not_source_spec s pre l :
    Forall fresh_rixn l ->
    map (add_not_source s) (mark_sources_spec pre l) = mark_sources_spec (s :: pre) l.
  Proof.
    revert pre; induction l as [|x l IH]; intros pre Hf; [reflexivity|].
    inversion Hf as [|? ? (Hn & Hs & _) Hf']; subst.
    cbn [mark_sources_spec map]. rewrite (IH (pre ++ [r_src x]) Hf'). f_equal.
    destruct (action_eqb (r_act x) dflt); unfold add_not_source; cbn [r_skip r_src r_not r_act r_perms].
    - reflexivity.
    - rewrite Hs. cbn [rev]. rewrite filter_app. cbn [filter].
      destruct (ixn_source_matches s (r_src x)).
      + rewrite <- app_assoc. reflexivity.
      + rewrite app_nil_r. reflexivity.
  Qed.

  Lemma mark_sources_is_spec l : Forall fresh_rixn l -> mark_sources dflt l = mark_sources_spec [] l.
  Proof.
    induction l as [|x l IH]; intros Hf; [reflexivity|].
    inversion Hf as [|? ? (Hn & Hs & _) Hf']; subst.
    cbn [mark_sources mark_sources_spec]. rewrite (IH Hf'), (add_not_source_spec _ _ _ Hf'). f_equal.
    destruct (action_eqb (r_act x) dflt); [reflexivity|].
    destruct x as [s n a p k]; cbn in *. subst. reflexivity.
  Qed.

  (* the decision of one intermediate intention on the request, and "it is not the default" *)
  Definition verdict (r : rixn) : bool :=
    match r_act r with
    | AAllow => true
    | ADeny => false
    | AL7 => match find (fun p => eval_perm re q (rp_perm p)) (r_perms r) with
             | Some p => rp_allow p
             | None => dflt_allow
             end
    end.
  Definition vnd (r : rixn) : bool := xorb dflt_allow (verdict r).

  Definition contrib (r : rixn) : bool :=
    negb (r_skip r) && (m (r_src r) && forallb (fun n => negb (m n)) (r_not r)) && vnd r.

  Lemma default_action_vnd r : action_eqb (r_act r) dflt = true -> vnd r = false.
  Proof.
    unfold vnd, verdict, dflt. destruct (r_act r), dflt_allow; cbn; try discriminate; reflexivity.
  Qed.

  Lemma l4_nondefault_vnd r :
    action_eqb (r_act r) dflt = false -> action_eqb (r_act r) AL7 = false -> vnd r = true.
  Proof.
    unfold vnd, verdict, dflt. destruct (r_act r), dflt_allow; cbn; try discriminate; reflexivity.
  Qed.

  (* a matching earlier source that contains every later matching source blocks everything later *)
  Lemma core_blocked l pre s :
    Forall fresh_rixn l -> In s pre -> m s = true ->
    (forall y, In y l -> m (r_src y) = true -> ixn_source_matches s (r_src y) = true) ->
    existsb contrib (mark_sources_spec pre l) = false.
  Proof.
    revert pre; induction l as [|x l IH]; intros pre Hf Hs Hm Hlam; [reflexivity|].
    inversion Hf as [|? ? (Hn & Hk & _) Hf']; subst.
    cbn [mark_sources_spec existsb].
    rewrite (IH (pre ++ [r_src x]) Hf').
    2:{ apply in_or_app; left; exact Hs. }
    2:{ exact Hm. }
    2:{ intros y Hy. apply Hlam. right; exact Hy. }
    rewrite orb_false_r. unfold contrib.
    destruct (action_eqb (r_act x) dflt); cbn [r_skip r_src r_not negb andb]; [reflexivity|].
    rewrite Hk, Hn. cbn [negb andb app].
    destruct (m (r_src x)) eqn:Mx; [|reflexivity]. cbn [andb].
    assert (Hin : In s (filter (fun s0 => ixn_source_matches s0 (r_src x)) (rev pre))).
    { apply filter_In. split.
      - apply in_rev in Hs. exact Hs.
      - apply Hlam; [left; reflexivity|exact Mx]. }
    assert (Hall : forallb (fun n => negb (m n)) (filter (fun s0 => ixn_source_matches s0 (r_src x)) (rev pre)) = false).
    { apply not_true_iff_false. intros Hall. rewrite forallb_forall in Hall. specialize (Hall s Hin).
      rewrite Hm in Hall. discriminate. }
    rewrite Hall. reflexivity.
  Qed.

  Definition laminar (l : list rixn) : Prop :=
    ForallOrdPairs (fun x y => m (r_src x) = true -> m (r_src y) = true ->
                               ixn_source_matches (r_src x) (r_src y) = true) l.

  Lemma pre_all_false pre x :
    (forall s, In s pre -> m s = false) ->
    forallb (fun n => negb (m n)) (filter (fun s0 => ixn_source_matches s0 (r_src x)) (rev pre)) = true.
  Proof.
    intros H. apply forallb_forall. intros n Hn. apply filter_In in Hn as [Hn _].
    apply in_rev in Hn. rewrite (H n Hn). reflexivity.
  Qed.

  Lemma core_main l pre :
    Forall fresh_rixn l -> (forall s, In s pre -> m s = false) -> laminar l ->
    existsb contrib (mark_sources_spec pre l) =
    match find (fun r => m (r_src r)) l with Some r => vnd r | None => false end.
  Proof.
    revert pre; induction l as [|x l IH]; intros pre Hf Hpre Hlam; [reflexivity|].
    inversion Hf as [|? ? (Hn & Hk & _) Hf']; subst.
    inversion Hlam as [|? ? Hx Hlam']; subst.
    cbn [mark_sources_spec existsb find].
    destruct (m (r_src x)) eqn:Mx.
    - (* x is the first intention matching the connection *)
      assert (Hblock : existsb contrib (mark_sources_spec (pre ++ [r_src x]) l) = false).
      { apply (core_blocked l _ (r_src x) Hf').
        - apply in_or_app; right; left; reflexivity.
        - exact Mx.
        - intros y Hy My. rewrite Forall_forall in Hx. apply Hx; auto. }
      rewrite Hblock, orb_false_r. unfold contrib.
      destruct (action_eqb (r_act x) dflt) eqn:Ea; cbn [r_skip r_src r_not negb andb].
      + symmetry. apply default_action_vnd; exact Ea.
      + rewrite Hk, Hn, Mx. cbn [negb andb app]. rewrite (pre_all_false pre x Hpre). reflexivity.
    - rewrite <- (IH (pre ++ [r_src x]) Hf'); [|intros s Hs; apply in_app_or in Hs as [Hs|[<-|[]]]; auto|exact Hlam'].
      replace (contrib _) with false; [reflexivity|].
      unfold contrib. destruct (action_eqb (r_act x) dflt); cbn [r_skip r_src r_not negb andb]; [reflexivity|].
      rewrite Mx, andb_false_r. reflexivity.
  Qed.

  (* without laminarity one direction survives: a non-default precedence decision is kept *)
  Lemma core_lower l pre :
    Forall fresh_rixn l -> (forall s, In s pre -> m s = false) ->
    match find (fun r => m (r_src r)) l with Some r => vnd r | None => false end = true ->
    existsb contrib (mark_sources_spec pre l) = true.
  Proof.
    revert pre; induction l as [|x l IH]; intros pre Hf Hpre; [discriminate|].
    inversion Hf as [|? ? (Hn & Hk & _) Hf']; subst.
    cbn [mark_sources_spec existsb find].
    destruct (m (r_src x)) eqn:Mx.
    - intros Hv. apply orb_true_iff. left. unfold contrib.
      destruct (action_eqb (r_act x) dflt) eqn:Ea; cbn [r_skip r_src r_not negb andb].
      + rewrite (default_action_vnd x Ea) in Hv. discriminate.
      + rewrite Hk, Hn, Mx. cbn [negb andb app]. rewrite (pre_all_false pre x Hpre). exact Hv.
    - intros Hv. apply orb_true_iff. right. apply IH; [exact Hf'| |exact Hv].
      intros s Hs. apply in_app_or in Hs as [Hs|[<-|[]]]; auto.
  Qed.

  (* ---------------------------------------------------------------- from marked intentions to policies *)

  Definition rmatch (r : rixn) : bool :=
    eval_principal c (flatten_principal cfg xf r)
    && (if action_eqb (r_act r) AL7
        then existsb (eval_perm re q) (map flatten_perm (r_perms r)) else true).

  Lemma build_sem l i :
    existsb (fun kp => policy_matches re c q (snd kp)) (fst (build_policies cfg xf i l))
    || existsb (eval_principal c) (snd (build_policies cfg xf i l))
    = existsb rmatch l.
  Proof.
    revert i; induction l as [|r l IH]; intros i; [reflexivity|].
    cbn [build_policies]. specialize (IH (N.succ i)).
    destruct (build_policies cfg xf (N.succ i) l) as [l7 l4]. cbn [fst snd] in IH.
    cbn [existsb]. rewrite <- IH. unfold rmatch.
    destruct (action_eqb (r_act r) AL7); cbn [fst snd existsb].
    - unfold policy_matches at 1. cbn [pol_principals pol_permissions].
      rewrite optimize_sem. cbn [existsb]. rewrite orb_false_r, orb_assoc. reflexivity.
    - rewrite andb_true_r.
      destruct (eval_principal c (flatten_principal cfg xf r)); cbn [orb]; [apply orb_true_r|reflexivity].
  Qed.

  Variable S : list rsvc.
  Hypothesis S_ok : srcs_ok c S.
  Hypothesis gw_ok : host_ok c (c_td cfg).

  Definition good (r : rixn) : Prop :=
    In (r_src r) S
    /\ (forall n, In n (r_not r) -> In n S /\ s_peer n = s_peer (r_src r))
    /\ Forall fresh_perm (r_perms r)
    /\ (r_skip r = false -> action_eqb (r_act r) dflt = false).

  Lemma ism_same_peer a b : ixn_source_matches a b = true -> s_peer a = s_peer b.
  Proof.
    unfold ixn_source_matches.
    destruct (count_wild a =? count_wild b)%N; [discriminate|].
    destruct (count_wild b <? count_wild a)%N; [discriminate|].
    intros H. apply andb_true_iff in H as [H _]. apply andb_true_iff in H as [H _].
    apply andb_true_iff in H as [_ H]. apply String.eqb_eq in H. exact H.
  Qed.

  Lemma spec_good l pre :
    Forall fresh_rixn l -> (forall s, In s pre -> In s S) -> (forall r, In r l -> In (r_src r) S) ->
    forall r, In r (mark_sources_spec pre l) -> good r.
  Proof.
    revert pre; induction l as [|x l IH]; intros pre Hf Hpre Hsrc r Hr; [destruct Hr|].
    inversion Hf as [|? ? (Hn & Hk & Hp) Hf']; subst.
    cbn [mark_sources_spec] in Hr. destruct Hr as [<-|Hr].
    - destruct (action_eqb (r_act x) dflt) eqn:Ea; unfold good; cbn [r_src r_not r_perms r_skip r_act].
      + repeat split; auto.
        * apply Hsrc; left; reflexivity.
        * rewrite Hn in H. destruct H.
        * rewrite Hn in H. destruct H.
        * discriminate.
      + repeat split; auto.
        * apply Hsrc; left; reflexivity.
        * rewrite Hn in H. cbn [app] in H. apply filter_In in H as [H _]. apply in_rev in H. auto.
        * rewrite Hn in H. cbn [app] in H. apply filter_In in H as [_ H]. apply ism_same_peer; exact H.
    - apply (IH (pre ++ [r_src x]) Hf'); auto.
      + intros s Hs. apply in_app_or in Hs as [Hs|[<-|[]]]; auto. apply Hsrc; left; reflexivity.
      + intros y Hy. apply Hsrc; right; exact Hy.
  Qed.

  Definition perm_fix (r : rixn) : rixn :=
    RIxn (r_src r) (r_not r) (r_act r) (remove_permission_precedence dflt (r_perms r)) (r_skip r).

  Lemma good_contrib r : good r -> negb (r_skip r) && rmatch (perm_fix r) = contrib r.
  Proof.
    intros (Hs & Hn & Hp & Hact). unfold contrib.
    destruct (r_skip r) eqn:Ek; [reflexivity|]. cbn [negb andb]. specialize (Hact eq_refl).
    unfold rmatch.
    change (flatten_principal cfg xf (perm_fix r)) with (flatten_principal cfg xf r).
    rewrite (eval_flatten_principal cfg c xf S r S_ok gw_ok).
    2:{ intros s [<-|Hs']; [exact Hs|apply Hn; exact Hs']. }
    2:{ intros n Hn'. apply Hn; exact Hn'. }
    fold (m (r_src r)). f_equal. cbn [perm_fix r_act r_perms].
    destruct (action_eqb (r_act r) AL7) eqn:E7.
    - unfold dflt. rewrite (perm_precedence re dflt_allow q _ Hp). unfold vnd, verdict.
      destruct (r_act r); try discriminate.
      destruct (find (fun p => eval_perm re q (rp_perm p)) (r_perms r)); [reflexivity|].
      rewrite xorb_nilpotent. reflexivity.
    - symmetry. apply l4_nondefault_vnd; assumption.
  Qed.

  Lemma rip_sem l :
    Forall fresh_rixn l -> (forall r, In r l -> In (r_src r) S) ->
    existsb rmatch (remove_intention_precedence dflt l) = existsb contrib (mark_sources dflt l).
  Proof.
    intros Hf Hsrc. unfold remove_intention_precedence.
    rewrite existsb_filter_implied.
    2:{ intros r. unfold rmatch. cbn. destruct (action_eqb (r_act r) AL7); [|reflexivity].
        destruct (r_perms r); [cbn; rewrite andb_false_r; discriminate|reflexivity]. }
    fold perm_fix. change (fun r => perm_fix r) with perm_fix. rewrite existsb_map.
    destruct l as [|x l]; [reflexivity|].
    unfold remove_source_precedence. rewrite existsb_filter.
    rewrite (mark_sources_is_spec _ Hf).
    apply existsb_ext_in. intros r Hr. apply good_contrib.
    apply (spec_good (x :: l) [] Hf); [intros s []|exact Hsrc|exact Hr].
  Qed.
End Core.

(* ------------------------------------------------------------------ from intentions to the intermediate form *)

Definition sources (cfg : config) (ixns : list intention) : list rsvc := filter_map (resolve cfg) ixns.

Lemma In_filter_map {A B} (f : A -> option B) l y :
  In y (filter_map f l) <-> exists x, In x l /\ f x = Some y.
Proof.
  induction l as [|x l IH]; cbn.
  - split; [tauto|intros (x & [] & _)].
  - destruct (f x) as [z|] eqn:E; cbn; rewrite IH; split.
    + intros [<-|(x' & Hx & Hf)]; [exists x; auto|exists x'; auto].
    + intros (x' & [<-|Hx] & Hf); [left; congruence|right; exists x'; auto].
    + intros (x' & Hx & Hf). exists x'; auto.
    + intros (x' & [<-|Hx] & Hf); [congruence|exists x'; auto].
Qed.

Lemma In_sources cfg ixns s : In s (sources cfg ixns) <-> exists i, In i ixns /\ resolve cfg i = Some s.
Proof. apply In_filter_map. Qed.

Lemma resolve_consistent cfg i j a b :
  resolve cfg i = Some a -> resolve cfg j = Some b -> consistent a b.
Proof.
  unfold resolve.
  destruct (negb (i_src_peer i =? "") && _); [discriminate|].
  destruct (negb (i_src_peer j =? "") && _); [discriminate|].
  intros [= <-] [= <-]. unfold consistent, src_of. cbn [s_peer s_td s_exp_ap].
  intros ->. split; reflexivity.
Qed.

Lemma r_src_to_rixn cfg http i tb : r_src (to_rixn cfg http i tb) = src_of cfg i tb.
Proof. unfold to_rixn. destruct (i_perms i); [reflexivity|]. destruct http; reflexivity. Qed.

Lemma to_rixn_fresh cfg http i tb : fresh_rixn (to_rixn cfg http i tb).
Proof.
  unfold to_rixn, fresh_rixn. destruct (i_perms i) as [|p ps]; cbn; [auto|].
  destruct http; cbn; [|auto]. repeat split.
  constructor; [split; reflexivity|].
  apply Forall_forall. intros x Hx. apply in_map_iff in Hx as (y & <- & _). split; reflexivity.
Qed.

Lemma to_rixns_fresh cfg http D : Forall fresh_rixn (to_rixns cfg http D).
Proof.
  induction D as [|i D IH]; cbn; [constructor|].
  destruct (negb (i_src_peer i =? "") && _); [exact IH|].
  constructor; [apply to_rixn_fresh|exact IH].
Qed.

Lemma to_rixns_src cfg http D r :
  In r (to_rixns cfg http D) -> exists i, In i D /\ resolve cfg i = Some (r_src r).
Proof.
  induction D as [|i D IH]; cbn; [tauto|].
  destruct (negb (i_src_peer i =? "") && _) eqn:E.
  - intros H. destruct (IH H) as (j & Hj & Hr). exists j; auto.
  - intros [<-|H].
    + exists i. split; [left; reflexivity|]. unfold resolve. rewrite E, r_src_to_rixn. reflexivity.
    + destruct (IH H) as (j & Hj & Hr). exists j; auto.
Qed.

Lemma verdict_to_rixn re cfg http q d i tb :
  re_alternation re -> Forall methods_ok (i_perms i) -> Forall (fun p => inv_ok p q) (i_perms i) ->
  verdict re q d (to_rixn cfg http i tb) = decide re d http i q.
Proof.
  intros Hre Hm Hi. unfold to_rixn, decide, verdict.
  destruct (i_perms i) as [|p ps] eqn:E; cbn [r_act].
  - destruct (i_allow i); reflexivity.
  - destruct http; cbn [r_act r_perms]; [|reflexivity].
    rewrite find_map. cbn [rp_perm].
    rewrite (find_ext_in _ (fun x => ixn_perm_matches re x q)).
    + destruct (find _ (p :: ps)); reflexivity.
    + intros x Hx. rewrite Forall_forall in Hm, Hi.
      apply convert_permission_sem; [exact Hre|apply Hm; exact Hx|apply Hi; exact Hx].
Qed.

(* the request carries every header an inverted value matcher of some permission asks about *)
Definition inverted_headers_present (ixns : list intention) (q : request) : Prop :=
  forall i, In i ixns -> Forall (fun p => inv_ok p q) (i_perms i).

Lemma to_rixns_find re cfg http xf c q d D :
  re_alternation re -> (forall i, In i D -> Forall methods_ok (i_perms i)) ->
  inverted_headers_present D q ->
  match find (fun r => src_matches cfg xf (r_src r) c) (to_rixns cfg http D) with
  | Some r => verdict re q d r
  | None => d
  end
  = match find (ixn_matches cfg xf c) D with
    | Some i => decide re d http i q
    | None => d
    end.
Proof.
  intros Hre. induction D as [|i D IH]; intros Hm Hv; [reflexivity|].
  assert (IH' := IH (fun j Hj => Hm j (or_intror Hj)) (fun j Hj => Hv j (or_intror Hj))).
  cbn [to_rixns find]. unfold ixn_matches at 1. unfold resolve.
  destruct (negb (i_src_peer i =? "") && _) eqn:E.
  - exact IH'.
  - cbn [find]. rewrite r_src_to_rixn.
    destruct (src_matches cfg xf (src_of cfg i (lookup_bundle (c_bundles cfg) (i_src_peer i))) c).
    + apply verdict_to_rixn; [exact Hre|apply Hm; left; reflexivity|apply Hv; left; reflexivity].
    + exact IH'.
Qed.

(* ------------------------------------------------------------------ removeSameSourceIntentions *)

Lemma key_eqb_eq a b : key_eqb a b = true <-> a = b.
Proof.
  destruct a as [[[a1 a2] a3] a4], b as [[[b1 b2] b3] b4]. unfold key_eqb. split.
  - intros H. repeat (apply andb_true_iff in H as [H ?]).
    repeat match goal with E : (_ =? _) = true |- _ => apply String.eqb_eq in E end. congruence.
  - intros [= -> -> -> ->]. rewrite !String.eqb_refl. reflexivity.
Qed.

Lemma remove_same_source_eq l : remove_same_source l = dedupe [] l.
Proof. destruct l as [|x [|y l]]; reflexivity. Qed.

Lemma In_dedupe seen l x : In x (dedupe seen l) -> In x l /\ existsb (key_eqb (src_key x)) seen = false.
Proof.
  revert seen; induction l as [|i l IH]; intros seen; cbn; [tauto|].
  destruct (existsb (key_eqb (src_key i)) seen) eqn:E.
  - intros H. destruct (IH _ H). auto.
  - intros [<-|H]; [auto|]. destruct (IH _ H) as [H1 H2]. split; [auto|].
    cbn [existsb] in H2. apply orb_false_iff in H2 as [_ H2]. exact H2.
Qed.

Lemma dedupe_FOP (R : intention -> intention -> Prop) seen l :
  ForallOrdPairs R l -> ForallOrdPairs R (dedupe seen l).
Proof.
  revert seen; induction l as [|i l IH]; intros seen F; cbn; [constructor|].
  inversion F as [|? ? Hi F']; subst.
  destruct (existsb (key_eqb (src_key i)) seen); [apply IH; exact F'|].
  constructor; [|apply IH; exact F'].
  apply Forall_forall. intros x Hx. apply In_dedupe in Hx as [Hx _].
  rewrite Forall_forall in Hi. apply Hi; exact Hx.
Qed.

Lemma dedupe_keys seen l :
  ForallOrdPairs (fun i j => src_key i <> src_key j) (dedupe seen l).
Proof.
  revert seen; induction l as [|i l IH]; intros seen; cbn; [constructor|].
  destruct (existsb (key_eqb (src_key i)) seen); [apply IH|].
  constructor; [|apply IH].
  apply Forall_forall. intros x Hx. apply In_dedupe in Hx as [_ Hx].
  cbn [existsb] in Hx. apply orb_false_iff in Hx as [Hx _].
  intros Heq. rewrite <- Heq in Hx.
  assert (key_eqb (src_key i) (src_key i) = true) by (apply key_eqb_eq; reflexivity). congruence.
Qed.

Lemma find_filter_agree {A} (P g1 g2 : A -> bool) l :
  (forall x, In x l -> g1 x <> g2 x -> P x = false) ->
  find P (filter g1 l) = find P (filter g2 l).
Proof.
  induction l as [|x l IH]; intros H; cbn; [reflexivity|].
  assert (IH' : find P (filter g1 l) = find P (filter g2 l))
    by (apply IH; intros y Hy; apply H; right; exact Hy).
  destruct (g1 x) eqn:G1, (g2 x) eqn:G2; cbn; rewrite ?IH'; try reflexivity.
  - rewrite (H x (or_introl eq_refl)); [reflexivity|congruence].
  - rewrite (H x (or_introl eq_refl)); [reflexivity|congruence].
Qed.

Lemma find_dedupe (P : intention -> bool) seen l :
  (forall i j, src_key i = src_key j -> P i = P j) ->
  find P (dedupe seen l) = find P (filter (fun i => negb (existsb (key_eqb (src_key i)) seen)) l).
Proof.
  intros HP. revert seen; induction l as [|i l IH]; intros seen; cbn; [reflexivity|].
  destruct (existsb (key_eqb (src_key i)) seen) eqn:E; cbn; [apply IH|].
  destruct (P i) eqn:Pi; [reflexivity|]. rewrite IH.
  apply find_filter_agree. intros x _ Hd. cbn [existsb] in Hd.
  destruct (key_eqb (src_key x) (src_key i)) eqn:K.
  - apply key_eqb_eq in K. rewrite (HP x i K). exact Pi.
  - cbn [orb] in Hd. congruence.
Qed.

Lemma filter_all {A} (l : list A) : filter (fun _ => true) l = l.
Proof. induction l as [|x l IH]; cbn; [reflexivity|]. rewrite IH. reflexivity. Qed.

Lemma find_remove_same_source (P : intention -> bool) l :
  (forall i j, src_key i = src_key j -> P i = P j) ->
  find P (remove_same_source l) = find P l.
Proof.
  intros HP. rewrite remove_same_source_eq, (find_dedupe P [] l HP). cbn. rewrite filter_all. reflexivity.
Qed.

Lemma resolve_key cfg i j : src_key i = src_key j -> resolve cfg i = resolve cfg j.
Proof.
  unfold src_key, resolve, src_of. intros [= H1 H2 H3 H4]. rewrite H1, H2, H3, H4. reflexivity.
Qed.

Lemma ixn_matches_key cfg xf c i j : src_key i = src_key j -> ixn_matches cfg xf c i = ixn_matches cfg xf c j.
Proof. intros H. unfold ixn_matches. rewrite (resolve_key cfg i j H). reflexivity. Qed.

(* ------------------------------------------------------------------ the translation as a whole *)

Lemma translate_sem rep re cfg ixns d http c q :
  eval_rbac re (translate_gen rep cfg ixns d http) c q
  = xorb d (existsb (rmatch re cfg (expect_xfcc cfg ixns http) c q)
                    (remove_intention_precedence (action_of_bool d) (to_intermediate_gen rep cfg http ixns))).
Proof.
  unfold translate_gen.
  set (xf := expect_xfcc cfg ixns http).
  set (R3 := remove_intention_precedence (action_of_bool d) (to_intermediate_gen rep cfg http ixns)).
  pose proof (build_sem re cfg xf c q R3 0) as B.
  destruct (build_policies cfg xf 0 R3) as [l7 l4]. cbn [fst snd] in B.
  unfold eval_rbac. cbn [rb_allow rb_policies]. rewrite existsb_app, <- B.
  assert (E : existsb (fun kp : polkey * policy => policy_matches re c q (snd kp))
                match l4 with
                | [] => []
                | _ :: _ => [(KL4, Policy (optimize_principals l4) [PermAny])]
                end = existsb (eval_principal c) l4).
  { destruct l4 as [|p l4]; [reflexivity|].
    cbn [existsb snd]. unfold policy_matches. cbn [pol_principals pol_permissions].
    rewrite optimize_sem. cbn [existsb eval_perm]. rewrite orb_false_r, andb_true_r. reflexivity. }
  rewrite E. destruct d; cbn [negb]; [reflexivity|].
  rewrite xorb_false_l. reflexivity.
Qed.

Definition well_formed (cfg : config) (ixns : list intention) : Prop :=
  (forall i, In i ixns -> Forall methods_ok (i_perms i))
  /\ (forall s, In s (sources cfg ixns) -> wf_src s)
  /\ (forall a b, In a (sources cfg ixns) -> In b (sources cfg ixns) ->
                  s_peer a <> s_peer b -> s_td a <> s_td b).

(* no partition a source stands for contains a regex metacharacter (partitions are still
   spliced into the pattern unquoted; namespaces and service names are quoted) *)
Definition partitions_literal (cfg : config) (ixns : list intention) : Prop :=
  forall s, In s (sources cfg ixns) -> lit_src s.

(* the trust domain of every presented URI was authenticated: a configured trust domain read
   as a regex matches a presented host only if it IS that host *)
Definition hosts_authentic (cfg : config) (ixns : list intention) (c : conn) : Prop :=
  host_ok c (c_td cfg) /\ forall s, In s (sources cfg ixns) -> host_ok c (s_td s).

(* a strictly narrower source has strictly higher precedence *)
Definition source_monotone (cfg : config) (ixns : list intention) : Prop :=
  forall i j a b, In i ixns -> In j ixns -> resolve cfg i = Some a -> resolve cfg j = Some b ->
                  ixn_source_matches a b = true -> ixn_less i j = true.

Lemma srcs_ok_sources cfg ixns c :
  well_formed cfg ixns -> partitions_literal cfg ixns -> hosts_authentic cfg ixns c ->
  srcs_ok c (sources cfg ixns).
Proof.
  intros (_ & Hwf & Hsep) Hlit (_ & Hhost). split; auto.
  intros a b Ha Hb. apply In_sources in Ha as (i & _ & Hi). apply In_sources in Hb as (j & _ & Hj).
  eapply resolve_consistent; eassumption.
Qed.

Lemma FOP_to_rixns cfg http (RI : intention -> intention -> Prop) (R : rixn -> rixn -> Prop) D :
  ForallOrdPairs RI D ->
  (forall i j, In i D -> In j D -> RI i j ->
               forall x y, r_src x = src_of cfg i (lookup_bundle (c_bundles cfg) (i_src_peer i)) ->
                           r_src y = src_of cfg j (lookup_bundle (c_bundles cfg) (i_src_peer j)) ->
                           resolve cfg i = Some (r_src x) -> resolve cfg j = Some (r_src y) -> R x y) ->
  ForallOrdPairs R (to_rixns cfg http D).
Proof.
  induction 1 as [|i D Hi F IH]; intros H; cbn; [constructor|].
  assert (IH' : ForallOrdPairs R (to_rixns cfg http D))
    by (apply IH; intros a b Ha Hb; apply H; right; assumption).
  destruct (negb (i_src_peer i =? "") && _) eqn:E; [exact IH'|].
  constructor; [|exact IH'].
  apply Forall_forall. intros y Hy.
  assert (Hy' := Hy). apply to_rixns_src in Hy' as (j & Hj & Hr).
  rewrite Forall_forall in Hi.
  apply (H i j (or_introl eq_refl) (or_intror Hj) (Hi j Hj)).
  - apply r_src_to_rixn.
  - unfold resolve in Hr. destruct (negb (i_src_peer j =? "") && _); [discriminate|]. congruence.
  - unfold resolve. rewrite E, r_src_to_rixn. reflexivity.
  - exact Hr.
Qed.

(* ------------------------------------------------------------------ the proposed repair: drop shadowed intentions *)

Lemma In_drop_shadowed kept l r : In r (drop_shadowed kept l) -> In r l.
Proof.
  revert kept; induction l as [|x l IH]; intros kept; cbn; [tauto|].
  destruct (existsb _ kept); cbn; intros H; [right; eapply IH; exact H|].
  destruct H as [<-|H]; [left; reflexivity|right; eapply IH; exact H].
Qed.

Lemma drop_shadowed_Forall (P : rixn -> Prop) kept l : Forall P l -> Forall P (drop_shadowed kept l).
Proof.
  intros H. apply Forall_forall. intros r Hr. rewrite Forall_forall in H. apply H.
  eapply In_drop_shadowed; exact Hr.
Qed.

Lemma drop_shadowed_FOP (R : rixn -> rixn -> Prop) kept l :
  ForallOrdPairs R l -> ForallOrdPairs R (drop_shadowed kept l).
Proof.
  revert kept; induction l as [|x l IH]; intros kept F; cbn; [constructor|].
  inversion F as [|? ? Hx F']; subst.
  destruct (existsb _ kept); [apply IH; exact F'|].
  constructor; [|apply IH; exact F'].
  apply Forall_forall. intros y Hy. apply In_drop_shadowed in Hy. rewrite Forall_forall in Hx. apply Hx; exact Hy.
Qed.

(* no kept intention is strictly contained in an earlier kept one (nor in the initial [kept]) *)
Lemma drop_shadowed_unshadowed kept l :
  ForallOrdPairs (fun x y => ixn_source_matches (r_src y) (r_src x) = false) (drop_shadowed kept l)
  /\ forall y, In y (drop_shadowed kept l) -> forall p, In p kept -> ixn_source_matches (r_src y) p = false.
Proof.
  revert kept; induction l as [|x l IH]; intros kept; cbn; [split; [constructor|intros y []]|].
  destruct (existsb (fun p => ixn_source_matches (r_src x) p) kept) eqn:E; [apply IH|].
  destruct (IH (kept ++ [r_src x])) as [F Hk]. split.
  - constructor; [|exact F]. apply Forall_forall. intros y Hy.
    apply (Hk y Hy). apply in_or_app. right; left; reflexivity.
  - intros y [<-|Hy] p Hp.
    + destruct (ixn_source_matches (r_src x) p) eqn:M; [|reflexivity].
      assert (existsb (fun p0 => ixn_source_matches (r_src x) p0) kept = true) by (apply existsb_exists; eauto).
      congruence.
    + apply (Hk y Hy). apply in_or_app. left; exact Hp.
Qed.

(* a shadowed intention never is the first match: dropping it does not change the reference *)
Lemma find_drop_shadowed {A} (m : rsvc -> bool) (v : rixn -> A) (dflt : A) kept l :
  (forall a p, In a (map r_src l) -> In p (kept ++ map r_src l) ->
               ixn_source_matches a p = true -> m a = true -> m p = true) ->
  (forall p, In p kept -> m p = false) ->
  match find (fun r => m (r_src r)) (drop_shadowed kept l) with Some r => v r | None => dflt end
  = match find (fun r => m (r_src r)) l with Some r => v r | None => dflt end.
Proof.
  revert kept; induction l as [|x l IH]; intros kept Hsub Hk; [reflexivity|].
  cbn [drop_shadowed find].
  assert (Hsub' : forall kept', (forall p, In p kept' -> In p (kept ++ [r_src x])) ->
            forall a p, In a (map r_src l) -> In p (kept' ++ map r_src l) ->
                        ixn_source_matches a p = true -> m a = true -> m p = true).
  { intros kept' Hin a p Ha Hp. apply Hsub; [right; exact Ha|].
    apply in_app_or in Hp as [Hp|Hp].
    - apply Hin in Hp. apply in_app_or in Hp as [Hp|[<-|[]]]; apply in_or_app; [left; exact Hp|right; left; reflexivity].
    - apply in_or_app; right; right; exact Hp. }
  destruct (existsb (fun p => ixn_source_matches (r_src x) p) kept) eqn:E.
  - apply existsb_exists in E as (p & Hp & Mp).
    assert (Mx : m (r_src x) = false).
    { destruct (m (r_src x)) eqn:Mx; [|reflexivity].
      pose proof (Hsub (r_src x) p (or_introl eq_refl) (in_or_app _ _ _ (or_introl Hp)) Mp Mx) as Hmp.
      rewrite (Hk p Hp) in Hmp. discriminate. }
    rewrite Mx. apply IH; [|exact Hk].
    apply Hsub'. intros q Hq. apply in_or_app; left; exact Hq.
  - cbn [find]. destruct (m (r_src x)) eqn:Mx; [reflexivity|].
    apply IH; [apply Hsub'; auto|].
    intros p Hp. apply in_app_or in Hp as [Hp|[<-|[]]]; [apply Hk; exact Hp|exact Mx].
Qed.

Section Main.
  Variable re : string -> string -> bool.
  Hypothesis re_methods : re_alternation re.
  Variables (cfg : config) (ixns : list intention) (d http : bool) (c : conn) (q : request).
  Hypothesis Hwf : well_formed cfg ixns.
  Hypothesis Hlit : partitions_literal cfg ixns.
  Hypothesis Hhost : hosts_authentic cfg ixns c.
  Hypothesis Hinv : inverted_headers_present ixns q.

  Let xf := expect_xfcc cfg ixns http.
  Let D := remove_same_source (sort_ixns ixns).
  Let L := to_rixns cfg http D.
  Let m (s : rsvc) : bool := src_matches cfg xf s c.
  Let OK := srcs_ok_sources cfg ixns c Hwf Hlit Hhost.

  Lemma D_sub i : In i D -> In i ixns.
  Proof.
    unfold D. rewrite remove_same_source_eq. intros H. apply In_dedupe in H as [H _].
    apply (proj1 (In_sort_ixns _ _)) in H. exact H.
  Qed.

  Lemma L_sources r : In r L -> In (r_src r) (sources cfg ixns).
  Proof.
    intros H. apply to_rixns_src in H as (i & Hi & Hr). apply In_sources. exists i. split; [apply D_sub|]; assumption.
  Qed.

  Lemma L_fresh : Forall fresh_rixn L.
  Proof. apply to_rixns_fresh. Qed.

  (* the precedence side, brought to the shape of the core lemmas *)
  Lemma reference_as_find :
    intention_allows re cfg ixns d http c q
    = match find (fun r => m (r_src r)) L with
      | Some r => verdict re q d r
      | None => d
      end.
  Proof.
    unfold intention_allows. fold xf.
    rewrite <- find_sorted_is_best.
    rewrite <- (find_remove_same_source (ixn_matches cfg xf c) (sort_ixns ixns))
      by (intros i j; apply ixn_matches_key).
    fold D. unfold L, m. rewrite (to_rixns_find re cfg http xf c q d D re_methods); [reflexivity| |].
    - intros i Hi. apply (proj1 Hwf). apply D_sub; exact Hi.
    - intros i Hi. apply Hinv. apply D_sub; exact Hi.
  Qed.

  (* the RBAC side, for any prepared list [L0] taken from [L] *)
  Lemma rbac_as_contrib rep :
    eval_rbac re (translate_gen rep cfg ixns d http) c q
    = xorb d (existsb (contrib re cfg xf c q d)
                      (mark_sources_spec d [] (if rep then drop_shadowed [] L else L))).
  Proof.
    rewrite translate_sem. fold xf. unfold to_intermediate_gen, to_intermediate. fold D. fold L. f_equal.
    set (L0 := if rep then drop_shadowed [] L else L).
    assert (F0 : Forall fresh_rixn L0) by (unfold L0; destruct rep; [apply drop_shadowed_Forall|]; apply L_fresh).
    assert (S0 : forall r, In r L0 -> In (r_src r) (sources cfg ixns)).
    { unfold L0. destruct rep; intros r Hr; apply L_sources; [eapply In_drop_shadowed|]; exact Hr. }
    replace (if rep then drop_shadowed [] L else L) with L0 by reflexivity.
    rewrite (rip_sem re cfg xf c q d (sources cfg ixns) OK (proj1 Hhost) L0 F0 S0).
    rewrite (mark_sources_is_spec d L0 F0). reflexivity.
  Qed.

  Lemma xor_back (o : option rixn) :
    xorb d (match o with Some r => vnd re q d r | None => false end)
    = match o with Some r => verdict re q d r | None => d end.
  Proof.
    destruct o as [r|]; [|apply xorb_false_r]. unfold vnd.
    rewrite <- xorb_assoc, xorb_nilpotent, xorb_false_l. reflexivity.
  Qed.

  (* in the prepared list: precedence order, distinct source keys *)
  Lemma L_ordered :
    ForallOrdPairs (fun x y => exists i j, In i ixns /\ In j ixns /\ ixn_less j i = false /\ src_key i <> src_key j
                                           /\ resolve cfg i = Some (r_src x) /\ resolve cfg j = Some (r_src y)
                                           /\ skey (r_src x) = src_key i /\ skey (r_src y) = src_key j) L.
  Proof.
    unfold L.
    apply (FOP_to_rixns cfg http (fun i j => ixn_less j i = false /\ src_key i <> src_key j)).
    - unfold D. rewrite remove_same_source_eq.
      assert (F1 : ForallOrdPairs (fun i j => ixn_less j i = false) (dedupe [] (sort_ixns ixns)))
        by (apply dedupe_FOP, FOP_strongly_sorted, sort_ixns_sorted).
      pose proof (dedupe_keys [] (sort_ixns ixns)) as F2.
      clear -F1 F2. induction F1 as [|i l Hi F1 IH]; [constructor|].
      inversion F2 as [|? ? Hk F2']; subst. constructor; [|apply IH; exact F2'].
      rewrite Forall_forall in *. intros x Hx. split; auto.
    - intros i j Hi Hj [Hless Hkey] x y Ex Ey Rx Ry.
      exists i, j. repeat split; auto using D_sub; [rewrite Ex|rewrite Ey]; reflexivity.
  Qed.

  Lemma L_laminar : source_monotone cfg ixns -> laminar cfg xf c L.
  Proof.
    intros Hmono. unfold laminar. eapply FOP_impl; [|exact L_ordered].
    intros x y Hx Hy (i & j & Hi & Hj & Hless & Hkey & Rx & Ry & Kx & Ky) Mx My.
    assert (Sx : In (r_src x) (sources cfg ixns)) by (apply L_sources; exact Hx).
    assert (Sy : In (r_src y) (sources cfg ixns)) by (apply L_sources; exact Hy).
    destruct (trichotomy cfg c xf _ _ _ OK Sx Sy Mx My) as [K|[T|T]].
    - exfalso. apply Hkey. congruence.
    - exact T.
    - exfalso. rewrite (Hmono j i _ _ Hj Hi Ry Rx T) in Hless. discriminate.
  Qed.

  (* the translator as it was before 214d73a needed source_monotone *)
  Theorem equiv_before_repair :
    source_monotone cfg ixns ->
    eval_rbac re (translate_before_214d73a cfg ixns d http) c q = intention_allows re cfg ixns d http c q.
  Proof.
    intros Hmono. unfold translate_before_214d73a. rewrite (rbac_as_contrib false), reference_as_find.
    rewrite (core_main re cfg xf c q d L [] L_fresh); [apply xor_back| |apply L_laminar; exact Hmono].
    intros s [].
  Qed.

  (* without source_monotone the error is one-sided *)
  Theorem nondefault_kept_before_repair :
    intention_allows re cfg ixns d http c q = negb d ->
    eval_rbac re (translate_before_214d73a cfg ixns d http) c q = negb d.
  Proof.
    unfold translate_before_214d73a. rewrite (rbac_as_contrib false), reference_as_find. intros H.
    rewrite (core_lower re cfg xf c q d L [] L_fresh); [destruct d; reflexivity|intros s []|].
    rewrite <- xor_back in H. fold m. destruct (find _ L) as [r|].
    - destruct (vnd re q d r); [reflexivity|]. rewrite xorb_false_r in H. destruct d; discriminate.
    - rewrite xorb_false_r in H. destruct d; discriminate.
  Qed.

  (* the translator of /repo HEAD needs no hypothesis on the precedence order *)
  Lemma repaired_laminar : laminar cfg xf c (drop_shadowed [] L).
  Proof.
    unfold laminar.
    pose proof (drop_shadowed_FOP _ [] L L_ordered) as F1.
    destruct (drop_shadowed_unshadowed [] L) as [F2 _].
    set (L' := drop_shadowed [] L) in *.
    assert (Hin : forall r, In r L' -> In r L) by (intros r; apply In_drop_shadowed).
    clearbody L'. induction F1 as [|x l Hx F1 IH]; [constructor|].
    inversion F2 as [|? ? Hu F2']; subst. constructor; [|apply IH; [exact F2'|intros r Hr; apply Hin; right; exact Hr]].
    apply Forall_forall. intros y Hy Mx My.
    rewrite Forall_forall in Hx, Hu.
    destruct (Hx y Hy) as (i & j & Hi & Hj & Hless & Hkey & Rx & Ry & Kx & Ky).
    assert (Sx : In (r_src x) (sources cfg ixns)) by (apply L_sources, Hin; left; reflexivity).
    assert (Sy : In (r_src y) (sources cfg ixns)) by (apply L_sources, Hin; right; exact Hy).
    destruct (trichotomy cfg c xf _ _ _ OK Sx Sy Mx My) as [K|[T|T]].
    - exfalso. apply Hkey. congruence.
    - exact T.
    - rewrite (Hu y Hy) in T. discriminate.
  Qed.

  Theorem equiv :
    eval_rbac re (translate cfg ixns d http) c q = intention_allows re cfg ixns d http c q.
  Proof.
    unfold translate. rewrite (rbac_as_contrib true), reference_as_find.
    rewrite (core_main re cfg xf c q d (drop_shadowed [] L) [] (drop_shadowed_Forall _ [] L L_fresh));
      [|intros s []|apply repaired_laminar].
    rewrite xor_back. fold m.
    apply (find_drop_shadowed m (verdict re q d) d [] L); [|intros p []].
    intros a p Ha Hp. cbn [app] in Hp.
    apply in_map_iff in Ha as (ra & <- & Hra). apply in_map_iff in Hp as (rp & <- & Hrp).
    apply src_matches_subset. apply (so_cons c _ OK); apply L_sources; assumption.
  Qed.
End Main.

(* ------------------------------------------------------------------ when is source_monotone true *)

Lemma or_default_wild x : (or_default x =? wild) = (x =? wild).
Proof.
  unfold or_default. destruct (x =? "") eqn:E; [|reflexivity].
  apply String.eqb_eq in E. subst. reflexivity.
Qed.

Lemma count_wild_exact cfg i tb :
  count_wild (src_of cfg i tb) = (2 - count_exact (i_src_ns i) (i_src_name i))%N.
Proof.
  unfold count_wild, count_exact, src_of. cbn [s_ns s_name]. rewrite or_default_wild.
  destruct (i_src_ns i =? wild); [reflexivity|]. destruct (i_src_name i =? wild); reflexivity.
Qed.

Lemma ism_count_lt a b : ixn_source_matches a b = true -> (count_wild a < count_wild b)%N.
Proof.
  unfold ixn_source_matches.
  destruct (count_wild a =? count_wild b)%N eqn:E1; [discriminate|].
  destruct (count_wild b <? count_wild a)%N eqn:E2; [discriminate|].
  intros _. apply N.eqb_neq in E1. apply N.ltb_ge in E2. lia.
Qed.

(* All intentions name the same destination and carry the precedence UpdatePrecedence gives
   them: then a strictly narrower source has strictly higher precedence. *)
Theorem same_destination_monotone cfg ixns :
  (forall i, In i ixns -> i_prec i = precedence_of i) ->
  (forall i j, In i ixns -> In j ixns -> i_dst_ns i = i_dst_ns j /\ i_dst_name i = i_dst_name j) ->
  source_monotone cfg ixns.
Proof.
  intros Hprec Hdst i j a b Hi Hj Ra Rb Hm.
  apply ism_count_lt in Hm.
  unfold resolve in Ra, Rb.
  destruct (negb (i_src_peer i =? "") && _); [discriminate|].
  destruct (negb (i_src_peer j =? "") && _); [discriminate|].
  injection Ra as <-. injection Rb as <-. rewrite !count_wild_exact in Hm.
  unfold ixn_less, ixn_cmp. rewrite (Hprec i Hi), (Hprec j Hj). unfold precedence_of.
  destruct (Hdst i j Hi Hj) as [-> ->].
  assert (Hlt : ((match count_exact (i_dst_ns j) (i_dst_name j) with 2 => 9 | 1 => 6 | _ => 3 end
                  - (2 - count_exact (i_src_ns j) (i_src_name j)))
                 < (match count_exact (i_dst_ns j) (i_dst_name j) with 2 => 9 | 1 => 6 | _ => 3 end
                    - (2 - count_exact (i_src_ns i) (i_src_name i))))%N).
  { assert (count_exact (i_src_ns i) (i_src_name i) <= 2)%N
      by (unfold count_exact; destruct (_ =? _); [lia|]; destruct (_ =? _); lia).
    assert (count_exact (i_src_ns j) (i_src_name j) <= 2)%N
      by (unfold count_exact; destruct (_ =? _); [lia|]; destruct (_ =? _); lia).
    destruct (count_exact (i_dst_ns j) (i_dst_name j)) as [|[p|[p|p|]|]]; lia. }
  apply N.compare_lt_iff in Hlt. rewrite Hlt. reflexivity.
Qed.

(* ------------------------------------------------------------------ the full statement is false: two witnesses *)

Definition w_cfg : config := Config "test.consul" "default" [].
Definition w_ixn (src dst : string) (allow : bool) : intention :=
  let i := Ixn "" "" "default" src "" "default" dst allow [] 0 in
  Ixn "" "" "default" src "" "default" dst allow [] (precedence_of i).
Definition w_conn (svc : string) : conn :=
  Conn (Uri "test.consul" ["ns"; "default"; "dc"; "dc1"; "svc"; svc]) None.
Definition w_req : request := Req "/" [(":method", "GET")].

(* (9) `* -> web` deny (precedence 8) above `api -> *` allow (precedence 6), default deny:
   precedence denies api, the RBAC allows it. *)
Definition w_superset : list intention := [w_ixn "*" "web" false; w_ixn "api" "*" true].

Lemma superset_witness re :
  eval_rbac re (translate_before_214d73a w_cfg w_superset false false) (w_conn "api") w_req = true
  /\ intention_allows re w_cfg w_superset false false (w_conn "api") w_req = false.
Proof. split; vm_compute; reflexivity. Qed.

(* the same shape with the roles swapped, default allow: precedence allows api, the RBAC denies it *)
Definition w_superset' : list intention := [w_ixn "*" "web" true; w_ixn "api" "*" false].

Lemma superset_witness_default_allow re :
  eval_rbac re (translate_before_214d73a w_cfg w_superset' true false) (w_conn "api") w_req = false
  /\ intention_allows re w_cfg w_superset' true false (w_conn "api") w_req = true.
Proof. split; vm_compute; reflexivity. Qed.

(* (8, repaired in /repo d976793) `web.v1 -> db` allow, default deny: `webxv1` is no longer
   admitted, `web.v1` still is *)
Definition w_regex : list intention := [w_ixn "web.v1" "db" true].

Lemma regex_regression re :
  eval_rbac re (translate w_cfg w_regex false false) (w_conn "webxv1") w_req = false
  /\ intention_allows re w_cfg w_regex false false (w_conn "webxv1") w_req = false
  /\ eval_rbac re (translate w_cfg w_regex false false) (w_conn "web.v1") w_req = true
  /\ intention_allows re w_cfg w_regex false false (w_conn "web.v1") w_req = true.
Proof. repeat split; vm_compute; reflexivity. Qed.

(* the witnesses satisfy every hypothesis of equiv_partial except the one they are meant to break *)
Lemma w_host_ok svc t : raw_match t "test.consul" = (t =? "test.consul") -> host_ok (w_conn svc) t.
Proof. intros H. unfold host_ok, w_conn. cbn. split; [exact H|]. intros u [=]. Qed.

Lemma superset_witness_hyps :
  well_formed w_cfg w_superset /\ partitions_literal w_cfg w_superset
  /\ hosts_authentic w_cfg w_superset (w_conn "api") /\ ~ source_monotone w_cfg w_superset.
Proof.
  split; [|split; [|split]].
  - split; [|split].
    + intros i [<-|[<-|[]]]; constructor.
    + intros s Hs. cbn in Hs. destruct Hs as [<-|[<-|[]]]; repeat split; cbn; try discriminate; reflexivity.
    + intros a b Ha Hb Hp. exfalso. apply Hp.
      cbn in Ha, Hb. destruct Ha as [<-|[<-|[]]]; destruct Hb as [<-|[<-|[]]]; reflexivity.
  - intros s Hs. cbn in Hs. destruct Hs as [<-|[<-|[]]]; repeat split; reflexivity.
  - split.
    + apply w_host_ok. reflexivity.
    + intros s Hs. cbn in Hs. destruct Hs as [<-|[<-|[]]]; apply w_host_ok; reflexivity.
  - intros H.
    specialize (H (w_ixn "api" "*" true) (w_ixn "*" "web" false) _ _
                  (or_intror (or_introl eq_refl)) (or_introl eq_refl) eq_refl eq_refl eq_refl).
    vm_compute in H. discriminate.
Qed.

Lemma regex_list_hyps :
  well_formed w_cfg w_regex /\ partitions_literal w_cfg w_regex
  /\ hosts_authentic w_cfg w_regex (w_conn "webxv1") /\ source_monotone w_cfg w_regex.
Proof.
  split; [|split; [|split]].
  - split; [|split].
    + intros i [<-|[]]; constructor.
    + intros s Hs. cbn in Hs. destruct Hs as [<-|[]]; repeat split; cbn; try discriminate; reflexivity.
    + intros a b Ha Hb Hp. exfalso. apply Hp.
      cbn in Ha, Hb. destruct Ha as [<-|[]]; destruct Hb as [<-|[]]; reflexivity.
  - intros s Hs. cbn in Hs. destruct Hs as [<-|[]]; reflexivity.
  - split.
    + apply w_host_ok. reflexivity.
    + intros s Hs. cbn in Hs. destruct Hs as [<-|[]]; apply w_host_ok; reflexivity.
  - intros i j a b [<-|[]] [<-|[]] [= <-] [= <-] H. vm_compute in H. discriminate.
Qed.

(* non-vacuity of equiv_partial: a set with wildcard, exact, peered and L7 intentions for one
   destination, a peer connection through the mesh gateway, meets every hypothesis *)
Definition ex_cfg : config := Config "local.consul" "default" [Bundle "peer1" "peer1.consul" "part1"].
Definition ex_ixns : list intention :=
  [ Ixn "" "" "default" "web" "" "default" "db" true [] 9;
    Ixn "" "" "default" "*" "" "default" "db" false [] 8;
    Ixn "peer1" "" "default" "api" "" "default" "db" false
        [IxnPerm false (Some (HttpPerm "" "/admin" "" [] []));
         IxnPerm true (Some (HttpPerm "" "/" "" [] ["GET"; "POST"]))] 9;
    Ixn "peer1" "" "default" "*" "" "default" "db" true [] 8 ].
Definition ex_conn : conn :=
  Conn (Uri "local.consul" ["gateway"; "mesh"; "dc"; "dc1"])
       (Some (Uri "peer1.consul" ["ap"; "part1"; "ns"; "default"; "dc"; "dc2"; "svc"; "api"])).

Lemma ex_host_ok t :
  raw_match t "local.consul" = (t =? "local.consul") ->
  raw_match t "peer1.consul" = (t =? "peer1.consul") -> host_ok ex_conn t.
Proof. intros H1 H2. split; [exact H1|]. intros u [= <-]. exact H2. Qed.

Lemma example_hyps :
  well_formed ex_cfg ex_ixns /\ partitions_literal ex_cfg ex_ixns
  /\ hosts_authentic ex_cfg ex_ixns ex_conn /\ source_monotone ex_cfg ex_ixns.
Proof.
  split; [|split; [|split]].
  - split; [|split].
    + intros i [<-|[<-|[<-|[<-|[]]]]]; cbn [i_perms];
        repeat first [apply Forall_nil | apply Forall_cons]; unfold methods_ok; cbn;
        repeat first [apply Forall_nil | apply Forall_cons]; unfold valid_method; cbn; auto 15.
    + intros s Hs. cbn in Hs.
      destruct Hs as [<-|[<-|[<-|[<-|[]]]]]; repeat split; cbn; try discriminate; reflexivity.
    + intros a b Ha Hb. cbn in Ha, Hb.
      destruct Ha as [<-|[<-|[<-|[<-|[]]]]]; destruct Hb as [<-|[<-|[<-|[<-|[]]]]]; cbn; intros Hp; try discriminate; exfalso; apply Hp; reflexivity.
  - intros s Hs. cbn in Hs. destruct Hs as [<-|[<-|[<-|[<-|[]]]]]; repeat split; reflexivity.
  - split.
    + apply ex_host_ok; reflexivity.
    + intros s Hs. cbn in Hs.
      destruct Hs as [<-|[<-|[<-|[<-|[]]]]]; apply ex_host_ok; reflexivity.
  - apply same_destination_monotone.
    + intros i [<-|[<-|[<-|[<-|[]]]]]; reflexivity.
    + intros i j Hi Hj.
      destruct Hi as [<-|[<-|[<-|[<-|[]]]]]; destruct Hj as [<-|[<-|[<-|[<-|[]]]]]; split; reflexivity.
Qed.

(* ------------------------------------------------------------------ additions after the audit *)

(* lists without header matchers meet inverted_headers_present for every request *)
Lemma no_headers_inverted_ok ixns q :
  (forall i p h, In i ixns -> In p (i_perms i) -> ip_http p = Some h -> hp_header h = []) ->
  inverted_headers_present ixns q.
Proof.
  intros H i Hi. apply Forall_forall. intros p Hp. unfold inv_ok.
  destruct (ip_http p) as [h|] eqn:E; [|exact I]. rewrite (H i p h Hi Hp E). constructor.
Qed.

Lemma w_superset_inv q : inverted_headers_present w_superset q.
Proof. intros i [<-|[<-|[]]]; constructor. Qed.
Lemma w_regex_inv q : inverted_headers_present w_regex q.
Proof. intros i [<-|[]]; constructor. Qed.
Lemma ex_ixns_inv q : inverted_headers_present ex_ixns q.
Proof.
  intros i [<-|[<-|[<-|[<-|[]]]]]; cbn [i_perms]; repeat constructor.
Qed.

(* 214d73a removes the superset defect on its witnesses *)
Lemma superset_repaired re :
  eval_rbac re (translate w_cfg w_superset false false) (w_conn "api") w_req = false
  /\ eval_rbac re (translate w_cfg w_superset' true false) (w_conn "api") w_req = true.
Proof. split; vm_compute; reflexivity. Qed.

(* (new finding) an inverted value matcher and a request that LACKS the header: consul's
   `x-internal` Exact "yes" Invert means "x-internal is not yes"; Envoy ignores a value matcher
   on an absent header even when inverted, so the deny permission is bypassed. *)
Definition w_inv_hdr : hdr_perm := HdrPerm "x-internal" false "yes" "" "" "" "" true false.
Definition w_inv_ixns : list intention :=
  [Ixn "" "" "default" "web" "" "default" "db" false
       [IxnPerm false (Some (HttpPerm "" "" "" [w_inv_hdr] []));
        IxnPerm true (Some (HttpPerm "" "/" "" [] []))] 9].
Definition w_req_with : request := Req "/" [(":method", "GET"); ("x-internal", "no")].

Lemma inverted_header_witness re :
  eval_rbac re (translate w_cfg w_inv_ixns false true) (w_conn "web") w_req = true
  /\ intention_allows re w_cfg w_inv_ixns false true (w_conn "web") w_req = false
  /\ eval_rbac re (translate w_cfg w_inv_ixns false true) (w_conn "web") w_req_with = false
  /\ intention_allows re w_cfg w_inv_ixns false true (w_conn "web") w_req_with = false.
Proof. repeat split; vm_compute; reflexivity. Qed.

Lemma inverted_header_witness_hyps :
  well_formed w_cfg w_inv_ixns /\ partitions_literal w_cfg w_inv_ixns
  /\ hosts_authentic w_cfg w_inv_ixns (w_conn "web") /\ source_monotone w_cfg w_inv_ixns
  /\ ~ inverted_headers_present w_inv_ixns w_req /\ inverted_headers_present w_inv_ixns w_req_with.
Proof.
  split; [|split; [|split; [|split; [|split]]]].
  - split; [|split].
    + intros i [<-|[]]; cbn [i_perms]; repeat constructor.
    + intros s Hs. cbn in Hs. destruct Hs as [<-|[]]; repeat split; cbn; try discriminate; reflexivity.
    + intros a b Ha Hb Hp. exfalso. apply Hp.
      cbn in Ha, Hb. destruct Ha as [<-|[]]; destruct Hb as [<-|[]]; reflexivity.
  - intros s Hs. cbn in Hs. destruct Hs as [<-|[]]; reflexivity.
  - split.
    + apply w_host_ok. reflexivity.
    + intros s Hs. cbn in Hs. destruct Hs as [<-|[]]; apply w_host_ok; reflexivity.
  - intros i j a b [<-|[]] [<-|[]] [= <-] [= <-] H. vm_compute in H. discriminate.
  - intros H. specialize (H _ (or_introl eq_refl)). cbn [i_perms] in H.
    inversion H as [|? ? H1 _]; subst. unfold inv_ok in H1. cbn in H1.
    inversion H1 as [|? ? H2 _]; subst. vm_compute in H2. discriminate.
  - intros i [<-|[]]; cbn [i_perms]; repeat constructor.
Qed.

(* source_monotone with MIXED destinations: disjoint sources on an exact and on the wildcard destination *)
Definition ex_mixed : list intention := [w_ixn "api" "db" true; w_ixn "web" "*" false].
Lemma ex_mixed_monotone : source_monotone w_cfg ex_mixed
  /\ exists i j, In i ex_mixed /\ In j ex_mixed /\ i_dst_name i <> i_dst_name j.
Proof.
  split.
  - intros i j a b Hi Hj Ra Rb H.
    destruct Hi as [<-|[<-|[]]]; destruct Hj as [<-|[<-|[]]];
      injection Ra as <-; injection Rb as <-; vm_compute in H; discriminate.
  - exists (w_ixn "api" "db" true), (w_ixn "web" "*" false). cbn. repeat split; auto. discriminate.
Qed.

(* hypotheses of src_matches_subset on a concrete pair *)
Lemma ex_source_match_pair :
  let a := RSvc "default" "default" "web" "" "" "test.consul" in
  let b := RSvc "default" "default" "*" "" "" "test.consul" in
  consistent a b /\ ixn_source_matches a b = true /\ src_matches w_cfg false a (w_conn "web") = true.
Proof. cbn. repeat split; reflexivity. Qed.
