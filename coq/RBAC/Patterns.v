(* The SPIFFE patterns the translator builds, against the identities they are meant to cover:
   the pattern of a source matches exactly the URIs of the identities the source covers, for
   ALL namespace and service names (they are quoted, [raw_match_quote_meta]); the partition is
   still spliced unquoted and is assumed free of metacharacters. *)
From Coq Require Import Btauto.
From Verif Require Import Base.Prelude.
From Verif Require Import RBAC.Model.
Local Open Scope string_scope.
Local Open Scope bool_scope.

(* text without regex metacharacters of the modelled fragment ('.' and the escape character) *)
Fixpoint dot_free (s : string) : bool :=
  match s with
  | EmptyString => true
  | String a s' => negb (Ascii.eqb a ".") && negb (Ascii.eqb a bslash) && dot_free s'
  end.

Lemma raw_match_dot_free p s : dot_free p = true -> raw_match p s = (p =? s).
Proof.
  revert s; induction p as [|a p IH]; intros [|b s]; cbn [raw_match dot_free String.eqb]; try reflexivity.
  intros H. apply andb_true_iff in H as [Ha Hp]. apply andb_true_iff in Ha as [Hd Hb].
  rewrite (IH s Hp).
  destruct (Ascii.eqb a bslash); [discriminate|]. destruct (Ascii.eqb a "."); [discriminate|]. reflexivity.
Qed.

(* regexp.QuoteMeta does its job: the quoted text matches exactly the original text *)
Lemma special_not_plain c : is_special c = false -> Ascii.eqb c bslash = false /\ Ascii.eqb c "." = false.
Proof.
  unfold is_special, special_chars. cbn [existsb]. intros H.
  apply orb_false_iff in H as [H1 H]. apply orb_false_iff in H as [H2 _]. split; assumption.
Qed.

Lemma raw_match_quote_meta s w : raw_match (quote_meta s) w = (s =? w).
Proof.
  revert w; induction s as [|c s IH]; intros [|b w]; cbn [quote_meta]; try reflexivity.
  - destruct (is_special c); reflexivity.
  - destruct (is_special c) eqn:E.
    + cbn [raw_match String.eqb]. rewrite Ascii.eqb_refl, IH. reflexivity.
    + destruct (special_not_plain c E) as [Hb Hd].
      cbn [raw_match String.eqb]. rewrite Hb, Hd, IH. reflexivity.
Qed.

Lemma to_lower_nonempty s : s <> "" -> to_lower s <> "".
Proof. destruct s; cbn; congruence. Qed.

Lemma or_default_nonempty s : or_default s <> "".
Proof. unfold or_default. destruct (s =? "") eqn:E; [discriminate|]. apply String.eqb_neq in E. exact E. Qed.

Lemma eff_ap_nonempty s : eff_ap s <> "".
Proof. unfold eff_ap. apply to_lower_nonempty, or_default_nonempty. Qed.

(* well-formed (validated) sources, and sources whose texts contain no regex metacharacter *)
Definition wf_src (s : rsvc) : Prop :=
  s_name s <> "" /\ s_ns s <> "" /\ s_ap s <> ""
  /\ (s_ns s = wild -> s_name s = wild)
  /\ to_lower (s_ap s) = s_ap s
  /\ (s_peer s <> "" -> s_ap s = "default").

(* the partition is the only source text still spliced into the pattern unquoted *)
Definition lit_src (s : rsvc) : Prop := dot_free (eff_ap s) = true.

Lemma seg_pat x w :
  x <> "" ->
  seg_match (if x =? wild then SAny else SText (quote_meta x)) w = negb (w =? "") && ((x =? wild) || (x =? w)).
Proof.
  intros Hne. destruct (x =? wild); cbn [seg_match orb].
  - rewrite andb_true_r. reflexivity.
  - rewrite (raw_match_quote_meta x w).
    destruct (x =? w) eqn:E; [|rewrite andb_false_r; reflexivity].
    apply String.eqb_eq in E. subst w.
    destruct (x =? "") eqn:E2; [apply String.eqb_eq in E2; contradiction|reflexivity].
Qed.

Lemma if_some {A} (b : bool) (x : A) (f : A -> bool) :
  match (if b then Some x else None) with Some y => f y | None => false end = b && f x.
Proof. destruct b; reflexivity. Qed.

Lemma spiffe_pat_covers s u :
  wf_src s -> lit_src s ->
  raw_match (s_td s) (u_host u) = (s_td s =? u_host u) ->
  pat_match (spiffe_pat s) u = covers_uri s u.
Proof.
  intros (Hname & Hns & _ & _ & _ & _) Lap Hh. unfold lit_src in Lap.
  unfold pat_match, covers_uri, spiffe_pat.
  change (to_lower (or_default (if s_peer s =? "" then s_ap s else s_exp_ap s))) with (eff_ap s).
  pose proof (eff_ap_nonempty s) as Hape.
  set (e := eff_ap s) in *.
  assert (He0 : (e =? "") = false) by (apply String.eqb_neq; exact Hape).
  rewrite He0. cbn [orb ip_host ip_segs].
  rewrite Hh.
  destruct u as [h segs]. cbn [u_host u_segs]. unfold parse_service. cbn [u_segs u_host].
  destruct (e =? "default") eqn:Ed.
  - (* no /ap/ segment *)
    destruct segs as [|a1 [|a2 [|a3 [|a4 [|a5 [|a6 [|a7 [|a8 [|a9 segs]]]]]]]]];
      cbn [forall2b]; rewrite ?andb_false_r; try reflexivity.
    + cbv beta iota. rewrite if_some. unfold src_covers. cbn [id_td id_ap id_ns id_svc]. change (eff_ap s) with e.
      rewrite Ed.
      rewrite (seg_pat (s_ns s) a2 Hns), (seg_pat (s_name s) a6 Hname).
      cbn [seg_match]. rewrite !raw_match_dot_free by reflexivity. btauto.
    + (* eight segments: the URI carries a non-default partition *)
      cbv beta iota. rewrite if_some. unfold src_covers. cbn [id_td id_ap id_ns id_svc]. change (eff_ap s) with e.
      destruct (e =? a2) eqn:E2.
      * apply String.eqb_eq in E2. rewrite <- E2, Ed. btauto.
      * btauto.
  - (* /ap/<e>/ *)
    destruct segs as [|a1 [|a2 [|a3 [|a4 [|a5 [|a6 [|a7 [|a8 [|a9 segs]]]]]]]]];
      cbn [forall2b]; rewrite ?andb_false_r; try reflexivity.
    + cbv beta iota. rewrite if_some. unfold src_covers. cbn [id_td id_ap id_ns id_svc]. change (eff_ap s) with e. rewrite Ed.
      btauto.
    + cbv beta iota. rewrite if_some. unfold src_covers. cbn [id_td id_ap id_ns id_svc]. change (eff_ap s) with e.
      rewrite (seg_pat (s_ns s) a4 Hns), (seg_pat (s_name s) a8 Hname).
      cbn [seg_match]. rewrite !raw_match_dot_free by (try reflexivity; exact Lap).
      destruct (e =? a2) eqn:E2.
      * apply String.eqb_eq in E2. rewrite <- E2, He0, Ed. btauto.
      * btauto.
Qed.

Lemma gateway_pat_is_gateway td u :
  raw_match td (u_host u) = (td =? u_host u) ->
  pat_match (gateway_pat td) u = is_gateway td u.
Proof.
  intros Hh. unfold pat_match, gateway_pat, is_gateway. cbn [ip_host ip_segs].
  rewrite Hh. destruct u as [h segs]. cbn [u_host u_segs].
  destruct segs as [|a1 [|a2 [|a3 [|a4 [|a5 segs]]]]]; cbn [forall2b]; rewrite ?andb_false_r; try reflexivity.
  cbn [seg_match]. rewrite !raw_match_dot_free by reflexivity. btauto.
Qed.

(* a gateway URI is not a service URI *)
Lemma gateway_not_service td u : is_gateway td u = true -> parse_service u = None.
Proof.
  unfold is_gateway, parse_service. destruct u as [h segs]. cbn [u_host u_segs].
  destruct segs as [|a1 [|a2 [|a3 [|a4 [|a5 segs]]]]]; rewrite ?andb_false_r; try discriminate.
  intros _. reflexivity.
Qed.
