(* Shared prelude: arithmetic set-up, byte strings, small list lemmas.
   Stdlib only.  No axioms. *)
From Coq Require Export List Bool Arith NArith ZArith String Ascii Lia.
From Coq Require Export ZifyBool ZifyNat ZifyN.
Export ListNotations.

Ltac Zify.zify_post_hook ::= Z.div_mod_to_equations.

Global Arguments N.add : simpl never.
Global Arguments N.mul : simpl never.
Global Arguments N.sub : simpl never.
Global Arguments N.div : simpl never.
Global Arguments N.modulo : simpl never.
Global Arguments N.leb : simpl never.
Global Arguments N.ltb : simpl never.
Global Arguments N.eqb : simpl never.
Global Arguments N.max : simpl never.

(* A byte string is a list of numbers (0..255 when it comes from Go). *)
Definition bytes := list N.

Fixpoint bytes_eqb (a b : bytes) : bool :=
  match a, b with
  | [], [] => true
  | x :: a', y :: b' => N.eqb x y && bytes_eqb a' b'
  | _, _ => false
  end.

Lemma bytes_eqb_eq a b : bytes_eqb a b = true <-> a = b.
Proof.
  revert b; induction a as [|x a IH]; intros [|y b]; cbn [bytes_eqb]; split;
    try congruence; try reflexivity.
  - intros Hx. apply andb_true_iff in Hx as [Hxy Hab].
    apply N.eqb_eq in Hxy. apply IH in Hab. congruence.
  - intros Heq. injection Heq as -> ->. apply andb_true_iff; split.
    + apply N.eqb_refl.
    + apply IH; reflexivity.
Qed.

Lemma bytes_eqb_refl a : bytes_eqb a a = true.
Proof. apply bytes_eqb_eq; reflexivity. Qed.

Lemma bytes_eqb_neq a b : bytes_eqb a b = false <-> a <> b.
Proof.
  split.
  - intros Hf Heq. apply bytes_eqb_eq in Heq. congruence.
  - intros Hn. destruct (bytes_eqb a b) eqn:E; [|reflexivity].
    apply bytes_eqb_eq in E. contradiction.
Qed.

(* Strings written by the case generators: [bs [97;98]] = "ab". *)
Definition bs (l : list N) : string :=
  fold_right (fun n s => String (ascii_of_N n) s) EmptyString l.

Fixpoint bytes_of_string (s : string) : bytes :=
  match s with
  | EmptyString => []
  | String a s' => N_of_ascii a :: bytes_of_string s'
  end.

(* option / result helpers *)
Definition option_eqb {A} (eqb : A -> A -> bool) (a b : option A) : bool :=
  match a, b with
  | None, None => true
  | Some x, Some y => eqb x y
  | _, _ => false
  end.

Fixpoint list_eqb {A} (eqb : A -> A -> bool) (a b : list A) : bool :=
  match a, b with
  | [], [] => true
  | x :: a', y :: b' => eqb x y && list_eqb eqb a' b'
  | _, _ => false
  end.

Lemma list_eqb_eq {A} (eqb : A -> A -> bool) :
  (forall x y, eqb x y = true <-> x = y) ->
  forall a b, list_eqb eqb a b = true <-> a = b.
Proof.
  intros Heqb a; induction a as [|x a IH]; intros [|y b]; cbn [list_eqb]; split;
    try congruence; try reflexivity.
  - intros Hx. apply andb_true_iff in Hx as [Hxy Hab].
    apply Heqb in Hxy. apply IH in Hab. congruence.
  - intros Heq. injection Heq as -> ->. apply andb_true_iff; split.
    + apply Heqb; reflexivity.
    + apply IH; reflexivity.
Qed.

(* Indices of the cases on which a boolean check fails: what every
   generated case file prints ([] when model and implementation agree). *)
Fixpoint failing_from {A} (chk : A -> bool) (n : N) (l : list A) : list N :=
  match l with
  | [] => []
  | x :: l' => if chk x then failing_from chk (N.succ n) l'
               else n :: failing_from chk (N.succ n) l'
  end.
Definition failing {A} (chk : A -> bool) (l : list A) : list N := failing_from chk 0%N l.
