(* Model of consul's intention precedence, matching and decision code (property C13).

   Anchors (all in /repo):
     agent/structs/intention.go              UpdatePrecedence, countExact, IntentionPrecedenceSorter.Less
     agent/structs/config_entry_intentions.go  normalize (computeIntentionPrecedence, sort.SliceStable),
                                             validate, UpsertSourceByName, ToIntention(s)
     agent/consul/state/intention.go         legacyIntentionSetTxn, intentionMatchGetParams,
                                             intentionMatchOneTxn, legacyIntentionMatchOneTxn,
                                             intentionMutationUpsert, IntentionDecision
     agent/consul/state/config_entry_intention.go
                                             readSourceIntentionsFromConfigEntriesTxn (+ ...ForServiceTxn),
                                             readDestinationIntentionsFromConfigEntriesTxn,
                                             configIntentionsListTxn, ServiceIntentionSourceIndex
     agent/consul/state/config_entry_intention_ce.go  getIntentionPrecedenceMatchServiceNames
     agent/connect/authz.go                  IntentionMatch, AuthorizeIntentionTarget

   Two representations, as in the code: the legacy memdb table "connect-intentions"
   (a list of rows, unique by UUID and by the LOWER-CASED 4-tuple of names) and
   service-intentions config entries (a list of entries, unique by LOWER-CASED name, each a
   list of sources).  CE build: partitions are always "default"/empty and are projected away;
   the namespace of a config-entry intention is always "default"; sameness groups do not exist.

   The model is wrong where the code is wrong:
   * the legacy indexes and the config-entry ID index fold case, the authorisation predicate
     of authz.go does not;
   * UpsertSourceByName and the source loop of readSourceIntentions...ForServiceTxn compare
     the service name only and ignore the peer.
   No proofs in this file. *)
From Verif Require Import Base.Prelude.
Local Open Scope string_scope.

(* ---------------------------------------------------------------- strings *)

Definition lower_ascii (a : ascii) : ascii :=
  let n := N_of_ascii a in
  if (N.leb 65 n && N.leb n 90)%bool then ascii_of_N (n + 32) else a.

(* strings.ToLower on ASCII names (the generators only produce ASCII names) *)
Fixpoint lower (s : string) : string :=
  match s with
  | EmptyString => EmptyString
  | String a r => String (lower_ascii a) (lower r)
  end.

Definition wild : string := "*".
Definition dflt : string := "default".
Definition is_wild (s : string) : bool := String.eqb s wild.

(* strings.Contains(s, "*") *)
Fixpoint has_star (s : string) : bool :=
  match s with
  | EmptyString => false
  | String a r => (Ascii.eqb a "*"%char || has_star r)%bool
  end.

(* Go's [<] on strings: bytewise lexicographic *)
Fixpoint lex {A} (cmp : A -> A -> comparison) (a b : list A) : comparison :=
  match a, b with
  | [], [] => Eq
  | [], _ :: _ => Lt
  | _ :: _, [] => Gt
  | x :: a', y :: b' => match cmp x y with Eq => lex cmp a' b' | c => c end
  end.

Definition scmp (a b : string) : comparison :=
  lex N.compare (bytes_of_string a) (bytes_of_string b).

(* ---------------------------------------------------------------- intentions *)

(* Intention.Action is a string: "allow", "deny", "" (L7 intentions), anything else *)
Inductive action := Allow | Deny | NoAct | BadAct.

Definition action_eqb (a b : action) : bool :=
  match a, b with
  | Allow, Allow | Deny, Deny | NoAct, NoAct | BadAct, BadAct => true
  | _, _ => false
  end.

Record ixn := Ixn {
  i_id : string;        (* legacy UUID, "" for config-entry intentions *)
  i_peer : string;      (* SourcePeer, "" = local *)
  i_sns : string; i_sname : string;
  i_dns : string; i_dname : string;
  i_act : action;
  i_nperm : N;          (* len(Permissions) *)
  i_prec : N
}.

(* structs.Intention.countExact / intentionCountExact *)
Definition count_exact (ns n : string) : N :=
  if is_wild ns then 0%N else if is_wild n then 1%N else 2%N.

(* structs.Intention.UpdatePrecedence / computeIntentionPrecedence *)
Definition prec_of (sns sn dns dn : string) : N :=
  let c := count_exact dns dn in
  let mx := if N.eqb c 2 then 9%N else if N.eqb c 1 then 6%N else 3%N in
  (mx - (2 - count_exact sns sn))%N.

Definition set_prec (i : ixn) : ixn :=
  Ixn (i_id i) (i_peer i) (i_sns i) (i_sname i) (i_dns i) (i_dname i) (i_act i) (i_nperm i)
      (prec_of (i_sns i) (i_sname i) (i_dns i) (i_dname i)).

(* IntentionPrecedenceSorter.Less: precedence descending, then the tuple
   (SrcSamenessGroup="", SrcPeer, SrcPartition="", SrcNS, Src, DstPartition="", DstNS, Dst) ascending *)
Definition key5 (i : ixn) : list string :=
  [i_peer i; i_sns i; i_sname i; i_dns i; i_dname i].

Definition icmp (i j : ixn) : comparison :=
  match N.compare (i_prec j) (i_prec i) with
  | Eq => lex scmp (key5 i) (key5 j)
  | c => c
  end.

Definition iless (i j : ixn) : bool := match icmp i j with Lt => true | _ => false end.
Definition ileb (i j : ixn) : bool := match icmp i j with Gt => false | _ => true end.

(* sort.Sort with a Less that never ties on distinct stored intentions: any correct sort gives
   the same list; here insertion sort. *)
Fixpoint insert {A} (leb : A -> A -> bool) (x : A) (l : list A) : list A :=
  match l with
  | [] => [x]
  | y :: l' => if leb x y then x :: l else y :: insert leb x l'
  end.

Definition isort {A} (leb : A -> A -> bool) (l : list A) : list A :=
  fold_right (insert leb) [] l.

Definition sort_ixns (l : list ixn) : list ixn := isort ileb l.

(* ---------------------------------------------------------------- authz.go *)

Inductive mtype := MSrc | MDst.

Definition wild_or_eq (pat x : string) : bool := (is_wild pat || String.eqb pat x)%bool.

(* connect.IntentionMatch (partitions equal in CE) *)
Definition authz_match (mt : mtype) (target tns tpeer : string) (i : ixn) : bool :=
  match mt with
  | MDst => (wild_or_eq (i_dns i) tns && wild_or_eq (i_dname i) target)%bool
  | MSrc => (String.eqb (i_peer i) tpeer && wild_or_eq (i_sns i) tns
             && wild_or_eq (i_sname i) target)%bool
  end.

(* structs.IntentionDecisionSummary (ExternalSource projected away: meta is not modelled) *)
Record summary := Summary { d_allowed : bool; d_has_perms : bool; d_has_exact : bool }.

(* Store.IntentionDecision *)
Definition decide (l : list ixn) (mt : mtype) (target tns tpeer : string)
           (default_allow allow_perms : bool) : summary :=
  match find (authz_match mt target tns tpeer) l with
  | None => Summary default_allow false false
  | Some i =>
      let hp := negb (N.eqb (i_nperm i) 0) in
      Summary (if hp then allow_perms else action_eqb (i_act i) Allow)
              hp
              (negb (is_wild (i_sname i)) && negb (is_wild (i_dname i)))%bool
  end.

(* ---------------------------------------------------------------- legacy table *)

Inductive werr :=
| WOk
| WMissingID          (* ErrMissingIntentionID *)
| WDuplicate          (* "duplicate intention found" *)
| WInvalid (c : N).   (* config entry Validate failed; c = which check (see [validate]) *)

Definition key4_eqb (i j : ixn) : bool :=
  (String.eqb (lower (i_sns i)) (lower (i_sns j)) && String.eqb (lower (i_sname i)) (lower (i_sname j))
   && String.eqb (lower (i_dns i)) (lower (i_dns j)) && String.eqb (lower (i_dname i)) (lower (i_dname j)))%bool.

(* the "id" index is a UUIDFieldIndex: it parses the hex digits, so IDs are found case-insensitively
   (the row keeps the spelling it was written with) *)
Definition id_eqb (a b : string) : bool := String.eqb (lower a) (lower b).

Fixpoint replace_by_id (i : ixn) (t : list ixn) : list ixn :=
  match t with
  | [] => [i]
  | j :: t' => if id_eqb (i_id j) (i_id i) then i :: t' else j :: replace_by_id i t'
  end.

(* legacyIntentionSetTxn; the duplicate test compares the ID strings exactly (dupIxn.ID != ixn.ID) *)
Definition legacy_set (t : list ixn) (i : ixn) : werr * list ixn :=
  if String.eqb (i_id i) "" then (WMissingID, t) else
  let i' := set_prec i in
  if existsb (fun j => key4_eqb j i' && negb (String.eqb (i_id j) (i_id i')))%bool t
  then (WDuplicate, t)
  else (WOk, replace_by_id i' t).

(* intentionMatchGetParams *)
Definition match_params (ns name : string) : list (string * string) :=
  (wild, wild) ::
  (if is_wild ns then [] else
     (ns, wild) :: (if is_wild name then [] else [(ns, name)])).

(* tx.Get(tableConnectIntentions, "source"|"destination", ns, name): lower-casing string indexes *)
Definition idx_eq (mt : mtype) (p : string * string) (i : ixn) : bool :=
  match mt with
  | MSrc => (String.eqb (lower (i_sns i)) (lower (fst p)) && String.eqb (lower (i_sname i)) (lower (snd p)))%bool
  | MDst => (String.eqb (lower (i_dns i)) (lower (fst p)) && String.eqb (lower (i_dname i)) (lower (snd p)))%bool
  end.

(* intentionMatchOneTxn + sort *)
Definition legacy_match (t : list ixn) (mt : mtype) (ns name : string) : list ixn :=
  sort_ixns (flat_map (fun p => filter (idx_eq mt p) t) (match_params ns name)).

(* legacyIntentionsListTxn *)
Definition legacy_list (t : list ixn) : list ixn := sort_ixns t.

(* ---------------------------------------------------------------- config entries *)

Record src := Src {
  s_peer : string; s_name : string; s_act : action; s_nperm : N; s_prec : N
}.
Record entry := Entry { e_name : string; e_srcs : list src }.

(* ServiceIntentionsConfigEntry.ToIntention (CE: namespaces are "default") *)
Definition to_ixn (e : entry) (s : src) : ixn :=
  Ixn "" (s_peer s) dflt (s_name s) dflt (e_name e) (s_act s) (s_nperm s) (s_prec s).
Definition to_ixns (e : entry) : list ixn := map (to_ixn e) (e_srcs e).

Definition src_set_prec (en : string) (s : src) : src :=
  Src (s_peer s) (s_name s) (s_act s) (s_nperm s) (prec_of dflt (s_name s) dflt en).

(* sort.SliceStable(Sources, Precedence descending) *)
Definition prec_geb (x y : src) : bool := N.leb (s_prec y) (s_prec x).

(* ServiceIntentionsConfigEntry.normalize(false) *)
Definition normalize (e : entry) : entry :=
  Entry (e_name e) (isort prec_geb (map (src_set_prec (e_name e)) (e_srcs e))).

(* ServiceIntentionsConfigEntry.validate(false); the number names the failing check:
   1 Name required, 2 Name partial wildcard, 3 no sources, 4 source name required,
   5 source name partial wildcard, 6 wildcard in peer, 7 action must be allow|deny,
   8 action with permissions, 9 permissions on wildcard destination, 10 duplicate source.
   Permissions themselves are assumed well-formed (the generator only builds valid ones). *)
Definition src_key_eqb (a b : src) : bool :=
  (String.eqb (s_peer a) (s_peer b) && String.eqb (s_name a) (s_name b))%bool.

Fixpoint validate_srcs (dest_wild : bool) (seen : list src) (l : list src) : option N :=
  match l with
  | [] => None
  | s :: r =>
      if String.eqb (s_name s) "" then Some 4%N else
      if (negb (is_wild (s_name s)) && has_star (s_name s))%bool then Some 5%N else
      if has_star (s_peer s) then Some 6%N else
      if (N.eqb (s_nperm s) 0 && negb (action_eqb (s_act s) Allow || action_eqb (s_act s) Deny))%bool
      then Some 7%N else
      if (negb (N.eqb (s_nperm s) 0) && negb (action_eqb (s_act s) NoAct))%bool then Some 8%N else
      if (dest_wild && negb (N.eqb (s_nperm s) 0))%bool then Some 9%N else
      if existsb (src_key_eqb s) seen then Some 10%N else
      validate_srcs dest_wild (s :: seen) r
  end.

Definition validate (e : entry) : option N :=
  if String.eqb (e_name e) "" then Some 1%N else
  if (negb (is_wild (e_name e)) && has_star (e_name e))%bool then Some 2%N else
  match e_srcs e with
  | [] => Some 3%N
  | _ => validate_srcs (is_wild (e_name e)) [] (e_srcs e)
  end.

(* the config-entry table: ID index = lower-cased (kind, name) *)
Definition name_eqb (a b : string) : bool := String.eqb (lower a) (lower b).

Definition lookup (st : list entry) (n : string) : option entry :=
  find (fun e => name_eqb (e_name e) n) st.

Fixpoint put (e : entry) (st : list entry) : list entry :=
  match st with
  | [] => [e]
  | x :: r => if name_eqb (e_name x) (e_name e) then e :: r else x :: put e r
  end.

(* ConfigEntry.Apply: Normalize, Validate, EnsureConfigEntry *)
Definition ensure (st : list entry) (e : entry) : werr * list entry :=
  let e' := normalize e in
  match validate e' with
  | Some c => (WInvalid c, st)
  | None => (WOk, put e' st)
  end.

(* ServiceIntentionsConfigEntry.UpsertSourceByName: the FIRST source with that service name,
   whatever its peer *)
Fixpoint upsert_src (n : string) (v : src) (l : list src) : list src :=
  match l with
  | [] => [v]
  | s :: r => if String.eqb (s_name s) n then v :: r else s :: upsert_src n v r
  end.

(* Store.intentionMutationUpsert (destination dn, source name = v's name) *)
Definition upsert (st : list entry) (dn : string) (v : src) : werr * list entry :=
  let e := match lookup st dn with
           | None => Entry dn [v]
           | Some p => Entry (e_name p) (upsert_src (s_name v) v (e_srcs p))
           end in
  ensure st e.

(* getIntentionPrecedenceMatchServiceNames (CE) *)
Definition match_names (n : string) : list string :=
  if is_wild n then [wild] else [n; wild].

(* readDestinationIntentionsFromConfigEntriesTxn *)
Definition cmatch_dst (st : list entry) (n : string) : list ixn :=
  sort_ixns (flat_map (fun m => match lookup st m with
                                | Some e => to_ixns e
                                | None => []
                                end) (match_names n)).

(* readSourceIntentionsFromConfigEntriesTxn, no service-defaults entry with a Destination block (see [cmatch_src_k] below for those):
   the index finds the entries that have a LOCAL source named m; the loop then keeps every source
   of such an entry whose NAME is m. *)
Definition has_local_src (e : entry) (m : string) : bool :=
  existsb (fun s => String.eqb (s_peer s) "" && String.eqb (s_name s) m)%bool (e_srcs e).

Definition cmatch_src (st : list entry) (n : string) : list ixn :=
  sort_ixns (flat_map (fun m =>
     flat_map (fun e => if has_local_src e m
                        then map (to_ixn e) (filter (fun s => String.eqb (s_name s) m) (e_srcs e))
                        else []) st) (match_names n)).

(* serviceIntentionsToGatewayServiceKind + intentionMatches, with no instance of the destination registered
   in the catalog: [dk] = names of the service-defaults entries that carry a Destination block (looked up
   through the case-folding config-entry index).  Target type "service" hides the entries of such names from
   source matches; target type "destination" shows only those and the wildcard-destination entry. *)
Definition is_dest_kind (dk : list string) (n : string) : bool := existsb (fun k => name_eqb k n) dk.

Definition visible (dk : list string) (dest_target : bool) (e : entry) : bool :=
  if dest_target then (is_dest_kind dk (e_name e) || is_wild (e_name e))%bool
  else negb (is_dest_kind dk (e_name e)).

Definition cmatch_src_k (dk : list string) (dest_target : bool) (st : list entry) (n : string) : list ixn :=
  cmatch_src (filter (visible dk dest_target) st) n.

(* configIntentionsListTxn *)
Definition call (st : list entry) : list ixn := flat_map to_ixns st.
Definition config_list (st : list entry) : list ixn := sort_ixns (call st).

(* ---------------------------------------------------------------- the two decision routes *)

(* Intention.Check RPC, ServiceTopology upstreams: match by SOURCE, decide on the DESTINATION *)
Definition route1 (msrc : string -> string -> list ixn) (sns s dns d : string)
           (default_allow allow_perms : bool) : summary :=
  decide (msrc sns s) MDst d dns "" default_allow allow_perms.

(* agent connect/authorize, xDS, ServiceTopology downstreams: match by DESTINATION, decide on the SOURCE *)
Definition route2 (mdst : string -> string -> list ixn) (peer sns s dns d : string)
           (default_allow allow_perms : bool) : summary :=
  decide (mdst dns d) MSrc s sns peer default_allow allow_perms.
