(* C13: the statements the property file exports, assembled from Proofs.v, plus the concrete
   witnesses for the three places where the faithful model (and the code) falls short. *)
From Coq Require Import Sorting.Permutation Sorting.Sorted.
From Verif Require Import Base.Prelude.
From Verif Require Import Intention.Model.
From Verif Require Import Intention.Spec.
From Verif Require Import Intention.OrderProofs.
From Verif Require Import Intention.Proofs.
From Verif Require Import Intention.Check.
Local Open Scope string_scope.
Local Open Scope list_scope.

(* ---------------------------------------------------------------- most specific wins, both routes *)

Lemma more_specific_asym' i j : more_specific i j -> more_specific j i -> False.
Proof. unfold more_specific. lia. Qed.

Theorem decision_unique all peer sns s dns d o o' :
  (forall i j, In i all -> In j all -> key5 i = key5 j -> i = j) ->
  decided all peer sns s dns d o -> decided all peer sns s dns d o' -> o = o'.
Proof.
  intros Hk. destruct o as [i|], o' as [i'|]; cbn [decided]; try reflexivity.
  - intros (Hi & Ci & Mi) (Hi' & Ci' & Mi').
    destruct (list_eq_dec string_dec (key5 i) (key5 i')) as [E|E].
    + f_equal. apply Hk; assumption.
    + exfalso. assert (i <> i') as Hne by (intros ->; apply E; reflexivity).
      apply (more_specific_asym' i i'); [apply Mi; try assumption; intros ->; apply Hne; reflexivity|apply Mi'; assumption].
  - intros (Hi & Ci & _) H. rewrite (H _ Hi) in Ci. discriminate.
  - intros H (Hi & Ci & _). rewrite (H _ Hi) in Ci. discriminate.
Qed.

Theorem most_specific_config st peer s d da ap :
  store_ok st -> coherent (enames st ++ [d]) ->
  exists o, decided (call st) peer dflt s dflt d o /\
    route2 (fun _ n => cmatch_dst st n) peer dflt s dflt d da ap = summary_of o da ap /\
    (peer = "" -> route1 (fun _ n => cmatch_src st n) dflt s dflt d da ap = summary_of o da ap).
Proof.
  intros Hst C. exists (find (authz_match MSrc s dflt peer) (cmatch_dst st d)).
  pose proof (config_route2 st peer s d Hst C) as R2.
  split; [exact R2|]. split; [reflexivity|].
  intros ->. unfold route1. rewrite decide_eq. f_equal.
  apply (decision_unique (call st) "" dflt s dflt d _ _ (config_all_key st Hst)); [|exact R2].
  apply config_route1. exact Hst.
Qed.

Theorem most_specific_legacy t peer sns s dns d da ap :
  legacy_ok t -> coherent (tnames t ++ [sns; s; dns; d]) ->
  exists o, decided t peer sns s dns d o /\
    route2 (legacy_match t MDst) peer sns s dns d da ap = summary_of o da ap /\
    (peer = "" -> route1 (legacy_match t MSrc) sns s dns d da ap = summary_of o da ap).
Proof.
  intros Ht C.
  assert (coherent (tnames t ++ [dns; d])) as Cd.
  { eapply coherent_incl; [|exact C]. intros x Hx. apply in_app_or in Hx as [Hx|Hx]; apply in_or_app; [left; exact Hx|right].
    cbn in *. tauto. }
  assert (coherent (tnames t ++ [sns; s])) as Cs.
  { eapply coherent_incl; [|exact C]. intros x Hx. apply in_app_or in Hx as [Hx|Hx]; apply in_or_app; [left; exact Hx|right].
    cbn in *. tauto. }
  exists (find (authz_match MSrc s sns peer) (legacy_match t MDst dns d)).
  pose proof (legacy_route2 t peer sns s dns d Ht Cd) as R2.
  split; [exact R2|]. split; [reflexivity|].
  intros ->. unfold route1. rewrite decide_eq. f_equal.
  destruct Ht as [Hrows Hk] eqn:E. clear E.
  apply (decision_unique t "" sns s dns d _ _ (legacy_all_key t Hk)); [|exact R2].
  apply legacy_route1; [split; assumption|exact Cs].
Qed.


Theorem paths_agree_config st s d da ap :
  store_ok st -> coherent (enames st ++ [d]) ->
  route1 (fun _ n => cmatch_src st n) dflt s dflt d da ap
  = route2 (fun _ n => cmatch_dst st n) "" dflt s dflt d da ap.
Proof.
  intros Hst C. destruct (most_specific_config st "" s d da ap Hst C) as (o & _ & R2 & R1).
  rewrite R2, (R1 eq_refl). reflexivity.
Qed.

Theorem paths_agree_legacy t sns s dns d da ap :
  legacy_ok t -> coherent (tnames t ++ [sns; s; dns; d]) ->
  route1 (legacy_match t MSrc) sns s dns d da ap = route2 (legacy_match t MDst) "" sns s dns d da ap.
Proof.
  intros Ht C. destruct (most_specific_legacy t "" sns s dns d da ap Ht C) as (o & _ & R2 & R1).
  rewrite R2, (R1 eq_refl). reflexivity.
Qed.

(* ---------------------------------------------------------------- sorted match lists *)

Theorem sorted_legacy t mt ns n :
  (forall i, In i t -> wf i) -> coherent (tnames t ++ [ns; n]) ->
  isorted (legacy_match t mt ns n) /\
  Permutation (legacy_match t mt ns n) (filter (side_pred mt ns n) t).
Proof. intros Hwf C. split; [apply legacy_match_sorted|apply legacy_match_perm; assumption]. Qed.

Theorem sorted_config_dst st d :
  store_ok st -> coherent (enames st ++ [d]) ->
  isorted (cmatch_dst st d) /\
  Permutation (cmatch_dst st d) (filter (fun j => wild_or_eq (i_dname j) d) (call st)).
Proof. intros Hst C. split; [apply sort_ixns_sorted|apply cmatch_dst_perm; assumption]. Qed.

Theorem sorted_config_src st s :
  store_ok st ->
  isorted (cmatch_src st s) /\
  Permutation (cmatch_src st s) (filter (src_sel (call st) s) (call st)).
Proof. intros Hst. split; [apply sort_ixns_sorted|apply cmatch_src_perm; assumption]. Qed.

Lemma src_sel_clean st s j :
  store_ok st -> shadow_free st -> In j (call st) ->
  src_sel (call st) s j = (String.eqb (i_peer j) "" && wild_or_eq (i_sname j) s)%bool.
Proof.
  intros Hst Hsf Hj. apply in_call in Hj as (e & x & He & Hx & ->).
  apply Bool.eq_iff_eq_true. unfold src_sel. rewrite existsb_exists, andb_true_iff, String.eqb_eq, wild_or_eq_true.
  cbn [to_ixn i_peer i_sname]. split.
  - intros (m & Hm & H). apply andb_true_iff in H as [E L]. apply String.eqb_eq in E.
    rewrite (has_local_src_call st e m x Hst He) in L.
    unfold has_local_src in L. apply existsb_exists in L as (y & Hy & Ey).
    apply andb_true_iff in Ey as [E1 E2]. apply String.eqb_eq in E1, E2.
    assert (y = x) as ->.
    { apply (nodup_map_inj s_name (e_srcs e)); try assumption; [apply Hsf; exact He|congruence]. }
    split; [exact E1|]. apply in_match_names in Hm as [->|[_ ->]]; [left|right]; exact E.
  - intros [Pe Sn]. exists (s_name x). split.
    + apply in_match_names. destruct Sn as [Sn|Sn]; [left; exact Sn|].
      destruct (is_wild s) eqn:A; [left; apply is_wild_true in A; congruence|right; auto].
    + rewrite String.eqb_refl. cbn [andb]. rewrite (has_local_src_call st e (s_name x) x Hst He).
      unfold has_local_src. apply existsb_exists. exists x. split; [exact Hx|].
      rewrite Pe, !String.eqb_refl. reflexivity.
Qed.

Theorem sorted_config_src_clean st s :
  store_ok st -> shadow_free st ->
  Permutation (cmatch_src st s)
              (filter (fun j => String.eqb (i_peer j) "" && wild_or_eq (i_sname j) s)%bool (call st)).
Proof.
  intros Hst Hsf. rewrite (cmatch_src_perm st s Hst).
  erewrite filter_ext_in; [reflexivity|]. intros j Hj. apply src_sel_clean; assumption.
Qed.

Theorem sorted_lists t st :
  (isorted (legacy_list t) /\ Permutation (legacy_list t) t) /\
  (isorted (config_list st) /\ Permutation (config_list st) (call st)).
Proof. repeat split; try apply sort_ixns_sorted; apply sort_ixns_perm. Qed.

(* distinct stored intentions never tie: the returned order is strict *)
Theorem sorted_strict all l :
  (forall i j, In i all -> In j all -> key5 i = key5 j -> i = j) -> incl l all ->
  forall i j, In i l -> In j l -> ileb i j = true -> ileb j i = true -> i = j.
Proof.
  intros Hk Hin i j Hi Hj A B. apply Hk; [apply Hin; exact Hi|apply Hin; exact Hj|].
  apply (ileb_antisym _ _ A B).
Qed.

(* ---------------------------------------------------------------- order independence *)

Theorem order_independent_legacy t ws ws' :
  fresh_writes t ws -> Permutation ws ws' ->
  let t1 := legacy_apply t ws in
  let t2 := legacy_apply t ws' in
  legacy_list t1 = legacy_list t2 /\
  (forall mt ns n, legacy_match t1 mt ns n = legacy_match t2 mt ns n) /\
  (forall peer sns s dns d da ap,
     route1 (legacy_match t1 MSrc) sns s dns d da ap = route1 (legacy_match t2 MSrc) sns s dns d da ap /\
     route2 (legacy_match t1 MDst) peer sns s dns d da ap = route2 (legacy_match t2 MDst) peer sns s dns d da ap).
Proof.
  intros Hf Hp. destruct (legacy_order_independent t ws ws' Hf Hp) as (_ & Hl & Hm). cbn zeta.
  split; [exact Hl|]. split; [exact Hm|].
  intros peer sns s dns d da ap. unfold route1, route2. rewrite !Hm. split; reflexivity.
Qed.

Lemma config_obs_equal a b (names : list string) :
  store_ok a -> store_ok b -> Permutation (call a) (call b) ->
  incl (enames a) names -> incl (enames b) names ->
  config_list a = config_list b /\
  (forall s, cmatch_src a s = cmatch_src b s) /\
  (forall d, coherent (names ++ [d]) -> cmatch_dst a d = cmatch_dst b d) /\
  (forall peer s d da ap, coherent (names ++ [d]) ->
     route1 (fun _ n => cmatch_src a n) dflt s dflt d da ap = route1 (fun _ n => cmatch_src b n) dflt s dflt d da ap /\
     route2 (fun _ n => cmatch_dst a n) peer dflt s dflt d da ap = route2 (fun _ n => cmatch_dst b n) peer dflt s dflt d da ap).
Proof.
  intros Ha Hb Hp Ia Ib. destruct (config_obs_perm a b Ha Hb Hp) as (Hl & Hs & Hd).
  assert (forall d, coherent (names ++ [d]) -> cmatch_dst a d = cmatch_dst b d) as Hd'.
  { intros d C. apply Hd; (eapply coherent_incl; [|exact C]); intros x Hx;
      apply in_app_or in Hx as [Hx|Hx]; apply in_or_app; auto. }
  split; [exact Hl|]. split; [exact Hs|]. split; [exact Hd'|].
  intros peer s d da ap C. unfold route1, route2. rewrite Hs, (Hd' d C). split; reflexivity.
Qed.

Theorem order_independent_upsert st1 st2 ws1 ws2 :
  store_ok st1 -> store_ok st2 -> shadow_free st1 -> shadow_free st2 ->
  Permutation (call st1) (call st2) -> Permutation ws1 ws2 ->
  NoDup (map wkey ws1) -> (forall w, In w ws1 -> s_peer (snd w) = "") ->
  coherent (enames st1 ++ map fst ws1) ->
  let a := upsert_all st1 ws1 in
  let b := upsert_all st2 ws2 in
  config_list a = config_list b /\
  (forall s, cmatch_src a s = cmatch_src b s) /\
  (forall d, coherent ((enames st1 ++ map fst ws1) ++ [d]) -> cmatch_dst a d = cmatch_dst b d) /\
  (forall peer s d da ap, coherent ((enames st1 ++ map fst ws1) ++ [d]) ->
     route1 (fun _ n => cmatch_src a n) dflt s dflt d da ap = route1 (fun _ n => cmatch_src b n) dflt s dflt d da ap /\
     route2 (fun _ n => cmatch_dst a n) peer dflt s dflt d da ap = route2 (fun _ n => cmatch_dst b n) peer dflt s dflt d da ap).
Proof.
  intros H1 H2 S1 S2 Hc Hw Hk Hpe C.
  destruct (upsert_order_independent st1 st2 ws1 ws2 H1 H2 S1 S2 Hc Hw Hk Hpe C) as (A & B & P & Ia & Ib).
  cbn zeta. apply config_obs_equal; assumption.
Qed.

Theorem order_independent_entries st1 st2 es1 es2 :
  store_ok st1 -> store_ok st2 -> Permutation (call st1) (call st2) ->
  Permutation es1 es2 -> NoDup (map lname es1) ->
  let a := ensure_all st1 es1 in
  let b := ensure_all st2 es2 in
  config_list a = config_list b /\
  (forall s, cmatch_src a s = cmatch_src b s) /\
  (forall d, coherent ((enames st1 ++ map e_name es1) ++ [d]) -> cmatch_dst a d = cmatch_dst b d) /\
  (forall peer s d da ap, coherent ((enames st1 ++ map e_name es1) ++ [d]) ->
     route1 (fun _ n => cmatch_src a n) dflt s dflt d da ap = route1 (fun _ n => cmatch_src b n) dflt s dflt d da ap /\
     route2 (fun _ n => cmatch_dst a n) peer dflt s dflt d da ap = route2 (fun _ n => cmatch_dst b n) peer dflt s dflt d da ap).
Proof.
  intros H1 H2 Hc He Hk.
  destruct (entries_order_independent st1 st2 es1 es2 H1 H2 Hc He Hk) as (A & B & P & Ia & Ib).
  cbn zeta. apply config_obs_equal; assumption.
Qed.

(* ---------------------------------------------------------------- where the code falls short: witnesses *)

(* (1) Names that differ only in case.  The config-entry table (and the legacy indexes) fold case,
   authz.go does not: the entry "DB" answers a destination query for "db". *)
Definition cf_store : list entry := snd (ensure [] (Entry "DB" [Src "" "web" Allow 0 0])).

Theorem case_folding_refuted :
  store_ok cf_store /\
  decided (call cf_store) "" dflt "web" dflt "db" None /\
  d_allowed (route2 (fun _ n => cmatch_dst cf_store n) "" dflt "web" dflt "db" false false) = true /\
  d_allowed (route1 (fun _ n => cmatch_src cf_store n) dflt "web" dflt "db" false false) = false.
Proof.
  split; [apply store_okb_sound; vm_compute; reflexivity|]. split; [|split; vm_compute; reflexivity].
  cbn [decided]. intros j Hj. vm_compute in Hj. destruct Hj as [<-|[]]. vm_compute. reflexivity.
Qed.

(* the same for legacy rows *)
Definition cf_table : list ixn :=
  snd (legacy_set [] (Ixn "00000000-0000-4000-8000-000000000001" "" dflt "web" dflt "DB" Allow 0 0)).

Theorem case_folding_legacy_refuted :
  legacy_ok cf_table /\
  decided cf_table "" dflt "web" dflt "db" None /\
  d_allowed (route2 (legacy_match cf_table MDst) "" dflt "web" dflt "db" false false) = true /\
  d_allowed (route1 (legacy_match cf_table MSrc) dflt "web" dflt "db" false false) = false.
Proof.
  split; [apply legacy_okb_sound; vm_compute; reflexivity|]. split; [|split; vm_compute; reflexivity].
  cbn [decided]. intros j Hj. vm_compute in Hj. destruct Hj as [<-|[]]. vm_compute. reflexivity.
Qed.

(* ... and the first writer fixes the spelling of the entry name, so two upserts whose destinations
   differ only in case do not commute *)
Definition cf_w1 : string * src := ("db", Src "" "web" Allow 0 0).
Definition cf_w2 : string * src := ("DB", Src "" "api" Allow 0 0).

Theorem case_folding_order_refuted :
  NoDup (map wkey [cf_w1; cf_w2]) /\
  d_allowed (route1 (fun _ n => cmatch_src (upsert_all [] [cf_w1; cf_w2]) n) dflt "web" dflt "db" false false) = true /\
  d_allowed (route1 (fun _ n => cmatch_src (upsert_all [] [cf_w2; cf_w1]) n) dflt "web" dflt "db" false false) = false.
Proof.
  split; [|split; vm_compute; reflexivity].
  apply (nodupb_sound pair_eqb pair_eqb_refl). vm_compute. reflexivity.
Qed.

(* (2) A local and a peered source with the same service name in one entry.  UpsertSourceByName looks at
   the name only: whether the later upsert of the LOCAL source is accepted depends on which of the two was
   stored first. *)
Definition so_peer : src := Src "p" "web" Deny 0 0.
Definition so_local : src := Src "" "web" Allow 0 0.
Definition so_st1 : list entry := snd (ensure [] (Entry "db" [so_peer; so_local])).
Definition so_st2 : list entry := snd (ensure [] (Entry "db" [so_local; so_peer])).
Definition so_w : string * src := ("db", Src "" "web" Deny 0 0).

Theorem stored_order_refuted :
  store_ok so_st1 /\ store_ok so_st2 /\ Permutation (call so_st1) (call so_st2) /\
  s_peer (snd so_w) = "" /\ coherent (enames so_st1 ++ ["db"; "web"]) /\
  fst (upsert so_st1 (fst so_w) (snd so_w)) = WInvalid 10 /\
  fst (upsert so_st2 (fst so_w) (snd so_w)) = WOk /\
  d_allowed (route2 (fun _ n => cmatch_dst (upsert_all so_st1 [so_w]) n) "" dflt "web" dflt "db" false false) = true /\
  d_allowed (route2 (fun _ n => cmatch_dst (upsert_all so_st2 [so_w]) n) "" dflt "web" dflt "db" false false) = false.
Proof.
  split; [apply store_okb_sound; vm_compute; reflexivity|].
  split; [apply store_okb_sound; vm_compute; reflexivity|].
  split; [vm_compute; apply perm_swap|].
  split; [reflexivity|].
  split; [apply coherentb_sound; vm_compute; reflexivity|].
  repeat split; vm_compute; reflexivity.
Qed.

(* (3) ... and the match-by-source list of the local service "web" contains the peered intention *)
Theorem src_match_peered_refuted :
  store_ok so_st1 /\
  exists j, In j (cmatch_src so_st1 "web") /\ i_peer j = "p" /\
            authz_match MSrc "web" dflt "" j = false.
Proof.
  split; [apply store_okb_sound; vm_compute; reflexivity|].
  exists (Ixn "" "p" dflt "web" dflt "db" Deny 0 9). split; [vm_compute; auto|]. split; reflexivity.
Qed.

(* ---------------------------------------------------------------- the hypotheses are satisfiable *)

Definition ex_store : list entry :=
  upsert_all [] [("db", Src "" "web" Allow 0 0); ("db", Src "" "*" Deny 0 0);
                 ("*", Src "" "web" Deny 0 0); ("api", Src "" "web" NoAct 2 0)].

Theorem ex_store_ok :
  store_ok ex_store /\ shadow_free ex_store /\ coherent (enames ex_store ++ ["web"; "db"; "api"; "zz"]) /\
  summary_code' (route2 (fun _ n => cmatch_dst ex_store n) "" dflt "web" dflt "db" false false) = (true, false, true) /\
  summary_code' (route2 (fun _ n => cmatch_dst ex_store n) "" dflt "zz" dflt "db" true false) = (false, false, false) /\
  summary_code' (route2 (fun _ n => cmatch_dst ex_store n) "" dflt "web" dflt "zz" true false) = (false, false, false) /\
  summary_code' (route2 (fun _ n => cmatch_dst ex_store n) "" dflt "web" dflt "api" true false) = (false, true, true) /\
  summary_code' (route2 (fun _ n => cmatch_dst ex_store n) "" dflt "zz" dflt "zz" true false) = (true, false, false).
Proof.
  split; [apply store_okb_sound; vm_compute; reflexivity|].
  split; [apply shadow_freeb_sound; vm_compute; reflexivity|].
  split; [apply coherentb_sound; vm_compute; reflexivity|].
  repeat split; vm_compute; reflexivity.
Qed.

Definition ex_writes : list ixn :=
  [Ixn "00000000-0000-4000-8000-000000000001" "" dflt "web" dflt "db" Allow 0 0;
   Ixn "00000000-0000-4000-8000-000000000002" "" dflt "*" dflt "db" Deny 0 0;
   Ixn "00000000-0000-4000-8000-000000000003" "" "*" "*" "*" "*" Deny 0 0].

Theorem ex_legacy_ok :
  fresh_writes [] ex_writes /\ legacy_ok (legacy_apply [] ex_writes) /\
  coherent (tnames (legacy_apply [] ex_writes) ++ [dflt; "web"; dflt; "db"]) /\
  d_allowed (route1 (legacy_match (legacy_apply [] ex_writes) MSrc) dflt "web" dflt "db" false false) = true /\
  d_allowed (route1 (legacy_match (legacy_apply [] ex_writes) MSrc) dflt "api" dflt "db" true false) = false.
Proof.
  split; [apply fresh_writesb_sound; vm_compute; reflexivity|].
  split; [apply legacy_okb_sound; vm_compute; reflexivity|].
  split; [apply coherentb_sound; vm_compute; reflexivity|].
  split; vm_compute; reflexivity.
Qed.
