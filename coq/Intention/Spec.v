(* Specification vocabulary for property C13: what "covers", "more specific", "the deciding
   intention" mean, which stores and writes the theorems talk about.  Definitions only. *)
From Verif Require Import Base.Prelude.
From Verif Require Import Intention.Model.
Local Open Scope string_scope.
Local Open Scope list_scope.

(* ---------------------------------------------------------------- names and specificity *)

(* names whose case-folded forms collide are the same name (e.g. all names lower-case, or every
   service spelled the same way everywhere) *)
Definition coherent (names : list string) : Prop :=
  forall a b, In a names -> In b names -> lower a = lower b -> a = b.

Definition dspec (i : ixn) : N := count_exact (i_dns i) (i_dname i).
Definition sspec (i : ixn) : N := count_exact (i_sns i) (i_sname i).

(* i is strictly more specific than j: destination first, then source *)
Definition more_specific (i j : ixn) : Prop :=
  (dspec j < dspec i)%N \/ (dspec j = dspec i /\ (sspec j < sspec i)%N).

(* what Intention.Validate / the config-entry validation guarantee of a stored intention: an exact
   name never follows a wildcard namespace, and Precedence is the number UpdatePrecedence computes *)
Definition wf (i : ixn) : Prop :=
  (is_wild (i_sns i) = true -> is_wild (i_sname i) = true) /\
  (is_wild (i_dns i) = true -> is_wild (i_dname i) = true) /\
  i_prec i = prec_of (i_sns i) (i_sname i) (i_dns i) (i_dname i).

(* ---------------------------------------------------------------- the decision the property demands *)

(* intention i covers the connection (peer, sns/s) -> (dns/d): authz.go's predicate on both sides *)
Definition covers (peer sns s dns d : string) (i : ixn) : bool :=
  (authz_match MSrc s sns peer i && authz_match MDst d dns "" i)%bool.

Definition summary_of (o : option ixn) (default_allow allow_perms : bool) : summary :=
  match o with
  | None => Summary default_allow false false
  | Some i =>
      let hp := negb (N.eqb (i_nperm i) 0) in
      Summary (if hp then allow_perms else action_eqb (i_act i) Allow) hp
              (negb (is_wild (i_sname i)) && negb (is_wild (i_dname i)))%bool
  end.

Definition summary_code' (d : summary) : bool * bool * bool := (d_allowed d, d_has_perms d, d_has_exact d).

(* i is THE most specific stored intention covering the connection: every other covering one is
   strictly less specific *)
Definition best (all : list ixn) (peer sns s dns d : string) (i : ixn) : Prop :=
    In i all /\ covers peer sns s dns d i = true /\
    forall j, In j all -> covers peer sns s dns d j = true -> j <> i -> more_specific i j.

(* o is the intention that must decide (None: no stored intention covers the connection, the
   default policy applies) *)
Definition decided (all : list ixn) (peer sns s dns d : string) (o : option ixn) : Prop :=
  match o with
  | None => forall j, In j all -> covers peer sns s dns d j = false
  | Some i => best all peer sns s dns d i
  end.

(* ---------------------------------------------------------------- the legacy table *)

Definition inames (i : ixn) : list string := [i_sns i; i_sname i; i_dns i; i_dname i].
Definition tnames (t : list ixn) : list string := flat_map inames t.

(* what the unique lower-cased "source_destination" index maintains *)
Definition key4_unique (t : list ixn) : Prop :=
  forall i j, In i t -> In j t -> key4_eqb i j = true -> i = j.

(* rows written through the endpoints: validated, local sources (Intention.Apply rejects SourcePeer) *)
Definition legacy_ok (t : list ixn) : Prop :=
  (forall i, In i t -> wf i /\ i_peer i = "") /\ key4_unique t.

Definition side (mt : mtype) (i : ixn) : string * string :=
  match mt with MSrc => (i_sns i, i_sname i) | MDst => (i_dns i, i_dname i) end.

(* the pattern on side mt of intention i covers the queried (namespace, name) *)
Definition side_pred (mt : mtype) (ns n : string) (i : ixn) : bool :=
  (wild_or_eq (fst (side mt i)) ns && wild_or_eq (snd (side mt i)) n)%bool.

(* creating intentions one after the other *)
Definition legacy_apply (t : list ixn) (ws : list ixn) : list ixn :=
  fold_left (fun t w => snd (legacy_set t w)) ws t.

(* fresh writes: new non-empty IDs (as UUIDs, i.e. up to hex case), new (case-folded) name tuples *)
Definition fresh_writes (t ws : list ixn) : Prop :=
  NoDup (map (fun i => lower (i_id i)) (t ++ ws)) /\ (forall w, In w ws -> i_id w <> "") /\
  (forall i j, In i (t ++ map set_prec ws) -> In j (t ++ map set_prec ws) -> key4_eqb i j = true -> i = j).

(* ---------------------------------------------------------------- service-intentions config entries *)

Definition skey (s : src) : string * string := (s_peer s, s_name s).
Definition lname (e : entry) : string := lower (e_name e).
Definition enames (st : list entry) : list string := map e_name st.

Definition src_ok (en : string) (s : src) : Prop := s_prec s = prec_of dflt (s_name s) dflt en.

(* an entry as Normalize + Validate leave it *)
Definition entry_ok (e : entry) : Prop :=
  validate e = None /\ forall s, In s (e_srcs e) -> src_ok (e_name e) s.

(* the config-entry table: one entry per lower-cased name *)
Definition store_ok (st : list entry) : Prop :=
  NoDup (map lname st) /\ forall e, In e st -> entry_ok e.

(* the per-source and per-name checks of ServiceIntentionsConfigEntry.validate as booleans *)
Definition src_valid (dw : bool) (s : src) : bool :=
  (negb (String.eqb (s_name s) "")
   && negb (negb (is_wild (s_name s)) && has_star (s_name s))
   && negb (has_star (s_peer s))
   && negb (N.eqb (s_nperm s) 0 && negb (action_eqb (s_act s) Allow || action_eqb (s_act s) Deny))
   && negb (negb (N.eqb (s_nperm s) 0) && negb (action_eqb (s_act s) NoAct))
   && negb (dw && negb (N.eqb (s_nperm s) 0)))%bool.

Definition ename_valid (n : string) : bool :=
  (negb (String.eqb n "") && negb (negb (is_wild n) && has_star n))%bool.

(* what readSourceIntentionsFromConfigEntriesTxn really selects: the source NAME is covered and the
   destination's entry has a LOCAL source of that name (the peer of the selected source is not looked at) *)
Definition src_sel (all : list ixn) (s : string) (j : ixn) : bool :=
  existsb (fun m => String.eqb (i_sname j) m &&
                    existsb (fun j' => String.eqb (i_peer j') "" && String.eqb (i_sname j') m
                                       && String.eqb (i_dname j') (i_dname j)) all)%bool
          (match_names s).

(* no entry holds two sources with the same service name (e.g. a local and a peered "web") *)
Definition shadow_free (st : list entry) : Prop :=
  forall e, In e st -> NoDup (map s_name (e_srcs e)).

(* Store.IntentionMutation(upsert) of source v for destination dn: replaces the stored intentions j with
   [over dn v j], stores [wixn dn v] when [wvalid dn v] *)
Definition over (dn : string) (v : src) (j : ixn) : bool :=
  (name_eqb (i_dname j) dn && String.eqb (i_sname j) (s_name v))%bool.

Definition wixn (dn : string) (v : src) : ixn := to_ixn (Entry dn []) (src_set_prec dn v).

Definition wvalid (dn : string) (v : src) : bool :=
  (ename_valid dn && src_valid (is_wild dn) v)%bool.

Definition upsert_all (st : list entry) (ws : list (string * src)) : list entry :=
  fold_left (fun st w => snd (upsert st (fst w) (snd w))) ws st.

Definition wkey (w : string * src) : string * string := (lower (fst w), s_name (snd w)).

(* whole-entry writes (ConfigEntry.Apply) one after the other *)
Definition ensure_all (st : list entry) (es : list entry) : list entry :=
  fold_left (fun st e => snd (ensure st e)) es st.

(* ---------------------------------------------------------------- executable checkers of the hypotheses
   (soundness lemmas in Check.v; used for the witnesses and to count the generated cases that fall
   under the theorems) *)

Fixpoint nodupb {A} (eqb : A -> A -> bool) (l : list A) : bool :=
  match l with
  | [] => true
  | x :: r => (negb (existsb (eqb x) r) && nodupb eqb r)%bool
  end.

Definition pair_eqb (a b : string * string) : bool :=
  (String.eqb (fst a) (fst b) && String.eqb (snd a) (snd b))%bool.

Definition coherentb (names : list string) : bool :=
  forallb (fun a => forallb (fun b => negb (String.eqb (lower a) (lower b)) || String.eqb a b)%bool names) names.

Definition wfb (i : ixn) : bool :=
  ((negb (is_wild (i_sns i)) || is_wild (i_sname i))
   && (negb (is_wild (i_dns i)) || is_wild (i_dname i))
   && N.eqb (i_prec i) (prec_of (i_sns i) (i_sname i) (i_dns i) (i_dname i)))%bool.

Fixpoint key4_nodupb (t : list ixn) : bool :=
  match t with
  | [] => true
  | x :: r => (negb (existsb (key4_eqb x) r) && key4_nodupb r)%bool
  end.

Definition legacy_okb (t : list ixn) : bool :=
  (forallb (fun i => wfb i && String.eqb (i_peer i) "")%bool t && key4_nodupb t)%bool.

Definition fresh_writesb (t ws : list ixn) : bool :=
  (nodupb String.eqb (map (fun i => lower (i_id i)) (t ++ ws)) && forallb (fun w => negb (String.eqb (i_id w) "")) ws
   && key4_nodupb (t ++ map set_prec ws))%bool.

Definition entry_okb (e : entry) : bool :=
  (match validate e with None => true | Some _ => false end
   && forallb (fun s => N.eqb (s_prec s) (prec_of dflt (s_name s) dflt (e_name e))) (e_srcs e))%bool.

Definition store_okb (st : list entry) : bool :=
  (nodupb String.eqb (map lname st) && forallb entry_okb st)%bool.

Definition shadow_freeb (st : list entry) : bool :=
  forallb (fun e => nodupb String.eqb (map s_name (e_srcs e))) st.

Definition wkeys_okb (ws : list (string * src)) : bool :=
  (nodupb pair_eqb (map wkey ws) && forallb (fun w => String.eqb (s_peer (snd w)) "") ws)%bool.


(* ---------------------------------------------------------------- histories mixing whole-entry writes and upserts *)

Inductive cwrite :=
| WEnt (e : entry)                 (* ConfigEntry.Apply of a whole service-intentions entry *)
| WUps (dn : string) (v : src).    (* Intention.Apply upsert of one source *)

Definition capply (st : list entry) (w : cwrite) : list entry :=
  match w with WEnt e => snd (ensure st e) | WUps dn v => snd (upsert st dn v) end.
Definition capply_all (st : list entry) (ws : list cwrite) : list entry := fold_left capply ws st.

Definition cw_ents (ws : list cwrite) : list entry :=
  flat_map (fun w => match w with WEnt e => [e] | WUps _ _ => [] end) ws.
Definition cw_upss (ws : list cwrite) : list (string * src) :=
  flat_map (fun w => match w with WEnt _ => [] | WUps dn v => [(dn, v)] end) ws.

(* the writes of a history are pairwise independent: distinct entry names, distinct (destination, source)
   upsert keys, local upsert sources, and no upsert goes into an entry that the history also writes whole *)
Definition cw_independent (ws : list cwrite) : Prop :=
  NoDup (map lname (cw_ents ws)) /\
  NoDup (map wkey (cw_upss ws)) /\
  (forall w, In w (cw_upss ws) -> s_peer (snd w) = "") /\
  (forall e w, In e (cw_ents ws) -> In w (cw_upss ws) -> lower (fst w) <> lname e).

(* the entries upserts go into hold no two sources with the same service name *)
Definition shadow_free_on (ws : list cwrite) (st : list entry) : Prop :=
  forall e w, In e st -> In w (cw_upss ws) -> lname e = lower (fst w) -> NoDup (map s_name (e_srcs e)).

(* i comes before j in the list *)
Definition precedes {A} (l : list A) (i j : A) : Prop :=
  exists l1 l2 l3, l = l1 ++ i :: l2 ++ j :: l3.
