(* C13, second part: (1) histories that mix whole-entry writes and upserts commute; (2) a more specific
   intention precedes a less specific one in every returned list; (3) destination-kind services
   (service-defaults with a Destination block): what the Check route decides, when the two routes agree. *)
From Coq Require Import Sorting.Permutation Sorting.Sorted.
From Verif Require Import Base.Prelude.
From Verif Require Import Intention.Model.
From Verif Require Import Intention.Spec.
From Verif Require Import Intention.OrderProofs.
From Verif Require Import Intention.Proofs.
From Verif Require Import Intention.Check.
From Verif Require Import Intention.Theorems.
Local Open Scope string_scope.
Local Open Scope list_scope.

(* ---------------------------------------------------------------- (2) precedence order of the lists *)

Lemma sorted_precedes l i j :
  isorted l -> In i l -> In j l -> ileb j i = false -> precedes l i j.
Proof.
  induction l as [|a r IH]; intros Hs Hi Hj Hlt; [destruct Hi|].
  inversion Hs as [|? ? Hs' Hf]; subst. rewrite Forall_forall in Hf.
  destruct Hj as [<-|Hj].
  - exfalso. destruct Hi as [<-|Hi].
    + rewrite ileb_refl in Hlt. discriminate.
    + rewrite (Hf i Hi) in Hlt. discriminate.
  - destruct Hi as [<-|Hi].
    + apply in_split in Hj as (l2 & l3 & ->). exists [], l2, l3. reflexivity.
    + destruct (IH Hs' Hi Hj Hlt) as (l1 & l2 & l3 & ->). exists (a :: l1), l2, l3. reflexivity.
Qed.

Lemma more_specific_ileb i j : wf i -> wf j -> more_specific i j -> ileb j i = false.
Proof.
  intros Wi Wj M. apply (prec_lt_specific i j Wi Wj) in M.
  unfold ileb, icmp. destruct (N.compare (i_prec i) (i_prec j)) eqn:E; try reflexivity.
  - apply N.compare_eq in E. lia.
  - rewrite N.compare_lt_iff in E. lia.
Qed.

Theorem more_specific_first l i j :
  isorted l -> (forall x, In x l -> wf x) -> In i l -> In j l -> more_specific i j -> precedes l i j.
Proof.
  intros Hs Hwf Hi Hj M. apply sorted_precedes; try assumption.
  apply more_specific_ileb; auto.
Qed.

Theorem more_specific_first_config st s d i j :
  store_ok st -> more_specific i j ->
  (In i (config_list st) -> In j (config_list st) -> precedes (config_list st) i j) /\
  (In i (cmatch_src st s) -> In j (cmatch_src st s) -> precedes (cmatch_src st s) i j) /\
  (In i (cmatch_dst st d) -> In j (cmatch_dst st d) -> precedes (cmatch_dst st d) i j).
Proof.
  intros Hst M. pose proof (config_all_wf st Hst) as W.
  split; [|split]; intros Hi Hj; apply more_specific_first; try assumption; try apply sort_ixns_sorted.
  - intros x Hx. apply W. unfold config_list in Hx. apply (proj1 (sort_ixns_in _ _)) in Hx. exact Hx.
  - intros x Hx. apply W. apply (Permutation_in _ (cmatch_src_perm st s Hst)) in Hx. apply filter_In in Hx. tauto.
  - intros x Hx. apply W. unfold cmatch_dst in Hx. apply (proj1 (sort_ixns_in _ _)) in Hx. apply in_flat_map in Hx as (m & _ & Hx).
    destruct (lookup st m) as [e|] eqn:L; [|destruct Hx]. apply lookup_some in L as [He _].
    apply in_call. unfold to_ixns in Hx. apply in_map_iff in Hx as (x0 & <- & Hx0). eauto.
Qed.

Theorem more_specific_first_legacy t mt ns n i j :
  (forall x, In x t -> wf x) -> more_specific i j ->
  (In i (legacy_list t) -> In j (legacy_list t) -> precedes (legacy_list t) i j) /\
  (In i (legacy_match t mt ns n) -> In j (legacy_match t mt ns n) -> precedes (legacy_match t mt ns n) i j).
Proof.
  intros W M. split; intros Hi Hj; apply more_specific_first; try assumption; try apply sort_ixns_sorted.
  - intros x Hx. apply W. unfold legacy_list in Hx. apply (proj1 (sort_ixns_in _ _)) in Hx. exact Hx.
  - intros x Hx. apply W. apply legacy_match_in in Hx. tauto.
Qed.

(* ---------------------------------------------------------------- (3) destination-kind services *)

Lemma store_ok_filter P st : store_ok st -> store_ok (filter P st).
Proof.
  intros [Hn Hok]. split; [apply nodup_map_filter; exact Hn|].
  intros e He. apply filter_In in He as [He _]. apply Hok; exact He.
Qed.

(* what Intention.Check / ServiceTopology decide: the most specific covering intention among those whose
   destination is NOT a destination-kind name *)
Theorem route1_dest_kind dk st s d :
  store_ok st ->
  decided (call (filter (visible dk false) st)) "" dflt s dflt d
          (find (authz_match MDst d dflt "") (cmatch_src_k dk false st s)).
Proof. intros Hst. unfold cmatch_src_k. apply config_route1. apply store_ok_filter. exact Hst. Qed.

Lemma no_dest_kind_filter dk st :
  (forall e, In e st -> is_dest_kind dk (e_name e) = false) -> filter (visible dk false) st = st.
Proof. intros H. apply filter_all_in. intros e He. unfold visible. rewrite (H e He). reflexivity. Qed.

Theorem paths_agree_kinds dk st s d da ap :
  store_ok st -> coherent (enames st ++ [d]) ->
  (forall e, In e st -> is_dest_kind dk (e_name e) = false) ->
  route1 (fun _ n => cmatch_src_k dk false st n) dflt s dflt d da ap
  = route2 (fun _ n => cmatch_dst st n) "" dflt s dflt d da ap.
Proof.
  intros Hst C Hk. unfold route1, cmatch_src_k. rewrite (no_dest_kind_filter dk st Hk).
  apply (paths_agree_config st s d da ap Hst C).
Qed.

Definition dkx_store : list entry :=
  upsert_all [] [("db", Src "" "web" Deny 0 0); ("*", Src "" "web" Allow 0 0)].

Theorem dest_kind_refuted :
  store_ok dkx_store /\ coherent (enames dkx_store ++ ["db"]) /\
  d_allowed (route1 (fun _ n => cmatch_src_k ["db"] false dkx_store n) dflt "web" dflt "db" false false) = true /\
  d_allowed (route2 (fun _ n => cmatch_dst dkx_store n) "" dflt "web" dflt "db" false false) = false.
Proof.
  split; [apply store_okb_sound; vm_compute; reflexivity|].
  split; [apply coherentb_sound; vm_compute; reflexivity|]. split; vm_compute; reflexivity.
Qed.

(* ---------------------------------------------------------------- (1) mixed histories *)

Definition cw_over (w : cwrite) (j : ixn) : bool :=
  match w with WEnt e => name_eqb (i_dname j) (e_name e) | WUps dn v => over dn v j end.
Definition cw_valid (w : cwrite) : bool :=
  match w with WEnt e => ev e | WUps dn v => wvalid dn v end.
Definition cw_contrib (w : cwrite) : list ixn :=
  match w with WEnt e => to_ixns (normalize e) | WUps dn v => [wixn dn v] end.
Definition cw_name (w : cwrite) : string := match w with WEnt e => e_name e | WUps dn _ => dn end.
Definition cw_keeps (ws : list cwrite) (j : ixn) : bool := forallb (fun w => negb (cw_over w j)) ws.

Lemma cw_independent_tail w ws : cw_independent (w :: ws) -> cw_independent ws.
Proof.
  intros (A & B & C & D). unfold cw_ents, cw_upss in *. cbn [flat_map] in *.
  destruct w as [e|dn v]; cbn [app map] in *.
  - inversion A; subst. repeat split; try assumption.
    intros e0 w0 He Hw. apply D; [right; exact He|exact Hw].
  - inversion B; subst. repeat split; try assumption.
    + intros w0 Hw. apply C. right; exact Hw.
    + intros e0 w0 He Hw. apply D; [exact He|right; exact Hw].
Qed.

Lemma cw_contrib_kept w ws j :
  cw_independent (w :: ws) -> In j (cw_contrib w) -> cw_keeps (filter cw_valid ws) j = true.
Proof.
  intros (A & B & C & D) Hj. unfold cw_keeps. apply forallb_forall. intros w' Hw'.
  apply filter_In in Hw' as [Hw' _]. apply negb_true_iff.
  unfold cw_ents, cw_upss in *. cbn [flat_map] in *.
  destruct w as [e|dn v], w' as [e'|dn' v']; cbn [cw_contrib cw_over app map] in *.
  - rewrite (to_ixns_dname _ _ Hj). cbn [normalize e_name]. unfold name_eqb. apply String.eqb_neq. intros E.
    inversion A as [|? ? Hnotin _]; subst. apply Hnotin. unfold lname at 1. rewrite E.
    apply (in_map lname). apply in_flat_map. exists (WEnt e'). split; [exact Hw'|left; reflexivity].
  - unfold over. rewrite (to_ixns_dname _ _ Hj). cbn [normalize e_name].
    destruct (name_eqb (e_name e) dn') eqn:E; [|reflexivity]. exfalso.
    unfold name_eqb in E. apply String.eqb_eq in E.
    apply (D e (dn', v')); [left; reflexivity| |symmetry; exact E].
    apply in_flat_map. exists (WUps dn' v'). split; [exact Hw'|left; reflexivity].
  - destruct Hj as [<-|[]]. unfold wixn. cbn [to_ixn i_dname e_name].
    unfold name_eqb. apply String.eqb_neq. intros E.
    apply (D e' (dn, v)); [|left; reflexivity|exact E].
    apply in_flat_map. exists (WEnt e'). split; [exact Hw'|left; reflexivity].
  - destruct Hj as [<-|[]]. destruct (over dn' v' (wixn dn v)) eqn:O; [|reflexivity]. exfalso.
    apply (over_wx (dn', v') (dn, v)) in O. inversion B as [|? ? Hnotin _]; subst. apply Hnotin.
    rewrite <- O. apply (in_map wkey). apply in_flat_map. exists (WUps dn' v'). split; [exact Hw'|left; reflexivity].
Qed.

Lemma capply_all_call ws : forall st,
  store_ok st -> cw_independent ws -> shadow_free_on ws st ->
  coherent (enames st ++ map cw_name ws) ->
  let st' := capply_all st ws in
  store_ok st' /\ incl (enames st') (enames st ++ map cw_name ws) /\
  Permutation (call st') (filter (cw_keeps (filter cw_valid ws)) (call st)
                          ++ flat_map cw_contrib (filter cw_valid ws)).
Proof.
  induction ws as [|w ws IH]; intros st Hst Hind Hsf C; cbn [capply_all fold_left].
  - split; [exact Hst|]. split; [intros n Hn; apply in_or_app; left; exact Hn|].
    cbn [filter flat_map]. rewrite app_nil_r. unfold cw_keeps. cbn [forallb]. rewrite filter_true_id. reflexivity.
  - fold (capply_all (capply st w) ws).
    pose proof (cw_independent_tail w ws Hind) as Hind'.
    (* one step *)
    assert (let st1 := capply st w in
            (cw_valid w = false -> st1 = st) /\
            (cw_valid w = true ->
               store_ok st1 /\ shadow_free_on ws st1 /\ incl (enames st1) (enames st ++ [cw_name w]) /\
               Permutation (call st1) (filter (fun j => negb (cw_over w j)) (call st) ++ cw_contrib w))) as Hstep.
    { destruct w as [e|dn v]; cbn [capply cw_valid cw_over cw_contrib cw_name].
      - destruct (ensure_cases st e) as [[Hv He]|(c & Hv & He)]; rewrite He; cbn [snd]; unfold ev; rewrite Hv.
        + split; [discriminate|]. intros _.
          split; [apply store_ok_put; [exact Hst|apply entry_ok_normalize; exact Hv]|].
          split.
          { intros x u Hx Hu E. apply put_in in Hx as [->|Hx].
            - exfalso. destruct Hind as (_ & _ & _ & D). apply (D e u).
              + unfold cw_ents. cbn [flat_map]. left; reflexivity.
              + unfold cw_upss. cbn [flat_map app]. exact Hu.
              + symmetry. exact E.
            - apply (Hsf x u Hx); [unfold cw_upss; cbn [flat_map app]; exact Hu|exact E]. }
          split; [exact (enames_put (normalize e) st)|]. destruct Hst as [Hnd _]. exact (put_call (normalize e) st Hnd).
        + split; [reflexivity|discriminate].
      - assert (coherent (enames st ++ [dn])) as Cw.
        { eapply coherent_incl; [|exact C]. intros n Hn. apply in_app_or in Hn as [Hn|[<-|[]]]; apply in_or_app;
            [left; exact Hn|right; left; reflexivity]. }
        assert (s_peer v = "") as Hpe.
        { destruct Hind as (_ & _ & P & _). apply (P (dn, v)). unfold cw_upss. cbn [flat_map app]. left; reflexivity. }
        destruct (upsert_step_gen st dn v Hst) as [Hbad Hgood]; try assumption.
        { intros p Hp El. apply (Hsf p (dn, v) Hp); [unfold cw_upss; cbn [flat_map app]; left; reflexivity|exact El]. }
        split; [exact Hbad|]. intros V. destruct (Hgood V) as (A & B & D & E).
        split; [exact A|]. split; [|split; assumption].
        intros x u Hx Hu El. destruct (B x Hx) as [Hin|[_ Hn]]; [|exact Hn].
        apply (Hsf x u Hin); [unfold cw_upss; cbn [flat_map app]; right; exact Hu|exact El]. }
    cbn zeta in Hstep. destruct Hstep as [Hbad Hgood].
    cbn [filter]. destruct (cw_valid w) eqn:V.
    + destruct (Hgood eq_refl) as (Hst1 & Hsf1 & Hin1 & Hc1).
      set (st1 := capply st w) in *.
      assert (coherent (enames st1 ++ map cw_name ws)) as C1.
      { eapply coherent_incl; [|exact C]. intros n Hn. apply in_app_or in Hn as [Hn|Hn].
        - apply Hin1 in Hn. apply in_app_or in Hn as [Hn|[<-|[]]]; apply in_or_app; [left; exact Hn|right; left; reflexivity].
        - apply in_or_app. right. right. exact Hn. }
      destruct (IH st1 Hst1 Hind' Hsf1 C1) as (Hst2 & Hin2 & Hc2).
      split; [exact Hst2|]. split.
      { intros n Hn. apply Hin2 in Hn. apply in_app_or in Hn as [Hn|Hn].
        - apply Hin1 in Hn. apply in_app_or in Hn as [Hn|[<-|[]]]; apply in_or_app; [left; exact Hn|right; left; reflexivity].
        - apply in_or_app. right. right. exact Hn. }
      rewrite Hc2. rewrite (perm_filter _ _ _ Hc1). rewrite filter_app, filter_filter. cbn [flat_map].
      rewrite (filter_all_in _ (cw_contrib w)); [|intros j Hj; apply (cw_contrib_kept w ws j Hind Hj)].
      rewrite <- app_assoc. reflexivity.
    + rewrite (Hbad eq_refl).
      assert (coherent (enames st ++ map cw_name ws)) as C1.
      { eapply coherent_incl; [|exact C]. intros n Hn. apply in_app_or in Hn as [Hn|Hn]; apply in_or_app; [left|right; right]; exact Hn. }
      assert (shadow_free_on ws st) as Hsf0.
      { intros x u Hx Hu. apply (Hsf x u Hx). unfold cw_upss in *. cbn [flat_map]. apply in_or_app. right; exact Hu. }
      destruct (IH st Hst Hind' Hsf0 C1) as (Hst2 & Hin2 & Hc2).
      split; [exact Hst2|]. split; [|exact Hc2].
      intros n Hn. apply Hin2 in Hn. apply in_app_or in Hn as [Hn|Hn]; apply in_or_app; [left|right; right]; exact Hn.
Qed.

Lemma cw_independent_perm ws ws' : Permutation ws ws' -> cw_independent ws -> cw_independent ws'.
Proof.
  intros Hp (A & B & C & D).
  assert (Permutation (cw_ents ws) (cw_ents ws')) as Pe by (apply Permutation_flat_map; exact Hp).
  assert (Permutation (cw_upss ws) (cw_upss ws')) as Pu by (apply Permutation_flat_map; exact Hp).
  repeat split.
  - eapply Permutation_NoDup; [apply Permutation_map; exact Pe|exact A].
  - eapply Permutation_NoDup; [apply Permutation_map; exact Pu|exact B].
  - intros w Hw. apply C. eapply Permutation_in; [symmetry; exact Pu|exact Hw].
  - intros e w He Hw. apply D; eapply Permutation_in; try (symmetry; eassumption); assumption.
Qed.

Theorem order_independent_mixed st1 st2 ws1 ws2 :
  store_ok st1 -> store_ok st2 -> Permutation (call st1) (call st2) -> Permutation ws1 ws2 ->
  cw_independent ws1 -> shadow_free_on ws1 st1 -> shadow_free_on ws1 st2 ->
  coherent (enames st1 ++ map cw_name ws1) ->
  let a := capply_all st1 ws1 in
  let b := capply_all st2 ws2 in
  config_list a = config_list b /\
  (forall s, cmatch_src a s = cmatch_src b s) /\
  (forall d, coherent ((enames st1 ++ map cw_name ws1) ++ [d]) -> cmatch_dst a d = cmatch_dst b d) /\
  (forall peer s d da ap, coherent ((enames st1 ++ map cw_name ws1) ++ [d]) ->
     route1 (fun _ n => cmatch_src a n) dflt s dflt d da ap = route1 (fun _ n => cmatch_src b n) dflt s dflt d da ap /\
     route2 (fun _ n => cmatch_dst a n) peer dflt s dflt d da ap = route2 (fun _ n => cmatch_dst b n) peer dflt s dflt d da ap).
Proof.
  intros H1 H2 Hc Hw Hind S1 S2 C.
  assert (incl (enames st2 ++ map cw_name ws2) (enames st1 ++ map cw_name ws1)) as Hi.
  { intros n Hn. apply in_app_or in Hn as [Hn|Hn]; apply in_or_app.
    - left. apply (enames_of_call st1 st2 H2 Hc). exact Hn.
    - right. eapply Permutation_in; [apply Permutation_map; symmetry; exact Hw|exact Hn]. }
  destruct (capply_all_call ws1 st1 H1 Hind S1 C) as (A1 & A2 & A3).
  destruct (capply_all_call ws2 st2 H2 (cw_independent_perm _ _ Hw Hind)) as (B1 & B2 & B3).
  { intros e w He Hu. apply (S2 e w He).
    eapply Permutation_in; [apply Permutation_flat_map; symmetry; exact Hw|exact Hu]. }
  { exact (coherent_incl _ _ Hi C). }
  cbn zeta. apply config_obs_equal; try assumption.
  - rewrite A3, B3. pose proof (perm_filter cw_valid _ _ Hw) as Hv. apply Permutation_app.
    + erewrite filter_ext; [apply perm_filter; exact Hc|].
      intros j. unfold cw_keeps. apply forallb_perm. exact Hv.
    + apply Permutation_flat_map. exact Hv.
  - intros n Hn. apply Hi. apply B2. exact Hn.
Qed.

(* a concrete mixed history meets the hypotheses and is not trivial *)
Definition mx_writes : list cwrite :=
  [WEnt (Entry "db" [Src "p" "web" Deny 0 0; Src "" "web" Allow 0 0]);
   WUps "api" (Src "" "web" Deny 0 0); WUps "api" (Src "" "*" Allow 0 0);
   WEnt (Entry "*" [Src "" "*" Deny 0 0])].

Theorem mx_example :
  cw_independent mx_writes /\ shadow_free_on mx_writes [] /\ coherent (enames [] ++ map cw_name mx_writes) /\
  Permutation mx_writes (rev mx_writes) /\
  List.length (call (capply_all [] mx_writes)) = 5%nat.
Proof.
  split.
  { repeat split.
    - apply (nodupb_sound String.eqb str_eqb_refl). vm_compute. reflexivity.
    - apply (nodupb_sound pair_eqb pair_eqb_refl). vm_compute. reflexivity.
    - intros w Hw. vm_compute in Hw. destruct Hw as [<-|[<-|[]]]; reflexivity.
    - intros e w He Hw. vm_compute in He, Hw.
      destruct He as [<-|[<-|[]]], Hw as [<-|[<-|[]]]; vm_compute; discriminate. }
  split; [intros e w []|].
  split; [apply coherentb_sound; vm_compute; reflexivity|].
  split; [apply Permutation_rev|vm_compute; reflexivity].
Qed.

(* the premises of the other order theorems are met by non-empty, genuinely permuted write lists *)
Definition ox_upserts : list (string * src) :=
  [("db", Src "" "web" Allow 0 0); ("db", Src "" "*" Deny 0 0); ("*", Src "" "web" Deny 0 0); ("api", Src "" "web" NoAct 2 0)].
Definition ox_entries : list entry :=
  [Entry "db" [Src "p" "web" Deny 0 0; Src "" "web" Allow 0 0]; Entry "*" [Src "" "*" Deny 0 0]; Entry "api" [Src "q" "*" Allow 0 0]].

Theorem order_examples :
  (store_ok [] /\ shadow_free [] /\ Permutation ox_upserts (rev ox_upserts) /\ ox_upserts <> rev ox_upserts /\
   NoDup (map wkey ox_upserts) /\ (forall w, In w ox_upserts -> s_peer (snd w) = "") /\
   coherent (enames [] ++ map fst ox_upserts)) /\
  (Permutation ox_entries (rev ox_entries) /\ ox_entries <> rev ox_entries /\ NoDup (map lname ox_entries)) /\
  (fresh_writes [] ex_writes /\ Permutation ex_writes (rev ex_writes) /\ ex_writes <> rev ex_writes).
Proof.
  split; [|split].
  - split; [apply store_okb_sound; reflexivity|]. split; [apply shadow_freeb_sound; reflexivity|].
    split; [apply Permutation_rev|]. split; [vm_compute; discriminate|].
    destruct (wkeys_okb_sound ox_upserts) as [A B]; [vm_compute; reflexivity|].
    split; [exact A|]. split; [exact B|]. apply coherentb_sound. vm_compute. reflexivity.
  - split; [apply Permutation_rev|]. split; [vm_compute; discriminate|].
    apply (nodupb_sound String.eqb str_eqb_refl). vm_compute. reflexivity.
  - split; [apply fresh_writesb_sound; vm_compute; reflexivity|]. split; [apply Permutation_rev|vm_compute; discriminate].
Qed.
