(* C13: the decision is taken by the unique most specific covering intention, along both routes the
   servers use, in both representations; match lists are the sorted covering subsets; nothing
   depends on the order of writes. *)
From Coq Require Import Sorting.Permutation Sorting.Sorted.
From Verif Require Import Base.Prelude.
From Verif Require Import Intention.Model.
From Verif Require Import Intention.Spec.
From Verif Require Import Intention.OrderProofs.
Local Open Scope string_scope.
Local Open Scope list_scope.

(* ---------------------------------------------------------------- strings *)

Lemma is_wild_true s : is_wild s = true <-> s = wild.
Proof. unfold is_wild. apply String.eqb_eq. Qed.

Lemma is_wild_false s : is_wild s = false <-> s <> wild.
Proof. unfold is_wild. apply String.eqb_neq. Qed.

Lemma dflt_not_wild : is_wild dflt = false.
Proof. reflexivity. Qed.

Lemma lower_ascii_star a : lower_ascii a = "*"%char -> a = "*"%char.
Proof.
  destruct a as [[] [] [] [] [] [] [] []]; vm_compute; intros H; try discriminate H; reflexivity.
Qed.

Lemma lower_wild : lower wild = wild.
Proof. reflexivity. Qed.

Lemma lower_wild_inv s : lower s = wild -> s = wild.
Proof.
  destruct s as [|a r]; cbn [lower]; [discriminate|].
  unfold wild. intros H. injection H as Ha Hr.
  destruct r; [|discriminate]. apply lower_ascii_star in Ha. subst. reflexivity.
Qed.

Lemma wild_or_eq_true p x : wild_or_eq p x = true <-> p = wild \/ p = x.
Proof.
  unfold wild_or_eq. rewrite orb_true_iff, is_wild_true, String.eqb_eq. tauto.
Qed.


Lemma coherent_incl l l' : incl l l' -> coherent l' -> coherent l.
Proof. intros Hi Hc a b Ha Hb. apply Hc; apply Hi; assumption. Qed.

(* ---------------------------------------------------------------- precedence = specificity *)


Lemma count_exact_cases ns n : count_exact ns n = 0%N \/ count_exact ns n = 1%N \/ count_exact ns n = 2%N.
Proof. unfold count_exact. destruct (is_wild ns), (is_wild n); auto. Qed.

Lemma prec_lt_specific i j : wf i -> wf j -> ((i_prec j < i_prec i)%N <-> more_specific i j).
Proof.
  intros (_ & _ & Hi) (_ & _ & Hj). rewrite Hi, Hj. unfold more_specific, dspec, sspec, prec_of.
  destruct (count_exact_cases (i_dns i) (i_dname i)) as [A|[A|A]];
  destruct (count_exact_cases (i_sns i) (i_sname i)) as [B|[B|B]];
  destruct (count_exact_cases (i_dns j) (i_dname j)) as [C|[C|C]];
  destruct (count_exact_cases (i_sns j) (i_sname j)) as [D|[D|D]];
  rewrite A, B, C, D;
  repeat (match goal with |- context [N.eqb ?a ?b] => destruct (N.eqb_spec a b); try lia end); lia.
Qed.

Lemma prec_eq_specific i j :
  wf i -> wf j -> i_prec i = i_prec j -> dspec i = dspec j /\ sspec i = sspec j.
Proof.
  intros (_ & _ & Hi) (_ & _ & Hj). rewrite Hi, Hj. unfold dspec, sspec, prec_of.
  destruct (count_exact_cases (i_dns i) (i_dname i)) as [A|[A|A]];
  destruct (count_exact_cases (i_sns i) (i_sname i)) as [B|[B|B]];
  destruct (count_exact_cases (i_dns j) (i_dname j)) as [C|[C|C]];
  destruct (count_exact_cases (i_sns j) (i_sname j)) as [D|[D|D]];
  rewrite A, B, C, D;
  repeat (match goal with |- context [N.eqb ?a ?b] => destruct (N.eqb_spec a b); try lia end); lia.
Qed.

(* two well-formed patterns of the same specificity that cover the same name are the same pattern *)
Lemma side_same ns n ns' n' tns t :
  (is_wild ns = true -> is_wild n = true) -> (is_wild ns' = true -> is_wild n' = true) ->
  wild_or_eq ns tns = true -> wild_or_eq n t = true ->
  wild_or_eq ns' tns = true -> wild_or_eq n' t = true ->
  count_exact ns n = count_exact ns' n' -> ns = ns' /\ n = n'.
Proof.
  intros W1 W2 H1 H2 H3 H4 HC.
  apply wild_or_eq_true in H1, H2, H3, H4. unfold count_exact in HC.
  destruct (is_wild ns) eqn:A.
  - specialize (W1 eq_refl). apply is_wild_true in A, W1.
    destruct (is_wild ns') eqn:B.
    + specialize (W2 eq_refl). apply is_wild_true in B, W2. split; congruence.
    + destruct (is_wild n'); discriminate.
  - destruct (is_wild ns') eqn:B.
    + destruct (is_wild n); discriminate.
    + apply is_wild_false in A, B.
      destruct (is_wild n) eqn:C, (is_wild n') eqn:D; try discriminate.
      * apply is_wild_true in C, D. split; [|congruence].
        destruct H1, H3; congruence.
      * apply is_wild_false in C, D. split; destruct H1, H2, H3, H4; congruence.
Qed.

(* ---------------------------------------------------------------- the specification *)


Lemma decide_eq l mt t ns p da ap :
  decide l mt t ns p da ap = summary_of (find (authz_match mt t ns p) l) da ap.
Proof. reflexivity. Qed.

Section View.
  Variable all : list ixn.
  Hypothesis all_wf : forall i, In i all -> wf i.
  Hypothesis all_key : forall i j, In i all -> In j all -> key5 i = key5 j -> i = j.

  Local Notation best := (Spec.best all).
  Local Notation decided := (Spec.decided all).


  Lemma more_specific_asym i j : more_specific i j -> more_specific j i -> False.
  Proof. unfold more_specific. lia. Qed.

  Lemma decided_unique peer sns s dns d o o' :
    decided peer sns s dns d o -> decided peer sns s dns d o' -> o = o'.
  Proof.
    destruct o as [i|], o' as [i'|]; cbn [decided]; try reflexivity.
    - intros (Hi & Ci & Mi) (Hi' & Ci' & Mi').
      destruct (list_eq_dec string_dec (key5 i) (key5 i')) as [E|E].
      + f_equal. apply all_key; assumption.
      + exfalso. assert (i <> i') by (intros ->; apply E; reflexivity).
        apply (more_specific_asym i i'); [apply Mi|apply Mi']; auto.
    - intros (Hi & Ci & _) H. rewrite (H _ Hi) in Ci. discriminate.
    - intros H (Hi & Ci & _). rewrite (H _ Hi) in Ci. discriminate.
  Qed.

  Lemma covers_same_prec peer sns s dns d i j :
    In i all -> In j all ->
    covers peer sns s dns d i = true -> covers peer sns s dns d j = true ->
    i_prec i = i_prec j -> i = j.
  Proof.
    intros Hi Hj Ci Cj Hp. apply all_key; try assumption.
    destruct (prec_eq_specific i j (all_wf _ Hi) (all_wf _ Hj) Hp) as [Hd Hs].
    unfold covers, authz_match in Ci, Cj. rewrite !andb_true_iff in Ci, Cj.
    destruct Ci as [[[Pi Si1] Si2] [Di1 Di2]]. destruct Cj as [[[Pj Sj1] Sj2] [Dj1 Dj2]].
    apply String.eqb_eq in Pi, Pj.
    destruct (all_wf _ Hi) as (Wsi & Wdi & _). destruct (all_wf _ Hj) as (Wsj & Wdj & _).
    destruct (side_same _ _ _ _ _ _ Wsi Wsj Si1 Si2 Sj1 Sj2 Hs) as [E1 E2].
    destruct (side_same _ _ _ _ _ _ Wdi Wdj Di1 Di2 Dj1 Dj2 Hd) as [E3 E4].
    unfold key5. congruence.
  Qed.

  (* The first element of a sorted list of candidates that passes the decision-side test is the most
     specific covering intention, provided the candidates passing the test are exactly the covering ones. *)
  Lemma route_generic (l : list ixn) (P : ixn -> bool) peer sns s dns d :
    isorted l ->
    (forall j, In j l -> P j = true -> In j all /\ covers peer sns s dns d j = true) ->
    (forall j, In j all -> covers peer sns s dns d j = true -> In j l /\ P j = true) ->
    decided peer sns s dns d (find P l).
  Proof.
    intros Hs H1 H2. destruct (find P l) as [i|] eqn:F; cbn [decided].
    - destruct (find_sorted_first ileb ileb_total P l i Hs F) as (Hi & Pi & Hfirst).
      destruct (H1 _ Hi Pi) as [Hia Ci]. split; [exact Hia|]. split; [exact Ci|].
      intros j Hj Cj Hne. destruct (H2 _ Hj Cj) as [Hjl Pj].
      pose proof (ileb_prec _ _ (Hfirst _ Hjl Pj)) as Hle.
      apply prec_lt_specific; try (apply all_wf; assumption).
      destruct (N.eq_dec (i_prec j) (i_prec i)) as [E|E]; [|lia].
      exfalso. apply Hne. eapply covers_same_prec; eauto.
    - intros j Hj. destruct (covers peer sns s dns d j) eqn:C; [|reflexivity].
      destruct (H2 _ Hj C) as [Hjl Pj]. rewrite (find_none P l F _ Hjl) in Pj. discriminate.
  Qed.

  Lemma find_refine (P P' : ixn -> bool) l i :
    (forall j, P' j = true -> P j = true) -> find P l = Some i -> P' i = true -> find P' l = Some i.
  Proof.
    intros Himp. induction l as [|a l IH]; cbn [find]; [discriminate|].
    destruct (P a) eqn:E.
    - intros [= <-] H. rewrite H. reflexivity.
    - intros F H. destruct (P' a) eqn:E'; [rewrite (Himp _ E') in E; discriminate|]. apply IH; assumption.
  Qed.

  Lemma find_all_false (P : ixn -> bool) l : (forall j, In j l -> P j = false) -> find P l = None.
  Proof.
    induction l as [|a l IH]; cbn [find]; intros H; [reflexivity|].
    rewrite (H a (or_introl eq_refl)). apply IH. intros j Hj. apply H. right; exact Hj.
  Qed.

  (* Route 1 (match by source, decide on the destination).  The candidate list may contain peered
     intentions, but only next to a local twin with the same names, which sorts first. *)
  Lemma route1_generic (l : list ixn) sns s dns d :
    isorted l ->
    (forall j, In j l ->
       In j all /\ authz_match MSrc s sns (i_peer j) j = true /\
       exists j', In j' l /\ i_peer j' = "" /\ i_sns j' = i_sns j /\ i_sname j' = i_sname j /\
                  i_dns j' = i_dns j /\ i_dname j' = i_dname j) ->
    (forall j, In j all -> covers "" sns s dns d j = true -> In j l) ->
    decided "" sns s dns d (find (authz_match MDst d dns "") l).
  Proof.
    intros Hs H1 H2.
    set (P := authz_match MDst d dns "").
    set (P' := fun j => (P j && String.eqb (i_peer j) "")%bool).
    assert (find P l = find P' l) as ->.
    { destruct (find P l) as [i|] eqn:F.
      - symmetry. apply (find_refine P P'); [|exact F|].
        + intros j Hj. apply andb_true_iff in Hj. tauto.
        + destruct (find_sorted_first ileb ileb_total P l i Hs F) as (Hi & Pi & Hfirst).
          unfold P'. rewrite Pi. cbn [andb]. apply String.eqb_eq.
          destruct (string_dec (i_peer i) "") as [E|E]; [exact E|exfalso].
          destruct (H1 _ Hi) as (Hia & _ & j' & Hj' & Pe & E1 & E2 & E3 & E4).
          destruct (H1 _ Hj') as (Hja & _).
          assert (P j' = true) as Pj' by (unfold P, authz_match in *; rewrite E3, E4; exact Pi).
          pose proof (Hfirst _ Hj' Pj') as Hle.
          rewrite (ileb_peer_first i j') in Hle; [discriminate| |exact E|exact Pe].
          destruct (all_wf _ Hia) as (_ & _ & ->). destruct (all_wf _ Hja) as (_ & _ & ->).
          rewrite E1, E2, E3, E4. reflexivity.
      - symmetry. apply find_all_false. intros j Hj. unfold P'.
        rewrite (find_none P l F _ Hj). reflexivity. }
    apply route_generic; [exact Hs| |].
    - intros j Hj Pj. unfold P' in Pj. apply andb_true_iff in Pj as [Pj Ej]. apply String.eqb_eq in Ej.
      destruct (H1 _ Hj) as (Hja & Sj & _). split; [exact Hja|].
      unfold covers. rewrite <- Ej at 1. rewrite Sj. exact Pj.
    - intros j Hj Cj. split; [apply H2; assumption|].
      unfold covers in Cj. apply andb_true_iff in Cj as [Sj Dj]. unfold P', P. rewrite Dj. cbn [andb].
      unfold authz_match in Sj. rewrite !andb_true_iff in Sj. tauto.
  Qed.
End View.

(* ---------------------------------------------------------------- list helpers *)

Lemma filter_false_nil {A} (t : list A) : filter (fun _ => false) t = [].
Proof. induction t; cbn; auto. Qed.

Lemma filter_or_perm {A} (a b : A -> bool) (t : list A) :
  (forall x, In x t -> a x = true -> b x = true -> False) ->
  Permutation (filter (fun x => a x || b x)%bool t) (filter a t ++ filter b t).
Proof.
  induction t as [|x t IH]; intros Hd; cbn [filter]; [reflexivity|].
  assert (Permutation (filter (fun x => a x || b x)%bool t) (filter a t ++ filter b t)) as IH'.
  { apply IH. intros y Hy. apply Hd. right; exact Hy. }
  destruct (a x) eqn:Ea, (b x) eqn:Eb; cbn [orb app].
  - exfalso. apply (Hd x (or_introl eq_refl) Ea Eb).
  - constructor. exact IH'.
  - rewrite IH'. apply Permutation_middle.
  - exact IH'.
Qed.

Lemma flat_map_filter_perm {A P} (f : P -> A -> bool) (ps : list P) (t : list A) :
  NoDup ps ->
  (forall x p q, In x t -> In p ps -> In q ps -> f p x = true -> f q x = true -> p = q) ->
  Permutation (flat_map (fun p => filter (f p) t) ps) (filter (fun x => existsb (fun p => f p x) ps) t).
Proof.
  induction ps as [|p ps IH]; intros Hnd Hdis; cbn [flat_map existsb].
  - rewrite filter_false_nil. reflexivity.
  - inversion Hnd as [|? ? Hnotin Hnd']; subst.
    rewrite (filter_or_perm (f p) (fun x => existsb (fun q => f q x) ps)).
    + apply Permutation_app_head. apply IH; [exact Hnd'|].
      intros x a b Hx Ha Hb. apply Hdis; try assumption; right; assumption.
    + intros x Hx Fp Fe. apply existsb_exists in Fe as (q & Hq & Fq).
      assert (p = q) by (apply (Hdis x); try assumption; [left; reflexivity|right; assumption]).
      subst. contradiction.
Qed.

Lemma perm_filter {A} (f : A -> bool) (l l' : list A) :
  Permutation l l' -> Permutation (filter f l) (filter f l').
Proof.
  induction 1 as [|x l l' Hp IH|x y l|l l' l'' Hp1 IH1 Hp2 IH2]; cbn [filter].
  - reflexivity.
  - destruct (f x); [constructor|]; exact IH.
  - destruct (f x), (f y); try reflexivity. apply perm_swap.
  - etransitivity; eassumption.
Qed.

Lemma perm_flat_map_filter {A P} (f : P -> A -> bool) (ps : list P) (t t' : list A) :
  Permutation t t' ->
  Permutation (flat_map (fun p => filter (f p) t) ps) (flat_map (fun p => filter (f p) t') ps).
Proof.
  intros Hp. induction ps as [|p ps IH]; cbn [flat_map]; [reflexivity|].
  apply Permutation_app; [apply perm_filter; exact Hp|exact IH].
Qed.

Lemma nodup_map_weaken {A B C} (f : A -> B) (g : A -> C) (l : list A) :
  (forall x y, g x = g y -> f x = f y) -> NoDup (map f l) -> NoDup (map g l).
Proof.
  intros H. induction l as [|x l IH]; cbn [map]; intros Hn; [constructor|].
  inversion Hn as [|? ? Hnotin Hn']; subst. constructor; [|apply IH; exact Hn'].
  intros Hin. apply Hnotin. apply in_map_iff in Hin as (y & Hy & Hyl).
  apply in_map_iff. exists y. split; [apply H; exact Hy|exact Hyl].
Qed.

Lemma nodup_map_inj {A B} (f : A -> B) (l : list A) x y :
  NoDup (map f l) -> In x l -> In y l -> f x = f y -> x = y.
Proof.
  induction l as [|a l IH]; cbn [map]; intros Hn Hx Hy E; [destruct Hx|].
  inversion Hn as [|? ? Hnotin Hn']; subst.
  destruct Hx as [<-|Hx], Hy as [<-|Hy]; try reflexivity.
  - exfalso. apply Hnotin. rewrite E. apply in_map. exact Hy.
  - exfalso. apply Hnotin. rewrite <- E. apply in_map. exact Hx.
  - apply IH; assumption.
Qed.

(* ---------------------------------------------------------------- the legacy table *)


Lemma key4_eqb_refl_of_key5 i j : key5 i = key5 j -> key4_eqb i j = true.
Proof.
  unfold key5, key4_eqb. intros [= _ -> -> -> ->]. rewrite !String.eqb_refl. reflexivity.
Qed.

Lemma legacy_all_key t : key4_unique t -> forall i j, In i t -> In j t -> key5 i = key5 j -> i = j.
Proof. intros H i j Hi Hj E. apply H; try assumption. apply key4_eqb_refl_of_key5; exact E. Qed.


Lemma idx_eq_side mt p i :
  idx_eq mt p i = true <-> lower (fst (side mt i)) = lower (fst p) /\ lower (snd (side mt i)) = lower (snd p).
Proof. destruct mt; cbn [idx_eq side fst snd]; rewrite andb_true_iff, !String.eqb_eq; tauto. Qed.

Lemma in_match_params p ns n :
  In p (match_params ns n) <->
  p = (wild, wild) \/ (is_wild ns = false /\ p = (ns, wild)) \/ (is_wild ns = false /\ is_wild n = false /\ p = (ns, n)).
Proof.
  unfold match_params. destruct (is_wild ns) eqn:A; [|destruct (is_wild n) eqn:B]; cbn [In];
    intuition (try discriminate; auto).
Qed.

Lemma side_idx_iff a b ns n :
  (is_wild a = true -> is_wild b = true) -> coherent [a; b; ns; n] ->
  ((exists p, In p (match_params ns n) /\ lower a = lower (fst p) /\ lower b = lower (snd p))
   <-> wild_or_eq a ns = true /\ wild_or_eq b n = true).
Proof.
  intros W C. rewrite !wild_or_eq_true. split.
  - intros (p & Hp & Ha & Hb). apply in_match_params in Hp as [->|[(A & ->)|(A & B & ->)]]; cbn [fst snd] in *.
    + apply lower_wild_inv in Ha, Hb. auto.
    + apply lower_wild_inv in Hb. split; [right|left; exact Hb].
      apply C; cbn; auto.
    + split; right; apply C; cbn; auto 6.
  - intros [Ha Hb].
    destruct (is_wild a) eqn:A.
    + specialize (W eq_refl). apply is_wild_true in A, W. subst.
      exists (wild, wild). split; [apply in_match_params; auto|]. split; reflexivity.
    + apply is_wild_false in A. destruct Ha as [Ha|Ha]; [contradiction|]. subst ns.
      destruct (is_wild b) eqn:B.
      * apply is_wild_true in B. subst b. exists (a, wild).
        split; [apply in_match_params; right; left; split; [apply is_wild_false; exact A|reflexivity]|].
        split; reflexivity.
      * apply is_wild_false in B. destruct Hb as [Hb|Hb]; [contradiction|]. subst n.
        exists (a, b). split; [|split; reflexivity].
        apply in_match_params. right; right. repeat split; apply is_wild_false; assumption.
Qed.

Lemma legacy_match_in t mt ns n j :
  In j (legacy_match t mt ns n) <->
  In j t /\ exists p, In p (match_params ns n) /\ idx_eq mt p j = true.
Proof.
  unfold legacy_match. rewrite sort_ixns_in, in_flat_map. split.
  - intros (p & Hp & Hj). apply filter_In in Hj as [Hj Hi]. eauto.
  - intros (Hj & p & Hp & Hi). exists p. split; [exact Hp|]. apply filter_In. auto.
Qed.

Lemma in_tnames t j x : In j t -> In x (inames j) -> In x (tnames t).
Proof. intros Hj Hx. unfold tnames. apply in_flat_map. eauto. Qed.

Lemma coh_side t j mt ns n :
  In j t -> coherent (tnames t ++ [ns; n]) ->
  coherent [fst (side mt j); snd (side mt j); ns; n].
Proof.
  intros Hj. apply coherent_incl. intros x Hx. apply in_or_app.
  destruct Hx as [<-|[<-|Hx]]; [left|left|right; exact Hx];
    apply (in_tnames t j); try assumption; destruct mt; cbn; auto.
Qed.

Lemma wf_side mt j : wf j -> is_wild (fst (side mt j)) = true -> is_wild (snd (side mt j)) = true.
Proof. intros (W1 & W2 & _). destruct mt; assumption. Qed.

(* the lower-casing index lookups return exactly the rows whose pattern covers the queried name *)
Lemma legacy_match_spec t mt ns n j :
  (forall i, In i t -> wf i) -> coherent (tnames t ++ [ns; n]) ->
  (In j (legacy_match t mt ns n) <-> In j t /\ side_pred mt ns n j = true).
Proof.
  intros Hwf C. rewrite legacy_match_in. split; intros [Hj H]; (split; [exact Hj|]).
  - destruct H as (p & Hp & Hi). apply idx_eq_side in Hi.
    unfold side_pred. apply andb_true_iff.
    apply (side_idx_iff _ _ ns n (wf_side mt j (Hwf _ Hj)) (coh_side t j mt ns n Hj C)). eauto.
  - unfold side_pred in H. apply andb_true_iff in H.
    apply (side_idx_iff _ _ ns n (wf_side mt j (Hwf _ Hj)) (coh_side t j mt ns n Hj C)) in H as (p & Hp & Hi).
    exists p. split; [exact Hp|]. apply idx_eq_side. exact Hi.
Qed.

Lemma legacy_match_sorted t mt ns n : isorted (legacy_match t mt ns n).
Proof. apply sort_ixns_sorted. Qed.

Theorem legacy_route2 t peer sns s dns d :
  legacy_ok t -> coherent (tnames t ++ [dns; d]) ->
  decided t peer sns s dns d (find (authz_match MSrc s sns peer) (legacy_match t MDst dns d)).
Proof.
  intros [Hrows Hk] C.
  assert (forall i, In i t -> wf i) as Hwf by (intros i Hi; apply Hrows; exact Hi).
  apply route_generic; [exact Hwf|apply legacy_all_key; exact Hk|apply legacy_match_sorted| |].
  - intros j Hj Pj. apply (legacy_match_spec t MDst dns d j Hwf C) in Hj as [Hj Sj]. split; [exact Hj|].
    unfold covers. rewrite Pj. exact Sj.
  - intros j Hj Cj. unfold covers in Cj. apply andb_true_iff in Cj as [Sj Dj]. split; [|exact Sj].
    apply (legacy_match_spec t MDst dns d j Hwf C). split; [exact Hj|exact Dj].
Qed.

Theorem legacy_route1 t sns s dns d :
  legacy_ok t -> coherent (tnames t ++ [sns; s]) ->
  decided t "" sns s dns d (find (authz_match MDst d dns "") (legacy_match t MSrc sns s)).
Proof.
  intros [Hrows Hk] C.
  assert (forall i, In i t -> wf i) as Hwf by (intros i Hi; apply Hrows; exact Hi).
  apply route1_generic; [exact Hwf|apply legacy_all_key; exact Hk|apply legacy_match_sorted| |].
  - intros j Hj. pose proof Hj as Hjl.
    apply (legacy_match_spec t MSrc sns s j Hwf C) in Hj as [Hj Sj]. split; [exact Hj|]. split.
    + unfold authz_match. rewrite String.eqb_refl. exact Sj.
    + exists j. destruct (Hrows _ Hj) as [_ Pe]. auto 7.
  - intros j Hj Cj. unfold covers, authz_match in Cj. rewrite !andb_true_iff in Cj.
    apply (legacy_match_spec t MSrc sns s j Hwf C). split; [exact Hj|].
    unfold side_pred. cbn [side fst snd]. apply andb_true_iff. tauto.
Qed.

(* match lists: sorted, and exactly the covering rows *)
Lemma match_params_nodup ns n : NoDup (match_params ns n).
Proof.
  unfold match_params. destruct (is_wild ns) eqn:A; [|destruct (is_wild n) eqn:B];
    repeat constructor; cbn [In]; try tauto;
    try apply is_wild_false in A; try apply is_wild_false in B; intuition congruence.
Qed.

Lemma match_params_disjoint ns n mt x p q :
  In p (match_params ns n) -> In q (match_params ns n) ->
  idx_eq mt p x = true -> idx_eq mt q x = true -> p = q.
Proof.
  intros Hp Hq Ip Iq. apply idx_eq_side in Ip as [P1 P2]. apply idx_eq_side in Iq as [Q1 Q2].
  rewrite P1 in Q1. rewrite P2 in Q2. clear P1 P2.
  apply in_match_params in Hp as [->|[(A & ->)|(A & B & ->)]];
  apply in_match_params in Hq as [->|[(A' & ->)|(A' & B' & ->)]]; cbn [fst snd] in *; try reflexivity;
    try apply is_wild_false in A; try apply is_wild_false in A';
    try apply is_wild_false in B; try apply is_wild_false in B';
    try (symmetry in Q1; apply lower_wild_inv in Q1; contradiction);
    try (apply lower_wild_inv in Q1; contradiction);
    try (symmetry in Q2; apply lower_wild_inv in Q2; contradiction);
    try (apply lower_wild_inv in Q2; contradiction).
Qed.

Theorem legacy_match_perm t mt ns n :
  (forall i, In i t -> wf i) -> coherent (tnames t ++ [ns; n]) ->
  Permutation (legacy_match t mt ns n) (filter (side_pred mt ns n) t).
Proof.
  intros Hwf C. unfold legacy_match. rewrite sort_ixns_perm.
  rewrite (flat_map_filter_perm (idx_eq mt) (match_params ns n) t (match_params_nodup ns n)).
  - erewrite filter_ext_in; [reflexivity|]. intros j Hj.
    destruct (side_pred mt ns n j) eqn:S.
    + apply andb_true_iff in S.
      apply (side_idx_iff _ _ ns n (wf_side mt j (Hwf _ Hj)) (coh_side t j mt ns n Hj C)) in S as (p & Hp & Hi).
      apply existsb_exists. exists p. split; [exact Hp|]. apply idx_eq_side; exact Hi.
    + destruct (existsb (fun p => idx_eq mt p j) (match_params ns n)) eqn:E; [|reflexivity].
      apply existsb_exists in E as (p & Hp & Hi). apply idx_eq_side in Hi.
      assert (wild_or_eq (fst (side mt j)) ns = true /\ wild_or_eq (snd (side mt j)) n = true) as H.
      { apply (side_idx_iff _ _ ns n (wf_side mt j (Hwf _ Hj)) (coh_side t j mt ns n Hj C)). eauto. }
      unfold side_pred in S. destruct H as [H1 H2]. rewrite H1, H2 in S. discriminate.
  - intros x p q _. apply match_params_disjoint.
Qed.

(* creating intentions in any order *)

Lemma replace_by_id_fresh i t :
  (forall j, In j t -> lower (i_id j) <> lower (i_id i)) -> replace_by_id i t = t ++ [i].
Proof.
  induction t as [|j t IH]; intros H; cbn [replace_by_id app]; [reflexivity|].
  unfold id_eqb. destruct (String.eqb_spec (lower (i_id j)) (lower (i_id i))) as [E|E].
  - exfalso. apply (H j); [left; reflexivity|exact E].
  - rewrite IH; [reflexivity|]. intros k Hk. apply H. right; exact Hk.
Qed.

Lemma set_prec_id w : i_id (set_prec w) = i_id w.
Proof. reflexivity. Qed.

Lemma legacy_apply_fresh ws : forall t,
  fresh_writes t ws -> legacy_apply t ws = t ++ map set_prec ws.
Proof.
  induction ws as [|w ws IH]; intros t (Hid & Hne & Hk); cbn [legacy_apply fold_left map].
  - rewrite app_nil_r. reflexivity.
  - fold (legacy_apply (snd (legacy_set t w)) ws).
    assert (legacy_set t w = (WOk, t ++ [set_prec w])) as ->.
    { unfold legacy_set.
      destruct (String.eqb_spec (i_id w) "") as [E|_]; [exfalso; apply (Hne w); [left; reflexivity|exact E]|].
      destruct (existsb _ t) eqn:X.
      - exfalso. apply existsb_exists in X as (j & Hj & Hx). apply andb_true_iff in Hx as [Hx Hy].
        assert (j = set_prec w) as ->.
        { apply Hk; [apply in_or_app; left; exact Hj|apply in_or_app; right; left; reflexivity|exact Hx]. }
        rewrite String.eqb_refl in Hy. discriminate.
      - rewrite replace_by_id_fresh; [reflexivity|].
        intros j Hj E. rewrite set_prec_id in E.
        rewrite map_app in Hid. apply NoDup_remove_2 in Hid.
        apply Hid. apply in_or_app. left. rewrite <- E. apply (in_map (fun i => lower (i_id i))). exact Hj. }
    cbn [snd]. rewrite IH.
    + rewrite <- app_assoc. reflexivity.
    + split; [|split].
      * rewrite <- app_assoc. cbn [app]. rewrite map_app. cbn [map]. rewrite set_prec_id.
        rewrite map_app in Hid. exact Hid.
      * intros x Hx. apply Hne. right; exact Hx.
      * rewrite <- app_assoc. exact Hk.
Qed.

Theorem legacy_order_independent t ws ws' :
  fresh_writes t ws -> Permutation ws ws' ->
  let t1 := legacy_apply t ws in
  let t2 := legacy_apply t ws' in
  Permutation t1 t2 /\
  legacy_list t1 = legacy_list t2 /\
  (forall mt ns n, legacy_match t1 mt ns n = legacy_match t2 mt ns n).
Proof.
  intros Hf Hp.
  assert (fresh_writes t ws') as Hf'.
  { destruct Hf as (Hid & Hne & Hk). split; [|split].
    - eapply Permutation_NoDup; [|exact Hid]. apply Permutation_map, Permutation_app_head, Hp.
    - intros w Hw. apply Hne. eapply Permutation_in; [symmetry; exact Hp|exact Hw].
    - assert (Permutation (t ++ map set_prec ws') (t ++ map set_prec ws)) as Hq
        by (apply Permutation_app_head, Permutation_map; symmetry; exact Hp).
      intros i j Hi Hj. apply Hk; eapply Permutation_in; try exact Hq; assumption. }
  cbn zeta. rewrite (legacy_apply_fresh ws t Hf), (legacy_apply_fresh ws' t Hf').
  assert (Permutation (t ++ map set_prec ws) (t ++ map set_prec ws')) as Hq
    by (apply Permutation_app_head, Permutation_map; exact Hp).
  destruct Hf as (_ & _ & Hk).
  assert (forall x y, In x (t ++ map set_prec ws) -> In y (t ++ map set_prec ws) -> key5 x = key5 y -> x = y) as Hk5.
  { intros x y Hx Hy E. apply Hk; try assumption. apply key4_eqb_refl_of_key5; exact E. }
  split; [exact Hq|]. split.
  - apply sort_ixns_perm_eq; assumption.
  - intros mt ns n. unfold legacy_match. apply sort_ixns_perm_eq.
    + apply perm_flat_map_filter; exact Hq.
    + intros x y Hx Hy. apply Hk5.
      * apply in_flat_map in Hx as (p & _ & Hx). apply filter_In in Hx. tauto.
      * apply in_flat_map in Hy as (p & _ & Hy). apply filter_In in Hy. tauto.
Qed.

(* ---------------------------------------------------------------- service-intentions config entries *)


Lemma src_key_eqb_iff a b : src_key_eqb a b = true <-> skey a = skey b.
Proof.
  unfold src_key_eqb, skey. rewrite andb_true_iff, !String.eqb_eq. split; [intros [-> ->]; reflexivity|intros [= -> ->]; auto].
Qed.

Lemma validate_srcs_none dw l : forall seen,
  validate_srcs dw seen l = None <->
  forallb (src_valid dw) l = true /\ NoDup (map skey l) /\
  (forall s, In s l -> ~ In (skey s) (map skey seen)).
Proof.
  induction l as [|a l IH]; intros seen; cbn [validate_srcs forallb map].
  - split; [intros _; repeat split; [constructor|intros s []]|reflexivity].
  - unfold src_valid at 1.
    destruct (String.eqb (s_name a) ""); cbn [negb andb]; [split; [discriminate|intros [H _]; discriminate]|].
    destruct (negb (is_wild (s_name a)) && has_star (s_name a))%bool; cbn [negb andb]; [split; [discriminate|intros [H _]; discriminate]|].
    destruct (has_star (s_peer a)); cbn [negb andb]; [split; [discriminate|intros [H _]; discriminate]|].
    destruct (N.eqb (s_nperm a) 0 && negb (action_eqb (s_act a) Allow || action_eqb (s_act a) Deny))%bool; cbn [negb andb]; [split; [discriminate|intros [H _]; discriminate]|].
    destruct (negb (N.eqb (s_nperm a) 0) && negb (action_eqb (s_act a) NoAct))%bool; cbn [negb andb]; [split; [discriminate|intros [H _]; discriminate]|].
    destruct (dw && negb (N.eqb (s_nperm a) 0))%bool; cbn [negb andb]; [split; [discriminate|intros [H _]; discriminate]|].
    destruct (existsb (src_key_eqb a) seen) eqn:X.
    + split; [discriminate|]. intros (_ & _ & H). exfalso.
      apply existsb_exists in X as (x & Hx & Ex). apply src_key_eqb_iff in Ex.
      apply (H a (or_introl eq_refl)). rewrite Ex. apply in_map. exact Hx.
    + rewrite IH. split.
      * intros (Hv & Hn & Hs). split; [exact Hv|]. split.
        -- constructor; [|exact Hn]. intros Hin. apply in_map_iff in Hin as (x & Ex & Hx).
           apply (Hs x Hx). rewrite Ex. left. reflexivity.
        -- intros s [<-|Hs'] Hin.
           ++ apply in_map_iff in Hin as (x & Ex & Hx).
              assert (src_key_eqb a x = true) as K by (apply src_key_eqb_iff; congruence).
              assert (existsb (src_key_eqb a) seen = true) by (apply existsb_exists; eauto). congruence.
           ++ apply (Hs s Hs'). right. exact Hin.
      * intros (Hv & Hn & Hs). inversion Hn as [|? ? Hnotin Hn']; subst. split; [exact Hv|]. split; [exact Hn'|].
        intros s Hs' [E|Hin].
        -- apply Hnotin. rewrite E. apply in_map. exact Hs'.
        -- apply (Hs s (or_intror Hs')). exact Hin.
Qed.


Lemma validate_none e :
  validate e = None <->
  ename_valid (e_name e) = true /\ e_srcs e <> [] /\
  forallb (src_valid (is_wild (e_name e))) (e_srcs e) = true /\ NoDup (map skey (e_srcs e)).
Proof.
  unfold validate, ename_valid.
  destruct (String.eqb (e_name e) ""); cbn [negb andb]; [split; [discriminate|intros [H _]; discriminate]|].
  destruct (negb (is_wild (e_name e)) && has_star (e_name e))%bool; cbn [negb andb]; [split; [discriminate|intros [H _]; discriminate]|].
  destruct (e_srcs e) as [|a l] eqn:E.
  - split; [discriminate|]. intros (_ & H & _). congruence.
  - rewrite validate_srcs_none. split.
    + intros (Hv & Hn & _). repeat split; try assumption. discriminate.
    + intros (_ & _ & Hv & Hn). repeat split; try assumption. intros s _ [].
Qed.

Lemma in_call st i :
  In i (call st) <-> exists e s, In e st /\ In s (e_srcs e) /\ i = to_ixn e s.
Proof.
  unfold call, to_ixns. rewrite in_flat_map. split.
  - intros (e & He & Hi). apply in_map_iff in Hi as (s & <- & Hs). eauto.
  - intros (e & s & He & Hs & ->). exists e. split; [exact He|]. apply in_map. exact Hs.
Qed.

Lemma config_all_wf st : store_ok st -> forall i, In i (call st) -> wf i.
Proof.
  intros [_ Hok] i Hi. apply in_call in Hi as (e & s & He & Hs & ->).
  unfold wf. cbn [to_ixn i_sns i_sname i_dns i_dname i_prec]. rewrite dflt_not_wild.
  split; [discriminate|]. split; [discriminate|]. apply (Hok e He). exact Hs.
Qed.

Lemma config_all_key st : store_ok st ->
  forall i j, In i (call st) -> In j (call st) -> key5 i = key5 j -> i = j.
Proof.
  intros [Hnd Hok] i j Hi Hj E.
  apply in_call in Hi as (e & s & He & Hs & ->). apply in_call in Hj as (e' & s' & He' & Hs' & ->).
  unfold key5 in E. cbn [to_ixn i_peer i_sns i_sname i_dns i_dname] in E. injection E as E1 E2 E3.
  assert (e = e') as <-.
  { apply (nodup_map_inj lname st); try assumption. unfold lname. congruence. }
  assert (s = s') as <-; [|reflexivity].
  destruct (Hok e He) as [Hv _]. apply validate_none in Hv as (_ & _ & _ & Hn).
  apply (nodup_map_inj skey (e_srcs e)); try assumption. unfold skey. congruence.
Qed.

Lemma lookup_some st n e : lookup st n = Some e -> In e st /\ lower (e_name e) = lower n.
Proof.
  unfold lookup. intros H. apply find_some in H as [Hi He]. split; [exact Hi|].
  unfold name_eqb in He. apply String.eqb_eq. exact He.
Qed.

Lemma lookup_unique st n e :
  NoDup (map lname st) -> In e st -> lower (e_name e) = lower n -> lookup st n = Some e.
Proof.
  unfold lookup. induction st as [|x st IH]; cbn [map find]; intros Hn Hi E; [destruct Hi|].
  inversion Hn as [|? ? Hnotin Hn']; subst.
  unfold name_eqb at 1. destruct (String.eqb_spec (lower (e_name x)) (lower n)) as [Ex|Ex].
  - destruct Hi as [->|Hi]; [reflexivity|]. exfalso. apply Hnotin.
    unfold lname at 1. rewrite Ex, <- E. apply (in_map lname). exact Hi.
  - destruct Hi as [->|Hi]; [congruence|]. apply IH; assumption.
Qed.

Lemma lookup_none st n : lookup st n = None -> forall e, In e st -> lower (e_name e) <> lower n.
Proof.
  unfold lookup. intros H e He E. apply (find_none _ _ H) in He. unfold name_eqb in He.
  rewrite E, String.eqb_refl in He. discriminate.
Qed.

Lemma in_match_names m n : In m (match_names n) <-> m = wild \/ (is_wild n = false /\ m = n).
Proof.
  unfold match_names. destruct (is_wild n) eqn:A; cbn [In]; intuition (try discriminate; auto).
Qed.

Lemma cmatch_dst_in st d j :
  store_ok st -> coherent (enames st ++ [d]) ->
  (In j (cmatch_dst st d) <-> In j (call st) /\ wild_or_eq (i_dname j) d = true).
Proof.
  intros [Hnd Hok] C. unfold cmatch_dst. rewrite sort_ixns_in, in_flat_map, wild_or_eq_true. split.
  - intros (m & Hm & Hj). destruct (lookup st m) as [e|] eqn:L; [|destruct Hj].
    apply lookup_some in L as [He El]. unfold to_ixns in Hj. apply in_map_iff in Hj as (s & <- & Hs).
    split; [apply in_call; eauto|]. cbn [to_ixn i_dname].
    apply in_match_names in Hm as [->|[A ->]].
    + left. apply lower_wild_inv. exact El.
    + right. apply C; [apply in_or_app; left; apply in_map; exact He|apply in_or_app; right; left; reflexivity|exact El].
  - intros [Hj Hd]. apply in_call in Hj as (e & s & He & Hs & ->). cbn [to_ixn i_dname] in Hd.
    exists (e_name e). split.
    + apply in_match_names. destruct Hd as [Hd|Hd]; [left; exact Hd|].
      destruct (is_wild d) eqn:A; [left; apply is_wild_true in A; congruence|right; auto].
    + rewrite (lookup_unique st (e_name e) e Hnd He eq_refl). unfold to_ixns. apply in_map. exact Hs.
Qed.

Lemma cmatch_src_in st s j :
  In j (cmatch_src st s) <->
  exists m e x, In m (match_names s) /\ In e st /\ has_local_src e m = true /\
                In x (e_srcs e) /\ s_name x = m /\ j = to_ixn e x.
Proof.
  unfold cmatch_src. rewrite sort_ixns_in, in_flat_map. split.
  - intros (m & Hm & Hj). apply in_flat_map in Hj as (e & He & Hj).
    destruct (has_local_src e m) eqn:L; [|destruct Hj].
    apply in_map_iff in Hj as (x & <- & Hx). apply filter_In in Hx as [Hx Ex]. apply String.eqb_eq in Ex.
    exists m, e, x. auto 7.
  - intros (m & e & x & Hm & He & L & Hx & Ex & ->). exists m. split; [exact Hm|].
    apply in_flat_map. exists e. split; [exact He|]. rewrite L. apply in_map. apply filter_In.
    split; [exact Hx|]. apply String.eqb_eq. exact Ex.
Qed.

(* CE: every config-entry intention lives in the "default" namespace; so do the queries *)
Theorem config_route2 st peer s d :
  store_ok st -> coherent (enames st ++ [d]) ->
  decided (call st) peer dflt s dflt d (find (authz_match MSrc s dflt peer) (cmatch_dst st d)).
Proof.
  intros Hst C.
  apply route_generic; [apply config_all_wf; exact Hst|apply config_all_key; exact Hst|apply sort_ixns_sorted| |].
  - intros j Hj Pj. apply (cmatch_dst_in st d j Hst C) in Hj as [Hj Dj]. split; [exact Hj|].
    unfold covers. rewrite Pj. cbn [andb authz_match].
    apply in_call in Hj as (e & x & _ & _ & ->). cbn [to_ixn i_dns i_dname] in *.
    rewrite Dj. reflexivity.
  - intros j Hj Cj. unfold covers in Cj. apply andb_true_iff in Cj as [Sj Dj]. split; [|exact Sj].
    apply (cmatch_dst_in st d j Hst C). split; [exact Hj|].
    cbn [authz_match] in Dj. apply andb_true_iff in Dj. tauto.
Qed.

Theorem config_route1 st s d :
  store_ok st ->
  decided (call st) "" dflt s dflt d (find (authz_match MDst d dflt "") (cmatch_src st s)).
Proof.
  intros Hst.
  apply route1_generic; [apply config_all_wf; exact Hst|apply config_all_key; exact Hst|apply sort_ixns_sorted| |].
  - intros j Hj. pose proof Hj as Hjl.
    apply cmatch_src_in in Hj as (m & e & x & Hm & He & L & Hx & Ex & ->).
    split; [apply in_call; eauto|]. split.
    + cbn [authz_match to_ixn i_peer i_sns i_sname]. rewrite String.eqb_refl. cbn [andb].
      apply andb_true_iff. split; [apply wild_or_eq_true; right; reflexivity|].
      apply wild_or_eq_true. apply in_match_names in Hm as [->|[_ ->]]; [left|right]; exact Ex.
    + unfold has_local_src in L. apply existsb_exists in L as (y & Hy & Ey).
      apply andb_true_iff in Ey as [Ey1 Ey2]. apply String.eqb_eq in Ey1, Ey2.
      exists (to_ixn e y). split.
      * apply cmatch_src_in. exists m, e, y. repeat split; try assumption.
        unfold has_local_src. apply existsb_exists. exists y. split; [exact Hy|].
        rewrite Ey1, Ey2, !String.eqb_refl. reflexivity.
      * cbn [to_ixn i_peer i_sns i_sname i_dns i_dname]. repeat split; try assumption. congruence.
  - intros j Hj Cj. apply in_call in Hj as (e & x & He & Hx & ->).
    unfold covers in Cj. apply andb_true_iff in Cj as [Sj _].
    cbn [authz_match to_ixn i_peer i_sns i_sname] in Sj. rewrite !andb_true_iff in Sj.
    destruct Sj as [[Pe _] Sn]. apply String.eqb_eq in Pe. apply wild_or_eq_true in Sn.
    apply cmatch_src_in. exists (s_name x), e, x. repeat split; try assumption.
    + apply in_match_names. destruct Sn as [Sn|Sn]; [left; exact Sn|].
      destruct (is_wild s) eqn:A; [left; apply is_wild_true in A; congruence|right; auto].
    + unfold has_local_src. apply existsb_exists. exists x. split; [exact Hx|].
      rewrite Pe, !String.eqb_refl. reflexivity.
Qed.

(* ---------------------------------------------------------------- match lists as sorted filters *)

Lemma filter_true_id {A} (l : list A) : filter (fun _ => true) l = l.
Proof. induction l as [|a l IH]; cbn [filter]; [reflexivity|]. rewrite IH. reflexivity. Qed.

Lemma flat_map_nil {A B} (l : list A) : flat_map (fun _ => @nil B) l = [].
Proof. induction l; cbn; auto. Qed.

Lemma flat_map_ext_in {A B} (f g : A -> list B) l :
  (forall x, In x l -> f x = g x) -> flat_map f l = flat_map g l.
Proof.
  induction l as [|a l IH]; intros H; cbn [flat_map]; [reflexivity|].
  rewrite (H a (or_introl eq_refl)), IH; [reflexivity|]. intros x Hx. apply H. right; exact Hx.
Qed.

Lemma flat_map_perm_ext {A B} (f g : A -> list B) l :
  (forall x, In x l -> Permutation (f x) (g x)) -> Permutation (flat_map f l) (flat_map g l).
Proof.
  induction l as [|a l IH]; intros H; cbn [flat_map]; [reflexivity|].
  apply Permutation_app; [apply H; left; reflexivity|]. apply IH. intros x Hx. apply H. right; exact Hx.
Qed.

Lemma filter_flat_map {A B} (P : B -> bool) (f : A -> list B) l :
  filter P (flat_map f l) = flat_map (fun x => filter P (f x)) l.
Proof.
  induction l as [|a l IH]; cbn [flat_map filter]; [reflexivity|]. rewrite filter_app, IH. reflexivity.
Qed.

Lemma filter_map_comm {A B} (P : B -> bool) (f : A -> B) l :
  filter P (map f l) = map f (filter (fun x => P (f x)) l).
Proof.
  induction l as [|a l IH]; cbn [map filter]; [reflexivity|]. destruct (P (f a)); cbn [map]; rewrite IH; reflexivity.
Qed.

Lemma flat_map_map_out {A B C} (h : B -> C) (F : A -> list B) l :
  flat_map (fun a => map h (F a)) l = map h (flat_map F l).
Proof.
  induction l as [|a l IH]; cbn [flat_map map]; [reflexivity|]. rewrite map_app, IH. reflexivity.
Qed.

Lemma flat_map_app_perm {A B} (F G : A -> list B) l :
  Permutation (flat_map (fun a => F a ++ G a) l) (flat_map F l ++ flat_map G l).
Proof.
  induction l as [|a l IH]; cbn [flat_map]; [reflexivity|].
  rewrite IH. rewrite <- !app_assoc. apply Permutation_app_head.
  rewrite !app_assoc. apply Permutation_app_tail. apply Permutation_app_comm.
Qed.

Lemma flat_map_swap {A B C} (f : A -> B -> list C) la lb :
  Permutation (flat_map (fun a => flat_map (fun b => f a b) lb) la)
              (flat_map (fun b => flat_map (fun a => f a b) la) lb).
Proof.
  induction la as [|a la IH]; cbn [flat_map].
  - rewrite flat_map_nil. reflexivity.
  - rewrite IH. symmetry. apply flat_map_app_perm.
Qed.

Definition opt_list {A} (f : entry -> list A) (o : option entry) : list A :=
  match o with Some e => f e | None => [] end.

Lemma existsb_name_in n ms : existsb (name_eqb n) ms = true <-> In (lower n) (map lower ms).
Proof.
  rewrite existsb_exists, in_map_iff. unfold name_eqb. split.
  - intros (m & Hm & E). apply String.eqb_eq in E. eauto.
  - intros (m & E & Hm). exists m. split; [exact Hm|]. apply String.eqb_eq. congruence.
Qed.

Lemma lookup_one_perm {A} (f : entry -> list A) m ms : forall st,
  NoDup (map lname st) -> ~ In (lower m) (map lower ms) ->
  Permutation (flat_map (fun e => if existsb (name_eqb (e_name e)) (m :: ms) then f e else []) st)
              (opt_list f (lookup st m) ++
               flat_map (fun e => if existsb (name_eqb (e_name e)) ms then f e else []) st).
Proof.
  induction st as [|e r IH]; intros Hn Hm; [reflexivity|].
  inversion Hn as [|? ? Hnotin Hn']; subst.
  cbn [flat_map existsb]. unfold lookup. cbn [find]. fold (lookup r m).
  destruct (name_eqb (e_name e) m) eqn:E; cbn [orb opt_list].
  - assert (existsb (name_eqb (e_name e)) ms = false) as ->.
    { destruct (existsb (name_eqb (e_name e)) ms) eqn:X; [|reflexivity].
      apply existsb_name_in in X. unfold name_eqb in E. apply String.eqb_eq in E. rewrite E in X. contradiction. }
    cbn [app]. apply Permutation_app_head.
    erewrite flat_map_ext_in; [reflexivity|]. intros x Hx. cbn [existsb].
    assert (name_eqb (e_name x) m = false) as ->; [|reflexivity].
    unfold name_eqb in *. apply String.eqb_eq in E. apply String.eqb_neq. intros Ex.
    apply Hnotin. unfold lname at 1. rewrite E, <- Ex. apply (in_map lname). exact Hx.
  - rewrite (IH Hn' Hm). rewrite !app_assoc. apply Permutation_app_tail. apply Permutation_app_comm.
Qed.

Lemma lookup_flat_perm {A} (f : entry -> list A) st :
  NoDup (map lname st) -> forall ms, NoDup (map lower ms) ->
  Permutation (flat_map (fun m => opt_list f (lookup st m)) ms)
              (flat_map (fun e => if existsb (name_eqb (e_name e)) ms then f e else []) st).
Proof.
  intros Hn. induction ms as [|m ms IH]; cbn [map]; intros Hms.
  - cbn [flat_map existsb]. rewrite flat_map_nil. reflexivity.
  - inversion Hms as [|? ? Hnotin Hms']; subst. cbn [flat_map].
    rewrite (lookup_one_perm f m ms st Hn Hnotin). apply Permutation_app_head. apply IH. exact Hms'.
Qed.

Lemma match_names_lower_nodup n : NoDup (map lower (match_names n)).
Proof.
  unfold match_names. destruct (is_wild n) eqn:A; cbn [map]; repeat constructor; cbn [In]; try tauto.
  intros [E|[]]. apply is_wild_false in A. apply A. apply lower_wild_inv. rewrite <- E. reflexivity.
Qed.

Lemma match_names_nodup n : NoDup (match_names n).
Proof.
  unfold match_names. destruct (is_wild n) eqn:A; repeat constructor; cbn [In]; try tauto.
  intros [E|[]]. apply is_wild_false in A. congruence.
Qed.

(* Store.IntentionMatch by destination = the sorted list of the stored intentions whose destination
   pattern covers the name *)
Theorem cmatch_dst_perm st d :
  store_ok st -> coherent (enames st ++ [d]) ->
  Permutation (cmatch_dst st d) (filter (fun j => wild_or_eq (i_dname j) d) (call st)).
Proof.
  intros [Hnd Hok] C. unfold cmatch_dst. rewrite sort_ixns_perm.
  change (fun m => match lookup st m with Some e => to_ixns e | None => [] end)
    with (fun m => opt_list to_ixns (lookup st m)).
  rewrite (lookup_flat_perm to_ixns st Hnd _ (match_names_lower_nodup d)).
  unfold call. rewrite filter_flat_map.
  erewrite flat_map_ext_in; [reflexivity|]. intros e He. cbn beta.
  assert (existsb (name_eqb (e_name e)) (match_names d) = wild_or_eq (e_name e) d) as ->.
  { destruct (wild_or_eq (e_name e) d) eqn:W.
    - apply wild_or_eq_true in W. apply existsb_name_in. apply in_map_iff.
      destruct W as [W|W].
      + exists wild. split; [rewrite W; reflexivity|]. apply in_match_names. left; reflexivity.
      + destruct (is_wild d) eqn:A.
        * exists wild. apply is_wild_true in A. split; [congruence|apply in_match_names; left; reflexivity].
        * exists d. split; [congruence|apply in_match_names; right; auto].
    - destruct (existsb (name_eqb (e_name e)) (match_names d)) eqn:X; [|reflexivity].
      apply existsb_name_in in X. apply in_map_iff in X as (m & E & Hm).
      assert (wild_or_eq (e_name e) d = true); [|congruence]. apply wild_or_eq_true.
      apply in_match_names in Hm as [->|[_ ->]].
      + left. apply lower_wild_inv. symmetry. exact E.
      + right. apply C; [apply in_or_app; left; apply in_map; exact He|apply in_or_app; right; left; reflexivity|congruence]. }
  unfold to_ixns. rewrite filter_map_comm. cbn [to_ixn i_dname].
  destruct (wild_or_eq (e_name e) d).
  - f_equal. symmetry. apply filter_true_id.
  - rewrite filter_false_nil. reflexivity.
Qed.


Lemma has_local_src_call st e m x :
  store_ok st -> In e st ->
  existsb (fun j' => String.eqb (i_peer j') "" && String.eqb (i_sname j') m
                     && String.eqb (i_dname j') (i_dname (to_ixn e x)))%bool (call st)
  = has_local_src e m.
Proof.
  intros [Hnd _] He. cbn [to_ixn i_dname].
  destruct (has_local_src e m) eqn:L.
  - unfold has_local_src in L. apply existsb_exists in L as (y & Hy & Ey).
    apply andb_true_iff in Ey as [E1 E2].
    apply existsb_exists. exists (to_ixn e y). split; [apply in_call; eauto|].
    cbn [to_ixn i_peer i_sname i_dname]. rewrite E1, E2, String.eqb_refl. reflexivity.
  - destruct (existsb _ (call st)) eqn:X; [|reflexivity].
    apply existsb_exists in X as (j' & Hj' & Ej'). rewrite !andb_true_iff in Ej'.
    destruct Ej' as [[E1 E2] E3]. apply String.eqb_eq in E3.
    apply in_call in Hj' as (e' & y & He' & Hy & ->). cbn [to_ixn i_peer i_sname i_dname] in *.
    assert (e' = e) as -> by (apply (nodup_map_inj lname st); try assumption; unfold lname; congruence).
    assert (has_local_src e m = true); [|congruence].
    unfold has_local_src. apply existsb_exists. exists y. split; [exact Hy|]. rewrite E1, E2. reflexivity.
Qed.

Theorem cmatch_src_perm st s :
  store_ok st ->
  Permutation (cmatch_src st s) (filter (src_sel (call st) s) (call st)).
Proof.
  intros Hst. unfold cmatch_src. rewrite sort_ixns_perm.
  rewrite flat_map_swap. unfold call at 2. rewrite filter_flat_map.
  apply flat_map_perm_ext. intros e He. cbn beta.
  (* per entry *)
  transitivity (map (to_ixn e)
                  (filter (fun x => existsb (fun m => String.eqb (s_name x) m && has_local_src e m)%bool (match_names s))
                          (e_srcs e))).
  - erewrite flat_map_ext_in with
      (g := fun m => map (to_ixn e) (filter (fun x => String.eqb (s_name x) m && has_local_src e m)%bool (e_srcs e))).
    + rewrite flat_map_map_out. apply Permutation_map.
      apply (flat_map_filter_perm (fun m x => String.eqb (s_name x) m && has_local_src e m)%bool).
      * apply match_names_nodup.
      * intros x p q _ _ _ Hp Hq. apply andb_true_iff in Hp as [Hp _]. apply andb_true_iff in Hq as [Hq _].
        apply String.eqb_eq in Hp, Hq. congruence.
    + intros m _. destruct (has_local_src e m).
      * f_equal. apply filter_ext. intros x. rewrite andb_true_r. reflexivity.
      * erewrite filter_ext with (g := fun _ => false); [rewrite filter_false_nil; reflexivity|].
        intros x. rewrite andb_false_r. reflexivity.
  - unfold to_ixns. rewrite filter_map_comm. apply Permutation_map.
    erewrite filter_ext; [reflexivity|]. intros x. unfold src_sel.
    cbn [to_ixn i_sname].
    (* the inner test over all stored intentions is has_local_src of this entry *)
    generalize (match_names s) as ms. intros ms. induction ms as [|m ms IH]; cbn [existsb]; [reflexivity|].
    rewrite IH. f_equal. f_equal. symmetry. apply (has_local_src_call st e m x Hst He).
Qed.

(* ---------------------------------------------------------------- observations depend on the stored SET only *)

Lemma existsb_perm {A} (f : A -> bool) l l' : Permutation l l' -> existsb f l = existsb f l'.
Proof.
  induction 1 as [|x l l' Hp IH|x y l|l l' l'' Hp1 IH1 Hp2 IH2]; cbn [existsb]; try congruence.
  destruct (f x), (f y); reflexivity.
Qed.

Lemma forallb_perm {A} (f : A -> bool) l l' : Permutation l l' -> forallb f l = forallb f l'.
Proof.
  induction 1 as [|x l l' Hp IH|x y l|l l' l'' Hp1 IH1 Hp2 IH2]; cbn [forallb]; try congruence.
  destruct (f x), (f y); reflexivity.
Qed.

Lemma sorted_perm_eq l1 l2 :
  isorted l1 -> isorted l2 -> Permutation l1 l2 ->
  (forall x y, In x l1 -> In y l1 -> key5 x = key5 y -> x = y) -> l1 = l2.
Proof.
  intros S1 S2 Hp Hk.
  rewrite <- (isort_sorted_id ileb l1 S1), <- (isort_sorted_id ileb l2 S2).
  apply sort_ixns_perm_eq; assumption.
Qed.

Lemma src_sel_perm all all' s j : Permutation all all' -> src_sel all s j = src_sel all' s j.
Proof.
  intros Hp. unfold src_sel. induction (match_names s) as [|m ms IH]; cbn [existsb]; [reflexivity|].
  rewrite IH. f_equal. f_equal. apply existsb_perm. exact Hp.
Qed.

Theorem config_obs_perm st1 st2 :
  store_ok st1 -> store_ok st2 -> Permutation (call st1) (call st2) ->
  config_list st1 = config_list st2 /\
  (forall s, cmatch_src st1 s = cmatch_src st2 s) /\
  (forall d, coherent (enames st1 ++ [d]) -> coherent (enames st2 ++ [d]) ->
             cmatch_dst st1 d = cmatch_dst st2 d).
Proof.
  intros H1 H2 Hp. pose proof (config_all_key st1 H1) as K1. split; [|split].
  - apply sort_ixns_perm_eq; assumption.
  - intros s. apply sorted_perm_eq; try apply sort_ixns_sorted.
    + rewrite (cmatch_src_perm st1 s H1), (cmatch_src_perm st2 s H2).
      erewrite filter_ext; [apply perm_filter; exact Hp|].
      intros j. apply src_sel_perm. exact Hp.
    + intros x y Hx Hy. apply K1.
      * apply (Permutation_in _ (cmatch_src_perm st1 s H1)) in Hx. apply filter_In in Hx. tauto.
      * apply (Permutation_in _ (cmatch_src_perm st1 s H1)) in Hy. apply filter_In in Hy. tauto.
  - intros d C1 C2. apply sorted_perm_eq; try apply sort_ixns_sorted.
    + rewrite (cmatch_dst_perm st1 d H1 C1), (cmatch_dst_perm st2 d H2 C2). apply perm_filter. exact Hp.
    + intros x y Hx Hy. apply K1.
      * apply (cmatch_dst_in st1 d x H1 C1) in Hx. tauto.
      * apply (cmatch_dst_in st1 d y H1 C1) in Hy. tauto.
Qed.

(* ---------------------------------------------------------------- writes: Normalize, Validate, put *)

Lemma isort_perm' {A} (leb : A -> A -> bool) l : Permutation (isort leb l) l.
Proof. apply isort_perm. Qed.

Lemma normalize_srcs_perm e :
  Permutation (e_srcs (normalize e)) (map (src_set_prec (e_name e)) (e_srcs e)).
Proof. unfold normalize. cbn [e_srcs]. apply isort_perm'. Qed.

Lemma normalize_name e : e_name (normalize e) = e_name e.
Proof. reflexivity. Qed.

Lemma src_valid_set_prec dw en s : src_valid dw (src_set_prec en s) = src_valid dw s.
Proof. reflexivity. Qed.

Lemma skey_set_prec en s : skey (src_set_prec en s) = skey s.
Proof. reflexivity. Qed.

Lemma src_set_prec_id en s : src_ok en s -> src_set_prec en s = s.
Proof. unfold src_ok, src_set_prec. destruct s; cbn. intros ->. reflexivity. Qed.

Lemma normalize_src_ok e s : In s (e_srcs (normalize e)) -> src_ok (e_name e) s.
Proof.
  intros Hs. apply (Permutation_in _ (normalize_srcs_perm e)) in Hs.
  apply in_map_iff in Hs as (x & <- & _). reflexivity.
Qed.

Lemma validate_normalize e :
  validate (normalize e) = None <->
  ename_valid (e_name e) = true /\ e_srcs e <> [] /\
  forallb (src_valid (is_wild (e_name e))) (e_srcs e) = true /\ NoDup (map skey (e_srcs e)).
Proof.
  rewrite validate_none, normalize_name.
  pose proof (normalize_srcs_perm e) as Hp.
  rewrite (forallb_perm _ _ _ Hp).
  assert (forallb (src_valid (is_wild (e_name e))) (map (src_set_prec (e_name e)) (e_srcs e))
          = forallb (src_valid (is_wild (e_name e))) (e_srcs e)) as ->.
  { clear Hp. generalize (e_srcs e) as l. intros l.
    induction l as [|a l IH]; cbn [map forallb]; [reflexivity|]. rewrite IH. reflexivity. }
  assert (Permutation (map skey (e_srcs (normalize e))) (map skey (e_srcs e))) as Hk.
  { rewrite Hp. rewrite map_map. erewrite map_ext; [reflexivity|]. intros a. apply skey_set_prec. }
  split; intros (A & B & C & D); repeat split; try assumption.
  - intros E. rewrite E in Hp. cbn [map] in Hp. apply Permutation_sym, Permutation_nil in Hp. exact (B Hp).
  - eapply Permutation_NoDup; [exact Hk|exact D].
  - intros E. rewrite E in Hp. apply Permutation_nil in Hp.
    destruct (e_srcs e); [apply B; reflexivity|discriminate].
  - eapply Permutation_NoDup; [symmetry; exact Hk|exact D].
Qed.

Lemma entry_ok_normalize e : validate (normalize e) = None -> entry_ok (normalize e).
Proof. intros H. split; [exact H|]. intros s Hs. rewrite normalize_name. apply normalize_src_ok. exact Hs. Qed.

Lemma ensure_cases st e :
  (validate (normalize e) = None /\ ensure st e = (WOk, put (normalize e) st)) \/
  (exists c, validate (normalize e) = Some c /\ ensure st e = (WInvalid c, st)).
Proof. unfold ensure. destruct (validate (normalize e)) as [c|]; eauto. Qed.

Lemma put_in e st x : In x (put e st) -> x = e \/ In x st.
Proof.
  induction st as [|y r IH]; cbn [put]; [intros [<-|[]]; auto|].
  destruct (name_eqb (e_name y) (e_name e)); intros [<-|H]; auto.
  - right; right; exact H.
  - right; left; reflexivity.
  - destruct (IH H); auto. right; right; assumption.
Qed.

Lemma put_lnames e st x : In x (map lname (put e st)) -> x = lname e \/ In x (map lname st).
Proof.
  intros H. apply in_map_iff in H as (y & <- & Hy). apply put_in in Hy as [->|Hy]; [left; reflexivity|].
  right. apply in_map. exact Hy.
Qed.

Lemma put_nodup e st : NoDup (map lname st) -> NoDup (map lname (put e st)).
Proof.
  induction st as [|y r IH]; cbn [put map]; intros Hn; [repeat constructor; intros []|].
  inversion Hn as [|? ? Hnotin Hn']; subst.
  unfold name_eqb at 1. destruct (String.eqb_spec (lower (e_name y)) (lower (e_name e))) as [E|E]; cbn [map].
  - constructor; [|exact Hn']. unfold lname at 1. rewrite <- E. exact Hnotin.
  - constructor; [|apply IH; exact Hn']. intros Hin. apply put_lnames in Hin as [Hin|Hin]; [|contradiction].
    apply E. exact Hin.
Qed.

Lemma store_ok_put e st : store_ok st -> entry_ok e -> store_ok (put e st).
Proof.
  intros [Hn Hok] He. split; [apply put_nodup; exact Hn|].
  intros x Hx. apply put_in in Hx as [->|Hx]; [exact He|apply Hok; exact Hx].
Qed.

Lemma enames_put e st : incl (enames (put e st)) (enames st ++ [e_name e]).
Proof.
  intros n Hn. unfold enames in Hn. apply in_map_iff in Hn as (x & <- & Hx). apply in_or_app.
  apply put_in in Hx as [->|Hx]; [right; left; reflexivity|left; apply in_map; exact Hx].
Qed.

Lemma filter_all_in {A} (P : A -> bool) l : (forall x, In x l -> P x = true) -> filter P l = l.
Proof.
  induction l as [|a l IH]; intros H; cbn [filter]; [reflexivity|].
  rewrite (H a (or_introl eq_refl)), IH; [reflexivity|]. intros x Hx. apply H; right; exact Hx.
Qed.

Lemma filter_none_in {A} (P : A -> bool) l : (forall x, In x l -> P x = false) -> filter P l = [].
Proof.
  induction l as [|a l IH]; intros H; cbn [filter]; [reflexivity|].
  rewrite (H a (or_introl eq_refl)), IH; [reflexivity|]. intros x Hx. apply H; right; exact Hx.
Qed.

Lemma to_ixns_dname e j : In j (to_ixns e) -> i_dname j = e_name e.
Proof. unfold to_ixns. intros H. apply in_map_iff in H as (s & <- & _). reflexivity. Qed.

(* replacing / adding an entry: every intention of the entries with that (case-folded) name goes,
   the new entry's intentions come *)
Lemma put_call e st :
  NoDup (map lname st) ->
  Permutation (call (put e st))
              (filter (fun j => negb (name_eqb (i_dname j) (e_name e))) (call st) ++ to_ixns e).
Proof.
  induction st as [|y r IH]; cbn [put map]; intros Hn.
  - cbn. rewrite app_nil_r. reflexivity.
  - inversion Hn as [|? ? Hnotin Hn']; subst.
    unfold call. cbn [flat_map]. fold (call r). rewrite filter_app.
    destruct (name_eqb (e_name y) (e_name e)) eqn:E.
    + cbn [flat_map]. fold (call r).
      rewrite (filter_none_in _ (to_ixns y)).
      * rewrite (filter_all_in _ (call r)); [cbn [app]; apply Permutation_app_comm|].
        intros j Hj. apply in_call in Hj as (x & s & Hx & _ & ->). cbn [to_ixn i_dname].
        apply negb_true_iff. unfold name_eqb in *. apply String.eqb_eq in E. apply String.eqb_neq. intros Ex.
        apply Hnotin. unfold lname at 1. rewrite E, <- Ex. apply (in_map lname). exact Hx.
      * intros j Hj. rewrite (to_ixns_dname _ _ Hj), E. reflexivity.
    + cbn [flat_map]. fold (call (put e r)). rewrite (IH Hn').
      rewrite (filter_all_in _ (to_ixns y)).
      * rewrite app_assoc. reflexivity.
      * intros j Hj. rewrite (to_ixns_dname _ _ Hj), E. reflexivity.
Qed.

(* ---------------------------------------------------------------- Store.IntentionMutation(upsert) *)


Lemma upsert_src_perm n v l :
  NoDup (map s_name l) ->
  Permutation (upsert_src n v l) (v :: filter (fun x => negb (String.eqb (s_name x) n)) l).
Proof.
  induction l as [|a l IH]; cbn [upsert_src map filter]; intros Hn; [reflexivity|].
  inversion Hn as [|? ? Hnotin Hn']; subst.
  destruct (String.eqb_spec (s_name a) n) as [E|E]; cbn [negb].
  - constructor. rewrite filter_all_in; [reflexivity|].
    intros x Hx. apply negb_true_iff, String.eqb_neq. intros Ex. apply Hnotin. rewrite E, <- Ex.
    apply in_map. exact Hx.
  - rewrite (IH Hn'). apply perm_swap.
Qed.

Lemma nodup_map_filter {A B} (f : A -> B) (P : A -> bool) l : NoDup (map f l) -> NoDup (map f (filter P l)).
Proof.
  induction l as [|a l IH]; cbn [map filter]; intros Hn; [constructor|].
  inversion Hn as [|? ? Hnotin Hn']; subst. destruct (P a); cbn [map]; [|apply IH; exact Hn'].
  constructor; [|apply IH; exact Hn']. intros Hin. apply Hnotin.
  apply in_map_iff in Hin as (x & Ex & Hx). apply filter_In in Hx as [Hx _]. rewrite <- Ex. apply in_map. exact Hx.
Qed.

Lemma flat_map_single {A B} (f : A -> list B) l p :
  NoDup l -> In p l -> (forall x, In x l -> x <> p -> f x = []) -> flat_map f l = f p.
Proof.
  induction l as [|a l IH]; intros Hn Hp Hf; [destruct Hp|].
  inversion Hn as [|? ? Hnotin Hn']; subst. cbn [flat_map].
  destruct Hp as [->|Hp].
  - rewrite (flat_map_ext_in f (fun _ => [])), flat_map_nil, app_nil_r; [reflexivity|].
    intros x Hx. apply Hf; [right; exact Hx|]. intros ->. contradiction.
  - rewrite (Hf a (or_introl eq_refl)); [|intros ->; contradiction]. cbn [app]. apply IH; try assumption.
    intros x Hx. apply Hf. right; exact Hx.
Qed.

Lemma nodup_of_map {A B} (f : A -> B) l : NoDup (map f l) -> NoDup l.
Proof.
  induction l as [|a l IH]; cbn [map]; intros Hn; [constructor|].
  inversion Hn as [|? ? Hnotin Hn']; subst. constructor; [|apply IH; exact Hn'].
  intros Hin. apply Hnotin. apply in_map. exact Hin.
Qed.

Lemma to_ixn_name e e' s : e_name e = e_name e' -> to_ixn e s = to_ixn e' s.
Proof. unfold to_ixn. intros ->. reflexivity. Qed.

Lemma forallb_filter {A} (f P : A -> bool) l : forallb f l = true -> forallb f (filter P l) = true.
Proof.
  induction l as [|a l IH]; cbn [forallb filter]; [reflexivity|]. intros H. apply andb_true_iff in H as [Ha Hl].
  destruct (P a); cbn [forallb]; [rewrite Ha|]; apply IH; exact Hl.
Qed.

Lemma over_split dn v j :
  negb (over dn v j) =
  (negb (name_eqb (i_dname j) dn) || (name_eqb (i_dname j) dn && negb (String.eqb (i_sname j) (s_name v))))%bool.
Proof. unfold over. destruct (name_eqb (i_dname j) dn), (String.eqb (i_sname j) (s_name v)); reflexivity. Qed.

(* only the entry the upsert goes into has to be free of same-name sources *)
Lemma upsert_step_gen st dn v :
  store_ok st ->
  (forall p, In p st -> lower (e_name p) = lower dn -> NoDup (map s_name (e_srcs p))) ->
  coherent (enames st ++ [dn]) -> s_peer v = "" ->
  let st' := snd (upsert st dn v) in
  (wvalid dn v = false -> st' = st) /\
  (wvalid dn v = true ->
     store_ok st' /\
     (forall x, In x st' -> In x st \/ (lower (e_name x) = lower dn /\ NoDup (map s_name (e_srcs x)))) /\
     incl (enames st') (enames st ++ [dn]) /\
     Permutation (call st') (filter (fun j => negb (over dn v j)) (call st) ++ [wixn dn v])).
Proof.
  intros Hst Hsf C Hpeer. pose proof Hst as [Hnd Hok]. unfold upsert.
  destruct (lookup st dn) as [p|] eqn:L.
  - (* the destination already has an entry *)
    apply lookup_some in L as [Hp El].
    assert (e_name p = dn) as En.
    { apply C; [apply in_or_app; left; apply in_map; exact Hp|apply in_or_app; right; left; reflexivity|exact El]. }
    destruct (Hok p Hp) as [Vp Sp]. apply validate_none in Vp as (Vn & Vne & Vf & Vk).
    pose proof (upsert_src_perm (s_name v) v (e_srcs p) (Hsf p Hp El)) as Hu.
    set (rest := filter (fun x => negb (String.eqb (s_name x) (s_name v))) (e_srcs p)) in *.
    set (e := Entry (e_name p) (upsert_src (s_name v) v (e_srcs p))).
    assert (validate (normalize e) = None <-> src_valid (is_wild dn) v = true) as Hval.
    { rewrite validate_normalize. cbn [e e_name e_srcs]. rewrite (forallb_perm _ _ _ Hu). cbn [forallb].
      rewrite En in *. split.
      - intros (_ & _ & F & _). apply andb_true_iff in F. tauto.
      - intros Sv. split; [exact Vn|]. split.
        + intros E. rewrite E in Hu. apply Permutation_nil in Hu. discriminate.
        + split.
          * rewrite Sv. cbn [andb]. apply forallb_filter. exact Vf.
          * eapply Permutation_NoDup; [symmetry; apply Permutation_map; exact Hu|]. cbn [map].
            constructor; [|apply nodup_map_filter; exact Vk].
            intros Hin. apply in_map_iff in Hin as (x & Ex & Hx). apply filter_In in Hx as [_ Hx].
            apply negb_true_iff, String.eqb_neq in Hx. apply Hx. unfold skey in Ex. congruence. }
    assert (ename_valid dn = true) as Vdn by (rewrite <- En; exact Vn).
    destruct (ensure_cases st e) as [[Hv He]|(c & Hv & He)]; rewrite He; cbn [snd].
    + split.
      * intros Wf. exfalso. unfold wvalid in Wf. rewrite Vdn in Wf. apply Hval in Hv. rewrite Hv in Wf. discriminate.
      * intros _.
        assert (Permutation (e_srcs (normalize e)) (src_set_prec dn v :: rest)) as Hsrcs.
        { rewrite normalize_srcs_perm. cbn [e e_name e_srcs]. rewrite Hu. cbn [map]. rewrite En. constructor.
          rewrite (map_ext_in _ (fun x => x)); [rewrite map_id; reflexivity|].
          intros x Hx. apply src_set_prec_id. rewrite <- En. apply Sp. apply filter_In in Hx. tauto. }
        split; [apply store_ok_put; [exact Hst|apply entry_ok_normalize; exact Hv]|].
        split.
        { intros x Hx. apply put_in in Hx as [->|Hx]; [right|left; exact Hx].
          split; [cbn [normalize e e_name]; exact El|].
          eapply Permutation_NoDup; [symmetry; apply Permutation_map; exact Hsrcs|]. cbn [map].
          constructor; [|apply nodup_map_filter; apply Hsf; assumption].
          intros Hin. apply in_map_iff in Hin as (x & Ex & Hx). apply filter_In in Hx as [_ Hx].
          apply negb_true_iff, String.eqb_neq in Hx. apply Hx. exact Ex. }
        split.
        { intros n Hn. apply enames_put in Hn. cbn [normalize e e_name] in Hn. rewrite En in Hn. exact Hn. }
        rewrite (put_call _ st Hnd). cbn [normalize e e_name]. rewrite En.
        (* the intentions of the new entry *)
        assert (Permutation (to_ixns (normalize e)) (wixn dn v :: map (to_ixn p) rest)) as ->.
        { unfold to_ixns.
          rewrite (map_ext (to_ixn (normalize e)) (to_ixn (Entry dn []))) by (intros x; apply to_ixn_name; exact En).
          rewrite Hsrcs. cbn [map]. apply perm_skip.
          rewrite (map_ext (to_ixn p) (to_ixn (Entry dn []))) by (intros x; apply to_ixn_name; exact En).
          reflexivity. }
        (* the intentions that stay *)
        assert (Permutation (filter (fun j => negb (over dn v j)) (call st))
                  (filter (fun j => negb (name_eqb (i_dname j) dn)) (call st) ++ map (to_ixn p) rest)) as ->.
        { erewrite filter_ext; [|intros j; apply over_split].
          rewrite filter_or_perm.
          - apply Permutation_app_head. unfold call. rewrite filter_flat_map.
            rewrite (flat_map_single _ st p (nodup_of_map lname st Hnd) Hp).
            + unfold to_ixns. rewrite filter_map_comm. cbn [to_ixn i_dname i_sname].
              unfold rest. erewrite filter_ext; [reflexivity|]. intros x. cbn beta.
              unfold name_eqb. rewrite El, String.eqb_refl. reflexivity.
            + intros x Hx Hne. apply filter_none_in. intros j Hj. rewrite (to_ixns_dname _ _ Hj).
              assert (name_eqb (e_name x) dn = false) as ->; [|reflexivity].
              unfold name_eqb. apply String.eqb_neq. intros Ex. apply Hne.
              apply (nodup_map_inj lname st); try assumption. unfold lname. congruence.
          - intros x _ A B. apply andb_true_iff in B as [B _]. rewrite B in A. discriminate. }
        rewrite <- app_assoc. apply Permutation_app_head.
        rewrite <- Permutation_cons_append. reflexivity.
    + split; [reflexivity|]. intros Wt. exfalso. unfold wvalid in Wt. apply andb_true_iff in Wt as [_ Wt].
      apply Hval in Wt. congruence.
  - (* first intention for this destination *)
    set (e := Entry dn [v]).
    assert (normalize e = Entry dn [src_set_prec dn v]) as Hne by reflexivity.
    assert (validate (normalize e) = None <-> wvalid dn v = true) as Hval.
    { rewrite validate_normalize. cbn [e e_name e_srcs forallb map]. unfold wvalid. rewrite andb_true_r. split.
      - intros (A & _ & B & _). rewrite A, B. reflexivity.
      - intros H. apply andb_true_iff in H as [A B]. repeat split; try assumption; [discriminate|].
        repeat constructor. intros []. }
    assert (forall j, In j (call st) -> name_eqb (i_dname j) dn = false) as Hnone.
    { intros j Hj. apply in_call in Hj as (x & s & Hx & _ & ->). cbn [to_ixn i_dname].
      unfold name_eqb. apply String.eqb_neq. apply (lookup_none st dn L x Hx). }
    destruct (ensure_cases st e) as [[Hv He]|(c & Hv & He)]; rewrite He; cbn [snd].
    + split; [intros Wf; apply Hval in Hv; congruence|]. intros _.
      split; [apply store_ok_put; [exact Hst|apply entry_ok_normalize; exact Hv]|].
      split.
      { intros x Hx. apply put_in in Hx as [->|Hx]; [right|left; exact Hx].
        rewrite Hne. cbn [e_name e_srcs map]. split; [reflexivity|]. repeat constructor. intros []. }
      split.
      { intros n Hn. apply enames_put in Hn. rewrite Hne in Hn. exact Hn. }
      rewrite (put_call _ st Hnd). rewrite Hne. cbn [e_name].
      rewrite (filter_all_in _ (call st)); [|intros j Hj; rewrite (Hnone j Hj); reflexivity].
      rewrite (filter_all_in _ (call st)); [reflexivity|].
      intros j Hj. unfold over. rewrite (Hnone j Hj). reflexivity.
    + split; [reflexivity|]. intros Wt. apply Hval in Wt. congruence.
Qed.

Lemma upsert_step st dn v :
  store_ok st -> shadow_free st -> coherent (enames st ++ [dn]) -> s_peer v = "" ->
  let st' := snd (upsert st dn v) in
  (wvalid dn v = false -> st' = st) /\
  (wvalid dn v = true ->
     store_ok st' /\ shadow_free st' /\ incl (enames st') (enames st ++ [dn]) /\
     Permutation (call st') (filter (fun j => negb (over dn v j)) (call st) ++ [wixn dn v])).
Proof.
  intros Hst Hsf C Hpeer.
  destruct (upsert_step_gen st dn v Hst (fun p Hp _ => Hsf p Hp) C Hpeer) as [Hbad Hgood].
  split; [exact Hbad|]. intros V. destruct (Hgood V) as (A & B & D & E).
  split; [exact A|]. split; [|split; assumption].
  intros x Hx. destruct (B x Hx) as [Hin|[_ Hn]]; [apply Hsf; exact Hin|exact Hn].
Qed.

(* ---------------------------------------------------------------- any order of the same upserts *)


Definition wv (w : string * src) : bool := wvalid (fst w) (snd w).
Definition wx (w : string * src) : ixn := wixn (fst w) (snd w).
Definition keeps (ws : list (string * src)) (j : ixn) : bool :=
  forallb (fun w => negb (over (fst w) (snd w) j)) ws.

Lemma over_wx a b : over (fst a) (snd a) (wx b) = true <-> wkey a = wkey b.
Proof.
  unfold over, wx, wixn, wkey, name_eqb. cbn [to_ixn i_dname i_sname src_set_prec s_name e_name].
  rewrite andb_true_iff, !String.eqb_eq. split; [intros [-> ->]; reflexivity|intros [= -> ->]; auto].
Qed.

Lemma filter_filter {A} (P Q : A -> bool) l : filter P (filter Q l) = filter (fun x => Q x && P x)%bool l.
Proof.
  induction l as [|a l IH]; cbn [filter]; [reflexivity|].
  destruct (Q a); cbn [filter andb]; [destruct (P a)|]; rewrite IH; reflexivity.
Qed.

Lemma upsert_all_call ws : forall st,
  store_ok st -> shadow_free st -> coherent (enames st ++ map fst ws) ->
  (forall w, In w ws -> s_peer (snd w) = "") -> NoDup (map wkey ws) ->
  let st' := upsert_all st ws in
  store_ok st' /\ incl (enames st') (enames st ++ map fst ws) /\
  Permutation (call st') (filter (keeps (filter wv ws)) (call st) ++ map wx (filter wv ws)).
Proof.
  induction ws as [|w ws IH]; intros st Hst Hsf C Hpe Hk; cbn [upsert_all fold_left].
  - split; [exact Hst|]. split; [intros n Hn; apply in_or_app; left; exact Hn|].
    cbn [filter map]. rewrite app_nil_r. unfold keeps. cbn [forallb]. rewrite filter_true_id. reflexivity.
  - fold (upsert_all (snd (upsert st (fst w) (snd w))) ws).
    inversion Hk as [|? ? Hnotin Hk']; subst.
    assert (coherent (enames st ++ [fst w])) as Cw.
    { eapply coherent_incl; [|exact C]. intros n Hn. apply in_app_or in Hn as [Hn|[<-|[]]]; apply in_or_app; [left; exact Hn|right; left; reflexivity]. }
    destruct (upsert_step st (fst w) (snd w) Hst Hsf Cw (Hpe w (or_introl eq_refl))) as [Hbad Hgood].
    cbn [filter]. fold (wv w). destruct (wv w) eqn:V.
    + destruct (Hgood V) as (Hst1 & Hsf1 & Hin1 & Hc1).
      set (st1 := snd (upsert st (fst w) (snd w))) in *.
      assert (coherent (enames st1 ++ map fst ws)) as C1.
      { eapply coherent_incl; [|exact C]. intros n Hn. apply in_app_or in Hn as [Hn|Hn].
        - apply Hin1 in Hn. apply in_app_or in Hn as [Hn|[<-|[]]]; apply in_or_app; [left; exact Hn|right; left; reflexivity].
        - apply in_or_app. right. right. exact Hn. }
      destruct (IH st1 Hst1 Hsf1 C1 (fun x Hx => Hpe x (or_intror Hx)) Hk') as (Hst2 & Hin2 & Hc2).
      split; [exact Hst2|]. split.
      { intros n Hn. apply Hin2 in Hn. apply in_app_or in Hn as [Hn|Hn].
        - apply Hin1 in Hn. apply in_app_or in Hn as [Hn|[<-|[]]]; apply in_or_app; [left; exact Hn|right; left; reflexivity].
        - apply in_or_app. right. right. exact Hn. }
      rewrite Hc2. rewrite (perm_filter _ _ _ Hc1). rewrite filter_app, filter_filter. cbn [map].
      assert (filter (keeps (filter wv ws)) [wixn (fst w) (snd w)] = [wx w]) as ->.
      { cbn [filter]. fold (wx w). assert (keeps (filter wv ws) (wx w) = true) as ->; [|reflexivity].
        unfold keeps. apply forallb_forall. intros a Ha. apply filter_In in Ha as [Ha _].
        apply negb_true_iff. destruct (over (fst a) (snd a) (wx w)) eqn:O; [|reflexivity].
        apply over_wx in O. exfalso. apply Hnotin. rewrite <- O. apply in_map. exact Ha. }
      rewrite <- app_assoc. cbn [app]. reflexivity.
    + rewrite (Hbad V).
      assert (coherent (enames st ++ map fst ws)) as C1.
      { eapply coherent_incl; [|exact C]. intros n Hn. apply in_app_or in Hn as [Hn|Hn]; apply in_or_app; [left|right; right]; exact Hn. }
      destruct (IH st Hst Hsf C1 (fun x Hx => Hpe x (or_intror Hx)) Hk') as (Hst2 & Hin2 & Hc2).
      split; [exact Hst2|]. split; [|exact Hc2].
      intros n Hn. apply Hin2 in Hn. apply in_app_or in Hn as [Hn|Hn]; apply in_or_app; [left|right; right]; exact Hn.
Qed.

Lemma enames_of_call st1 st2 :
  store_ok st2 -> Permutation (call st1) (call st2) -> incl (enames st2) (enames st1).
Proof.
  intros [_ Hok] Hp n Hn. unfold enames in Hn. apply in_map_iff in Hn as (e & <- & He).
  destruct (Hok e He) as [Hv _]. apply validate_none in Hv as (_ & Hne & _).
  destruct (e_srcs e) as [|s l] eqn:E; [congruence|].
  assert (In (to_ixn e s) (call st2)) as Hi by (apply in_call; exists e, s; rewrite E; cbn; auto).
  apply (Permutation_in _ (Permutation_sym Hp)) in Hi. apply in_call in Hi as (e' & s' & He' & _ & Ei).
  apply (f_equal i_dname) in Ei. cbn [to_ixn i_dname] in Ei. rewrite Ei. apply in_map. exact He'.
Qed.

Theorem upsert_order_independent st1 st2 ws1 ws2 :
  store_ok st1 -> store_ok st2 -> shadow_free st1 -> shadow_free st2 ->
  Permutation (call st1) (call st2) -> Permutation ws1 ws2 ->
  NoDup (map wkey ws1) -> (forall w, In w ws1 -> s_peer (snd w) = "") ->
  coherent (enames st1 ++ map fst ws1) ->
  let a := upsert_all st1 ws1 in
  let b := upsert_all st2 ws2 in
  store_ok a /\ store_ok b /\ Permutation (call a) (call b) /\
  incl (enames a) (enames st1 ++ map fst ws1) /\ incl (enames b) (enames st1 ++ map fst ws1).
Proof.
  intros H1 H2 S1 S2 Hc Hw Hk Hpe C.
  assert (incl (enames st2 ++ map fst ws2) (enames st1 ++ map fst ws1)) as Hi.
  { intros n Hn. apply in_app_or in Hn as [Hn|Hn]; apply in_or_app.
    - left. apply (enames_of_call st1 st2 H2 Hc). exact Hn.
    - right. eapply Permutation_in; [apply Permutation_map; symmetry; exact Hw|exact Hn]. }
  destruct (upsert_all_call ws1 st1 H1 S1 C Hpe Hk) as (A1 & A2 & A3).
  destruct (upsert_all_call ws2 st2 H2 S2 (coherent_incl _ _ Hi C)) as (B1 & B2 & B3).
  { intros w Hin. apply Hpe. eapply Permutation_in; [symmetry; exact Hw|exact Hin]. }
  { eapply Permutation_NoDup; [apply Permutation_map; exact Hw|exact Hk]. }
  cbn zeta. split; [exact A1|]. split; [exact B1|]. split.
  - rewrite A3, B3. pose proof (perm_filter wv _ _ Hw) as Hv. apply Permutation_app.
    + erewrite filter_ext; [apply perm_filter; exact Hc|].
      intros j. unfold keeps. apply forallb_perm. exact Hv.
    + apply Permutation_map. exact Hv.
  - split; [exact A2|]. intros n Hn. apply Hi. apply B2. exact Hn.
Qed.

(* ---------------------------------------------------------------- any order of whole-entry writes *)


Definition ev (e : entry) : bool := match validate (normalize e) with None => true | Some _ => false end.
Definition ekeeps (es : list entry) (j : ixn) : bool :=
  forallb (fun e => negb (name_eqb (i_dname j) (e_name e))) es.

Lemma ensure_all_call es : forall st,
  store_ok st -> NoDup (map lname es) ->
  let st' := ensure_all st es in
  store_ok st' /\ incl (enames st') (enames st ++ map e_name es) /\
  Permutation (call st') (filter (ekeeps (filter ev es)) (call st)
                          ++ flat_map (fun e => to_ixns (normalize e)) (filter ev es)).
Proof.
  induction es as [|e es IH]; intros st Hst Hk; cbn [ensure_all fold_left].
  - split; [exact Hst|]. split; [intros n Hn; apply in_or_app; left; exact Hn|].
    cbn [filter flat_map]. rewrite app_nil_r. unfold ekeeps. cbn [forallb]. rewrite filter_true_id. reflexivity.
  - fold (ensure_all (snd (ensure st e)) es). inversion Hk as [|? ? Hnotin Hk']; subst.
    cbn [filter].
    destruct (ensure_cases st e) as [[Hv He]|(c & Hv & He)]; rewrite He;
      (assert (ev e = match validate (normalize e) with None => true | Some _ => false end) as -> by reflexivity);
      rewrite Hv; cbn [snd].
    + assert (store_ok (put (normalize e) st)) as Hst1 by (apply store_ok_put; [exact Hst|apply entry_ok_normalize; exact Hv]).
      destruct (IH _ Hst1 Hk') as (Hst2 & Hin2 & Hc2).
      split; [exact Hst2|]. split.
      { intros n Hn. apply Hin2 in Hn. apply in_app_or in Hn as [Hn|Hn].
        - apply enames_put in Hn. apply in_app_or in Hn as [Hn|[<-|[]]]; apply in_or_app; [left; exact Hn|right; left; reflexivity].
        - apply in_or_app. right. right. exact Hn. }
      rewrite Hc2. destruct Hst as [Hnd _]. rewrite (perm_filter _ _ _ (put_call (normalize e) st Hnd)).
      rewrite filter_app, filter_filter. cbn [flat_map normalize e_name].
      assert (filter (ekeeps (filter ev es)) (to_ixns (normalize e)) = to_ixns (normalize e)) as ->.
      { apply filter_all_in. intros j Hj.
        unfold ekeeps. apply forallb_forall. intros a Ha. apply filter_In in Ha as [Ha _].
        rewrite (to_ixns_dname _ _ Hj). cbn [normalize e_name].
        apply negb_true_iff. unfold name_eqb. apply String.eqb_neq. intros E. apply Hnotin.
        unfold lname at 1. rewrite E. apply (in_map lname). exact Ha. }
      rewrite <- app_assoc. reflexivity.
    + destruct (IH _ Hst Hk') as (Hst2 & Hin2 & Hc2).
      split; [exact Hst2|]. split; [|exact Hc2].
      intros n Hn. apply Hin2 in Hn. apply in_app_or in Hn as [Hn|Hn]; apply in_or_app; [left|right; right]; exact Hn.
Qed.

Theorem entries_order_independent st1 st2 es1 es2 :
  store_ok st1 -> store_ok st2 -> Permutation (call st1) (call st2) ->
  Permutation es1 es2 -> NoDup (map lname es1) ->
  let a := ensure_all st1 es1 in
  let b := ensure_all st2 es2 in
  store_ok a /\ store_ok b /\ Permutation (call a) (call b) /\
  incl (enames a) (enames st1 ++ map e_name es1) /\ incl (enames b) (enames st1 ++ map e_name es1).
Proof.
  intros H1 H2 Hc He Hk.
  destruct (ensure_all_call es1 st1 H1 Hk) as (A1 & A2 & A3).
  destruct (ensure_all_call es2 st2 H2) as (B1 & B2 & B3).
  { eapply Permutation_NoDup; [apply Permutation_map; exact He|exact Hk]. }
  cbn zeta. split; [exact A1|]. split; [exact B1|]. split.
  - rewrite A3, B3. pose proof (perm_filter ev _ _ He) as Hv. apply Permutation_app.
    + erewrite filter_ext; [apply perm_filter; exact Hc|].
      intros j. unfold ekeeps. apply forallb_perm. exact Hv.
    + apply Permutation_flat_map. exact Hv.
  - split; [exact A2|]. intros n Hn. apply B2 in Hn. apply in_app_or in Hn as [Hn|Hn]; apply in_or_app.
    + left. apply (enames_of_call st1 st2 H2 Hc). exact Hn.
    + right. eapply Permutation_in; [apply Permutation_map; symmetry; exact He|exact Hn].
Qed.
