(* Executable checkers for the hypotheses of the C13 theorems, with soundness lemmas.  They are used
   for the concrete witnesses / non-vacuity examples, and by Run/C13.v to report how many generated
   cases fall under the theorems' hypotheses. *)
From Coq Require Import Sorting.Permutation.
From Verif Require Import Base.Prelude.
From Verif Require Import Intention.Model.
From Verif Require Import Intention.Spec.
Local Open Scope string_scope.
Local Open Scope list_scope.

Lemma nodupb_sound {A} (eqb : A -> A -> bool) :
  (forall x y, x = y -> eqb x y = true) -> forall l, nodupb eqb l = true -> NoDup l.
Proof.
  intros Heq. induction l as [|x l IH]; cbn [nodupb]; intros H; [constructor|].
  apply andb_true_iff in H as [H1 H2]. constructor; [|apply IH; exact H2].
  intros Hin. apply negb_true_iff in H1.
  assert (existsb (eqb x) l = true); [|congruence].
  apply existsb_exists. exists x. split; [exact Hin|apply Heq; reflexivity].
Qed.

Lemma pair_eqb_refl a b : a = b -> pair_eqb a b = true.
Proof. intros ->. unfold pair_eqb. rewrite !String.eqb_refl. reflexivity. Qed.

Lemma str_eqb_refl (a b : string) : a = b -> String.eqb a b = true.
Proof. intros ->. apply String.eqb_refl. Qed.

(* ---- coherent *)
Lemma coherentb_sound names : coherentb names = true -> coherent names.
Proof.
  unfold coherentb, coherent. intros H a b Ha Hb E.
  rewrite forallb_forall in H. specialize (H a Ha). rewrite forallb_forall in H. specialize (H b Hb).
  rewrite E, String.eqb_refl in H. cbn in H. apply String.eqb_eq. exact H.
Qed.

(* ---- legacy tables *)
Lemma wfb_sound i : wfb i = true -> wf i.
Proof.
  unfold wfb, wf. rewrite !andb_true_iff, N.eqb_eq. intros [[A B] C]. repeat split; try exact C.
  - intros W. rewrite W in A. exact A.
  - intros W. rewrite W in B. exact B.
Qed.

Lemma key4_eqb_sym i j : key4_eqb i j = key4_eqb j i.
Proof.
  unfold key4_eqb.
  rewrite (String.eqb_sym (lower (i_sns i))), (String.eqb_sym (lower (i_sname i))),
          (String.eqb_sym (lower (i_dns i))), (String.eqb_sym (lower (i_dname i))). reflexivity.
Qed.

Lemma key4_nodupb_sound t : key4_nodupb t = true -> key4_unique t.
Proof.
  unfold key4_unique. induction t as [|x t IH]; cbn [key4_nodupb]; intros H i j Hi Hj E; [destruct Hi|].
  apply andb_true_iff in H as [H1 H2]. apply negb_true_iff in H1.
  assert (forall y, In y t -> key4_eqb x y = false) as Hx.
  { intros y Hy. destruct (key4_eqb x y) eqn:K; [|reflexivity].
    assert (existsb (key4_eqb x) t = true) by (apply existsb_exists; eauto). congruence. }
  destruct Hi as [<-|Hi], Hj as [<-|Hj]; try reflexivity.
  - rewrite (Hx j Hj) in E. discriminate.
  - rewrite key4_eqb_sym, (Hx i Hi) in E. discriminate.
  - apply IH; assumption.
Qed.

Lemma legacy_okb_sound t : legacy_okb t = true -> legacy_ok t.
Proof.
  unfold legacy_okb, legacy_ok. intros H. apply andb_true_iff in H as [H1 H2]. split.
  - intros i Hi. rewrite forallb_forall in H1. specialize (H1 i Hi). apply andb_true_iff in H1 as [A B].
    split; [apply wfb_sound; exact A|apply String.eqb_eq; exact B].
  - apply key4_nodupb_sound. exact H2.
Qed.

Lemma fresh_writesb_sound t ws : fresh_writesb t ws = true -> fresh_writes t ws.
Proof.
  unfold fresh_writesb, fresh_writes. rewrite !andb_true_iff. intros [[A B] C]. split; [|split].
  - apply (nodupb_sound String.eqb str_eqb_refl). exact A.
  - intros w Hw. rewrite forallb_forall in B. specialize (B w Hw). apply negb_true_iff in B.
    apply String.eqb_neq. exact B.
  - apply key4_nodupb_sound. exact C.
Qed.

(* ---- config-entry stores *)
Lemma store_okb_sound st : store_okb st = true -> store_ok st.
Proof.
  unfold store_okb, store_ok. intros H. apply andb_true_iff in H as [A B]. split.
  - apply (nodupb_sound String.eqb str_eqb_refl). exact A.
  - intros e He. rewrite forallb_forall in B. specialize (B e He). unfold entry_okb in B.
    apply andb_true_iff in B as [B1 B2]. split.
    + destruct (validate e); [discriminate|reflexivity].
    + intros s Hs. rewrite forallb_forall in B2. specialize (B2 s Hs). apply N.eqb_eq. exact B2.
Qed.

Lemma shadow_freeb_sound st : shadow_freeb st = true -> shadow_free st.
Proof.
  unfold shadow_freeb, shadow_free. intros H e He. rewrite forallb_forall in H.
  apply (nodupb_sound String.eqb str_eqb_refl). apply H. exact He.
Qed.

Lemma wkeys_okb_sound ws :
  wkeys_okb ws = true -> NoDup (map wkey ws) /\ (forall w, In w ws -> s_peer (snd w) = "").
Proof.
  unfold wkeys_okb. intros H. apply andb_true_iff in H as [A B]. split.
  - apply (nodupb_sound pair_eqb pair_eqb_refl). exact A.
  - intros w Hw. rewrite forallb_forall in B. apply String.eqb_eq. apply B. exact Hw.
Qed.
