(* Facts about the comparison of IntentionPrecedenceSorter and about sorting with it:
   the order is total and transitive, ties only between intentions with the same precedence and
   the same (peer, names) key; insertion sort returns THE sorted permutation, so any sorting
   algorithm (Go's sort.Sort) and any order of the input give the same list. *)
From Coq Require Import Sorting.Permutation Sorting.Sorted.
From Verif Require Import Base.Prelude.
From Verif Require Import Intention.Model.

(* ---------------------------------------------------------------- comparisons *)

Section Lex.
  Context {A : Type} (cmp : A -> A -> comparison).
  Hypothesis cmp_refl : forall x, cmp x x = Eq.
  Hypothesis cmp_eq : forall x y, cmp x y = Eq -> x = y.
  Hypothesis cmp_antisym : forall x y, cmp x y = CompOpp (cmp y x).
  Hypothesis cmp_trans : forall x y z, cmp x y = Lt -> cmp y z = Lt -> cmp x z = Lt.

  Lemma lex_refl a : lex cmp a a = Eq.
  Proof. induction a as [|x a IH]; cbn [lex]; [reflexivity|]. rewrite cmp_refl. exact IH. Qed.

  Lemma lex_eq a : forall b, lex cmp a b = Eq -> a = b.
  Proof.
    induction a as [|x a IH]; intros [|y b]; cbn [lex]; try discriminate; [reflexivity|].
    destruct (cmp x y) eqn:E; try discriminate.
    intros H. apply cmp_eq in E. apply IH in H. congruence.
  Qed.

  Lemma lex_antisym a : forall b, lex cmp a b = CompOpp (lex cmp b a).
  Proof.
    induction a as [|x a IH]; intros [|y b]; cbn [lex]; try reflexivity.
    rewrite (cmp_antisym x y). destruct (cmp y x); cbn [CompOpp]; try reflexivity. apply IH.
  Qed.

  Lemma lex_trans a : forall b c, lex cmp a b = Lt -> lex cmp b c = Lt -> lex cmp a c = Lt.
  Proof.
    induction a as [|x a IH]; intros [|y b] [|z c]; cbn [lex]; try discriminate; try reflexivity.
    destruct (cmp x y) eqn:Exy; try discriminate.
    - apply cmp_eq in Exy; subst y.
      destruct (cmp x z) eqn:Exz; try discriminate; try reflexivity. apply IH.
    - intros _. destruct (cmp y z) eqn:Eyz; try discriminate.
      + apply cmp_eq in Eyz; subst z. rewrite Exy. reflexivity.
      + rewrite (cmp_trans _ _ _ Exy Eyz). reflexivity.
  Qed.
End Lex.

Lemma ncmp_refl x : N.compare x x = Eq. Proof. apply N.compare_refl. Qed.
Lemma ncmp_eq x y : N.compare x y = Eq -> x = y. Proof. apply N.compare_eq. Qed.
Lemma ncmp_antisym x y : N.compare x y = CompOpp (N.compare y x). Proof. apply N.compare_antisym. Qed.
Lemma ncmp_trans x y z : N.compare x y = Lt -> N.compare y z = Lt -> N.compare x z = Lt.
Proof. rewrite !N.compare_lt_iff. apply N.lt_trans. Qed.

Lemma bytes_of_string_inj a : forall b, bytes_of_string a = bytes_of_string b -> a = b.
Proof.
  induction a as [|x a IH]; intros [|y b]; cbn [bytes_of_string]; try discriminate; [reflexivity|].
  intros H. injection H as Hx Hr. apply IH in Hr.
  assert (x = y) by (rewrite <- (ascii_N_embedding x), <- (ascii_N_embedding y), Hx; reflexivity).
  congruence.
Qed.

Lemma scmp_refl x : scmp x x = Eq.
Proof. apply lex_refl, ncmp_refl. Qed.
Lemma scmp_eq x y : scmp x y = Eq -> x = y.
Proof. intros H. apply bytes_of_string_inj. exact (lex_eq _ ncmp_eq _ _ H). Qed.
Lemma scmp_antisym x y : scmp x y = CompOpp (scmp y x).
Proof. apply lex_antisym, ncmp_antisym. Qed.
Lemma scmp_trans x y z : scmp x y = Lt -> scmp y z = Lt -> scmp x z = Lt.
Proof. apply (lex_trans _ ncmp_eq ncmp_trans). Qed.

Lemma scmp_empty x : x <> EmptyString -> scmp x EmptyString = Gt.
Proof. destruct x; [congruence|reflexivity]. Qed.

Definition kcmp := lex scmp.
Lemma kcmp_refl x : kcmp x x = Eq. Proof. apply lex_refl, scmp_refl. Qed.
Lemma kcmp_eq x y : kcmp x y = Eq -> x = y. Proof. apply lex_eq, scmp_eq. Qed.
Lemma kcmp_antisym x y : kcmp x y = CompOpp (kcmp y x). Proof. apply lex_antisym, scmp_antisym. Qed.
Lemma kcmp_trans x y z : kcmp x y = Lt -> kcmp y z = Lt -> kcmp x z = Lt.
Proof. apply (lex_trans _ scmp_eq scmp_trans). Qed.

(* ---------------------------------------------------------------- the intention order *)

Lemma icmp_refl i : icmp i i = Eq.
Proof. unfold icmp. rewrite N.compare_refl. apply kcmp_refl. Qed.

Lemma icmp_eq i j : icmp i j = Eq -> i_prec i = i_prec j /\ key5 i = key5 j.
Proof.
  unfold icmp. destruct (N.compare (i_prec j) (i_prec i)) eqn:E; try discriminate.
  intros H. apply N.compare_eq in E. apply kcmp_eq in H. split; congruence.
Qed.

Lemma icmp_antisym i j : icmp i j = CompOpp (icmp j i).
Proof.
  unfold icmp. rewrite (N.compare_antisym (i_prec j) (i_prec i)).
  destruct (N.compare (i_prec j) (i_prec i)); cbn [CompOpp]; try reflexivity.
  apply kcmp_antisym.
Qed.

Lemma icmp_trans i j k : icmp i j = Lt -> icmp j k = Lt -> icmp i k = Lt.
Proof.
  unfold icmp.
  destruct (N.compare (i_prec j) (i_prec i)) eqn:E1; try discriminate;
  destruct (N.compare (i_prec k) (i_prec j)) eqn:E2; try discriminate; intros H1 H2.
  - apply N.compare_eq in E1. apply N.compare_eq in E2.
    replace (i_prec k) with (i_prec i) by congruence. rewrite N.compare_refl.
    exact (kcmp_trans _ _ _ H1 H2).
  - apply N.compare_eq in E1. rewrite <- E1, E2. reflexivity.
  - apply N.compare_eq in E2. rewrite E2, E1. reflexivity.
  - rewrite (ncmp_trans _ _ _ E2 E1). reflexivity.
Qed.

Lemma icmp_eq_congr i j k : icmp i j = Eq -> icmp i k = icmp j k.
Proof. intros H. apply icmp_eq in H as [Hp Hk]. unfold icmp. rewrite Hp, Hk. reflexivity. Qed.

Lemma ileb_total i j : ileb i j = true \/ ileb j i = true.
Proof. unfold ileb. rewrite (icmp_antisym j i). destruct (icmp i j); cbn; auto. Qed.

Lemma ileb_refl i : ileb i i = true.
Proof. unfold ileb. rewrite icmp_refl. reflexivity. Qed.

Lemma ileb_trans i j k : ileb i j = true -> ileb j k = true -> ileb i k = true.
Proof.
  unfold ileb. destruct (icmp i j) eqn:E1; try discriminate; intros _;
  destruct (icmp j k) eqn:E2; try discriminate; intros _.
  - rewrite (icmp_eq_congr _ _ _ E1), E2. reflexivity.
  - rewrite (icmp_eq_congr _ _ _ E1), E2. reflexivity.
  - assert (icmp k i = Gt) as H.
    { rewrite (icmp_antisym j k) in E2. destruct (icmp k j) eqn:E3; try discriminate.
      rewrite (icmp_eq_congr _ _ _ E3). rewrite (icmp_antisym j i), E1. reflexivity. }
    rewrite (icmp_antisym i k), H. reflexivity.
  - rewrite (icmp_trans _ _ _ E1 E2). reflexivity.
Qed.

Lemma ileb_antisym i j : ileb i j = true -> ileb j i = true -> i_prec i = i_prec j /\ key5 i = key5 j.
Proof.
  unfold ileb. rewrite (icmp_antisym j i). destruct (icmp i j) eqn:E; cbn; try discriminate.
  intros _ _. apply icmp_eq; assumption.
Qed.

Lemma ileb_prec i j : ileb i j = true -> (i_prec j <= i_prec i)%N.
Proof.
  unfold ileb, icmp. destruct (N.compare (i_prec j) (i_prec i)) eqn:E; try discriminate; intros _.
  - apply N.compare_eq in E. lia.
  - rewrite N.compare_lt_iff in E. lia.
Qed.

(* same precedence: a local intention sorts before a peered one with the same names *)
Lemma ileb_peer_first i j :
  i_prec i = i_prec j -> i_peer i <> EmptyString -> i_peer j = EmptyString -> ileb i j = false.
Proof.
  intros Hp Hi Hj. unfold ileb, icmp. rewrite Hp, N.compare_refl.
  unfold key5. rewrite Hj. cbn [lex]. rewrite (scmp_empty _ Hi). reflexivity.
Qed.

(* ---------------------------------------------------------------- sorting *)

Section Sort.
  Context {A : Type} (leb : A -> A -> bool).
  Hypothesis leb_total : forall x y, leb x y = true \/ leb y x = true.
  Hypothesis leb_trans : forall x y z, leb x y = true -> leb y z = true -> leb x z = true.

  Let R x y := leb x y = true.

  Lemma insert_perm x l : Permutation (insert leb x l) (x :: l).
  Proof.
    induction l as [|y l IH]; cbn [insert]; [reflexivity|].
    destruct (leb x y); [reflexivity|].
    rewrite IH. apply perm_swap.
  Qed.

  Lemma isort_perm l : Permutation (isort leb l) l.
  Proof.
    induction l as [|x l IH]; cbn [isort fold_right]; [reflexivity|].
    fold (isort leb l). rewrite insert_perm. constructor. exact IH.
  Qed.

  Lemma insert_sorted x l : StronglySorted R l -> StronglySorted R (insert leb x l).
  Proof.
    induction l as [|y l IH]; cbn [insert]; intros Hs.
    - constructor; constructor.
    - inversion Hs as [|? ? Hs' Hf]; subst.
      destruct (leb x y) eqn:E.
      + constructor; [exact Hs|]. constructor; [exact E|].
        rewrite Forall_forall in *. intros z Hz. eapply leb_trans; [exact E|]. apply Hf; exact Hz.
      + constructor; [apply IH; exact Hs'|].
        rewrite Forall_forall in *. intros z Hz.
        apply (Permutation_in _ (insert_perm x l)) in Hz. destruct Hz as [<-|Hz].
        * destruct (leb_total x y) as [H|H]; [congruence|exact H].
        * apply Hf; exact Hz.
  Qed.

  Lemma isort_sorted l : StronglySorted R (isort leb l).
  Proof.
    induction l as [|x l IH]; cbn [isort fold_right]; [constructor|].
    apply insert_sorted. exact IH.
  Qed.

  (* the first element of a sorted list that satisfies P is below every other one that does *)
  Lemma find_sorted_first (P : A -> bool) l i :
    StronglySorted R l -> find P l = Some i ->
    In i l /\ P i = true /\ forall j, In j l -> P j = true -> leb i j = true.
  Proof.
    induction l as [|y l IH]; cbn [find]; [discriminate|].
    intros Hs. inversion Hs as [|? ? Hs' Hf]; subst.
    destruct (P y) eqn:E.
    - intros [= <-]. split; [left; reflexivity|]. split; [exact E|].
      intros j [<-|Hj] _.
      + destruct (leb_total y y); assumption.
      + rewrite Forall_forall in Hf. apply Hf; exact Hj.
    - intros H. destruct (IH Hs' H) as (Hi & HP & Hall). split; [right; exact Hi|]. split; [exact HP|].
      intros j [<-|Hj] Pj; [congruence|]. apply Hall; assumption.
  Qed.

  Lemma find_none (P : A -> bool) l : find P l = None -> forall j, In j l -> P j = false.
  Proof.
    induction l as [|y l IH]; cbn [find]; intros H j Hj; [destruct Hj|].
    destruct (P y) eqn:E; [discriminate|]. destruct Hj as [<-|Hj]; [exact E|]. apply IH; assumption.
  Qed.

  Lemma insert_comm l : forall x y,
    (leb x y = true -> leb y x = true -> x = y) ->
    insert leb x (insert leb y l) = insert leb y (insert leb x l).
  Proof.
    induction l as [|z l IH]; intros x y Hxy; cbn [insert].
    - destruct (leb x y) eqn:E1, (leb y x) eqn:E2; try reflexivity.
      + rewrite (Hxy eq_refl eq_refl). reflexivity.
      + destruct (leb_total x y); congruence.
    - destruct (leb y z) eqn:Eyz, (leb x z) eqn:Exz; cbn [insert]; rewrite ?Eyz, ?Exz.
      + destruct (leb x y) eqn:E1, (leb y x) eqn:E2; try reflexivity.
        * rewrite (Hxy eq_refl eq_refl). reflexivity.
        * destruct (leb_total x y); congruence.
      + destruct (leb x y) eqn:E1; [|reflexivity].
        rewrite (leb_trans _ _ _ E1 Eyz) in Exz. discriminate.
      + destruct (leb y x) eqn:E2; [|reflexivity].
        rewrite (leb_trans _ _ _ E2 Exz) in Eyz. discriminate.
      + rewrite (IH x y Hxy). reflexivity.
  Qed.

  (* any two orders of the same elements sort to the same list, provided ties are equalities *)
  Lemma isort_perm_eq l1 l2 :
    Permutation l1 l2 ->
    (forall x y, In x l1 -> In y l1 -> leb x y = true -> leb y x = true -> x = y) ->
    isort leb l1 = isort leb l2.
  Proof.
    induction 1 as [|x l l' Hp IH|x y l|l l' l'' Hp1 IH1 Hp2 IH2]; intros Hanti.
    - reflexivity.
    - cbn [isort fold_right]. fold (isort leb l) (isort leb l'). rewrite IH; [reflexivity|].
      intros a b Ha Hb. apply Hanti; right; assumption.
    - cbn [isort fold_right]. fold (isort leb l). apply insert_comm.
      apply Hanti; [left; reflexivity|right; left; reflexivity].
    - rewrite IH1 by exact Hanti. apply IH2.
      intros a b Ha Hb. apply Hanti; eapply Permutation_in; try (symmetry; exact Hp1); assumption.
  Qed.

  (* a sorted list is a fixpoint of the sort when ties are equalities *)
  Lemma isort_sorted_id l :
    StronglySorted R l -> isort leb l = l.
  Proof.
    induction l as [|x l IH]; intros Hs; [reflexivity|].
    inversion Hs as [|? ? Hs' Hf]; subst.
    cbn [isort fold_right]. fold (isort leb l). rewrite (IH Hs').
    destruct l as [|y l]; [reflexivity|]. cbn [insert].
    rewrite Forall_forall in Hf. rewrite (Hf y (or_introl eq_refl)). reflexivity.
  Qed.
End Sort.

Definition isorted (l : list ixn) : Prop := StronglySorted (fun a b => ileb a b = true) l.

Lemma sort_ixns_sorted l : isorted (sort_ixns l).
Proof. apply isort_sorted; [exact ileb_total|exact ileb_trans]. Qed.

Lemma sort_ixns_perm l : Permutation (sort_ixns l) l.
Proof. apply isort_perm. Qed.

Lemma sort_ixns_in l i : In i (sort_ixns l) <-> In i l.
Proof.
  split; apply Permutation_in; [apply sort_ixns_perm|symmetry; apply sort_ixns_perm].
Qed.

Lemma sort_ixns_perm_eq l1 l2 :
  Permutation l1 l2 ->
  (forall x y, In x l1 -> In y l1 -> key5 x = key5 y -> x = y) ->
  sort_ixns l1 = sort_ixns l2.
Proof.
  intros Hp Hk. apply (isort_perm_eq ileb ileb_total ileb_trans _ _ Hp).
  intros x y Hx Hy H1 H2. apply Hk; try assumption. apply (ileb_antisym _ _ H1 H2).
Qed.
