(* C19 — one replication round makes a secondary datacenter equal to the primary.
   Theorems only; each is closed by an application of a lemma of Repl/*.v.

   Vocabulary (Repl/Model.v, Repl/WalkProofs.v, Repl/RoundProofs.v):
     diff last local remote      sort both lists, merge-walk (diffACLType / diffConfigEntries /
                                 FederationStateReplicator.DiffRemoteAndLocalState)
     apply_round stamp d st      deletions, then upserts, of the writes really issued
     view st                     what FetchLocal lists (no tokens of local scope)
     repl l                      the objects replication is responsible for: usable id, a kind the
                                 apply step writes, not local-scoped
     untouchable x               everything else
     content l                   the (id, content) pairs of l
     consistent last L R         whatever the primary has not modified after [last] is already in
                                 the secondary with the primary's content
     hash_sound L R              equal hashes => equal content
     hash_complete last L R      equal content is recognised (hash test, or not newer than [last]) *)
From Verif Require Import Base.Prelude.
From Verif Require Import Repl.Model.
From Verif Require Import Repl.Proofs.
From Coq Require Import Sorting.Permutation.

Section C19.
  Context {K H : Type}.
  Variable keqb : K -> K -> bool.        (* id equality *)
  Variable kltb : K -> K -> bool.        (* id order used by the sort and the walk *)
  Variable is_empty : K -> bool.         (* ids the walk skips *)
  Variable same_hash : H -> H -> bool.   (* the content-hash test *)
  Variable applies : K -> bool.          (* ids the apply step writes *)
  (* the id order is a decidable strict total order (proved for the three instances below) *)
  Hypothesis keqb_spec : forall a b, keqb a b = true <-> a = b.
  Hypothesis kltb_irrefl : forall a, kltb a a = false.
  Hypothesis kltb_trans : forall a b c, kltb a b = true -> kltb b c = true -> kltb a c = true.
  Hypothesis kltb_total : forall a b, keqb a b = false -> kltb a b = false -> kltb b a = true.

  Notation live := (live is_empty).
  Notation diff := (diff keqb kltb is_empty same_hash).
  Notation apply_round := (apply_round keqb applies).
  Notation repl := (repl is_empty applies).

  (* The sorted merge walk (with the sort the code performs) equals the set-based specification, for
     lists of any length given in any order: deletions = live local objects whose id no live remote
     object has; upserts = live remote objects that are new, or newer than [last] with another hash;
     both in id order; objects with an empty id are only counted. *)
  Theorem C19_walk_is_set_difference : forall last local remote,
    NoDup (ids (filter live local)) -> NoDup (ids (filter live remote)) ->
    diff last local remote =
      DiffRes (spec_del keqb (filter live (isort kltb local)) (filter live remote))
              (spec_ups keqb same_hash last (filter live local) (filter live (isort kltb remote)))
              (nempty is_empty local) (nempty is_empty remote).
  Proof. exact (walk_is_set_difference keqb kltb is_empty same_hash keqb_spec kltb_irrefl kltb_trans kltb_total). Qed.

  (* With no hypothesis at all (duplicates, any order): the diff names only live objects of its inputs,
     and counts exactly the objects with an empty id. *)
  Theorem C19_diff_names_inputs_only : forall last local remote,
    (forall x, In x (d_del (diff last local remote)) -> In x local /\ live x = true) /\
    (forall y, In y (d_ups (diff last local remote)) -> In y remote /\ live y = true) /\
    d_lskip (diff last local remote) = nempty is_empty local /\
    d_rskip (diff last local remote) = nempty is_empty remote.
  Proof.
    intros last local remote.
    destruct (diff_sub keqb kltb is_empty same_hash last local remote) as [Hd Hu].
    destruct (diff_skips keqb kltb is_empty same_hash last local remote) as [Hl Hr].
    exact (conj Hd (conj Hu (conj Hl Hr))).
  Qed.

  (* One round: applying the deletions and then the upserts of the computed diff makes the
     replicated set of the secondary equal to the primary's. *)
  Theorem C19_round : forall stamp last remote st,
    NoDup (ids (filter live st)) -> NoDup (ids (filter live remote)) -> all_global remote ->
    consistent last (repl st) remote -> hash_sound same_hash (repl st) remote ->
    Permutation (content (repl (apply_round stamp (diff last (view st) remote) st)))
                (content (repl remote)).
  Proof. exact (round_permutation keqb kltb is_empty same_hash applies keqb_spec kltb_irrefl kltb_trans kltb_total). Qed.

  (* ... and the table keeps unique ids, so the next round's hypotheses hold again *)
  Theorem C19_round_keeps_unique_ids : forall stamp (d : @diffres K H) (st : list (@item K H)),
    NoDup (ids (filter live st)) -> NoDup (ids (filter live (apply_round stamp d st))).
  Proof. intros; eapply nodup_apply_round; eassumption. Qed.

  (* Objects outside replication (local-scoped tokens, empty ids, kinds the apply step does not
     write) are left exactly as they were: same objects, same order. *)
  Theorem C19_local_untouched : forall stamp last remote st,
    NoDup (ids (filter live st)) -> all_global remote ->
    (forall x, In x st -> it_local x = true -> live x = true -> ~ In (it_id x) (ids (filter live remote))) ->
    filter (untouchable is_empty applies) (apply_round stamp (diff last (view st) remote) st) =
    filter (untouchable is_empty applies) st.
  Proof. exact (local_untouched keqb kltb is_empty same_hash applies keqb_spec). Qed.

  (* A secondary that is already equal produces no writes. *)
  Theorem C19_idempotent : forall last remote st,
    NoDup (ids (filter live st)) -> NoDup (ids (filter live remote)) -> all_global remote ->
    (forall kb, In kb (content (repl st)) <-> In kb (content (repl remote))) ->
    hash_complete same_hash last (repl st) remote ->
    issued applies (d_del (diff last (view st) remote)) = [] /\
    issued applies (d_ups (diff last (view st) remote)) = [].
  Proof. exact (idempotent keqb kltb is_empty same_hash applies keqb_spec kltb_irrefl kltb_trans kltb_total). Qed.

  (* replicateACLType fetches the objects to upsert by id: that is the same round *)
  Theorem C19_fetch_by_id_is_same_round : forall stamp ri last remote st,
    NoDup (ids (filter live st)) -> NoDup (ids (filter live remote)) ->
    acl_round keqb kltb is_empty same_hash applies stamp ri last remote st =
    round keqb kltb is_empty same_hash applies stamp ri last remote st.
  Proof. exact (acl_round_is_round keqb kltb is_empty same_hash applies keqb_spec kltb_irrefl kltb_trans kltb_total). Qed.
  (* ---- across rounds.  [evolves_above ri R R']: R' is a later snapshot of the primary than R (taken at
     index ri): whatever R' has not modified after ri is in R unchanged. ---- *)

  (* What a round leaves is what the next round may assume: the premise "last is consistent with what the
     secondary has applied" is PRODUCED by a round for the index it returns. *)
  Theorem C19_round_reestablishes_consistent : forall stamp ri last remote st R',
    NoDup (ids (filter live st)) -> NoDup (ids (filter live remote)) -> all_global remote ->
    consistent last (repl st) remote -> hash_sound same_hash (repl st) remote ->
    evolves_above ri remote R' ->
    consistent ri (repl (apply_round stamp (diff last (view st) remote) st)) R'.
  Proof. exact (round_reestablishes_consistent keqb kltb is_empty same_hash applies keqb_spec kltb_irrefl kltb_trans kltb_total). Qed.

  (* Two rounds, the second with last := the returned index: converges to the later snapshot, with no
     assumption about that index. *)
  Theorem C19_two_rounds : forall stamp stamp' ri last remote st R',
    NoDup (ids (filter live st)) -> NoDup (ids (filter live remote)) -> all_global remote ->
    consistent last (repl st) remote -> hash_sound same_hash (repl st) remote ->
    evolves_above ri remote R' -> NoDup (ids (filter live R')) -> all_global R' ->
    hash_sound same_hash (repl (apply_round stamp (diff last (view st) remote) st)) R' ->
    Permutation (content (repl (apply_round stamp' (diff ri (view (apply_round stamp (diff last (view st) remote) st)) R')
                                  (apply_round stamp (diff last (view st) remote) st))))
                (content (repl R')).
  Proof. exact (two_rounds keqb kltb is_empty same_hash applies keqb_spec kltb_irrefl kltb_trans kltb_total). Qed.

  (* The round after a round, on the unchanged primary, issues no write at all -- whatever the hash test
     (zero hashes, no hash test): the returned index is at or above every modify index of the snapshot. *)
  Theorem C19_second_round_silent : forall stamp ri last remote st,
    NoDup (ids (filter live st)) -> NoDup (ids (filter live remote)) -> all_global remote ->
    consistent last (repl st) remote -> hash_sound same_hash (repl st) remote ->
    (forall y, In y remote -> (it_mod y <= ri)%N) ->
    issued applies (d_del (diff ri (view (apply_round stamp (diff last (view st) remote) st)) remote)) = [] /\
    issued applies (d_ups (diff ri (view (apply_round stamp (diff last (view st) remote) st)) remote)) = [].
  Proof. exact (second_round_silent keqb kltb is_empty same_hash applies keqb_spec kltb_irrefl kltb_trans kltb_total). Qed.

  (* ---- "once applied": the writes must be accepted by the state store.  [acl_round_store] is the round
     with the unique-name rule of policies and roles ([name_of content]); its boolean is "no write refused". ---- *)
  Variable name_of : N -> option N.

  Theorem C19_store_round_accepted : forall stamp ri last remote st st',
    acl_round_store keqb kltb is_empty same_hash applies name_of stamp ri last remote st = (st', true) ->
    st' = acl_round keqb kltb is_empty same_hash applies stamp ri last remote st.
  Proof. exact (store_round_accepted keqb kltb is_empty same_hash applies name_of). Qed.

  Theorem C19_store_round_refused : forall stamp ri last remote st st',
    acl_round_store keqb kltb is_empty same_hash applies name_of stamp ri last remote st = (st', false) ->
    st' = delete_all keqb (issued applies (d_del (diff (effective_last ri last) (view st) remote))) st.
  Proof. exact (store_round_refused keqb kltb is_empty same_hash applies name_of). Qed.

  (* a condition readable off the two tables under which every write is accepted *)
  Theorem C19_accepted_when_names_free : forall stamp (us st : list (@item K H)),
    name_free name_of us st -> names_distinct name_of us ->
    upsert_batch keqb name_of stamp us st = Some (upsert_all keqb stamp us st).
  Proof. exact (accepted_when_names_free keqb keqb_spec name_of). Qed.

  (* ---- two snapshots of the primary: harmless when the batch read agrees with the list on the upserts ---- *)
  Theorem C19_two_snapshots_partial : forall stamp ri last remote batch st,
    fetch_updated keqb (ids (d_ups (diff (effective_last ri last) (view st) remote))) (isort kltb batch) =
    fetch_updated keqb (ids (d_ups (diff (effective_last ri last) (view st) remote))) (isort kltb remote) ->
    acl_round_two keqb kltb is_empty same_hash applies stamp ri last remote batch st =
    acl_round keqb kltb is_empty same_hash applies stamp ri last remote st.
  Proof. exact (two_snapshots_agree keqb kltb is_empty same_hash applies). Qed.
End C19.

(* ---- the three instances: the order laws hold, so the theorems apply to the functions as run ---- *)

(* Go strings (ids, datacenter names) and (kind, name) pairs are strict total orders *)
Theorem C19_string_order_laws :
  (forall a b, bytes_eqb a b = true <-> a = b) /\ (forall a, bytes_ltb a a = false) /\
  (forall a b c, bytes_ltb a b = true -> bytes_ltb b c = true -> bytes_ltb a c = true) /\
  (forall a b, bytes_eqb a b = false -> bytes_ltb a b = false -> bytes_ltb b a = true).
Proof. exact (conj bytes_eqb_eq (conj bytes_ltb_irrefl (conj (fun a => bytes_ltb_trans a) bytes_ltb_total))). Qed.

Theorem C19_kind_name_order_laws :
  (forall a b, cfg_eqb a b = true <-> a = b) /\ (forall a, cfg_ltb a a = false) /\
  (forall a b c, cfg_ltb a b = true -> cfg_ltb b c = true -> cfg_ltb a c = true) /\
  (forall a b, cfg_eqb a b = false -> cfg_ltb a b = false -> cfg_ltb b a = true).
Proof. exact (conj cfg_eqb_spec (conj cfg_ltb_irrefl (conj cfg_ltb_trans cfg_ltb_total))). Qed.

(* ACL tokens / policies / roles, the whole round of replicateACLType
   (index reset when the primary's index went backwards, diff, fetch by id, deletions, upserts) *)
Theorem C19_round_acl : forall stamp ri last (remote st : list acl_item),
  NoDup (ids (filter acl_live st)) -> NoDup (ids (filter acl_live remote)) -> all_global remote ->
  consistent (effective_last ri last) (acl_repl st) remote -> acl_hash_sound (acl_repl st) remote ->
  Permutation (content (acl_repl (acl_round_m stamp ri last remote st))) (content (acl_repl remote)).
Proof. exact acl_round_converges. Qed.

Theorem C19_full_sync_acl : forall stamp ri last (remote st : list acl_item),
  (ri < last)%N -> (forall y, In y remote -> (0 < it_mod y)%N) ->
  NoDup (ids (filter acl_live st)) -> NoDup (ids (filter acl_live remote)) -> all_global remote ->
  acl_hash_sound (acl_repl st) remote ->
  Permutation (content (acl_repl (acl_round_m stamp ri last remote st))) (content (acl_repl remote)).
Proof. exact acl_full_sync. Qed.

Theorem C19_local_untouched_acl : forall stamp ri last (remote st : list acl_item),
  NoDup (ids (filter acl_live st)) -> NoDup (ids (filter acl_live remote)) -> all_global remote ->
  (forall x, In x st -> it_local x = true -> acl_live x = true -> ~ In (it_id x) (ids (filter acl_live remote))) ->
  filter acl_untouchable (acl_round_m stamp ri last remote st) = filter acl_untouchable st.
Proof. exact acl_local_untouched. Qed.

Theorem C19_idempotent_acl : forall last (remote st : list acl_item),
  NoDup (ids (filter acl_live st)) -> NoDup (ids (filter acl_live remote)) -> all_global remote ->
  hash_functional (acl_repl st) remote ->
  Permutation (content (acl_repl st)) (content (acl_repl remote)) ->
  acl_issued (d_del (acl_diff last (view st) remote)) = [] /\
  acl_issued (d_ups (acl_diff last (view st) remote)) = [].
Proof. exact acl_idempotent. Qed.

(* config entries, the whole round of replicateConfig *)
Theorem C19_round_config : forall stamp ri last (remote st : list cfg_item),
  NoDup (ids st) -> NoDup (ids remote) -> all_global remote ->
  consistent (effective_last ri last) (cfg_repl st) remote -> cfg_hash_sound (cfg_repl st) remote ->
  Permutation (content (cfg_repl (cfg_round_m stamp ri last remote st))) (content (cfg_repl remote)).
Proof. exact cfg_round_converges. Qed.

Theorem C19_full_sync_config : forall stamp ri last (remote st : list cfg_item),
  (ri < last)%N -> (forall y, In y remote -> (0 < it_mod y)%N) ->
  NoDup (ids st) -> NoDup (ids remote) -> all_global remote -> cfg_hash_sound (cfg_repl st) remote ->
  Permutation (content (cfg_repl (cfg_round_m stamp ri last remote st))) (content (cfg_repl remote)).
Proof. exact cfg_full_sync. Qed.

Theorem C19_local_untouched_config : forall stamp ri last (remote st : list cfg_item),
  NoDup (ids st) -> all_global remote ->
  (forall x, In x st -> it_local x = true -> ~ In (it_id x) (ids remote)) ->
  filter cfg_untouchable (cfg_round_m stamp ri last remote st) = filter cfg_untouchable st.
Proof. exact cfg_local_untouched. Qed.

(* "already equal => no writes" is FALSE for config entries as stated: configentry.SameHash never
   holds for a zero hash (an entry stored before hashes existed) ... *)
Theorem C19_idempotent_config_refuted :
  exists last (remote st : list cfg_item),
    NoDup (ids st) /\ NoDup (ids remote) /\ all_global remote /\ hash_functional (cfg_repl st) remote /\
    Permutation (content (cfg_repl st)) (content (cfg_repl remote)) /\
    cfg_issued (d_ups (cfg_diff last (view st) remote)) <> [].
Proof. exact cfg_idempotent_refuted. Qed.

(* ... and holds exactly when every pair carries usable hashes or is not newer than [last] *)
Theorem C19_idempotent_config_partial : forall last (remote st : list cfg_item),
  NoDup (ids st) -> NoDup (ids remote) -> all_global remote ->
  hash_functional (cfg_repl st) remote ->
  (forall x y, In x (cfg_repl st) -> In y remote -> it_id x = it_id y ->
     (it_hash x <> 0%N /\ it_hash y <> 0%N) \/ (it_mod y <= last)%N) ->
  Permutation (content (cfg_repl st)) (content (cfg_repl remote)) ->
  cfg_issued (d_del (cfg_diff last (view st) remote)) = [] /\
  cfg_issued (d_ups (cfg_diff last (view st) remote)) = [].
Proof. exact cfg_idempotent_partial. Qed.

(* federation states (third instance of the walk; outside the wording of the property) *)
Theorem C19_round_fed : forall stamp ri last (remote st : list fed_item),
  NoDup (ids st) -> NoDup (ids remote) -> all_global remote ->
  consistent (effective_last ri last) (fed_repl st) remote ->
  Permutation (content (fed_repl (fed_round_m stamp ri last remote st))) (content (fed_repl remote)).
Proof. exact fed_round_converges. Qed.

Theorem C19_idempotent_fed_refuted :
  exists last (remote st : list fed_item),
    NoDup (ids st) /\ NoDup (ids remote) /\ all_global remote /\
    Permutation (content (fed_repl st)) (content (fed_repl remote)) /\
    fed_issued (d_ups (fed_diff last (view st) remote)) <> [].
Proof. exact fed_idempotent_refuted. Qed.

Theorem C19_idempotent_fed_partial : forall last (remote st : list fed_item),
  NoDup (ids st) -> NoDup (ids remote) -> all_global remote ->
  (forall y, In y remote -> (it_mod y <= last)%N) ->
  Permutation (content (fed_repl st)) (content (fed_repl remote)) ->
  fed_issued (d_del (fed_diff last (view st) remote)) = [] /\
  fed_issued (d_ups (fed_diff last (view st) remote)) = [].
Proof. exact fed_idempotent_partial. Qed.

(* ---- across rounds, the functions as run ---- *)
Theorem C19_two_rounds_acl : forall stamp stamp' ri ri' last (remote R' st : list acl_item),
  NoDup (ids (filter acl_live st)) -> NoDup (ids (filter acl_live remote)) -> all_global remote ->
  consistent (effective_last ri last) (acl_repl st) remote -> acl_hash_sound (acl_repl st) remote ->
  (ri <= ri')%N -> evolves_above ri remote R' ->
  NoDup (ids (filter acl_live R')) -> all_global R' ->
  acl_hash_sound (acl_repl (acl_round_m stamp ri last remote st)) R' ->
  Permutation (content (acl_repl (acl_round_m stamp' ri' ri R' (acl_round_m stamp ri last remote st))))
              (content (acl_repl R')).
Proof. exact acl_two_rounds. Qed.

Theorem C19_two_rounds_config : forall stamp stamp' ri ri' last (remote R' st : list cfg_item),
  NoDup (ids st) -> NoDup (ids remote) -> all_global remote ->
  consistent (effective_last ri last) (cfg_repl st) remote -> cfg_hash_sound (cfg_repl st) remote ->
  (ri <= ri')%N -> evolves_above ri remote R' -> NoDup (ids R') -> all_global R' ->
  cfg_hash_sound (cfg_repl (cfg_round_m stamp ri last remote st)) R' ->
  Permutation (content (cfg_repl (cfg_round_m stamp' ri' ri R' (cfg_round_m stamp ri last remote st))))
              (content (cfg_repl R')).
Proof. exact cfg_two_rounds. Qed.

Theorem C19_second_round_silent_acl : forall stamp ri last (remote st : list acl_item),
  NoDup (ids (filter acl_live st)) -> NoDup (ids (filter acl_live remote)) -> all_global remote ->
  consistent (effective_last ri last) (acl_repl st) remote -> acl_hash_sound (acl_repl st) remote ->
  (forall y, In y remote -> (it_mod y <= ri)%N) ->
  acl_issued (d_del (acl_diff ri (view (acl_round_m stamp ri last remote st)) remote)) = [] /\
  acl_issued (d_ups (acl_diff ri (view (acl_round_m stamp ri last remote st)) remote)) = [].
Proof. exact acl_second_round_silent. Qed.

(* in particular the zero-hash rewrite of C19_idempotent_config_refuted does not recur in steady state *)
Theorem C19_second_round_silent_config : forall stamp ri last (remote st : list cfg_item),
  NoDup (ids st) -> NoDup (ids remote) -> all_global remote ->
  consistent (effective_last ri last) (cfg_repl st) remote -> cfg_hash_sound (cfg_repl st) remote ->
  (forall y, In y remote -> (it_mod y <= ri)%N) ->
  cfg_issued (d_del (cfg_diff ri (view (cfg_round_m stamp ri last remote st)) remote)) = [] /\
  cfg_issued (d_ups (cfg_diff ri (view (cfg_round_m stamp ri last remote st)) remote)) = [].
Proof. exact cfg_second_round_silent. Qed.

Theorem C19_second_round_silent_fed : forall stamp ri last (remote st : list fed_item),
  NoDup (ids st) -> NoDup (ids remote) -> all_global remote ->
  consistent (effective_last ri last) (fed_repl st) remote ->
  (forall y, In y remote -> (it_mod y <= ri)%N) ->
  fed_issued (d_del (fed_diff ri (view (fed_round_m stamp ri last remote st)) remote)) = [] /\
  fed_issued (d_ups (fed_diff ri (view (fed_round_m stamp ri last remote st)) remote)) = [].
Proof. exact fed_second_round_silent. Qed.

(* ---- "once applied" is FALSE of the code for policies and roles: every hypothesis of C19_round_acl holds,
   the idealised round converges, but the state store refuses the batch (two names swapped at the primary),
   the table is left as it was, and every retry fails the same way (known finding C19-name-swap-stuck) ... *)
Theorem C19_round_store_refuted :
  NoDup (ids (filter acl_live swap_st)) /\ NoDup (ids (filter acl_live swap_remote)) /\ all_global swap_remote /\
  consistent (effective_last 10 5) (acl_repl swap_st) swap_remote /\ acl_hash_sound (acl_repl swap_st) swap_remote /\
  acl_round_store_m 0 10 5 swap_remote swap_st = (swap_st, false) /\
  acl_round_store_m 0 10 0 swap_remote swap_st = (swap_st, false) /\
  content (acl_repl (acl_round_m 0 10 5 swap_remote swap_st)) = content (acl_repl swap_remote) /\
  content (acl_repl swap_st) <> content (acl_repl swap_remote).
Proof. exact store_refuses_name_swap. Qed.

(* ... and holds whenever no write is refused *)
Theorem C19_round_store_partial : forall stamp ri last (remote st st' : list acl_item),
  acl_round_store_m stamp ri last remote st = (st', true) ->
  NoDup (ids (filter acl_live st)) -> NoDup (ids (filter acl_live remote)) -> all_global remote ->
  consistent (effective_last ri last) (acl_repl st) remote -> acl_hash_sound (acl_repl st) remote ->
  Permutation (content (acl_repl st')) (content (acl_repl remote)).
Proof. intros stamp ri last remote st st' Hok. rewrite (acl_store_round_accepted _ _ _ _ _ _ Hok). apply acl_round_converges. Qed.

(* ---- one snapshot per round is needed, and tokens do not check it: the batch read answered from an older
   snapshot than the list makes the secondary keep the old content for good (known finding
   C19-token-stale-batch) ---- *)
Theorem C19_two_snapshots_refuted :
  NoDup (ids (filter acl_live stale_st)) /\ NoDup (ids (filter acl_live stale_list)) /\ all_global stale_list /\
  consistent (effective_last 12 6) (acl_repl stale_st) stale_list /\ acl_hash_sound (acl_repl stale_st) stale_list /\
  (forall y, In y stale_list -> (it_mod y <= 12)%N) /\
  let st1 := acl_round_two_m 0 12 6 stale_list stale_batch stale_st in
  let st2 := acl_round_m 0 12 12 stale_list st1 in
  content (acl_repl st2) = [([1]%N, 1%N)] /\ content (acl_repl stale_list) = [([1]%N, 2%N)].
Proof. exact stale_batch_read_sticks. Qed.

(* ---- more non-vacuity: non-empty instances of the hypotheses of C19_idempotent_acl, C19_round_config +
   C19_local_untouched_config + C19_idempotent_config_partial, C19_full_sync_acl, C19_round_fed ---- *)
Example C19_example_idempotent_acl :
  NoDup (ids (filter acl_live eq_st)) /\ NoDup (ids (filter acl_live eq_remote)) /\ all_global eq_remote /\
  hash_functional (acl_repl eq_st) eq_remote /\
  Permutation (content (acl_repl eq_st)) (content (acl_repl eq_remote)) /\
  acl_diff 0 (view eq_st) eq_remote = DiffRes [] [] 0 0.
Proof. exact example_idempotent_acl. Qed.

Example C19_example_config :
  NoDup (ids cex_st) /\ NoDup (ids cex_remote) /\ all_global cex_remote /\
  consistent (effective_last 9 5) (cfg_repl cex_st) cex_remote /\ cfg_hash_sound (cfg_repl cex_st) cex_remote /\
  content (cfg_repl (cfg_round_m 0 9 5 cex_remote cex_st)) = [(([115;118;99]%N, [98]%N), 2%N); (k_svc_a, 3%N)] /\
  filter cfg_untouchable (cfg_round_m 0 9 5 cex_remote cex_st) = [Item k_exp_z 2 6%N 9 false] /\
  (forall x y, In x (cfg_repl (cfg_round_m 0 9 5 cex_remote cex_st)) -> In y cex_remote -> it_id x = it_id y ->
     (it_hash x <> 0%N /\ it_hash y <> 0%N) \/ (it_mod y <= 9)%N) /\
  cfg_issued (d_ups (cfg_diff 9 (view (cfg_round_m 0 9 5 cex_remote cex_st)) cex_remote)) = [].
Proof. exact example_config. Qed.

Example C19_example_full_sync :
  (8 < 50)%N /\ (forall y, In y ex_remote -> (0 < it_mod y)%N) /\ acl_hash_sound (acl_repl ex_st) ex_remote /\
  content (acl_repl (acl_round_m 9 8 50 ex_remote ex_st)) = [([97]%N, 10%N); ([98]%N, 21%N); ([99]%N, 30%N)].
Proof. exact example_full_sync. Qed.

Example C19_example_fed :
  NoDup (ids fex_st) /\ NoDup (ids fex_remote) /\ all_global fex_remote /\
  consistent (effective_last 8 4) (fed_repl fex_st) fex_remote /\
  content (fed_repl (fed_round_m 0 8 4 fex_remote fex_st)) = [([100;99;49]%N, 3%N); ([100;99;50]%N, 2%N)].
Proof. exact example_fed. Qed.

(* Non-vacuity: a concrete secondary (an up-to-date object, an outdated one, one the primary deleted, a
   local-scoped token, an unmigrated empty-id object) and primary (one more new object) meet every
   hypothesis of C19_round_acl and C19_local_untouched_acl; the round yields exactly the primary's set. *)
Example C19_hypotheses_satisfiable :
  NoDup (ids (filter acl_live ex_st)) /\ NoDup (ids (filter acl_live ex_remote)) /\ all_global ex_remote /\
  consistent (effective_last 8 5) (acl_repl ex_st) ex_remote /\ acl_hash_sound (acl_repl ex_st) ex_remote /\
  content (acl_repl (acl_round_m 9 8 5 ex_remote ex_st)) = [([97]%N, 10%N); ([98]%N, 21%N); ([99]%N, 30%N)] /\
  filter acl_untouchable (acl_round_m 9 8 5 ex_remote ex_st) = filter acl_untouchable ex_st.
Proof. exact example_hypotheses. Qed.

(* The unique-id hypothesis is needed (ids are the primary key of the tables, so it always holds):
   with the same id twice in the secondary's list the round deletes an object the primary still has. *)
Example C19_unique_ids_needed :
  content (acl_repl (acl_round_m 9 5 5 dup_remote dup_st)) = [] /\
  content (acl_repl dup_remote) = [([97]%N, 1%N)].
Proof. exact unique_ids_needed. Qed.

Print Assumptions C19_walk_is_set_difference.
Print Assumptions C19_diff_names_inputs_only.
Print Assumptions C19_round.
Print Assumptions C19_round_keeps_unique_ids.
Print Assumptions C19_local_untouched.
Print Assumptions C19_idempotent.
Print Assumptions C19_fetch_by_id_is_same_round.
Print Assumptions C19_string_order_laws.
Print Assumptions C19_kind_name_order_laws.
Print Assumptions C19_round_acl.
Print Assumptions C19_full_sync_acl.
Print Assumptions C19_local_untouched_acl.
Print Assumptions C19_idempotent_acl.
Print Assumptions C19_round_config.
Print Assumptions C19_full_sync_config.
Print Assumptions C19_local_untouched_config.
Print Assumptions C19_idempotent_config_refuted.
Print Assumptions C19_idempotent_config_partial.
Print Assumptions C19_round_fed.
Print Assumptions C19_idempotent_fed_refuted.
Print Assumptions C19_idempotent_fed_partial.
Print Assumptions C19_hypotheses_satisfiable.
Print Assumptions C19_unique_ids_needed.
Print Assumptions C19_round_reestablishes_consistent.
Print Assumptions C19_two_rounds.
Print Assumptions C19_second_round_silent.
Print Assumptions C19_store_round_accepted.
Print Assumptions C19_store_round_refused.
Print Assumptions C19_accepted_when_names_free.
Print Assumptions C19_two_snapshots_partial.
Print Assumptions C19_two_rounds_acl.
Print Assumptions C19_two_rounds_config.
Print Assumptions C19_second_round_silent_acl.
Print Assumptions C19_second_round_silent_config.
Print Assumptions C19_second_round_silent_fed.
Print Assumptions C19_round_store_refuted.
Print Assumptions C19_round_store_partial.
Print Assumptions C19_two_snapshots_refuted.
Print Assumptions C19_example_idempotent_acl.
Print Assumptions C19_example_config.
Print Assumptions C19_example_full_sync.
Print Assumptions C19_example_fed.
