(* C19 — one replication round makes a secondary datacenter equal to the primary.
   Theorems only; each is closed by an application of a lemma of Repl/*.v.

   Vocabulary (Repl/Model.v, Repl/WalkProofs.v, Repl/RoundProofs.v):
     diff last local remote      sort both lists, merge-walk (diffACLType / diffConfigEntries /
                                 FederationStateReplicator.DiffRemoteAndLocalState)
     apply_round stamp d st      deletions, then upserts, of the writes really issued
     view st                     what FetchLocal lists (no tokens of local scope)
     repl l                      the objects replication is responsible for: usable id, a kind the
                                 apply step writes, not local-scoped
     untouchable x               everything else
     content l                   the (id, content) pairs of l
     consistent last L R         whatever the primary has not modified after [last] is already in
                                 the secondary with the primary's content
     hash_sound L R              equal hashes => equal content
     hash_complete last L R      equal content is recognised (hash test, or not newer than [last]) *)
From Verif Require Import Base.Prelude.
From Verif Require Import Repl.Model.
From Verif Require Import Repl.Proofs.
From Coq Require Import Sorting.Permutation.

Section C19.
  Context {K H : Type}.
  Variable keqb : K -> K -> bool.        (* id equality *)
  Variable kltb : K -> K -> bool.        (* id order used by the sort and the walk *)
  Variable is_empty : K -> bool.         (* ids the walk skips *)
  Variable same_hash : H -> H -> bool.   (* the content-hash test *)
  Variable applies : K -> bool.          (* ids the apply step writes *)
  (* the id order is a decidable strict total order (proved for the three instances below) *)
  Hypothesis keqb_spec : forall a b, keqb a b = true <-> a = b.
  Hypothesis kltb_irrefl : forall a, kltb a a = false.
  Hypothesis kltb_trans : forall a b c, kltb a b = true -> kltb b c = true -> kltb a c = true.
  Hypothesis kltb_total : forall a b, keqb a b = false -> kltb a b = false -> kltb b a = true.

  Notation live := (live is_empty).
  Notation diff := (diff keqb kltb is_empty same_hash).
  Notation apply_round := (apply_round keqb applies).
  Notation repl := (repl is_empty applies).

  (* The sorted merge walk (with the sort the code performs) equals the set-based specification, for
     lists of any length given in any order: deletions = live local objects whose id no live remote
     object has; upserts = live remote objects that are new, or newer than [last] with another hash;
     both in id order; objects with an empty id are only counted. *)
  Theorem C19_walk_is_set_difference : forall last local remote,
    NoDup (ids (filter live local)) -> NoDup (ids (filter live remote)) ->
    diff last local remote =
      DiffRes (spec_del keqb (filter live (isort kltb local)) (filter live remote))
              (spec_ups keqb same_hash last (filter live local) (filter live (isort kltb remote)))
              (nempty is_empty local) (nempty is_empty remote).
  Proof. exact (walk_is_set_difference keqb kltb is_empty same_hash keqb_spec kltb_irrefl kltb_trans kltb_total). Qed.

  (* With no hypothesis at all (duplicates, any order): the diff names only live objects of its inputs,
     and counts exactly the objects with an empty id. *)
  Theorem C19_diff_names_inputs_only : forall last local remote,
    (forall x, In x (d_del (diff last local remote)) -> In x local /\ live x = true) /\
    (forall y, In y (d_ups (diff last local remote)) -> In y remote /\ live y = true) /\
    d_lskip (diff last local remote) = nempty is_empty local /\
    d_rskip (diff last local remote) = nempty is_empty remote.
  Proof.
    intros last local remote.
    destruct (diff_sub keqb kltb is_empty same_hash last local remote) as [Hd Hu].
    destruct (diff_skips keqb kltb is_empty same_hash last local remote) as [Hl Hr].
    exact (conj Hd (conj Hu (conj Hl Hr))).
  Qed.

  (* One round: applying the deletions and then the upserts of the computed diff makes the
     replicated set of the secondary equal to the primary's. *)
  Theorem C19_round : forall stamp last remote st,
    NoDup (ids (filter live st)) -> NoDup (ids (filter live remote)) -> all_global remote ->
    consistent last (view st) remote -> hash_sound same_hash (view st) remote ->
    Permutation (content (repl (apply_round stamp (diff last (view st) remote) st)))
                (content (repl remote)).
  Proof. exact (round_permutation keqb kltb is_empty same_hash applies keqb_spec kltb_irrefl kltb_trans kltb_total). Qed.

  (* ... and the table keeps unique ids, so the next round's hypotheses hold again *)
  Theorem C19_round_keeps_unique_ids : forall stamp (d : @diffres K H) (st : list (@item K H)),
    NoDup (ids (filter live st)) -> NoDup (ids (filter live (apply_round stamp d st))).
  Proof. intros; eapply nodup_apply_round; eassumption. Qed.

  (* Objects outside replication (local-scoped tokens, empty ids, kinds the apply step does not
     write) are left exactly as they were: same objects, same order. *)
  Theorem C19_local_untouched : forall stamp last remote st,
    NoDup (ids (filter live st)) -> all_global remote ->
    (forall x, In x st -> it_local x = true -> live x = true -> ~ In (it_id x) (ids (filter live remote))) ->
    filter (untouchable is_empty applies) (apply_round stamp (diff last (view st) remote) st) =
    filter (untouchable is_empty applies) st.
  Proof. exact (local_untouched keqb kltb is_empty same_hash applies keqb_spec). Qed.

  (* A secondary that is already equal produces no writes. *)
  Theorem C19_idempotent : forall last remote st,
    NoDup (ids (filter live st)) -> NoDup (ids (filter live remote)) -> all_global remote ->
    (forall kb, In kb (content (repl st)) <-> In kb (content (repl remote))) ->
    hash_complete same_hash last (view st) remote ->
    issued applies (d_del (diff last (view st) remote)) = [] /\
    issued applies (d_ups (diff last (view st) remote)) = [].
  Proof. exact (idempotent keqb kltb is_empty same_hash applies keqb_spec kltb_irrefl kltb_trans kltb_total). Qed.

  (* replicateACLType fetches the objects to upsert by id: that is the same round *)
  Theorem C19_fetch_by_id_is_same_round : forall stamp ri last remote st,
    NoDup (ids (filter live st)) -> NoDup (ids (filter live remote)) ->
    acl_round keqb kltb is_empty same_hash applies stamp ri last remote st =
    round keqb kltb is_empty same_hash applies stamp ri last remote st.
  Proof. exact (acl_round_is_round keqb kltb is_empty same_hash applies keqb_spec kltb_irrefl kltb_trans kltb_total). Qed.
End C19.

(* ---- the three instances: the order laws hold, so the theorems apply to the functions as run ---- *)

(* Go strings (ids, datacenter names) and (kind, name) pairs are strict total orders *)
Theorem C19_string_order_laws :
  (forall a b, bytes_eqb a b = true <-> a = b) /\ (forall a, bytes_ltb a a = false) /\
  (forall a b c, bytes_ltb a b = true -> bytes_ltb b c = true -> bytes_ltb a c = true) /\
  (forall a b, bytes_eqb a b = false -> bytes_ltb a b = false -> bytes_ltb b a = true).
Proof. exact (conj bytes_eqb_eq (conj bytes_ltb_irrefl (conj (fun a => bytes_ltb_trans a) bytes_ltb_total))). Qed.

Theorem C19_kind_name_order_laws :
  (forall a b, cfg_eqb a b = true <-> a = b) /\ (forall a, cfg_ltb a a = false) /\
  (forall a b c, cfg_ltb a b = true -> cfg_ltb b c = true -> cfg_ltb a c = true) /\
  (forall a b, cfg_eqb a b = false -> cfg_ltb a b = false -> cfg_ltb b a = true).
Proof. exact (conj cfg_eqb_spec (conj cfg_ltb_irrefl (conj cfg_ltb_trans cfg_ltb_total))). Qed.

(* ACL tokens / policies / roles, the whole round of replicateACLType
   (index reset when the primary's index went backwards, diff, fetch by id, deletions, upserts) *)
Theorem C19_round_acl : forall stamp ri last (remote st : list acl_item),
  NoDup (ids (filter acl_live st)) -> NoDup (ids (filter acl_live remote)) -> all_global remote ->
  consistent (effective_last ri last) (view st) remote -> acl_hash_sound (view st) remote ->
  Permutation (content (acl_repl (acl_round_m stamp ri last remote st))) (content (acl_repl remote)).
Proof. exact acl_round_converges. Qed.

Theorem C19_full_sync_acl : forall stamp ri last (remote st : list acl_item),
  (ri < last)%N -> (forall y, In y remote -> (0 < it_mod y)%N) ->
  NoDup (ids (filter acl_live st)) -> NoDup (ids (filter acl_live remote)) -> all_global remote ->
  acl_hash_sound (view st) remote ->
  Permutation (content (acl_repl (acl_round_m stamp ri last remote st))) (content (acl_repl remote)).
Proof. exact acl_full_sync. Qed.

Theorem C19_local_untouched_acl : forall stamp ri last (remote st : list acl_item),
  NoDup (ids (filter acl_live st)) -> NoDup (ids (filter acl_live remote)) -> all_global remote ->
  (forall x, In x st -> it_local x = true -> acl_live x = true -> ~ In (it_id x) (ids (filter acl_live remote))) ->
  filter acl_untouchable (acl_round_m stamp ri last remote st) = filter acl_untouchable st.
Proof. exact acl_local_untouched. Qed.

Theorem C19_idempotent_acl : forall last (remote st : list acl_item),
  NoDup (ids (filter acl_live st)) -> NoDup (ids (filter acl_live remote)) -> all_global remote ->
  hash_functional (view st) remote ->
  Permutation (content (acl_repl st)) (content (acl_repl remote)) ->
  acl_issued (d_del (acl_diff last (view st) remote)) = [] /\
  acl_issued (d_ups (acl_diff last (view st) remote)) = [].
Proof. exact acl_idempotent. Qed.

(* config entries, the whole round of replicateConfig *)
Theorem C19_round_config : forall stamp ri last (remote st : list cfg_item),
  NoDup (ids st) -> NoDup (ids remote) -> all_global remote ->
  consistent (effective_last ri last) (view st) remote -> cfg_hash_sound (view st) remote ->
  Permutation (content (cfg_repl (cfg_round_m stamp ri last remote st))) (content (cfg_repl remote)).
Proof. exact cfg_round_converges. Qed.

Theorem C19_full_sync_config : forall stamp ri last (remote st : list cfg_item),
  (ri < last)%N -> (forall y, In y remote -> (0 < it_mod y)%N) ->
  NoDup (ids st) -> NoDup (ids remote) -> all_global remote -> cfg_hash_sound (view st) remote ->
  Permutation (content (cfg_repl (cfg_round_m stamp ri last remote st))) (content (cfg_repl remote)).
Proof. exact cfg_full_sync. Qed.

Theorem C19_local_untouched_config : forall stamp ri last (remote st : list cfg_item),
  NoDup (ids st) -> all_global remote ->
  (forall x, In x st -> it_local x = true -> ~ In (it_id x) (ids remote)) ->
  filter cfg_untouchable (cfg_round_m stamp ri last remote st) = filter cfg_untouchable st.
Proof. exact cfg_local_untouched. Qed.

(* "already equal => no writes" is FALSE for config entries as stated: configentry.SameHash never
   holds for a zero hash (an entry stored before hashes existed) ... *)
Theorem C19_idempotent_config_refuted :
  exists last (remote st : list cfg_item),
    NoDup (ids st) /\ NoDup (ids remote) /\ all_global remote /\ hash_functional (view st) remote /\
    Permutation (content (cfg_repl st)) (content (cfg_repl remote)) /\
    cfg_issued (d_ups (cfg_diff last (view st) remote)) <> [].
Proof. exact cfg_idempotent_refuted. Qed.

(* ... and holds exactly when every pair carries usable hashes or is not newer than [last] *)
Theorem C19_idempotent_config_partial : forall last (remote st : list cfg_item),
  NoDup (ids st) -> NoDup (ids remote) -> all_global remote ->
  hash_functional (view st) remote ->
  (forall x y, In x (view st) -> In y remote -> it_id x = it_id y ->
     (it_hash x <> 0%N /\ it_hash y <> 0%N) \/ (it_mod y <= last)%N) ->
  Permutation (content (cfg_repl st)) (content (cfg_repl remote)) ->
  cfg_issued (d_del (cfg_diff last (view st) remote)) = [] /\
  cfg_issued (d_ups (cfg_diff last (view st) remote)) = [].
Proof. exact cfg_idempotent_partial. Qed.

(* federation states (third instance of the walk; outside the wording of the property) *)
Theorem C19_round_fed : forall stamp ri last (remote st : list fed_item),
  NoDup (ids st) -> NoDup (ids remote) -> all_global remote ->
  consistent (effective_last ri last) (view st) remote ->
  Permutation (content (fed_repl (fed_round_m stamp ri last remote st))) (content (fed_repl remote)).
Proof. exact fed_round_converges. Qed.

Theorem C19_idempotent_fed_refuted :
  exists last (remote st : list fed_item),
    NoDup (ids st) /\ NoDup (ids remote) /\ all_global remote /\
    Permutation (content (fed_repl st)) (content (fed_repl remote)) /\
    fed_issued (d_ups (fed_diff last (view st) remote)) <> [].
Proof. exact fed_idempotent_refuted. Qed.

Theorem C19_idempotent_fed_partial : forall last (remote st : list fed_item),
  NoDup (ids st) -> NoDup (ids remote) -> all_global remote ->
  (forall y, In y remote -> (it_mod y <= last)%N) ->
  Permutation (content (fed_repl st)) (content (fed_repl remote)) ->
  fed_issued (d_del (fed_diff last (view st) remote)) = [] /\
  fed_issued (d_ups (fed_diff last (view st) remote)) = [].
Proof. exact fed_idempotent_partial. Qed.

(* Non-vacuity: a concrete secondary (an up-to-date object, an outdated one, one the primary deleted, a
   local-scoped token, an unmigrated empty-id object) and primary (one more new object) meet every
   hypothesis of C19_round_acl and C19_local_untouched_acl; the round yields exactly the primary's set. *)
Example C19_hypotheses_satisfiable :
  NoDup (ids (filter acl_live ex_st)) /\ NoDup (ids (filter acl_live ex_remote)) /\ all_global ex_remote /\
  consistent (effective_last 8 5) (view ex_st) ex_remote /\ acl_hash_sound (view ex_st) ex_remote /\
  content (acl_repl (acl_round_m 9 8 5 ex_remote ex_st)) = [([97]%N, 10%N); ([98]%N, 21%N); ([99]%N, 30%N)] /\
  filter acl_untouchable (acl_round_m 9 8 5 ex_remote ex_st) = filter acl_untouchable ex_st.
Proof. exact example_hypotheses. Qed.

(* The unique-id hypothesis is needed (ids are the primary key of the tables, so it always holds):
   with the same id twice in the secondary's list the round deletes an object the primary still has. *)
Example C19_unique_ids_needed :
  content (acl_repl (acl_round_m 9 5 5 dup_remote dup_st)) = [] /\
  content (acl_repl dup_remote) = [([97]%N, 1%N)].
Proof. exact unique_ids_needed. Qed.

Print Assumptions C19_walk_is_set_difference.
Print Assumptions C19_diff_names_inputs_only.
Print Assumptions C19_round.
Print Assumptions C19_round_keeps_unique_ids.
Print Assumptions C19_local_untouched.
Print Assumptions C19_idempotent.
Print Assumptions C19_fetch_by_id_is_same_round.
Print Assumptions C19_string_order_laws.
Print Assumptions C19_kind_name_order_laws.
Print Assumptions C19_round_acl.
Print Assumptions C19_full_sync_acl.
Print Assumptions C19_local_untouched_acl.
Print Assumptions C19_idempotent_acl.
Print Assumptions C19_round_config.
Print Assumptions C19_full_sync_config.
Print Assumptions C19_local_untouched_config.
Print Assumptions C19_idempotent_config_refuted.
Print Assumptions C19_idempotent_config_partial.
Print Assumptions C19_round_fed.
Print Assumptions C19_idempotent_fed_refuted.
Print Assumptions C19_idempotent_fed_partial.
Print Assumptions C19_hypotheses_satisfiable.
Print Assumptions C19_unique_ids_needed.
