(* C11 — streaming subscribers materialize exactly the server's state.
   Theorems only; each closed by an application of a lemma of Stream/Proofs.v.

   The machine ([Stream.Model]) mirrors /repo after the C11 repairs (2bf672d, 949dae4, 9502e45,
   f559b0f amended by 716731d): a store, the queue of committed-but-unpublished batches tagged with the publisher's
   generation (publishCh), per topic/subject buffers with object identity, the snapshot cache, and
   clients = materializer + subscription (with its snapshotIndex).  [run cache ls] executes a schedule
   of Commit / Publish(one batch) / Subscribe / Next / Unsub / Restore / Evict labels from the initial
   state; all theorems quantify over ALL schedules — however commits, publication, subscription start
   (fresh, resumed, cached snapshot), consumption, restores and cache evictions interleave.

   The only hypothesis left is [env_ok] (Model.step_ok at every step): Raft indexes grow strictly; the
   index a query reports is not smaller than the index of any commit that touched its subject and not
   larger than the last raft index; a restored store has one row per key.  Its query-index clause is
   broken by the real state store in one class (known finding query-index-behind-content, belongs with
   C06); it is shown necessary below. *)
From Verif Require Import Base.Prelude Stream.Model Stream.Lookup Stream.Proofs.
Local Open Scope N_scope.

(* ---- after each delivery the view is the store's content for the subject at the delivered index.
   Stated for every reachable state (hence after each delivery): a client that has applied something
   (index <> 0) from the current store incarnation holds exactly the rows the direct query had at its index. *)
Definition C11_view_is_some_committed_state_statement (hyp : bool -> list label -> Prop) : Prop :=
  forall cache ls k x,
    hyp cache ls ->
    client_of (run cache ls) k = Some x -> c_idx x <> 0 -> c_epoch x = st_epoch (run cache ls) ->
    forall key, aget key (c_view x) = content_at (run cache ls) (c_ts x) (c_idx x) key.

Theorem C11_view_is_some_committed_state_partial : C11_view_is_some_committed_state_statement env_ok.
Proof. intros cache ls k x He. exact (view_exact cache ls k x He). Qed.

(* without the query-index clause it is false: the query reports index 10 for a result that contains
   commit 11; the snapshot {A, B} is applied at "index 10", where the store had only A *)
Theorem C11_view_is_some_committed_state_refuted :
  ~ C11_view_is_some_committed_state_statement (fun cache ls => all_from raft_ok (init cache) ls = true).
Proof.
  intros H. destruct index_behind_witness as (x & He & Hx & Hi & Hep & Hv & Hc).
  specialize (H true index_behind_sched 0 x He Hx). rewrite Hi in H. specialize (H ltac:(discriminate) Hep kB).
  rewrite Hi in Hc. congruence.
Qed.

(* the direct query's current result is the content at the last raft index.  NOTE: in the model the store
   IS the fold of the committed events, so this restates the model's definition of a commit; that the real
   store agrees with the fold of the real events is checked per commit by the correspondence run
   (Run.C11.check_q) and by the oracle (events-do-not-match-state-change), not proved *)
Theorem C11_query_is_log : forall cache ls T key,
  env_ok cache ls ->
  content_now (run cache ls) T key = content_at (run cache ls) T (st_hi (run cache ls)) key.
Proof. intros cache ls T key. exact (query_is_log cache ls T key). Qed.

(* ---- eventual: nothing left to deliver -> the view is the current query result *)
Theorem C11_eventual : forall cache ls k x,
  env_ok cache ls ->
  client_of (run cache ls) k = Some x -> is_open x = true -> streaming x = true ->
  pending (run cache ls) x = [] ->
  forall key, aget key (c_view x) = content_now (run cache ls) (c_ts x) key.
Proof. exact eventual. Qed.

(* ---- no skip: what Next will still hand to a streaming client is, in order and once each, the commits
   that touched its subject after its index — preceded, at most, by the one batch at the client's own
   index: the batch at the snapshot's index, which Next delivers once more after the snapshot (716731d).
   Everything up to the client's index is in the view (C11_view_is_some_committed_state_partial), and
   that theorem holds in every state, so the repeated batch leaves the view exact. *)
Theorem C11_no_skip : forall cache ls k x,
  env_ok cache ls ->
  client_of (run cache ls) k = Some x -> is_open x = true -> streaming x = true ->
  exists dup, dup_batch (run cache ls) x dup /\
              pending (run cache ls) x = dup ++ proj (c_ts x) (log_after (c_idx x) (st_log (run cache ls))).
Proof. exact no_skip. Qed.

(* applying the events of a batch (Register/Upsert and Deregister/Delete of rows) a second time changes
   no row: why the repeated batch is harmless *)
Theorem C11_batch_idempotent : forall evs m key,
  aget key (apply evs (apply evs m)) = aget key (apply evs m).
Proof. exact batch_idempotent. Qed.

(* ---- [pending] is what Next hands out: with everything published, Next blocks iff nothing is pending,
   and otherwise returns the head of [pending] and leaves the rest pending (the state after the step is
   again a run, so this iterates: the successive Next calls return exactly [pending], in order, then
   block).  Ties C11_no_skip / C11_eventual to the step function. *)
Theorem C11_next_returns_pending : forall cache ls k x,
  env_ok cache ls -> client_of (run cache ls) k = Some x -> is_open x = true -> streaming x = true ->
  live_queue (run cache ls) = [] ->
  match pending (run cache ls) x with
  | [] => step (run cache ls) (LNext k) = (run cache ls, OBlock)
  | it :: rest =>
      snd (step (run cache ls) (LNext k)) = ODeliver it /\
      exists x', client_of (run cache (ls ++ [LNext k])) k = Some x' /\ is_open x' = true /\
                 streaming x' = true /\ pending (run cache (ls ++ [LNext k])) x' = rest /\
                 live_queue (run cache (ls ++ [LNext k])) = []
  end.
Proof. exact next_is_pending_head. Qed.

(* ---- delivered indexes never decrease (NewSnapshotToFollow resets the view and is not an update);
   they are not strictly increasing: the batch at the snapshot's index repeats that index once *)
Theorem C11_monotone : forall cache ls k x st' it x',
  env_ok cache ls ->
  client_of (run cache ls) k = Some x ->
  step (run cache ls) (LNext k) = (st', ODeliver it) -> it <> INstf ->
  client_of st' k = Some x' ->
  c_idx x <= c_idx x'.
Proof. exact monotone. Qed.

(* ---- forced resubscription: after Restore (every subscription) and after the publication of a batch of
   the current generation whose closeSubscription event names the subscription's token, Next returns the
   close error — and keeps returning it, whatever else happens, until that client unsubscribes or
   subscribes again.  These hold in EVERY state of the machine (no assumption on the schedule). *)
Theorem C11_forced_resubscribe_restore : forall st rows hi c x sb ls,
  client_of st c = Some x -> c_sub x = Some sb -> none_touch c ls = true ->
  exists s, snd (step (run_from (fst (step st (LRestore rows hi))) ls) (LNext c)) = OClosed s /\ s <> Open.
Proof.
  intros st rows hi c x sb ls Hx Hs Hn. apply closed_until_resubscribe; [|exact Hn].
  eapply restore_closes; eauto.
Qed.

Theorem C11_forced_resubscribe_acl : forall st b q c x sb ls,
  st_queue st = (st_epoch st, b) :: q -> client_of st c = Some x -> c_sub x = Some sb ->
  In (c_tok x) (b_close b) -> none_touch c ls = true ->
  exists s, snd (step (run_from (fst (step st LPublish)) ls) (LNext c)) = OClosed s /\ s <> Open.
Proof.
  intros st b q c x sb ls Hq Hx Hs Hin Hn. apply closed_until_resubscribe; [|exact Hn].
  eapply acl_publish_closes; eauto.
Qed.

(* ---- "rather than left with a stale view": an open streaming client always has the view of the
   CURRENT store incarnation (this discharges the epoch hypothesis of
   C11_view_is_some_committed_state_partial for such clients) ... *)
Theorem C11_open_stream_is_current : forall cache ls k x,
  env_ok cache ls -> client_of (run cache ls) k = Some x -> is_open x = true -> streaming x = true ->
  c_epoch x = st_epoch (run cache ls) /\ c_idx x <> 0.
Proof. exact open_stream_epoch. Qed.

(* ... and a client whose view stems from a replaced incarnation never resumes: when it subscribes again
   the first thing it is handed is NewSnapshotToFollow (reset), whatever index it sends *)
Theorem C11_stale_client_is_reset : forall cache ls k T tok rpc q x x',
  env_ok cache (ls ++ [LSubscribe k T tok rpc q]) ->
  client_of (run cache ls) k = Some x -> c_idx x <> 0 -> c_epoch x <> st_epoch (run cache ls) ->
  client_of (run cache (ls ++ [LSubscribe k T tok rpc q])) k = Some x' ->
  match c_sub x' with
  | Some sb => exists rest, s_pre sb = INstf :: rest
  | None => True
  end.
Proof. exact stale_resubscribe. Qed.

(* the hypotheses of the two forced-resubscribe theorems are met by reachable states: a queued batch of
   the current generation naming the client's token (before its publication Next blocks, after it Next
   returns the ACL close); a restore closes, and after resubscribing the client holds the rows of the new
   incarnation with client epoch = store epoch = 1 *)
Example C11_forced_resubscribe_acl_satisfiable :
  exists b q x sb,
    env_ok true acl_sched /\
    st_queue (run true acl_sched) = (st_epoch (run true acl_sched), b) :: q /\
    client_of (run true acl_sched) 0 = Some x /\ c_sub x = Some sb /\ In (c_tok x) (b_close b) /\
    snd (step (run true acl_sched) (LNext 0)) = OBlock /\
    snd (step (fst (step (run true acl_sched) LPublish)) (LNext 0)) = OClosed AclClosed.
Proof. exact acl_close_witness. Qed.

Example C11_forced_resubscribe_restore_satisfiable :
  exists x sb x',
    client_of (run true clean_sched) 0 = Some x /\ c_sub x = Some sb /\
    snd (step (fst (step (run true clean_sched) (LRestore [(kA, 7)] 12))) (LNext 0)) = OClosed ForceClosed /\
    client_of (run true (clean_sched ++ [LRestore [(kA, 7)] 12; LNext 0; LSubscribe 0 T_web 0 true 12;
                                         LNext 0; LNext 0])) 0 = Some x' /\
    c_view x' = [(kA, 7)] /\ c_epoch x' = 1 /\
    st_epoch (run true (clean_sched ++ [LRestore [(kA, 7)] 12; LNext 0; LSubscribe 0 T_web 0 true 12;
                                        LNext 0; LNext 0])) = 1.
Proof. exact restore_close_witness. Qed.

(* ---- the schedules of the repaired findings, on the repaired machine: the client ends with exactly the
   current rows, nothing pending, Next blocks *)

(* finding 11 (subscribe in the commit/publish gap): snapshot@11 = {A:2, B:3}; the queued batch 10 is
   skipped by Next, batch 11 is delivered once more at index 11: the index never goes back to 10 *)
Example C11_gap_schedule_repaired : settled true gap_sched [(kA, 2); (kB, 3)] 11.
Proof. exact gap_witness. Qed.

(* the re-delivery itself: before it the client is at index 11 with {A:2, B:3}; Next hands it the batch of
   index 11; afterwards (previous example) index and view are the same *)
Example C11_gap_schedule_duplicate :
  exists x it st',
    client_of (run true (removelast gap_sched)) 0 = Some x /\ c_idx x = 11 /\ c_view x = [(kA, 2); (kB, 3)] /\
    step (run true (removelast gap_sched)) (LNext 0) = (st', ODeliver it) /\ item_idx it = 11.
Proof. exact gap_duplicate_witness. Qed.

(* the floor index: a subscription on an empty subject gets snapshot index 1; a write at index 1 (outside
   env_ok: Raft never gives user data index 1, upstream tests do) is delivered, not skipped *)
Example C11_floor_index_delivered :
  exists x, client_of (run true floor_sched) 0 = Some x /\ c_view x = [(kA, 1)] /\ c_idx x = 1 /\
            snd (step (run true floor_sched) (LNext 0)) = OBlock.
Proof. exact floor_witness. Qed.

(* a second subscriber holds its subscription across the restore: the topic buffer is dropped with it *)
Example C11_restore_topic_buffer_repaired : settled true restore_buffer_sched [(kA, 1)] 10.
Proof. exact restore_buffer_witness. Qed.

(* a batch of the replaced store still queued at the restore is dropped when its turn comes *)
Example C11_restore_publish_queue_repaired : settled true restore_queue_sched [(kA, 1)] 10.
Proof. exact restore_queue_witness. Qed.

(* ---- non-vacuity: a schedule meeting the hypothesis, with a snapshot, two events (one a
   deregistration together with an ACL close for another token) *)
Example C11_hypotheses_satisfiable : settled true clean_sched [(kB, 2)] 12.
Proof. exact clean_witness. Qed.

Print Assumptions C11_view_is_some_committed_state_partial.
Print Assumptions C11_view_is_some_committed_state_refuted.
Print Assumptions C11_query_is_log.
Print Assumptions C11_eventual.
Print Assumptions C11_no_skip.
Print Assumptions C11_batch_idempotent.
Print Assumptions C11_monotone.
Print Assumptions C11_next_returns_pending.
Print Assumptions C11_open_stream_is_current.
Print Assumptions C11_stale_client_is_reset.
Print Assumptions C11_forced_resubscribe_acl_satisfiable.
Print Assumptions C11_forced_resubscribe_restore_satisfiable.
Print Assumptions C11_forced_resubscribe_restore.
Print Assumptions C11_forced_resubscribe_acl.
Print Assumptions C11_gap_schedule_repaired.
Print Assumptions C11_gap_schedule_duplicate.
Print Assumptions C11_floor_index_delivered.
Print Assumptions C11_restore_topic_buffer_repaired.
Print Assumptions C11_restore_publish_queue_repaired.
Print Assumptions C11_hypotheses_satisfiable.
