(* C11 — streaming subscribers materialize exactly the server's state.
   Theorems only; each closed by an application of a lemma of Stream/Proofs.v.

   The machine ([Stream.Model]): a store, the queue of committed-but-unpublished batches (publishCh),
   per topic/subject buffers, the snapshot cache, and clients = materializer + subscription.
   [run cache ls] executes a schedule of Commit / Publish(one batch) / Subscribe / Next / Unsub /
   Restore / Evict labels from the initial state; all theorems quantify over ALL schedules.

   Hypotheses (all decidable predicates on the schedule, defined in Model.v):
     env_ok   Raft indexes grow strictly and a query's index covers every commit that touched its
              subject (step_ok); the events of a commit describe its whole effect on the query results
              (events_ok); a Restore finds an empty publish queue and nobody subscribes on a topic
              buffer that outlived a Restore (restore_ok)
     gap_free no snapshot is taken while a committed batch is still waiting to be published
   The three parts of env_ok and gap_free are each shown necessary by a refutation witness that the
   real code reproduces (known findings). *)
From Verif Require Import Base.Prelude Stream.Model Stream.Proofs.
Local Open Scope N_scope.

(* ---- after each delivery the view is the store's content for the subject at the delivered index.
   Stated for every reachable state (hence after each delivery): a client that has applied something
   (index <> 0) from the current store incarnation holds exactly the rows the direct query had at its index. *)
Definition C11_view_is_some_committed_state_statement (hyp : bool -> list label -> Prop) : Prop :=
  forall cache ls k x,
    hyp cache ls ->
    client_of (run cache ls) k = Some x -> c_idx x <> 0 -> c_epoch x = st_epoch (run cache ls) ->
    forall key, aget key (c_view x) = content_at (run cache ls) (c_ts x) (c_idx x) key.

Theorem C11_view_is_some_committed_state_partial :
  C11_view_is_some_committed_state_statement (fun cache ls => env_ok cache ls /\ gap_free cache ls).
Proof. intros cache ls k x [He Hg]. exact (view_exact cache ls k x He Hg). Qed.

(* without gap_free it is false: snapshot@11 = {A:2, B:3}, then the event of index 10 (A:1) is delivered:
   the view {A:1, B:3} at "index 10" has a row B that the store did not have at 10 *)
Theorem C11_view_is_some_committed_state_refuted :
  ~ C11_view_is_some_committed_state_statement env_ok.
Proof.
  intros H. destruct hybrid_witness as (x & He & Hx & Hi & Hep & Hv & Hc).
  specialize (H true hybrid_sched 0 x He Hx). rewrite Hi in H. specialize (H ltac:(discriminate) Hep kB).
  rewrite Hi in Hc. congruence.
Qed.

(* the direct query's current result is the content at the last raft index (ties [content_at] to the store) *)
Theorem C11_query_is_log : forall cache ls T key,
  env_ok cache ls ->
  content_now (run cache ls) T key = content_at (run cache ls) T (st_hi (run cache ls)) key.
Proof. intros cache ls T key. exact (query_is_log cache ls T key). Qed.

(* ---- eventual: nothing left to deliver -> the view is the current query result (gap or not) *)
Theorem C11_eventual : forall cache ls k x,
  env_ok cache ls ->
  client_of (run cache ls) k = Some x -> is_open x = true -> streaming x = true ->
  pending (run cache ls) x = [] ->
  forall key, aget key (c_view x) = content_now (run cache ls) (c_ts x) key.
Proof. exact eventual. Qed.

(* ---- no skip, no duplicate: what a streaming client will still be handed is exactly, in order and once
   each, the commits that touched its subject after its index (and everything up to its index is in the
   view, by C11_view_is_some_committed_state_partial) *)
Theorem C11_no_skip : forall cache ls k x,
  env_ok cache ls -> gap_free cache ls ->
  client_of (run cache ls) k = Some x -> is_open x = true -> streaming x = true ->
  pending (run cache ls) x = proj (c_ts x) (log_after (c_idx x) (st_log (run cache ls))).
Proof. exact no_skip. Qed.

(* ---- delivered indexes never decrease (NewSnapshotToFollow resets the view and is not an update) *)
Definition C11_monotone_statement (hyp : bool -> list label -> Prop) : Prop :=
  forall cache ls k x st' it x',
    hyp cache ls ->
    client_of (run cache ls) k = Some x ->
    step (run cache ls) (LNext k) = (st', ODeliver it) -> it <> INstf ->
    client_of st' k = Some x' ->
    c_idx x <= c_idx x'.

Theorem C11_monotone_partial :
  C11_monotone_statement (fun cache ls => env_ok cache ls /\ gap_free cache ls).
Proof. intros cache ls k x st' it x' [He Hg]. exact (monotone cache ls k x st' it x' He Hg). Qed.

(* C11_monotone at full strength is false of the code (DESIGN.md section 9, finding 11): two commits
   queued, subscribe, publish: snapshot@11, EndOfSnapshot@11, then the event of index 10 *)
Theorem C11_monotone_refuted : ~ C11_monotone_statement env_ok.
Proof.
  intros H. destruct monotone_witness as (x & st' & it & x' & He & Hx & Hs & Hn & Hx' & Hi & Hi').
  specialize (H true gap_sched 0 x st' it x' He Hx Hs Hn Hx'). rewrite Hi, Hi' in H. lia.
Qed.

(* ---- forced resubscription: after Restore (every subscription) and after the publication of a batch
   whose closeSubscription event names the subscription's token, Next returns the close error — and keeps
   returning it, whatever else happens, until that client unsubscribes or subscribes again.
   These hold in EVERY state of the machine (no assumption on the schedule). *)
Theorem C11_forced_resubscribe_restore : forall st rows hi c x sb ls,
  client_of st c = Some x -> c_sub x = Some sb -> none_touch c ls = true ->
  exists s, snd (step (run_from (fst (step st (LRestore rows hi))) ls) (LNext c)) = OClosed s /\ s <> Open.
Proof.
  intros st rows hi c x sb ls Hx Hs Hn. apply closed_until_resubscribe; [|exact Hn].
  eapply restore_closes; eauto.
Qed.

Theorem C11_forced_resubscribe_acl : forall st b q c x sb ls,
  st_queue st = b :: q -> client_of st c = Some x -> c_sub x = Some sb -> In (c_tok x) (b_close b) ->
  none_touch c ls = true ->
  exists s, snd (step (run_from (fst (step st LPublish)) ls) (LNext c)) = OClosed s /\ s <> Open.
Proof.
  intros st b q c x sb ls Hq Hx Hs Hin Hn. apply closed_until_resubscribe; [|exact Hn].
  eapply acl_publish_closes; eauto.
Qed.

(* ---- the remaining assumptions are necessary too (each witness is reproduced on the real code):
   a client with nothing left to receive whose view differs from the current query result *)

(* restore_ok, first half: a topic buffer that outlives a Restore hands an event of the replaced
   store to a subscriber of the new one *)
Theorem C11_restore_keeps_topic_buffer_refuted :
  valid_from (init true) restore_buffer_sched = true /\
  all_from events_ok (init true) restore_buffer_sched = true /\
  gap_free true restore_buffer_sched /\ st_queue (run true restore_buffer_sched) = [] /\
  stale_view true restore_buffer_sched.
Proof. exact restore_buffer_witness. Qed.

(* restore_ok, second half: a batch of the replaced store still queued at the Restore is published afterwards *)
Theorem C11_restore_keeps_publish_queue_refuted :
  valid_from (init true) restore_queue_sched = true /\
  all_from events_ok (init true) restore_queue_sched = true /\
  st_queue (run true restore_queue_sched) = [] /\
  stale_view true restore_queue_sched.
Proof. exact restore_queue_witness. Qed.

(* events_ok: a commit that changes a query result without an event *)
Theorem C11_unannounced_change_refuted :
  valid_from (init true) silent_sched = true /\
  all_from restore_ok (init true) silent_sched = true /\
  gap_free true silent_sched /\ st_queue (run true silent_sched) = [] /\
  stale_view true silent_sched.
Proof. exact silent_witness. Qed.

(* ---- non-vacuity: a schedule meeting every hypothesis, with a snapshot, two events (one a
   deregistration together with an ACL close for another token), ending in a streaming client with a
   non-trivial view and nothing pending *)
Example C11_hypotheses_satisfiable :
  exists x,
    env_ok true clean_sched /\ gap_free true clean_sched /\
    client_of (run true clean_sched) 0 = Some x /\ c_idx x = 12 /\
    c_epoch x = st_epoch (run true clean_sched) /\ is_open x = true /\ streaming x = true /\
    c_view x = [(kB, 2)] /\ pending (run true clean_sched) x = [].
Proof. exact clean_witness. Qed.

Print Assumptions C11_view_is_some_committed_state_partial.
Print Assumptions C11_view_is_some_committed_state_refuted.
Print Assumptions C11_query_is_log.
Print Assumptions C11_eventual.
Print Assumptions C11_no_skip.
Print Assumptions C11_monotone_partial.
Print Assumptions C11_monotone_refuted.
Print Assumptions C11_forced_resubscribe_restore.
Print Assumptions C11_forced_resubscribe_acl.
Print Assumptions C11_restore_keeps_topic_buffer_refuted.
Print Assumptions C11_restore_keeps_publish_queue_refuted.
Print Assumptions C11_unannounced_change_refuted.
Print Assumptions C11_hypotheses_satisfiable.
