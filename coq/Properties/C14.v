(* C14 — the proxy authorization policy enforces exactly the intention decision.
   Theorems only; each closed by an application of a lemma of RBAC/{Order,Patterns,Perms,Proofs,Instance}.v.

   Vocabulary (RBAC/Model.v, RBAC/Proofs.v):
     translate cfg ixns dflt http      the model of makeRBACRules: the intentions matching one destination -> Envoy RBAC
     eval_rbac re rbac conn req        Envoy's verdict (ALLOW: some policy matches; DENY: none matches)
     intention_allows re cfg ixns dflt http conn req
                                       the reference: the matching intention of highest precedence decides
                                       (L7: its first matching permission; none: the default policy); no intention: default
     re                                the regex engine (safe_regex) for user-supplied patterns and method alternations
     well_formed                       validated input: valid HTTP methods, non-empty names, wildcards only trailing,
                                       peers have pairwise distinct trust domains
     hosts_authentic                   the trust domains of the presented URIs were authenticated by TLS
     partitions_literal                no partition a source stands for contains a regex metacharacter (namespace and
                                       service names are arbitrary: makeSpiffePattern quotes them since /repo d976793)
     inverted_headers_present          the request carries every header that an inverted value matcher (Exact/Prefix/
                                       Suffix/Contains/Regex with Invert) of some permission asks about
     translate_before_214d73a          the translator before removeShadowedSourceIntentions (regression witness only) *)
From Verif Require Import Base.Prelude.
From Verif Require Import RBAC.Model.
From Verif Require Import RBAC.Order.
From Verif Require Import RBAC.Patterns.
From Verif Require Import RBAC.Perms.
From Verif Require Import RBAC.Proofs.
From Verif Require Import RBAC.Instance.

(* The property at full strength: for every valid intention list, default policy, listener
   kind, connection and request.  It is still FALSE of the faithful model, for every regex engine
   (C14_equiv_false), in ONE way: C14_inverted_header_refuted.  Two other ways it used to fail are
   repaired in /repo and kept as regression examples: names spliced unescaped (d976793,
   C14_regex_regression) and a higher-precedence superset source not subtracted (214d73a,
   C14_superset_regression). *)
Definition C14_equiv (re : string -> string -> bool) : Prop :=
  forall cfg ixns dflt http conn req,
    well_formed cfg ixns -> partitions_literal cfg ixns -> hosts_authentic cfg ixns conn ->
    eval_rbac re (translate cfg ixns dflt http) conn req
    = intention_allows re cfg ixns dflt http conn req.

(* (open finding: inverted header matcher, header absent) `web -> db` with permissions
   [deny {x-internal Exact "yes" Invert}; allow {PathPrefix "/"}], default deny, HTTP: every hypothesis
   holds except inverted_headers_present; a request WITHOUT x-internal is denied by the intention's
   meaning ("x-internal is not yes") and allowed by the RBAC (Envoy ignores a value matcher on an
   absent header even when inverted).  The same request carrying `x-internal: no` is denied by both. *)
Theorem C14_inverted_header_refuted : forall re,
  well_formed w_cfg w_inv_ixns /\ partitions_literal w_cfg w_inv_ixns
  /\ hosts_authentic w_cfg w_inv_ixns (w_conn "web")
  /\ ~ inverted_headers_present w_inv_ixns w_req /\ inverted_headers_present w_inv_ixns w_req_with
  /\ eval_rbac re (translate w_cfg w_inv_ixns false true) (w_conn "web") w_req = true
  /\ intention_allows re w_cfg w_inv_ixns false true (w_conn "web") w_req = false
  /\ eval_rbac re (translate w_cfg w_inv_ixns false true) (w_conn "web") w_req_with = false
  /\ intention_allows re w_cfg w_inv_ixns false true (w_conn "web") w_req_with = false.
Proof.
  intros re. destruct inverted_header_witness_hyps as (H1 & H2 & H3 & _ & H5 & H6).
  destruct (inverted_header_witness re) as (H7 & H8 & H9 & H10).
  exact (conj H1 (conj H2 (conj H3 (conj H5 (conj H6 (conj H7 (conj H8 (conj H9 H10)))))))).
Qed.

Theorem C14_equiv_false : forall re, ~ C14_equiv re.
Proof.
  intros re H. destruct inverted_header_witness_hyps as (H1 & H2 & H3 & _). destruct (inverted_header_witness re) as (H7 & H8 & _).
  rewrite (H w_cfg w_inv_ixns false true (w_conn "web") w_req H1 H2 H3) in H7. congruence.
Qed.

Section C14.
  Variable re : string -> string -> bool.
  (* assumed of the regex engine: an alternation of valid method names matches exactly its members *)
  Hypothesis re_methods : re_alternation re.

  (* The generated RBAC decides every connection and request as the precedence rules do, for
     arbitrary namespace and service names and ANY mix of sources, destinations and precedences
     (no hypothesis on the precedence order since 214d73a).  inverted_headers_present is exact per
     request and backed by the open finding above; partitions_literal / hosts_authentic are backed
     by the open finding "trust domain and partition spliced unquoted". *)
  Theorem C14_equiv_partial : forall cfg ixns dflt http conn req,
    well_formed cfg ixns -> partitions_literal cfg ixns -> hosts_authentic cfg ixns conn ->
    inverted_headers_present ixns req ->
    eval_rbac re (translate cfg ixns dflt http) conn req
    = intention_allows re cfg ixns dflt http conn req.
  Proof. exact (equiv re re_methods). Qed.

  (* convertPermission: the Envoy permission matches exactly the requests the intention permission
     matches, provided the request carries the headers inverted value matchers ask about
     (false without that: C14_inverted_header_refuted) *)
  Theorem C14_permission_exact : forall req p,
    methods_ok p -> inv_ok p req -> eval_perm re req (convert_permission p) = ixn_perm_matches re p req.
  Proof. exact (convert_permission_sem re re_methods). Qed.
End C14.

(* (finding 9, repaired in /repo 214d73a) `* -> web` deny (precedence 8) above `api -> *` allow
   (precedence 6): the translator before the repair allowed `api` under default deny (and, with the
   actions swapped, denied it under default allow); the translator of /repo HEAD agrees with precedence. *)
Example C14_superset_regression : forall re,
  well_formed w_cfg w_superset /\ partitions_literal w_cfg w_superset /\ hosts_authentic w_cfg w_superset (w_conn "api")
  /\ eval_rbac re (translate_before_214d73a w_cfg w_superset false false) (w_conn "api") w_req = true
  /\ intention_allows re w_cfg w_superset false false (w_conn "api") w_req = false
  /\ eval_rbac re (translate w_cfg w_superset false false) (w_conn "api") w_req = false
  /\ eval_rbac re (translate_before_214d73a w_cfg w_superset' true false) (w_conn "api") w_req = false
  /\ intention_allows re w_cfg w_superset' true false (w_conn "api") w_req = true
  /\ eval_rbac re (translate w_cfg w_superset' true false) (w_conn "api") w_req = true.
Proof.
  intros re. destruct superset_witness_hyps as (H1 & H2 & H3 & _).
  destruct (superset_witness re) as (A1 & A2). destruct (superset_witness_default_allow re) as (B1 & B2).
  destruct (superset_repaired re) as (C1 & C2).
  exact (conj H1 (conj H2 (conj H3 (conj A1 (conj A2 (conj C1 (conj B1 (conj B2 C2)))))))).
Qed.

(* (finding 8, repaired in /repo d976793) `web.v1 -> db` allow, default deny: `webxv1` is denied by
   both sides and `web.v1` allowed by both. *)
Example C14_regex_regression : forall re,
  well_formed w_cfg w_regex /\ partitions_literal w_cfg w_regex
  /\ hosts_authentic w_cfg w_regex (w_conn "webxv1") /\ inverted_headers_present w_regex w_req
  /\ eval_rbac re (translate w_cfg w_regex false false) (w_conn "webxv1") w_req = false
  /\ intention_allows re w_cfg w_regex false false (w_conn "webxv1") w_req = false
  /\ eval_rbac re (translate w_cfg w_regex false false) (w_conn "web.v1") w_req = true
  /\ intention_allows re w_cfg w_regex false false (w_conn "web.v1") w_req = true.
Proof.
  intros re. destruct regex_list_hyps as (H1 & H2 & H3 & _). destruct (regex_regression re) as (H5 & H6 & H7 & H8).
  exact (conj H1 (conj H2 (conj H3 (conj (w_regex_inv w_req) (conj H5 (conj H6 (conj H7 H8))))))).
Qed.

(* the reference is "first match in consul's precedence order" *)
Theorem C14_reference_is_first_sorted_match : forall P ixns,
  find P (sort_ixns ixns) = best P ixns None.
Proof. exact find_sorted_is_best. Qed.

(* makeSpiffePattern: the pattern matches exactly the URIs of the identities the source covers, whatever
   characters namespace and service name contain *)
Theorem C14_pattern_exact : forall s u,
  wf_src s -> lit_src s -> raw_match (s_td s) (u_host u) = (s_td s =? u_host u)%string ->
  pat_match (spiffe_pat s) u = covers_uri s u.
Proof. exact spiffe_pat_covers. Qed.

(* regexp.QuoteMeta as used there: the quoted text, read as a regex, matches exactly the original text *)
Theorem C14_quote_meta_exact : forall s w, raw_match (quote_meta s) w = (s =? w)%string.
Proof. exact raw_match_quote_meta. Qed.

(* ixnSourceMatches is sound (what removeSourcePrecedence, simplifyNotSourceSlice and
   removeShadowedSourceIntentions rely on) *)
Theorem C14_source_match_sound : forall cfg conn xf a b,
  consistent a b -> ixn_source_matches a b = true ->
  src_matches cfg xf a conn = true -> src_matches cfg xf b conn = true.
Proof. exact src_matches_subset. Qed.

(* Non-vacuity *)
Theorem C14_regex_hypothesis_satisfiable : re_alternation re_inst.
Proof. exact re_inst_alternation. Qed.

Example C14_hypotheses_satisfiable :
  well_formed ex_cfg ex_ixns /\ partitions_literal ex_cfg ex_ixns
  /\ hosts_authentic ex_cfg ex_ixns ex_conn /\ forall req, inverted_headers_present ex_ixns req.
Proof.
  destruct example_hyps as (H1 & H2 & H3 & _). exact (conj H1 (conj H2 (conj H3 ex_ixns_inv))).
Qed.

Example C14_instance : forall req,
  eval_rbac re_inst (translate ex_cfg ex_ixns false true) ex_conn req
  = intention_allows re_inst ex_cfg ex_ixns false true ex_conn req.
Proof. exact instance_equiv. Qed.

(* a list OUTSIDE the old source_monotone hypothesis (the superset witness), every default and request *)
Example C14_instance_mixed_precedence : forall dflt req,
  eval_rbac re_inst (translate w_cfg w_superset dflt false) (w_conn "api") req
  = intention_allows re_inst w_cfg w_superset dflt false (w_conn "api") req.
Proof. exact instance_repaired. Qed.

Example C14_source_match_pair :
  let a := RSvc "default" "default" "web" "" "" "test.consul" in
  let b := RSvc "default" "default" "*" "" "" "test.consul" in
  consistent a b /\ ixn_source_matches a b = true /\ src_matches w_cfg false a (w_conn "web") = true.
Proof. exact ex_source_match_pair. Qed.

Print Assumptions C14_inverted_header_refuted.
Print Assumptions C14_equiv_false.
Print Assumptions C14_equiv_partial.
Print Assumptions C14_permission_exact.
Print Assumptions C14_superset_regression.
Print Assumptions C14_regex_regression.
Print Assumptions C14_reference_is_first_sorted_match.
Print Assumptions C14_pattern_exact.
Print Assumptions C14_quote_meta_exact.
Print Assumptions C14_source_match_sound.
Print Assumptions C14_regex_hypothesis_satisfiable.
Print Assumptions C14_hypotheses_satisfiable.
Print Assumptions C14_instance.
Print Assumptions C14_instance_mixed_precedence.
Print Assumptions C14_source_match_pair.
