(* C14 — the proxy authorization policy enforces exactly the intention decision.
   Theorems only; each closed by an application of a lemma of RBAC/{Order,Patterns,Perms,Proofs,Instance}.v.

   Vocabulary (RBAC/Model.v, RBAC/Proofs.v):
     translate cfg ixns dflt http      the model of makeRBACRules: the intentions matching one destination -> Envoy RBAC
     eval_rbac re rbac conn req        Envoy's verdict (ALLOW: some policy matches; DENY: none matches)
     intention_allows re cfg ixns dflt http conn req
                                       the reference: the matching intention of highest precedence decides
                                       (L7: its first matching permission; none: the default policy); no intention: default
     re                                the regex engine (safe_regex) for user-supplied patterns and method alternations
     well_formed                       validated input: valid HTTP methods, non-empty names, wildcards only trailing,
                                       peers have pairwise distinct trust domains
     hosts_authentic                   the trust domains of the presented URIs were authenticated by TLS
     partitions_literal                no partition a source stands for contains a regex metacharacter (namespace and
                                       service names are arbitrary: makeSpiffePattern quotes them since /repo d976793)
     source_monotone                   a strictly narrower source has strictly higher precedence
     inverted_headers_present          the request carries every header that an inverted value matcher (Exact/Prefix/
                                       Suffix/Contains/Regex with Invert) of some permission asks about
     translate_repaired                translate with the repair proposed in fixes/C14-drop-shadowed-source-intentions.patch
                                       (an intention whose source is strictly inside a kept higher-precedence source is dropped) *)
From Verif Require Import Base.Prelude.
From Verif Require Import RBAC.Model.
From Verif Require Import RBAC.Order.
From Verif Require Import RBAC.Patterns.
From Verif Require Import RBAC.Perms.
From Verif Require Import RBAC.Proofs.
From Verif Require Import RBAC.Instance.

(* The property at full strength: for every valid intention list, default policy, listener
   kind, connection and request.  It is FALSE of the faithful model, for every regex engine
   (C14_equiv_false), in two ways: C14_superset_refuted and C14_inverted_header_refuted.  A third way it used to fail (names spliced into
   the regex unescaped) was repaired in /repo d976793 and is kept as a regression example. *)
Definition C14_equiv (re : string -> string -> bool) : Prop :=
  forall cfg ixns dflt http conn req,
    well_formed cfg ixns -> partitions_literal cfg ixns -> hosts_authentic cfg ixns conn ->
    eval_rbac re (translate cfg ixns dflt http) conn req
    = intention_allows re cfg ixns dflt http conn req.

(* (finding 9) `* -> web` deny (precedence 8) above `api -> *` allow (precedence 6), default
   deny: every hypothesis below holds except source_monotone; precedence denies `api`, the
   generated RBAC allows it. *)
Theorem C14_superset_refuted : forall re,
  well_formed w_cfg w_superset /\ partitions_literal w_cfg w_superset
  /\ hosts_authentic w_cfg w_superset (w_conn "api") /\ ~ source_monotone w_cfg w_superset
  /\ eval_rbac re (translate w_cfg w_superset false false) (w_conn "api") w_req = true
  /\ intention_allows re w_cfg w_superset false false (w_conn "api") w_req = false.
Proof.
  intros re. destruct superset_witness_hyps as (H1 & H2 & H3 & H4). destruct (superset_witness re) as (H5 & H6).
  exact (conj H1 (conj H2 (conj H3 (conj H4 (conj H5 H6))))).
Qed.

(* the same defect under default allow denies what precedence allows *)
Theorem C14_superset_refuted_default_allow : forall re,
  eval_rbac re (translate w_cfg w_superset' true false) (w_conn "api") w_req = false
  /\ intention_allows re w_cfg w_superset' true false (w_conn "api") w_req = true.
Proof. exact superset_witness_default_allow. Qed.

(* (finding 8, repaired in /repo d976793) `web.v1 -> db` allow, default deny: the list meets every
   hypothesis of C14_equiv_partial, `webxv1` is denied by both sides and `web.v1` allowed by both. *)
Example C14_regex_regression : forall re,
  well_formed w_cfg w_regex /\ partitions_literal w_cfg w_regex
  /\ hosts_authentic w_cfg w_regex (w_conn "webxv1") /\ source_monotone w_cfg w_regex
  /\ inverted_headers_present w_regex w_req
  /\ eval_rbac re (translate w_cfg w_regex false false) (w_conn "webxv1") w_req = false
  /\ intention_allows re w_cfg w_regex false false (w_conn "webxv1") w_req = false
  /\ eval_rbac re (translate w_cfg w_regex false false) (w_conn "web.v1") w_req = true
  /\ intention_allows re w_cfg w_regex false false (w_conn "web.v1") w_req = true.
Proof.
  intros re. destruct regex_list_hyps as (H1 & H2 & H3 & H4). destruct (regex_regression re) as (H5 & H6 & H7 & H8).
  exact (conj H1 (conj H2 (conj H3 (conj H4 (conj (w_regex_inv w_req) (conj H5 (conj H6 (conj H7 H8)))))))).
Qed.

(* (finding: inverted header matcher, header absent) `web -> db` with permissions
   [deny {x-internal Exact "yes" Invert}; allow {PathPrefix "/"}], default deny, HTTP: every hypothesis
   holds except inverted_headers_present; a request WITHOUT x-internal is denied by the intention's
   meaning ("x-internal is not yes") and allowed by the RBAC (Envoy ignores a value matcher on an
   absent header even when inverted).  The same request carrying `x-internal: no` is denied by both. *)
Theorem C14_inverted_header_refuted : forall re,
  well_formed w_cfg w_inv_ixns /\ partitions_literal w_cfg w_inv_ixns
  /\ hosts_authentic w_cfg w_inv_ixns (w_conn "web") /\ source_monotone w_cfg w_inv_ixns
  /\ ~ inverted_headers_present w_inv_ixns w_req /\ inverted_headers_present w_inv_ixns w_req_with
  /\ eval_rbac re (translate w_cfg w_inv_ixns false true) (w_conn "web") w_req = true
  /\ intention_allows re w_cfg w_inv_ixns false true (w_conn "web") w_req = false
  /\ eval_rbac re (translate w_cfg w_inv_ixns false true) (w_conn "web") w_req_with = false
  /\ intention_allows re w_cfg w_inv_ixns false true (w_conn "web") w_req_with = false.
Proof.
  intros re. destruct inverted_header_witness_hyps as (H1 & H2 & H3 & H4 & H5 & H6).
  destruct (inverted_header_witness re) as (H7 & H8 & H9 & H10).
  exact (conj H1 (conj H2 (conj H3 (conj H4 (conj H5 (conj H6 (conj H7 (conj H8 (conj H9 H10))))))))).
Qed.

Theorem C14_equiv_false : forall re, ~ C14_equiv re.
Proof.
  intros re H. destruct superset_witness_hyps as (H1 & H2 & H3 & _). destruct (superset_witness re) as (H5 & H6).
  rewrite (H w_cfg w_superset false false (w_conn "api") w_req H1 H2 H3) in H5. congruence.
Qed.

Section C14.
  Variable re : string -> string -> bool.
  (* assumed of the regex engine: an alternation of valid method names matches exactly its members *)
  Hypothesis re_methods : re_alternation re.

  (* Under hypotheses that exclude the two failing classes (source_monotone: sufficient, not
     necessary - a non-monotone pair with equal decisions is harmless; inverted_headers_present:
     exact per request), the generated RBAC decides every connection and request as the
     precedence rules do, for arbitrary namespace and service names. *)
  Theorem C14_equiv_partial : forall cfg ixns dflt http conn req,
    well_formed cfg ixns -> partitions_literal cfg ixns -> hosts_authentic cfg ixns conn ->
    inverted_headers_present ixns req ->
    source_monotone cfg ixns ->
    eval_rbac re (translate cfg ixns dflt http) conn req
    = intention_allows re cfg ixns dflt http conn req.
  Proof. exact (equiv_partial re re_methods). Qed.

  (* Without source_monotone the error has one direction only: whenever precedence yields the
     action that is NOT the default, so does the RBAC (default deny: nothing precedence
     allows is denied; default allow: nothing precedence denies is allowed). *)
  Theorem C14_nondefault_kept : forall cfg ixns dflt http conn req,
    well_formed cfg ixns -> partitions_literal cfg ixns -> hosts_authentic cfg ixns conn ->
    inverted_headers_present ixns req ->
    intention_allows re cfg ixns dflt http conn req = negb dflt ->
    eval_rbac re (translate cfg ixns dflt http) conn req = negb dflt.
  Proof. exact (nondefault_kept re re_methods). Qed.

  (* convertPermission: the Envoy permission matches exactly the requests the intention permission matches *)
  (* With the repair of removeSourcePrecedence's blind spot the statement holds WITHOUT any
     hypothesis on the precedence order: the open superset finding is exactly what the repair removes. *)
  Theorem C14_equiv_repaired : forall cfg ixns dflt http conn req,
    well_formed cfg ixns -> partitions_literal cfg ixns -> hosts_authentic cfg ixns conn ->
    inverted_headers_present ixns req ->
    eval_rbac re (translate_repaired cfg ixns dflt http) conn req
    = intention_allows re cfg ixns dflt http conn req.
  Proof. exact (equiv_repaired re re_methods). Qed.

  (* convertPermission: the Envoy permission matches exactly the requests the intention permission
     matches, provided the request carries the headers inverted value matchers ask about
     (false without that: C14_inverted_header_refuted) *)
  Theorem C14_permission_exact : forall req p,
    methods_ok p -> inv_ok p req -> eval_perm re req (convert_permission p) = ixn_perm_matches re p req.
  Proof. exact (convert_permission_sem re re_methods). Qed.
End C14.

(* the repair removes the defect on both superset witnesses *)
Example C14_superset_repaired : forall re,
  eval_rbac re (translate_repaired w_cfg w_superset false false) (w_conn "api") w_req = false
  /\ eval_rbac re (translate_repaired w_cfg w_superset' true false) (w_conn "api") w_req = true.
Proof. exact superset_repaired. Qed.

(* source_monotone holds whenever all intentions name the same destination (and carry the
   precedence Intention.UpdatePrecedence gives them): the failing class needs a
   wildcard-destination intention next to an exact-destination one. *)
Theorem C14_same_destination_monotone : forall cfg ixns,
  (forall i, In i ixns -> i_prec i = precedence_of i) ->
  (forall i j, In i ixns -> In j ixns -> i_dst_ns i = i_dst_ns j /\ i_dst_name i = i_dst_name j) ->
  source_monotone cfg ixns.
Proof. exact same_destination_monotone. Qed.

(* the reference is "first match in consul's precedence order": the list sorted by
   IntentionPrecedenceSorter, searched from the front *)
Theorem C14_reference_is_first_sorted_match : forall P ixns,
  find P (sort_ixns ixns) = best P ixns None.
Proof. exact find_sorted_is_best. Qed.

(* makeSpiffePattern: the pattern matches exactly the URIs of the identities the source covers, whatever
   characters namespace and service name contain *)
Theorem C14_pattern_exact : forall s u,
  wf_src s -> lit_src s -> raw_match (s_td s) (u_host u) = (s_td s =? u_host u)%string ->
  pat_match (spiffe_pat s) u = covers_uri s u.
Proof. exact spiffe_pat_covers. Qed.

(* regexp.QuoteMeta as used there: the quoted text, read as a regex, matches exactly the original text *)
Theorem C14_quote_meta_exact : forall s w, raw_match (quote_meta s) w = (s =? w)%string.
Proof. exact raw_match_quote_meta. Qed.

(* ixnSourceMatches is sound (what removeSourcePrecedence and simplifyNotSourceSlice rely on) *)
Theorem C14_source_match_sound : forall cfg conn xf a b,
  consistent a b -> ixn_source_matches a b = true ->
  src_matches cfg xf a conn = true -> src_matches cfg xf b conn = true.
Proof. exact src_matches_subset. Qed.

(* Non-vacuity: a regex engine meeting the hypothesis exists, and a list with exact, wildcard,
   peered and L7 intentions, seen through the mesh gateway, meets all hypotheses together. *)
Theorem C14_regex_hypothesis_satisfiable : re_alternation re_inst.
Proof. exact re_inst_alternation. Qed.

Example C14_hypotheses_satisfiable :
  well_formed ex_cfg ex_ixns /\ partitions_literal ex_cfg ex_ixns
  /\ hosts_authentic ex_cfg ex_ixns ex_conn /\ source_monotone ex_cfg ex_ixns
  /\ forall req, inverted_headers_present ex_ixns req.
Proof.
  destruct example_hyps as (H1 & H2 & H3 & H4). exact (conj H1 (conj H2 (conj H3 (conj H4 ex_ixns_inv)))).
Qed.

(* source_monotone is also met by lists with MIXED destinations (outside C14_same_destination_monotone) *)
Example C14_monotone_mixed_destinations : source_monotone w_cfg ex_mixed
  /\ exists i j, In i ex_mixed /\ In j ex_mixed /\ i_dst_name i <> i_dst_name j.
Proof. exact ex_mixed_monotone. Qed.

(* the hypotheses of C14_source_match_sound on a concrete pair *)
Example C14_source_match_pair :
  let a := RSvc "default" "default" "web" "" "" "test.consul" in
  let b := RSvc "default" "default" "*" "" "" "test.consul" in
  consistent a b /\ ixn_source_matches a b = true /\ src_matches w_cfg false a (w_conn "web") = true.
Proof. exact ex_source_match_pair. Qed.

(* the repaired translator on the superset witness list: every default and request *)
Example C14_instance_repaired : forall dflt req,
  eval_rbac re_inst (translate_repaired w_cfg w_superset dflt false) (w_conn "api") req
  = intention_allows re_inst w_cfg w_superset dflt false (w_conn "api") req.
Proof. exact instance_repaired. Qed.

Example C14_instance : forall req,
  eval_rbac re_inst (translate ex_cfg ex_ixns false true) ex_conn req
  = intention_allows re_inst ex_cfg ex_ixns false true ex_conn req.
Proof. exact instance_equiv. Qed.

Print Assumptions C14_superset_refuted.
Print Assumptions C14_superset_refuted_default_allow.
Print Assumptions C14_regex_regression.
Print Assumptions C14_inverted_header_refuted.
Print Assumptions C14_equiv_false.
Print Assumptions C14_equiv_partial.
Print Assumptions C14_nondefault_kept.
Print Assumptions C14_equiv_repaired.
Print Assumptions C14_superset_repaired.
Print Assumptions C14_permission_exact.
Print Assumptions C14_same_destination_monotone.
Print Assumptions C14_reference_is_first_sorted_match.
Print Assumptions C14_pattern_exact.
Print Assumptions C14_quote_meta_exact.
Print Assumptions C14_source_match_sound.
Print Assumptions C14_regex_hypothesis_satisfiable.
Print Assumptions C14_hypotheses_satisfiable.
Print Assumptions C14_instance.
Print Assumptions C14_monotone_mixed_destinations.
Print Assumptions C14_source_match_pair.
Print Assumptions C14_instance_repaired.
