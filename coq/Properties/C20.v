(* C20 — snapshot archives: exact round trip, corruption always detected.
   Theorems only; each closed by an application of a lemma of Archive/Proofs.v or Archive/Decide.v.
   The hypotheses each theorem really needs are the ones passed in its proof line. *)
From Verif Require Import Base.Prelude Archive.Model Archive.Proofs Archive.Decide Archive.Instance.

Section C20.
  Context {digest : Type} (deqb : digest -> digest -> bool) (H : bytes -> digest).
  Context {Meta : Type} (meta0 : Meta) (enc_meta : Meta -> bytes)
          (dec_meta : Meta -> bytes -> option Meta).
  Context (print_sums : list (digest * string) -> bytes)
          (parse_sums : bytes -> list (option (digest * string)))
          (scan_err : bytes -> bool).
  (* assumed of the external pieces (SHA-256, encoding/json, bufio.Scanner+fmt.Sscanf);
     each is also tested directly against the Go standard library on every run of the check *)
  Hypothesis deqb_spec : forall a b, deqb a b = true <-> a = b.
  Hypothesis H_inj : forall a b, H a = H b -> a = b.
  Hypothesis dec_enc : forall m, dec_meta meta0 (enc_meta m) = Some m.
  Hypothesis dec_empty : forall m, dec_meta m [] = None.
  Hypothesis enc_nonempty : forall m, enc_meta m <> [].
  Hypothesis dec_pieces : forall m a b c md md',
    a ++ b ++ c = enc_meta m -> a <> [] -> b <> [] ->
    dec_meta md a = None \/ dec_meta md' b = None.
  Hypothesis parse_print : forall ord m s,
    parse_sums (print_sums (sums_lines H enc_meta ord m s)) = map Some (sums_lines H enc_meta ord m s).
  Hypothesis scan_print : forall ord m s,
    scan_err (print_sums (sums_lines H enc_meta ord m s)) = false.
  Hypothesis parse_empty : parse_sums [] = [].

  Notation read := (read deqb H meta0 dec_meta parse_sums scan_err).
  Notation read_gz := (read_gz deqb H meta0 dec_meta parse_sums scan_err).
  Notation write := (write H enc_meta print_sums).

  (* ---- (a) saving and reading back yields the same state bytes and metadata ---- *)
  Theorem C20_roundtrip : forall ord m s, read (write ord m s) true = Ok (m, s).
  Proof. exact (roundtrip deqb H meta0 enc_meta dec_meta print_sums parse_sums scan_err deqb_spec dec_enc parse_print scan_print). Qed.

  (* the same per metadata value, without assuming the JSON round trip of every value: what is read
     back is the state bytes and whatever encoding/json decodes from its own encoding of m *)
  Theorem C20_roundtrip_partial : forall ord m s m',
    dec_meta meta0 (enc_meta m) = Some m' -> read (write ord m s) true = Ok (m', s).
  Proof. exact (roundtrip_codec deqb H meta0 enc_meta dec_meta print_sums parse_sums scan_err deqb_spec parse_print scan_print). Qed.

  (* OPEN FINDING (known_findings.json): for a metadata value that encoding/json does not give back
     (a string that is not valid UTF-8 is stored with U+FFFD) the written archive verifies and reads
     back as something else: [dec_enc] is false of the real codec for exactly these values *)
  Theorem C20_roundtrip_refuted : forall ord m s m',
    dec_meta meta0 (enc_meta m) = Some m' -> m' <> m ->
    exists r, read (write ord m s) true = Ok r /\ r <> (m, s).
  Proof. exact (roundtrip_lossy deqb H meta0 enc_meta dec_meta print_sums parse_sums scan_err deqb_spec parse_print scan_print). Qed.

  (* ---- any single corruption of a written archive is rejected, or extracts exactly the original ---- *)
  Theorem C20_tamper : forall ord m s L' t' r,
    corrupt (write ord m s) L' t' -> read L' t' = Ok r -> r = (m, s).
  Proof. exact (tamper deqb H meta0 enc_meta dec_meta print_sums parse_sums scan_err deqb_spec H_inj dec_enc dec_empty parse_print parse_empty). Qed.

  (* ---- (b) altered state or metadata bytes are always rejected ---- *)
  Theorem C20_payload_change_rejected : forall ord m s pre mb post d t r,
    write ord m s = pre ++ mb :: post -> m_name mb <> n_sums -> d <> m_data mb ->
    read (pre ++ Member (m_name mb) d true :: post) t = Ok r -> False.
  Proof. exact (payload_change_rejected deqb H meta0 enc_meta dec_meta print_sums parse_sums scan_err deqb_spec H_inj parse_print). Qed.

  (* for EVERY member list (members cut, repeated, reordered at will): acceptance with the written
     checksum bytes means the original state bytes AND the original decoded metadata *)
  Theorem C20_accept_sound : forall ord m s L t m' s',
    cat n_sums L = print_sums (sums_lines H enc_meta ord m s) ->
    read L t = Ok (m', s') ->
    m' = m /\ s' = s /\ cat n_state L = s /\ cat n_meta L = enc_meta m.
  Proof. exact (accept_sound deqb H meta0 enc_meta dec_meta print_sums parse_sums scan_err deqb_spec H_inj dec_enc dec_empty enc_nonempty dec_pieces parse_print). Qed.

  (* for EVERY member list: a recorded checksum that is not the hash of the member's bytes *)
  Theorem C20_wrong_meta_checksum_rejected : forall L t r d,
    In (Some (d, n_meta)) (parse_sums (cat n_sums L)) -> d <> H (cat n_meta L) -> read L t = Ok r -> False.
  Proof. exact (wrong_meta_sum_rejected deqb H meta0 dec_meta parse_sums scan_err deqb_spec). Qed.

  Theorem C20_wrong_state_checksum_rejected : forall L t r d,
    In (Some (d, n_state)) (parse_sums (cat n_sums L)) -> d <> H (cat n_state L) -> read L t = Ok r -> False.
  Proof. exact (wrong_state_sum_rejected deqb H meta0 dec_meta parse_sums scan_err deqb_spec). Qed.

  (* ---- (c) cut short before the last member is complete: every member list ---- *)
  Theorem C20_cut_short_rejected : forall L r, read L false = Ok r -> False.
  Proof. exact (incomplete_rejected deqb H meta0 dec_meta parse_sums scan_err deqb_spec). Qed.

  Theorem C20_damaged_member_rejected : forall L t r,
    (exists mb, In mb L /\ m_intact mb = false) -> read L t = Ok r -> False.
  Proof. exact (damaged_member_rejected deqb H meta0 dec_meta parse_sums scan_err deqb_spec). Qed.

  (* a written archive that stops, even cleanly between two members, before its last member *)
  Theorem C20_clean_cut_rejected : forall ord m s pre post t r,
    write ord m s = pre ++ post -> post <> [] -> read pre t = Ok r -> False.
  Proof. exact (clean_cut_rejected deqb H meta0 enc_meta dec_meta print_sums parse_sums scan_err deqb_spec parse_empty). Qed.

  (* ---- (d) lacks a member: for EVERY member list and terminator ---- *)
  Theorem C20_lacks_meta_rejected : forall L t r, datas n_meta L = [] -> read L t = Ok r -> False.
  Proof. exact (no_meta_rejected deqb H meta0 dec_meta parse_sums scan_err deqb_spec). Qed.

  Theorem C20_lacks_state_rejected : forall L t r, datas n_state L = [] -> read L t = Ok r -> False.
  Proof. exact (no_state_rejected deqb H meta0 dec_meta parse_sums scan_err deqb_spec). Qed.

  Theorem C20_lacks_sums_member_rejected : forall L t r, datas n_sums L = [] -> read L t = Ok r -> False.
  Proof. exact (no_sums_member_rejected deqb H meta0 dec_meta parse_sums scan_err deqb_spec parse_empty). Qed.

  (* whichever member of a written archive is removed (the state.bin of an EMPTY state included:
     all its hashes match, it is refused because the member never appeared -- the defect recorded
     as fixed, 782406e, in known_findings.json) *)
  Theorem C20_remove_rejected : forall ord m s pre mb post t r,
    write ord m s = pre ++ mb :: post -> read (pre ++ post) t = Ok r -> False.
  Proof. exact (remove_rejected deqb H meta0 enc_meta dec_meta print_sums parse_sums scan_err deqb_spec parse_empty). Qed.

  Theorem C20_missing_state_empty_refused : forall ord m,
    read [Member n_meta (enc_meta m) true; Member n_sums (print_sums (sums_lines H enc_meta ord m [])) true] true
      = Err ENotInArchive.
  Proof. exact (missing_state_empty_refused deqb H meta0 enc_meta dec_meta print_sums parse_sums scan_err deqb_spec dec_enc parse_print scan_print). Qed.

  (* ---- (e) lacks its checksum: for EVERY member list and terminator ---- *)
  (* the checksum bytes are empty (member absent, or present and empty) *)
  Theorem C20_lacks_sums_rejected : forall L t r, cat n_sums L = [] -> read L t = Ok r -> False.
  Proof. exact (no_sums_rejected deqb H meta0 dec_meta parse_sums scan_err deqb_spec parse_empty). Qed.

  (* no parsed checksum line names the member *)
  Theorem C20_lacks_meta_checksum_rejected : forall L t r,
    (forall d, ~ In (Some (d, n_meta)) (parse_sums (cat n_sums L))) -> read L t = Ok r -> False.
  Proof. exact (no_meta_line_rejected deqb H meta0 dec_meta parse_sums scan_err deqb_spec). Qed.

  Theorem C20_lacks_state_checksum_rejected : forall L t r,
    (forall d, ~ In (Some (d, n_state)) (parse_sums (cat n_sums L))) -> read L t = Ok r -> False.
  Proof. exact (no_state_line_rejected deqb H meta0 dec_meta parse_sums scan_err deqb_spec). Qed.

  (* ---- (f) an unexpected member: every member list ---- *)
  Theorem C20_unexpected_member_rejected : forall L t r,
    (exists mb, In mb L /\ ~ expected (m_name mb)) -> read L t = Ok r -> False.
  Proof. exact (unexpected_member_rejected deqb H meta0 dec_meta parse_sums scan_err deqb_spec). Qed.

  (* a member of a written archive renamed to ANY other name (the three expected ones included) *)
  Theorem C20_rename_rejected : forall ord m s pre mb post n' t r,
    write ord m s = pre ++ mb :: post -> n' <> m_name mb ->
    read (pre ++ Member n' (m_data mb) true :: post) t = Ok r -> False.
  Proof. exact (rename_rejected deqb H meta0 enc_meta dec_meta print_sums parse_sums scan_err deqb_spec parse_empty). Qed.

  (* LIMIT made explicit: an injected member with an EXPECTED name (a second SHA256SUMS, an empty
     extra state.bin, a state.bin that is not a regular file) may be accepted; what is extracted is
     then exactly the original (Instance.ex_corrupt_accepted_* are accepted instances) *)
  Theorem C20_expected_extra_member_same_extraction : forall ord m s x L' r,
    inserted x (write ord m s) L' -> expected (m_name x) -> read L' true = Ok r -> r = (m, s).
  Proof. exact (expected_extra_member_same_extraction deqb H meta0 enc_meta dec_meta print_sums parse_sums scan_err deqb_spec H_inj dec_enc dec_empty parse_print parse_empty). Qed.

  (* ---- bytes to members: the decidable test Run/C20.v evaluates on every enumerated fault ---- *)
  (* plain tar: the damaged view is one [corrupt] step from the view of the intact archive *)
  Theorem C20_enumerated_fault_sound : forall ord m s L' t r,
    corruptb (write ord m s) L' t = true -> read L' t = Ok r -> r = (m, s).
  Proof. exact (corruptb_tamper deqb H meta0 enc_meta dec_meta print_sums parse_sums scan_err deqb_spec H_inj dec_enc dec_empty parse_print parse_empty). Qed.

  (* gzip-wrapped: header refused, trailer wrong, stream cut, a member cut, or as above *)
  Theorem C20_enumerated_gzip_fault_sound : forall ord m s hdr L' t tr r,
    faultb (write ord m s) hdr L' t tr = true -> read_gz hdr L' t tr = Ok r -> r = (m, s).
  Proof. exact (faultb_sound deqb H meta0 enc_meta dec_meta print_sums parse_sums scan_err deqb_spec H_inj dec_enc dec_empty parse_print parse_empty). Qed.

  (* ---- (g) restore is fed only what the reader accepted ---- *)
  Theorem C20_verify_before_restore : forall hdr L t tr r,
    restore deqb H meta0 dec_meta parse_sums scan_err hdr L t tr = Some r ->
    hdr = true /\ tr = true /\ read L t = Ok r.
  Proof. exact (verify_before_restore deqb H meta0 dec_meta parse_sums scan_err). Qed.
End C20.

(* the decidable test is sound for the corruption relation, and the intact view passes it *)
Theorem C20_corruptb_sound : forall L L' t, corruptb L L' t = true -> corrupt L L' t.
Proof. exact corruptb_sound. Qed.

(* Non-vacuity: every Section hypothesis is satisfied by one concrete instance (C20_accept_sound
   uses all of them but scan_print, C20_roundtrip uses scan_print), on which the theorems compute. *)
Theorem C20_hypotheses_satisfiable : forall ord m s L t m' s',
  cat n_sums L = iprint (sums_lines iH ienc ord m s) ->
  iread L t = Ok (m', s') -> m' = m /\ s' = s /\ cat n_state L = s /\ cat n_meta L = ienc m.
Proof. exact instance_accept_sound. Qed.

Theorem C20_hypotheses_satisfiable_roundtrip : forall ord m s, iread (iwrite ord m s) true = Ok (m, s).
Proof. exact instance_roundtrip. Qed.

(* The non-trivial branch of C20_tamper is inhabited: a corrupted archive (an empty state.bin
   injected) that differs from the written one, IS accepted, and extracts the original. *)
Theorem C20_corrupt_accepted_example :
  corrupt (iwrite true ex_m ex_s) ex_inj_state true /\ ex_inj_state <> iwrite true ex_m ex_s /\
  iread ex_inj_state true = Ok (ex_m, ex_s).
Proof. exact ex_corrupt_accepted_inject_state. Qed.

(* the premises of C20_roundtrip_refuted are met by a concrete lossy codec *)
Theorem C20_roundtrip_refuted_witness :
  read bytes_eqb iH imeta0 idec iparse iscan (write iH lenc iprint true [255]%N [7]%N) true = Ok ([253]%N, [7]%N).
Proof. exact ex_lossy_roundtrip. Qed.

Print Assumptions C20_roundtrip.
Print Assumptions C20_roundtrip_refuted_witness.
Print Assumptions C20_roundtrip_partial.
Print Assumptions C20_roundtrip_refuted.
Print Assumptions C20_tamper.
Print Assumptions C20_payload_change_rejected.
Print Assumptions C20_accept_sound.
Print Assumptions C20_wrong_meta_checksum_rejected.
Print Assumptions C20_wrong_state_checksum_rejected.
Print Assumptions C20_cut_short_rejected.
Print Assumptions C20_damaged_member_rejected.
Print Assumptions C20_clean_cut_rejected.
Print Assumptions C20_lacks_meta_rejected.
Print Assumptions C20_lacks_state_rejected.
Print Assumptions C20_lacks_sums_member_rejected.
Print Assumptions C20_remove_rejected.
Print Assumptions C20_missing_state_empty_refused.
Print Assumptions C20_lacks_sums_rejected.
Print Assumptions C20_lacks_meta_checksum_rejected.
Print Assumptions C20_lacks_state_checksum_rejected.
Print Assumptions C20_unexpected_member_rejected.
Print Assumptions C20_rename_rejected.
Print Assumptions C20_expected_extra_member_same_extraction.
Print Assumptions C20_enumerated_fault_sound.
Print Assumptions C20_enumerated_gzip_fault_sound.
Print Assumptions C20_verify_before_restore.
Print Assumptions C20_corruptb_sound.
Print Assumptions C20_hypotheses_satisfiable.
Print Assumptions C20_hypotheses_satisfiable_roundtrip.
Print Assumptions C20_corrupt_accepted_example.
