(* C20 — snapshot archives: exact round trip, corruption always detected.
   Theorems only; each closed by an application of a lemma of Archive/Proofs.v. *)
From Verif Require Import Base.Prelude Archive.Model Archive.Proofs Archive.Instance.

Section C20.
  Context {digest : Type} (deqb : digest -> digest -> bool) (H : bytes -> digest).
  Context {Meta : Type} (meta0 : Meta) (enc_meta : Meta -> bytes)
          (dec_meta : Meta -> bytes -> option Meta).
  Context (print_sums : list (digest * string) -> bytes)
          (parse_sums : bytes -> list (option (digest * string))).
  (* assumed of the external pieces (SHA-256, encoding/json, bufio+Sscanf) *)
  Hypothesis deqb_spec : forall a b, deqb a b = true <-> a = b.
  Hypothesis H_inj : forall a b, H a = H b -> a = b.
  Hypothesis dec_enc : forall m, dec_meta meta0 (enc_meta m) = Some m.
  Hypothesis dec_empty : forall m, dec_meta m [] = None.
  Hypothesis enc_nonempty : forall m, enc_meta m <> [].
  Hypothesis parse_print : forall l, parse_sums (print_sums l) = map Some l.
  Hypothesis parse_empty : parse_sums [] = [].

  Notation read := (read deqb H meta0 dec_meta parse_sums).
  Notation write := (write H enc_meta print_sums).

  (* Saving and reading back yields the same state bytes and metadata. *)
  Theorem C20_roundtrip : forall ord m s, read (write ord m s) true = Ok (m, s).
  Proof. exact (roundtrip deqb H meta0 enc_meta dec_meta print_sums parse_sums deqb_spec dec_enc parse_print). Qed.

  (* Any single corruption of a written archive is rejected, or extracts exactly the original. *)
  Theorem C20_tamper : forall ord m s L' t' r,
    corrupt (write ord m s) L' t' -> read L' t' = Ok r -> r = (m, s).
  Proof. exact (tamper deqb H meta0 enc_meta dec_meta print_sums parse_sums deqb_spec H_inj dec_enc dec_empty enc_nonempty parse_print parse_empty). Qed.

  (* Altered state or metadata bytes are always rejected. *)
  Theorem C20_payload_change_rejected : forall ord m s pre mb post d t r,
    write ord m s = pre ++ mb :: post -> m_name mb <> n_sums -> d <> m_data mb ->
    read (pre ++ Member (m_name mb) d true :: post) t = Ok r -> False.
  Proof. exact (payload_change_rejected deqb H meta0 enc_meta dec_meta print_sums parse_sums deqb_spec H_inj parse_print). Qed.

  (* For EVERY member list: acceptance with untouched checksums means untouched payload. *)
  Theorem C20_accept_sound : forall ord m s L t m' s',
    cat n_sums L = print_sums (sums_lines H enc_meta ord m s) ->
    read L t = Ok (m', s') -> s' = s /\ cat n_state L = s /\ cat n_meta L = enc_meta m.
  Proof. exact (sums_intact_sound deqb H meta0 enc_meta dec_meta print_sums parse_sums deqb_spec H_inj parse_print). Qed.

  Theorem C20_unexpected_member_rejected : forall L t r,
    (exists mb, In mb L /\ ~ expected (m_name mb)) -> read L t = Ok r -> False.
  Proof. exact (unexpected_member_rejected deqb H meta0 dec_meta parse_sums deqb_spec). Qed.

  Theorem C20_cut_short_rejected : forall L r, read L false = Ok r -> False.
  Proof. exact (incomplete_rejected deqb H meta0 dec_meta parse_sums deqb_spec). Qed.

  Theorem C20_damaged_member_rejected : forall L t r,
    (exists mb, In mb L /\ m_intact mb = false) -> read L t = Ok r -> False.
  Proof. exact (damaged_member_rejected deqb H meta0 dec_meta parse_sums deqb_spec). Qed.

  Theorem C20_missing_sums_rejected : forall m s t r,
    read [Member n_meta (enc_meta m) true; Member n_state s true] t = Ok r -> False.
  Proof. exact (missing_sums_rejected deqb H meta0 enc_meta dec_meta parse_sums deqb_spec parse_empty). Qed.

  Theorem C20_missing_meta_rejected : forall ord m s t r,
    read [Member n_state s true; Member n_sums (print_sums (sums_lines H enc_meta ord m s)) true] t
      = Ok r -> False.
  Proof. exact (missing_meta_rejected deqb H meta0 enc_meta dec_meta print_sums parse_sums deqb_spec H_inj enc_nonempty parse_print). Qed.

  (* "lacks a member": state.bin too, whatever the state (the empty state included: all its hashes
     match, and it is refused because the member never appeared -- the defect recorded as fixed in
     known_findings.json) *)
  Theorem C20_missing_state_rejected : forall ord m s t r,
    read [Member n_meta (enc_meta m) true; Member n_sums (print_sums (sums_lines H enc_meta ord m s)) true] t
      = Ok r -> False.
  Proof. exact (missing_state_rejected deqb H meta0 enc_meta dec_meta print_sums parse_sums deqb_spec). Qed.

  Theorem C20_missing_state_empty_refused : forall ord m,
    read [Member n_meta (enc_meta m) true; Member n_sums (print_sums (sums_lines H enc_meta ord m [])) true] true
      = Err ENotInArchive.
  Proof. exact (missing_state_empty_refused deqb H meta0 enc_meta dec_meta print_sums parse_sums deqb_spec dec_enc parse_print). Qed.

  Theorem C20_verify_before_restore : forall hdr L t tr r,
    restore deqb H meta0 dec_meta parse_sums hdr L t tr = Some r ->
    hdr = true /\ tr = true /\ read L t = Ok r.
  Proof. exact (verify_before_restore deqb H meta0 dec_meta parse_sums). Qed.
End C20.

(* Non-vacuity: the hypotheses are satisfied by a concrete instance, on which the theorems compute. *)
Theorem C20_hypotheses_satisfiable : forall ord m s L' t' r,
  corrupt (iwrite ord m s) L' t' -> iread L' t' = Ok r -> r = (m, s).
Proof. exact instance_tamper. Qed.

Print Assumptions C20_roundtrip.
Print Assumptions C20_tamper.
Print Assumptions C20_payload_change_rejected.
Print Assumptions C20_accept_sound.
Print Assumptions C20_unexpected_member_rejected.
Print Assumptions C20_cut_short_rejected.
Print Assumptions C20_damaged_member_rejected.
Print Assumptions C20_missing_sums_rejected.
Print Assumptions C20_missing_meta_rejected.
Print Assumptions C20_missing_state_rejected.
Print Assumptions C20_missing_state_empty_refused.
Print Assumptions C20_verify_before_restore.
Print Assumptions C20_hypotheses_satisfiable.
