(* placeholder while the proofs are being built *)
From stdpp Require Import gmap strings.
From Verif Require Import Store.Model Snapshot.Model.
Theorem C02_placeholder : restore 0 (snapshot (fun _ => 0%N) st0) = Ok st0.
Proof. reflexivity. Qed.
Print Assumptions C02_placeholder.
