(* Property C02 — snapshot and restore reproduce the state exactly, at any point of any history.

   Model: coq/Store/Model.v (the core store: KV + tombstones, sessions + check links, prepared
   query bindings, nodes / services / checks, the four index rows, and the local lock-delay map)
   and coq/Snapshot/Model.v (persistCE's record order; the restorers, incl. the
   preserveIndexes=true paths of ensureNodeTxn / ensureServiceTxn / ensureCheckTxn, the
   max-merged index rows of the KV / tombstone / session / query restorers and the overwriting
   IndexRestore).  [li] is SnapshotHeader.LastIndex and [qm] the ModifyIndex of each prepared
   query; neither is part of the model's state, so every theorem holds for ALL their values.

   Hypotheses, and why they are there:
   - [wf_log h st0]: Raft indexes are positive and SessionCreate never carries a live session id
     (the leader's Session.Apply draws UUIDs until one is unused).  See C02_session_id_reuse_refuted.
   - [Fresh s]: every service check carries its service's CURRENT name.  It fails after a service
     is re-registered under another name (ensureCheckTxn copies ServiceName/ServiceTags only when
     the CHECK is written), and then the round trip is FALSE of the faithful model and of the real
     code: the restore re-copies the name.  C02_roundtrip_refuted is the witness (replayed on the
     implementation by checks/C02.py: known finding check-service-fields-refreshed-by-restore);
     C02_roundtrip says what a restore gives in general: [refresh (repl s)].

   The lock-delay map ([lockdelay]) is local to a server; it is not in the snapshot, a restored
   store starts with an empty one ([repl] erases it), and C01 (FSM/NonInterference.v) shows that
   it never flows into replicated state or results. *)
From stdpp Require Import gmap strings.
From Coq Require Import NArith.
From Verif Require Import Store.Model Snapshot.Model Snapshot.Defs Snapshot.Proofs Snapshot.Inv Snapshot.Cut Snapshot.Chain Snapshot.Witness.
Local Open Scope N_scope.

(* the reachable-state invariant: node ids unique, create indexes positive, no orphan services or
   checks, session-check links exactly as the session rows say, every non-empty table has its
   index row *)
Theorem C02_invariant : forall h, wf_log h st0 -> Inv (run h st0).1.
Proof. intros h Hwf. apply run_Inv; [exact Hwf|exact Inv_st0]. Qed.

Theorem C02_invariant_step : forall idx c s, wf_cmd idx c s -> Inv s -> Inv (apply idx c s).1.
Proof. exact apply_Inv. Qed.

(* what a restore of a reachable state's snapshot gives, for ANY reachable state *)
Theorem C02_roundtrip : forall li qm s, Inv s -> restore li (snapshot qm s) = Ok (refresh (repl s)).
Proof. intros li qm s HI. exact (roundtrip_general li s HI qm). Qed.

(* the exact round trip *)
Theorem C02_roundtrip_partial : forall li qm s, Inv s -> Fresh s -> restore li (snapshot qm s) = Ok (repl s).
Proof. exact roundtrip. Qed.

Theorem C02_roundtrip_reachable : forall li qm h,
  wf_log h st0 -> Fresh (run h st0).1 -> restore li (snapshot qm (run h st0).1) = Ok (repl (run h st0).1).
Proof. intros li qm h Hwf Hf. apply roundtrip; [apply C02_invariant; exact Hwf|exact Hf]. Qed.

(* the full statement (no [Fresh]) is false *)
Theorem C02_roundtrip_refuted :
  exists h, wf_log h st0 /\ let s := (run h st0).1 in exists li qm, restore li (snapshot qm s) <> Ok (repl s).
Proof. exact roundtrip_refuted. Qed.

(* a live session id reused by SessionCreate (never emitted by the leader) breaks it too *)
Theorem C02_session_id_reuse_refuted :
  let s := (run reuse_log st0).1 in
  Fresh s /\ ~ wf_log reuse_log st0 /\ restore 3 (snapshot (fun _ => 0) s) <> Ok (repl s).
Proof. exact session_id_reuse_refuted. Qed.

(* every cut of every history: the restored store gives the same results for the rest of the
   history and ends in the same replicated state as the donor *)
Theorem C02_cut : forall li qm h k,
  wf_log h st0 ->
  let s := (run (firstn k h) st0).1 in
  Fresh s ->
  exists r, restore li (snapshot qm s) = Ok r /\ r = repl s /\
            (run (skipn k h) r).2 = (run (skipn k h) s).2 /\
            repl (run (skipn k h) r).1 = repl (run (skipn k h) s).1 /\
            (run h st0).2 = (run (firstn k h) st0).2 ++ (run (skipn k h) r).2 /\
            repl (run h st0).1 = repl (run (skipn k h) r).1.
Proof. exact cut. Qed.

(* the modelled reads (KVSGet, KVSList of the whole tree, SessionGet/List, the node / node-services
   / node-checks reads, PreparedQueryGet): same result, same reported index *)
Theorem C02_queries : forall li qm s r q,
  Inv s -> Fresh s -> restore li (snapshot qm s) = Ok r -> run_query q r = run_query q s.
Proof. exact queries_after_restore. Qed.

(* non-vacuity: a history with two nodes (one with an id), services, service / node / session
   checks, a session bound to a check and holding a lock, a tombstone, a session-bound prepared
   query and a committed transaction is well formed, its state is Fresh, its snapshot has 17
   records, and it restores exactly *)
Example C02_example :
  wf_log rich_log st0 /\ Inv rich_state /\ Fresh rich_state /\
  List.length (snapshot (fun _ => 0) rich_state) = 17%nat /\
  size (tombs rich_state) = 1%nat /\ kv_session <$> kvs rich_state !! "a/b" = Some "aaaa" /\
  restore 12 (snapshot (fun _ => 0) rich_state) = Ok (repl rich_state).
Proof.
  split; [exact rich_wf|]. split; [apply C02_invariant; exact rich_wf|]. split; [exact rich_fresh|].
  destruct rich_nontrivial as (_ & Ht & _ & _ & _ & _ & _ & _ & _ & Hk & Hl).
  split; [exact Hl|]. split; [exact Ht|]. split; [exact Hk|].
  apply roundtrip; [apply C02_invariant; exact rich_wf|exact rich_fresh].
Qed.

(* ---------- audit round: the general round trip field by field, the derived table, the reads
   without [Fresh], and the second generation ---------- *)

(* For ANY reachable state (no [Fresh]): the restore succeeds and reproduces keys, tombstones,
   sessions, session-check links, query bindings, nodes, services and the index rows EXACTLY;
   no check is lost or added, and a check differs from the donor's at most in the service name it
   copies ([refresh_check]).  This is "nothing lost, nothing resurrected" in full, and it bounds
   what the open finding check-service-fields can alter. *)
Theorem C02_roundtrip_frame : forall li qm s,
  Inv s ->
  exists r, restore li (snapshot qm s) = Ok r /\
    kvs r = kvs s /\ tombs r = tombs s /\ sessions r = sessions s /\ schecks r = schecks s /\
    queries r = queries s /\ nodes r = nodes s /\ services r = services s /\ index r = index s /\
    lockdelay r = ∅ /\
    forall nd cid, checks r !! (nd, cid) = refresh_check s nd <$> checks s !! (nd, cid).
Proof. exact roundtrip_frame. Qed.

(* the derived table of the core model: session-check links are not in the snapshot, the session
   restorer rebuilds them, and what it builds is exactly what the restored session rows say *)
Theorem C02_derived_session_checks : forall li qm s r,
  Inv s -> restore li (snapshot qm s) = Ok r -> SCheckExact r.
Proof. exact restored_session_checks. Qed.

(* every modelled read but the node's check list: same result and index, Fresh or not *)
Theorem C02_queries_general : forall li qm s r q,
  Inv s -> restore li (snapshot qm s) = Ok r -> (forall nd, q <> QNodeChecks nd) ->
  run_query q r = run_query q s.
Proof. exact queries_general. Qed.

(* second generation: whatever a restore produced satisfies the invariant, is Fresh, and its own
   snapshot restores to exactly itself -- for all header / query indexes of both snapshots and
   with NO freshness hypothesis on the donor *)
Theorem C02_second_generation : forall li qm li2 qm2 s r,
  Inv s -> restore li (snapshot qm s) = Ok r ->
  Inv r /\ Fresh r /\ restore li2 (snapshot qm2 r) = Ok r.
Proof. exact second_generation. Qed.

(* the chained cycle: run j more commands on the restored server, snapshot IT, restore: the rest
   of the history gives the same results and the same replicated state on both generations *)
Theorem C02_chained : forall li qm li2 qm2 s r (rest : list (N * cmd)) (j : nat),
  Inv s -> restore li (snapshot qm s) = Ok r -> wf_log (firstn j rest) r ->
  let m := (run (firstn j rest) r).1 in
  Fresh m ->
  exists r2, restore li2 (snapshot qm2 m) = Ok r2 /\ r2 = repl m /\
    (run (skipn j rest) r2).2 = (run (skipn j rest) m).2 /\
    repl (run (skipn j rest) r2).1 = repl (run (skipn j rest) m).1.
Proof. exact chained. Qed.

(* non-vacuity of the second generation on a donor that is NOT Fresh: the restore of the stale
   state differs from the donor, and the restored state's own snapshot restores to itself *)
Example C02_second_generation_example :
  ~ Fresh stale_state /\
  exists r, restore 2 (snapshot (fun _ => 0) stale_state) = Ok r /\ r <> repl stale_state /\
            Inv r /\ Fresh r /\ restore 7 (snapshot (fun _ => 5) r) = Ok r.
Proof.
  assert (HI : Inv stale_state) by (apply C02_invariant; exact stale_wf).
  destruct stale_restore as (r & Hr & Hn).
  assert (Hne : r <> repl stale_state).
  { intros ->. pose proof (proj1 stale_names) as Hw.
    change (checks (repl stale_state)) with (checks stale_state) in Hn. rewrite Hw in Hn. discriminate. }
  split.
  - intros Hf. apply Hne. pose proof (C02_roundtrip_partial 2 (fun _ => 0) stale_state HI Hf) as E.
    rewrite Hr in E. injection E as ->. reflexivity.
  - exists r. split; [exact Hr|]. split; [exact Hne|].
    exact (C02_second_generation 2 (fun _ => 0) 7 (fun _ => 5) stale_state r HI Hr).
Qed.

(* each hypothesis of the theorems above is satisfiable (by states the run also feeds to the
   implementation: corpus scripts 1000 / 1001 of harness/snaprestore/model.go) *)
Example C02_hypotheses_satisfiable :
  wf_log rich_log st0 /\ Inv rich_state /\ Fresh rich_state /\
  wf_log stale_log st0 /\ Inv stale_state /\
  (forall nd, QKVGet "a/b" <> QNodeChecks nd).
Proof.
  split; [exact rich_wf|]. split; [apply C02_invariant; exact rich_wf|]. split; [exact rich_fresh|].
  split; [exact stale_wf|]. split; [apply C02_invariant; exact stale_wf|]. intros nd H. discriminate.
Qed.

Print Assumptions C02_invariant.
Print Assumptions C02_invariant_step.
Print Assumptions C02_roundtrip.
Print Assumptions C02_roundtrip_partial.
Print Assumptions C02_roundtrip_reachable.
Print Assumptions C02_roundtrip_refuted.
Print Assumptions C02_session_id_reuse_refuted.
Print Assumptions C02_cut.
Print Assumptions C02_queries.
Print Assumptions C02_example.
Print Assumptions C02_roundtrip_frame.
Print Assumptions C02_derived_session_checks.
Print Assumptions C02_queries_general.
Print Assumptions C02_second_generation.
Print Assumptions C02_chained.
Print Assumptions C02_second_generation_example.
Print Assumptions C02_hypotheses_satisfiable.
