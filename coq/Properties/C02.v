(* Property C02 — snapshot and restore reproduce the state exactly, at any point of any history.

   Model: coq/Store/Model.v (the core store: KV + tombstones, sessions + check links, prepared
   query bindings, nodes / services / checks, the four index rows, and the local lock-delay map)
   and coq/Snapshot/Model.v (persistCE's record order; the restorers, incl. the
   preserveIndexes=true paths of ensureNodeTxn / ensureServiceTxn / ensureCheckTxn, the
   max-merged index rows of the KV / tombstone / session / query restorers and the overwriting
   IndexRestore).  [li] is SnapshotHeader.LastIndex and [qm] the ModifyIndex of each prepared
   query; neither is part of the model's state, so every theorem holds for ALL their values.

   Hypotheses, and why they are there:
   - [wf_log h st0]: Raft indexes are positive and SessionCreate never carries a live session id
     (the leader's Session.Apply draws UUIDs until one is unused).  See C02_session_id_reuse_refuted.
   - [Fresh s]: every service check carries its service's CURRENT name.  It fails after a service
     is re-registered under another name (ensureCheckTxn copies ServiceName/ServiceTags only when
     the CHECK is written), and then the round trip is FALSE of the faithful model and of the real
     code: the restore re-copies the name.  C02_roundtrip_refuted is the witness (replayed on the
     implementation by checks/C02.py: known finding check-service-fields-refreshed-by-restore);
     C02_roundtrip says what a restore gives in general: [refresh (repl s)].

   The lock-delay map ([lockdelay]) is local to a server; it is not in the snapshot, a restored
   store starts with an empty one ([repl] erases it), and C01 (FSM/NonInterference.v) shows that
   it never flows into replicated state or results. *)
From stdpp Require Import gmap strings.
From Coq Require Import NArith.
From Verif Require Import Store.Model Snapshot.Model Snapshot.Defs Snapshot.Proofs Snapshot.Inv Snapshot.Cut Snapshot.Witness.
Local Open Scope N_scope.

(* the reachable-state invariant: node ids unique, create indexes positive, no orphan services or
   checks, session-check links exactly as the session rows say, every non-empty table has its
   index row *)
Theorem C02_invariant : forall h, wf_log h st0 -> Inv (run h st0).1.
Proof. intros h Hwf. apply run_Inv; [exact Hwf|exact Inv_st0]. Qed.

Theorem C02_invariant_step : forall idx c s, wf_cmd idx c s -> Inv s -> Inv (apply idx c s).1.
Proof. exact apply_Inv. Qed.

(* what a restore of a reachable state's snapshot gives, for ANY reachable state *)
Theorem C02_roundtrip : forall li qm s, Inv s -> restore li (snapshot qm s) = Ok (refresh (repl s)).
Proof. intros li qm s HI. exact (roundtrip_general li s HI qm). Qed.

(* the exact round trip *)
Theorem C02_roundtrip_partial : forall li qm s, Inv s -> Fresh s -> restore li (snapshot qm s) = Ok (repl s).
Proof. exact roundtrip. Qed.

Theorem C02_roundtrip_reachable : forall li qm h,
  wf_log h st0 -> Fresh (run h st0).1 -> restore li (snapshot qm (run h st0).1) = Ok (repl (run h st0).1).
Proof. intros li qm h Hwf Hf. apply roundtrip; [apply C02_invariant; exact Hwf|exact Hf]. Qed.

(* the full statement (no [Fresh]) is false *)
Theorem C02_roundtrip_refuted :
  exists h, wf_log h st0 /\ let s := (run h st0).1 in exists li qm, restore li (snapshot qm s) <> Ok (repl s).
Proof. exact roundtrip_refuted. Qed.

(* a live session id reused by SessionCreate (never emitted by the leader) breaks it too *)
Theorem C02_session_id_reuse_refuted :
  let s := (run reuse_log st0).1 in
  Fresh s /\ ~ wf_log reuse_log st0 /\ restore 3 (snapshot (fun _ => 0) s) <> Ok (repl s).
Proof. exact session_id_reuse_refuted. Qed.

(* every cut of every history: the restored store gives the same results for the rest of the
   history and ends in the same replicated state as the donor *)
Theorem C02_cut : forall li qm h k,
  wf_log h st0 ->
  let s := (run (firstn k h) st0).1 in
  Fresh s ->
  exists r, restore li (snapshot qm s) = Ok r /\ r = repl s /\
            (run (skipn k h) r).2 = (run (skipn k h) s).2 /\
            repl (run (skipn k h) r).1 = repl (run (skipn k h) s).1 /\
            (run h st0).2 = (run (firstn k h) st0).2 ++ (run (skipn k h) r).2 /\
            repl (run h st0).1 = repl (run (skipn k h) r).1.
Proof. exact cut. Qed.

(* the modelled reads (KVSGet, KVSList of the whole tree, SessionGet/List, the node / node-services
   / node-checks reads, PreparedQueryGet): same result, same reported index *)
Theorem C02_queries : forall li qm s r q,
  Inv s -> Fresh s -> restore li (snapshot qm s) = Ok r -> run_query q r = run_query q s.
Proof. exact queries_after_restore. Qed.

(* non-vacuity: a history with two nodes (one with an id), services, service / node / session
   checks, a session bound to a check and holding a lock, a tombstone, a session-bound prepared
   query and a committed transaction is well formed, its state is Fresh, its snapshot has 17
   records, and it restores exactly *)
Example C02_example :
  wf_log rich_log st0 /\ Inv rich_state /\ Fresh rich_state /\
  List.length (snapshot (fun _ => 0) rich_state) = 17%nat /\
  size (tombs rich_state) = 1%nat /\ kv_session <$> kvs rich_state !! "a/b" = Some "aaaa" /\
  restore 12 (snapshot (fun _ => 0) rich_state) = Ok (repl rich_state).
Proof.
  split; [exact rich_wf|]. split; [apply C02_invariant; exact rich_wf|]. split; [exact rich_fresh|].
  destruct rich_nontrivial as (_ & Ht & _ & _ & _ & _ & _ & _ & _ & Hk & Hl).
  split; [exact Hl|]. split; [exact Ht|]. split; [exact Hk|].
  apply roundtrip; [apply C02_invariant; exact rich_wf|exact rich_fresh].
Qed.

Print Assumptions C02_invariant.
Print Assumptions C02_invariant_step.
Print Assumptions C02_roundtrip.
Print Assumptions C02_roundtrip_partial.
Print Assumptions C02_roundtrip_reachable.
Print Assumptions C02_roundtrip_refuted.
Print Assumptions C02_session_id_reuse_refuted.
Print Assumptions C02_cut.
Print Assumptions C02_queries.
Print Assumptions C02_example.
