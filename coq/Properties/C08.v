From Verif Require Import Base.Prelude ACL.Model.
Theorem C08_stub : enforce AWrite ARead = Allow.
Proof. reflexivity. Qed.
Print Assumptions C08_stub.
