(* C08 — ACL decisions follow rule semantics and depend only on the token's own policies.
   Theorems only; each closed by an application of a lemma of ACL/Proofs.v, ACL/Cache.v or
   ACL/EndToEnd.v.

   Model: ACL/Model.v (MergePolicies, loadRules, getPolicy, the any/all/prefix walks, every
   Authorizer method, chained + static authorizers, ACLPolicies.Compile with its two caches).
   Reference: ACL/Spec.v (the documented rule over plain rule lists, no trees, no merge).

   All statements hold outright, for every spelling of the access strings ("deny", "Deny",
   "WRITE"): since commit e3d2ecc takesPrecedenceOver and the intention defaulting of loadRules
   lowercase before comparing, as AccessLevelFromString always did.  (Before that commit they were
   false for non-lowercase spellings; the witnesses are kept below as examples that now agree with
   the reference.)  The only hypothesis, [levelled], is what PolicyRules.Validate guarantees for
   every policy that parses (C08_valid_is_levelled). *)
From Verif Require Import Base.Prelude.
From Verif Require Import ACL.Model.
From Verif Require Import ACL.Spec.
From Verif Require Import ACL.Assoc.
From Verif Require Import ACL.Proofs.
From Verif Require Import ACL.Cache.
From Verif Require Import ACL.EndToEnd.
From Verif Require Import ACL.Identity.
From Verif Require Import ACL.IdentityProofs.
From Coq Require Import Permutation.

(* ------------------------------------------------------------------ semantics *)

(* For every list of policies whose rules name a level the authorizer exists, and for every method,
   name and default policy its decision is the documented rule: exact match, else longest prefix;
   deny > write > list > read across policies; the default policy otherwise. *)
Theorem C08_semantics : forall ps,
  forallb levelled ps = true ->
  exists a, new_policy_authorizer ps = Some a
    /\ forall m, policy_decide a m = spec_decide ps m
    /\ forall s, chain_decide a s m = spec_chain ps s m.
Proof. exact semantics. Qed.

(* every policy that passes PolicyRules.Validate is covered *)
Theorem C08_valid_is_levelled : forall p, validate p = true -> levelled p = true.
Proof. exact validate_levelled. Qed.

Definition p_key (name : string) (pol : pstr) : policy :=
  Policy PEmpty PEmpty PEmpty PEmpty PEmpty [Rule KKey false name pol PEmpty].

(* the inputs that refuted the statement before e3d2ecc: deny spelled "Deny" now overrides read
   in either order, a scalar rule spelled "Write" is a rule, service "Write" defaults intentions
   to read *)
Example C08_mixed_case_example :
  (forall ps, In ps [[p_key "a" (POdd LDeny); p_key "a" (PCanon LRead)]; [p_key "a" (PCanon LRead); p_key "a" (POdd LDeny)]] ->
     forallb validate ps = true /\ forallb levelled ps = true
     /\ option_map (fun a => policy_decide a (MKeyRead "a")) (new_policy_authorizer ps) = Some Deny
     /\ spec_decide ps (MKeyRead "a") = Deny)
  /\ (let p := Policy (POdd LWrite) PEmpty PEmpty PEmpty PEmpty [Rule KService false "s" (POdd LWrite) PEmpty] in
      validate p = true
      /\ option_map (fun a => (policy_decide a MACLWrite, policy_decide a (MIntentionRead "s"))) (new_policy_authorizer [p])
         = Some (Allow, Allow)).
Proof.
  split.
  - intros ps [<-|[<-|[]]]; vm_compute; repeat split; reflexivity.
  - vm_compute. split; reflexivity.
Qed.

(* the pieces of the reference, in words a reader can check *)

(* "deny overrides write overrides list overrides read": the winner occurs in the list and
   nothing in the list outranks it (rank: read 1 < list 2 < write 3 < deny 4) *)
Theorem C08_strongest : forall ls,
  match strongest ls with
  | None => ls = []
  | Some m => In m ls /\ forall l, In l ls -> rank l <= rank m
  end.
Proof. exact strongest_spec. Qed.

(* "longest matching prefix": among all prefixes of the name that carry a prefix rule, the
   chosen one has the longest name *)
Theorem C08_longest_prefix : forall (v : view) n,
  match longest_prefix v n with
  | Some l => exists p, String.prefix p n = true /\ v true p = Some l
                /\ forall q, String.prefix q n = true -> v true q <> None -> String.length q <= String.length p
  | None => forall q, String.prefix q n = true -> v true q = None
  end.
Proof. exact longest_prefix_spec. Qed.

(* KeyWritePrefix (good = write) and ServiceReadPrefix (good = read or write), over ALL rules below
   the prefix: denied iff the rule applying to the prefix itself or any rule (exact or prefix) whose
   name starts with the prefix is not good; allowed iff a prefix rule applies and all are good *)
Theorem C08_subtree : forall good (v : view) S p, covers S v ->
  (spec_subtree good v S p = Deny <->
     (exists l, longest_prefix v p = Some l /\ good l = false)
     \/ (exists pf n l, String.prefix p n = true /\ v pf n = Some l /\ good l = false))
  /\ (spec_subtree good v S p = Allow <->
     (exists l, longest_prefix v p = Some l /\ good l = true)
     /\ (forall pf n l, String.prefix p n = true -> v pf n = Some l -> good l = true)).
Proof. exact spec_subtree_meaning. Qed.

(* ServiceWriteAny / IntentionRead "*" / imported-resource reads: allowed iff SOME rule grants *)
Theorem C08_any : forall (v : view) S need, covers S v ->
  (spec_any v S need = Allow <-> exists pf n l, v pf n = Some l /\ grants l need = true)
  /\ (spec_any v S need = Default <-> (forall pf n l, v pf n = Some l -> grants l need = false) /\ v true EmptyString = None).
Proof. exact spec_any_meaning. Qed.

(* NodeReadAll / ServiceReadAll / IntentionWrite "*": denied iff SOME rule does not grant *)
Theorem C08_all : forall (v : view) S need, covers S v ->
  (spec_all v S need = Deny <-> exists pf n l, v pf n = Some l /\ grants l need = false)
  /\ (spec_all v S need = Allow <-> (forall pf n l, v pf n = Some l -> grants l need = true) /\ v true EmptyString <> None).
Proof. exact spec_all_meaning. Qed.

(* the name lists the reference walks do cover every name with a rule, so the three theorems above
   apply to spec_decide *)
Theorem C08_covers : forall rs k, covers (names_of rs k) (eff rs k) /\ covers (names_of rs KService) (eff_int rs).
Proof. intros rs k. split; [apply covers_eff|apply covers_eff_int]. Qed.

(* Intentions.  "deny > write > list > read for the same name" is applied to the `intentions`
   strings the policies give EXPLICITLY; only when no policy gives one is the intention level
   derived from the service rule in force (read or write -> read, otherwise deny).  This is what the
   code does (the merge compares Policy and Intentions separately, the default is taken after the
   merge) and it is the reading built into the reference [eff_int]; it is a documented exemption,
   not a finding: the other reading of the documentation (every service rule first gets its own
   default, then the strongest wins) is NOT what consul implements, as the second part shows on
   {P1: service "a" policy=read intentions=write; P2: service "a" policy=deny}. *)
Definition eff_int_per_policy (rs : list rule) (pf : bool) (n : string) : option level :=
  strongest (flat_map (fun r => match doc_level (r_int r) with
                                | Some i => [i]
                                | None => match doc_level (r_pol r) with
                                          | Some LRead | Some LWrite => [LRead]
                                          | Some _ => [LDeny]
                                          | None => [] end
                                end) (matching rs KService pf n)).

Example C08_intentions_reading :
  let ps := [Policy PEmpty PEmpty PEmpty PEmpty PEmpty [Rule KService false "a" (PCanon LRead) (PCanon LWrite)];
             Policy PEmpty PEmpty PEmpty PEmpty PEmpty [Rule KService false "a" (PCanon LDeny) PEmpty]] in
  forallb validate ps = true
  /\ eff (all_rules ps) KService false "a" = Some LDeny           (* the service itself is denied *)
  /\ eff_int (all_rules ps) false "a" = Some LWrite               (* the explicit intentions survive *)
  /\ option_map (fun a => policy_decide a (MIntentionWrite "a")) (new_policy_authorizer ps) = Some Allow
  /\ eff_int_per_policy (all_rules ps) false "a" = Some LDeny.    (* the per-policy reading would deny *)
Proof. vm_compute. repeat split; reflexivity. Qed.

(* ------------------------------------------------------------------ order independence *)

Theorem C08_order_independent : forall ps ps' a a',
  forallb levelled ps = true -> Permutation ps ps' ->
  new_policy_authorizer ps = Some a -> new_policy_authorizer ps' = Some a' ->
  forall m, policy_decide a m = policy_decide a' m /\ forall s, chain_decide a s m = chain_decide a' s m.
Proof. exact order_independent. Qed.

(* the pair that refuted it before e3d2ecc ("Deny" then "Write" vs "Write" then "Deny") *)
Example C08_order_mixed_case_example :
  let ps := [p_key "a" (POdd LDeny); p_key "a" (POdd LWrite)] in
  let ps' := [p_key "a" (POdd LWrite); p_key "a" (POdd LDeny)] in
  Permutation ps ps' /\ forallb levelled ps = true
  /\ option_map (fun a => policy_decide a (MKeyWrite "a")) (new_policy_authorizer ps) = Some Deny
  /\ option_map (fun a => policy_decide a (MKeyWrite "a")) (new_policy_authorizer ps') = Some Deny.
Proof. split; [apply perm_swap|]. vm_compute. repeat split; reflexivity. Qed.

(* Go hands the merged rules to loadRules in map-iteration order: any order gives the same decisions *)
Theorem C08_map_order_independent : forall ps p' a a',
  forallb levelled ps = true ->
  p_acl p' = p_acl (merge_policies ps) -> p_keyring p' = p_keyring (merge_policies ps) ->
  p_operator p' = p_operator (merge_policies ps) -> p_mesh p' = p_mesh (merge_policies ps) ->
  p_peering p' = p_peering (merge_policies ps) ->
  Permutation (p_rules p') (p_rules (merge_policies ps)) ->
  new_policy_authorizer ps = Some a -> load_rules p' = Some a' ->
  forall m, policy_decide a' m = policy_decide a m.
Proof. exact map_order_independent. Qed.

(* non-vacuity: a genuinely different order of the merged rules *)
Example C08_map_order_example :
  let ps := [p_key "a" (PCanon LRead); p_key "b" (PCanon LWrite); p_key "a" (PCanon LDeny)] in
  let m := merge_policies ps in
  let p' := Policy (p_acl m) (p_keyring m) (p_operator m) (p_mesh m) (p_peering m) (rev (p_rules m)) in
  forallb levelled ps = true /\ p_rules p' <> p_rules m /\ Permutation (p_rules p') (p_rules m)
  /\ (exists a', load_rules p' = Some a').
Proof.
  cbv zeta. split; [reflexivity|]. split; [vm_compute; discriminate|]. split; [apply Permutation_sym, Permutation_rev|].
  vm_compute. eexists; reflexivity.
Qed.

(* ------------------------------------------------------------------ purity *)

(* Whatever tokens were resolved before (any policies of the versioned store W, any order), whatever
   was evicted or purged in between: a token's decisions are those of freshly parsed policies in an
   empty cache.  No hypothesis on the policies at all (they need not even parse). *)
Theorem C08_pure : forall W c es s m,
  versioned W -> reach W c -> Forall W es ->
  resolve_decide c es s m = resolve_decide caches_empty es s m.
Proof. exact resolve_decide_pure. Qed.

Theorem C08_pure_authorizer : forall W c c' es,
  versioned W -> reach W c -> reach W c' -> Forall W es ->
  snd (compile c es) = snd (compile c' es).
Proof. exact compile_cache_independent. Qed.

(* end to end: through any reachable cache the caller sees the documented rule *)
Theorem C08_semantics_through_caches : forall W c es s m,
  versioned W -> reach W c -> Forall W es ->
  forallb (fun e => e_ok e && validate (e_pol e)) es = true ->
  resolve_decide c es s m = Some (spec_chain (map e_pol es) s m).
Proof. exact semantics_through_caches. Qed.

(* ------------------------------------------------------------------ tokens, roles, identities *)

(* ACLResolver.resolvePoliciesForIdentity in server mode (everything resolved locally; the
   resolver's own identity/role/policy caches and RPC paths are not part of the statements),
   ACL/Identity.v: the policies of a token are its own and its roles' policy links (deduplicated),
   the synthetic policies of its own and inherited service identities (same-name identities merged:
   unscoped if one of them is, else the united datacenter lists), node identities and templated
   policies (first occurrence of each (template, variables)), filtered by datacenter scope.
   They all come from the world ... *)
Theorem C08_token_policies_from_world : forall w t, Forall (in_world w) (policies_for_identity w t).
Proof. exact policies_for_identity_in_world. Qed.

(* ... so a token's decisions do not depend on which tokens (with whatever roles and identities)
   were resolved before it, nor on evictions: same hypotheses as C08_pure, stated on the world. *)
Theorem C08_token_pure : forall w c t s m,
  versioned (in_world w) -> reach (in_world w) c ->
  token_decide w c t s m = token_decide w caches_empty t s m.
Proof. exact token_decide_pure. Qed.

Theorem C08_token_resolution_keeps_reach : forall w c t,
  reach (in_world w) c -> reach (in_world w) (fst (token_compile w c t)).
Proof. exact token_compile_reach. Qed.

(* histories over several worlds (a policy, role or token edited, added or deleted between two
   resolutions): caches reachable over a smaller store are reachable over a larger one, and the
   token's decisions in the current world w do not depend on them as long as the whole store W
   (all versions ever resolved) is versioned *)
Theorem C08_reach_monotone : forall (W W' : pentry -> Prop) c, (forall e, W e -> W' e) -> reach W c -> reach W' c.
Proof. exact reach_mono. Qed.

Theorem C08_token_pure_across_worlds : forall (W : pentry -> Prop) w c t s m,
  versioned W -> (forall e, in_world w e -> W e) -> reach W c ->
  token_decide w c t s m = token_decide w caches_empty t s m.
Proof. exact token_decide_pure_store. Qed.

(* The decision is the documented rule applied to the UNION of what the token holds and inherits,
   each item valid in this datacenter or not on its own.  Holds outright since the two Deduplicate
   repairs (0b8ae30 service identities, b8a4eb3 templated policies). *)
Theorem C08_identity_union : forall w t,
  sameset (map e_pol (policies_for_identity w t)) (union_policies w t)
  /\ forall m, spec_decide (map e_pol (policies_for_identity w t)) m = spec_decide (union_policies w t) m.
Proof. intros w t. split; [apply policies_are_union|intros m; apply identity_union_spec]. Qed.

Theorem C08_token_semantics : forall w c t s m,
  versioned (in_world w) -> reach (in_world w) c ->
  forallb (fun e => e_ok e && validate (e_pol e)) (policies_for_identity w t) = true ->
  token_decide w c t s m = Some (spec_chain (union_policies w t) s m).
Proof. exact token_semantics. Qed.

(* the order in which a token lists its policy links, ROLE links and identities does not matter
   (both orders must resolve to policies that parse) *)
Theorem C08_link_order_independent : forall w c c' t t' s m,
  versioned (in_world w) -> reach (in_world w) c -> reach (in_world w) c' ->
  token_equiv t t' ->
  forallb (fun e => e_ok e && validate (e_pol e)) (policies_for_identity w t) = true ->
  forallb (fun e => e_ok e && validate (e_pol e)) (policies_for_identity w t') = true ->
  token_decide w c t s m = token_decide w c' t' s m.
Proof. exact token_order_independent. Qed.

Local Open Scope N_scope.
Definition p_svc_a : policy :=
  Policy PEmpty PEmpty PEmpty PEmpty PEmpty [Rule KService false "a" (PCanon LWrite) PEmpty].
Definition e_svc_a : pentry := PEntry 100 0 100 true p_svc_a.

(* regression examples, the witnesses that refuted the two statements before b8a4eb3: roles R1
   builtin/service(a)@[dc1], R2 builtin/service(a)@[dc2], resolved in dc2, in both link orders *)
Definition ex_tp_world : world :=
  World 2 [] [(1, WRole [] [] [] [TPol 0 0 [1]]); (2, WRole [] [] [] [TPol 0 0 [2]])] [] [] [((0, 0), e_svc_a)].

Example C08_templated_scope_regression :
  token_equiv (WToken [] [1; 2] [] [] []) (WToken [] [2; 1] [] [] [])
  /\ map e_pol (policies_for_identity ex_tp_world (WToken [] [1; 2] [] [] [])) = [p_svc_a]
  /\ union_policies ex_tp_world (WToken [] [1; 2] [] [] []) = [p_svc_a]
  /\ token_decide ex_tp_world caches_empty (WToken [] [1; 2] [] [] []) deny_all (MServiceWrite "a") = Some Allow
  /\ token_decide ex_tp_world caches_empty (WToken [] [2; 1] [] [] []) deny_all (MServiceWrite "a") = Some Allow
  /\ token_decide ex_tp_world caches_empty (WToken [] [1] [] [] []) deny_all (MServiceWrite "a") = Some Deny.
Proof.
  split; [repeat split; try apply Permutation_refl; apply perm_swap|]. vm_compute. repeat split; reflexivity.
Qed.

(* regression example, the witness that refuted the union statement before 0b8ae30: own service
   identity "a" valid everywhere + role identity "a"@[dc1,dc3], resolved in dc2 *)
Definition ex_narrow_world : world :=
  World 2 [] [(1, WRole [] [SIdent 0 [1; 3]] [] [])] [(0, e_svc_a)] [] [].
Example C08_unscoped_identity_regression :
  let t := WToken [] [1] [SIdent 0 []] [] [] in
  map e_pol (policies_for_identity ex_narrow_world t) = [p_svc_a]
  /\ token_decide ex_narrow_world caches_empty t deny_all (MServiceWrite "a") = Some Allow.
Proof. vm_compute. split; reflexivity. Qed.

(* non-vacuity of all hypotheses of C08_token_pure / C08_token_semantics /
   C08_link_order_independent together, on the scenario of the role-sharing mutation:
   R1 "a"@[dc1], R2 "a"@[dc2], one scoped templated policy; in dc2 token A = [R1;R2] may write "a",
   token B = [R1] may not, before and after A, through a non-empty reachable cache *)
Definition ex_roles_world : world :=
  World 2 [] [(1, WRole [] [SIdent 0 [1]] [] [TPol 2 0 [2]]); (2, WRole [] [SIdent 0 [2]] [] [TPol 2 0 []])]
        [(0, e_svc_a)] [] [((2, 0), PEntry 101 0 101 true (p_key "dns" (PCanon LRead)))].
Example C08_token_example :
  let A := WToken [] [1; 2] [] [] [] in
  let B := WToken [] [1] [] [] [] in
  let c := fst (token_compile ex_roles_world caches_empty A) in
  versioned (in_world ex_roles_world) /\ reach (in_world ex_roles_world) c /\ c_authz c <> []
  /\ forallb (fun e => e_ok e && validate (e_pol e)) (policies_for_identity ex_roles_world A) = true
  /\ token_equiv A (WToken [] [2; 1] [] [] [])
  /\ token_decide ex_roles_world caches_empty A deny_all (MServiceWrite "a") = Some Allow
  /\ token_decide ex_roles_world caches_empty B deny_all (MServiceWrite "a") = Some Deny
  /\ token_decide ex_roles_world c B deny_all (MServiceWrite "a") = Some Deny.
Proof.
  cbv zeta. split; [|split; [|split; [|split; [|split]]]].
  - intros x y Hx Hy.
    assert (E : forall e, in_world ex_roles_world e -> e = e_svc_a \/ e = PEntry 101 0 101 true (p_key "dns" (PCanon LRead))).
    { intros e H. destruct H as [(id & wp & Hin & _)|[(n & Hin)|[(n & Hin)|(k & Hin)]]]; cbn in Hin.
      - destruct Hin.
      - destruct Hin as [Hin|[]]. injection Hin as _ <-. auto.
      - destruct Hin.
      - destruct Hin as [Hin|[]]. injection Hin as _ <-. auto. }
    destruct (E _ Hx) as [ -> | -> ], (E _ Hy) as [ -> | -> ]; cbn; (split; [intros H1 H2|intros H1]); try discriminate; try (split; reflexivity); reflexivity.
  - apply token_compile_reach, reach_empty.
  - vm_compute. discriminate.
  - vm_compute. reflexivity.
  - repeat split; try apply Permutation_refl. apply perm_swap.
  - vm_compute. repeat split; reflexivity.
Qed.
Local Close Scope N_scope.

(* ------------------------------------------------------------------ non-vacuity *)

(* a policy set with overlapping names, duplicates across policies, every level, mixed spellings *)
Definition ex_ps : list policy :=
  [Policy (PCanon LRead) PEmpty (PCanon LWrite) PEmpty PEmpty
     [Rule KKey true "" (PCanon LRead) PEmpty; Rule KKey false "ab" (PCanon LWrite) PEmpty;
      Rule KService true "a" (PCanon LWrite) (PCanon LDeny); Rule KNode false "n" (PCanon LRead) PEmpty];
   Policy (PCanon LWrite) PEmpty PEmpty (PCanon LDeny) PEmpty
     [Rule KKey true "a" (PCanon LList) PEmpty; Rule KKey false "ab" (PCanon LDeny) PEmpty;
      Rule KService true "a" (POdd LRead) PEmpty; Rule KService false "ab" (POdd LDeny) PEmpty]].

Example C08_levelled_example :
  forallb levelled ex_ps = true /\ forallb validate ex_ps = true
  /\ spec_chain ex_ps deny_all (MKeyWrite "ab") = Deny          (* deny beats write on the same name *)
  /\ spec_chain ex_ps deny_all (MKeyList "abc") = Allow         (* longest prefix "a" (list) beats "" (read) *)
  /\ spec_chain ex_ps deny_all (MKeyWrite "x") = Deny           (* "" read does not grant write *)
  /\ spec_chain ex_ps allow_all (MNodeWrite "zz") = Allow       (* no rule: default policy *)
  /\ spec_chain ex_ps deny_all (MIntentionRead "a1") = Deny     (* explicit intentions = deny *)
  /\ spec_chain ex_ps deny_all (MServiceRead "ab" false) = Deny (* exact beats prefix *)
  /\ spec_chain ex_ps deny_all MMeshRead = Deny /\ spec_chain ex_ps deny_all MPeeringWrite = Allow.
Proof. vm_compute. repeat split; reflexivity. Qed.

(* a versioned store with two versions of a policy and a non-empty reachable cache *)
Definition ex_e1 := PEntry 1 1 11 true (p_key "a" (PCanon LRead)).
Definition ex_e2 := PEntry 2 1 12 true (p_key "a" (PCanon LWrite)).
Definition ex_e1' := PEntry 1 2 13 true (p_key "a" (PCanon LDeny)).
Definition ex_W (e : pentry) : Prop := e = ex_e1 \/ e = ex_e2 \/ e = ex_e1'.

Example C08_pure_example :
  versioned ex_W
  /\ reach ex_W (fst (compile (fst (compile caches_empty [ex_e1; ex_e2])) [ex_e1']))
  /\ c_parsed (fst (compile (fst (compile caches_empty [ex_e1; ex_e2])) [ex_e1'])) <> []
  /\ Forall ex_W [ex_e1].
Proof.
  split; [|split; [|split]].
  - intros x y Hx Hy. unfold ex_W in Hx, Hy.
    destruct Hx as [Hx|[Hx|Hx]], Hy as [Hy|[Hy|Hy]]; subst x y; cbn;
      (split; [intros H1 H2|intros H1]); try discriminate; try (split; reflexivity); reflexivity.
  - apply reach_compile; [apply reach_compile; [apply reach_empty|]|];
      repeat (apply Forall_cons || apply Forall_nil); unfold ex_W; auto.
  - vm_compute. discriminate.
  - apply Forall_cons; [unfold ex_W; auto|apply Forall_nil].
Qed.

(* ... and a cache from which entries were evicted and which was purged in between *)
Example C08_evicted_cache_example :
  let c1 := fst (compile caches_empty [ex_e1; ex_e2]) in
  let c2 := Caches (aremove N.eqb 11%N (c_parsed c1)) (c_authz c1) in
  let c3 := Caches (c_parsed c2) (aremove akey_eqb [(1, 1); (2, 1)]%N (c_authz c2)) in
  reach ex_W c3 /\ c_parsed c3 <> [] /\ c_parsed c3 <> c_parsed c1 /\ c_authz c3 = []
  /\ reach ex_W (fst (compile caches_empty [ex_e2]))
  /\ resolve_decide c3 [ex_e1; ex_e2] deny_all (MKeyWrite "a") = resolve_decide caches_empty [ex_e1; ex_e2] deny_all (MKeyWrite "a").
Proof.
  cbv zeta.
  assert (R1 : reach ex_W (fst (compile caches_empty [ex_e1; ex_e2]))).
  { apply reach_compile; [apply reach_empty|]. repeat (apply Forall_cons || apply Forall_nil); unfold ex_W; auto. }
  split; [apply reach_evict_authz, reach_evict_parsed, R1|].
  split; [vm_compute; discriminate|]. split; [vm_compute; discriminate|]. split; [reflexivity|].
  split; [apply reach_compile; [apply (reach_purge _ _ R1)|]; repeat (apply Forall_cons || apply Forall_nil); unfold ex_W; auto|].
  vm_compute. reflexivity.
Qed.

(* the versioning hypothesis of C08_pure is needed: with two different policies under the same
   (ID, ModifyIndex) the authorizer cache hands the second token the first one's authorizer *)
Example C08_pure_needs_versioning :
  let e := PEntry 1 1 11 true (p_key "a" (PCanon LRead)) in
  let e' := PEntry 1 1 12 true (p_key "a" (PCanon LWrite)) in
  let c := fst (compile caches_empty [e]) in
  resolve_decide c [e'] deny_all (MKeyWrite "a") = Some Deny
  /\ resolve_decide caches_empty [e'] deny_all (MKeyWrite "a") = Some Allow.
Proof. vm_compute. split; reflexivity. Qed.

(* ... and so is its second half (the content hash determines the rules): with two different
   policies under one hash the parsed-policy cache serves the first one for both.  The real
   ACLPolicy.SetHash concatenates name, description and rules without delimiters, so such pairs
   exist without any hash collision (open finding content-hash-concatenation-ambiguity). *)
Example C08_pure_needs_hash_determines_rules :
  let e := PEntry 1 1 11 true (p_key "a" (PCanon LRead)) in
  let e' := PEntry 2 1 11 true (p_key "a" (PCanon LWrite)) in
  let c := fst (compile caches_empty [e]) in
  resolve_decide c [e'] deny_all (MKeyWrite "a") = Some Deny
  /\ resolve_decide caches_empty [e'] deny_all (MKeyWrite "a") = Some Allow.
Proof. vm_compute. split; reflexivity. Qed.

Print Assumptions C08_semantics.
Print Assumptions C08_valid_is_levelled.
Print Assumptions C08_mixed_case_example.
Print Assumptions C08_strongest.
Print Assumptions C08_longest_prefix.
Print Assumptions C08_subtree.
Print Assumptions C08_any.
Print Assumptions C08_all.
Print Assumptions C08_covers.
Print Assumptions C08_order_independent.
Print Assumptions C08_order_mixed_case_example.
Print Assumptions C08_map_order_independent.
Print Assumptions C08_pure.
Print Assumptions C08_pure_authorizer.
Print Assumptions C08_semantics_through_caches.
Print Assumptions C08_token_policies_from_world.
Print Assumptions C08_token_pure.
Print Assumptions C08_token_resolution_keeps_reach.
Print Assumptions C08_reach_monotone.
Print Assumptions C08_token_pure_across_worlds.
Print Assumptions C08_identity_union.
Print Assumptions C08_token_semantics.
Print Assumptions C08_link_order_independent.
Print Assumptions C08_templated_scope_regression.
Print Assumptions C08_unscoped_identity_regression.
Print Assumptions C08_token_example.
Print Assumptions C08_levelled_example.
Print Assumptions C08_intentions_reading.
Print Assumptions C08_map_order_example.
Print Assumptions C08_pure_example.
Print Assumptions C08_evicted_cache_example.
Print Assumptions C08_pure_needs_versioning.
Print Assumptions C08_pure_needs_hash_determines_rules.
