(* C07 — catalog integrity: no orphans, complete cascades, derived views agree.  Theorems only.

   Two models are involved (DESIGN.md section 5):
   * the core store model [Verif.Store.Model] (nodes, typical services, checks, sessions, KV,
     transactions; tied to the code by checks C03-C05): orphan freedom and the cascades are proved
     there, so that the session cascades a removal triggers are covered;
   * the catalog extension model [Verif.Catalog.Model] (service kinds, kind-service-names, usage,
     virtual IPs, gateway-services, mesh-topology; tied to the code by this property's check):
     the statements about derived views. *)
From stdpp Require Import gmap strings.
From Coq Require Import NArith.
From Verif Require Store.Model.
From Verif Require Import Catalog.StoreOrphans.
From Verif Require Import Catalog.Model Catalog.Spec Catalog.VIP Catalog.Reach Catalog.Refuted.
Local Open Scope N_scope.

Module S := Verif.Store.Model.

(* ================= no orphans (store model: all commands, sessions and transactions included) ===== *)
Theorem C07_no_orphans : forall s : S.st, SReach s ->
  (forall nd sid v, S.services s !! (nd, sid) = Some v -> is_Some (S.nodes s !! nd)) /\
  (forall nd cid c, S.checks s !! (nd, cid) = Some c ->
     is_Some (S.nodes s !! nd) /\
     (S.c_service c ≠ "" -> is_Some (S.services s !! (nd, S.c_service c)))).
Proof. exact SReach_NoOrphans. Qed.

(* ================= cascades ================= *)
(* a node deregistration that succeeds leaves no service, no check and no node row of that node *)
Theorem C07_cascade_node : forall idx nd (s s' : S.st), SReach s ->
  S.apply idx (S.Deregister nd "" "") s = (s', S.CNil) ->
  S.nodes s' !! nd = None /\
  (forall sid, S.services s' !! (nd, sid) = None) /\
  (forall cid, S.checks s' !! (nd, cid) = None).
Proof. intros idx nd s s' Hr. apply deregister_node_cascade. apply SReach_NoOrphans. exact Hr. Qed.

(* a service deregistration that succeeds leaves neither the instance nor a check that names it *)
Theorem C07_cascade_service : forall idx nd svc cid0 (s s' : S.st), svc ≠ "" -> SReach s ->
  S.apply idx (S.Deregister nd svc cid0) s = (s', S.CNil) ->
  S.services s' !! (nd, svc) = None /\
  (forall cid c, S.checks s' !! (nd, cid) = Some c -> S.c_service c ≠ svc).
Proof. intros idx nd svc cid0 s s' Hsvc Hr. apply deregister_service_cascade; [exact Hsvc|]. apply SReach_NoOrphans. exact Hr. Qed.

(* a failed command changes nothing (Store.Theorems.failed_command_changes_nothing, property C05), so
   the two statements above cover every deregistration.  Non-vacuity: a reachable store with a
   service, checks and a session; a rename by node ID and a deregistration that both succeed. *)
Example C07_cascade_example :
  let s := (S.run orphan_log S.st0).1 in
  SReach s /\
  is_Some (S.services s !! ("n1", "s1")) /\ is_Some (S.checks s !! ("n1", "c1")) /\ is_Some (S.sessions s !! "sess") /\
  let s' := (S.apply 5 (S.Register "n3" "id1" 1 false None []) s).1 in
  S.nodes s' !! "n1" = None /\ is_Some (S.nodes s' !! "n3") /\ S.services s' !! ("n1", "s1") = None /\
  S.checks s' !! ("n1", "c1") = None /\ S.sessions s' !! "sess" = None /\ is_Some (S.services s' !! ("n2", "s1")) /\
  (S.apply 6 (S.Deregister "n2" "" "") s').2 = S.CNil.
Proof. exact orphan_example. Qed.

(* ================= virtual IPs (catalog model) ================= *)
(* no two services are ever assigned the same virtual IP *)
Theorem C07_vip_unique : forall s, CReach s ->
  forall n1 n2 ip m1 m2, vips s !! n1 = Some (ip, m1) -> vips s !! n2 = Some (ip, m2) -> n1 = n2.
Proof. exact vip_unique. Qed.

(* FULL STATEMENT (false): in every reachable state, an instance that advertises a virtual IP
   advertises the current assignment of its service (for a sidecar proxy: of its destination):
     forall s, CReach s -> forall k v ip n, services s !! k = Some v -> sv_vip v = Some ip ->
       connect_name v = Some n -> exists m, vips s !! n = Some (ip, m).
   Refuted: freeServiceVirtualIP only looks for instances NAMED like the service, so the assignment
   of "web" is freed while web's sidecar proxy still advertises it, and the address is handed to the
   next service. *)
Theorem C07_vip_advertised_refuted : exists s, CReach s /\
  (exists v, services s !! ("n1", "s1") = Some v /\ sv_vip v = Some 1 /\ connect_name v = Some "web") /\
  vips s !! "web" = None /\
  (exists v, services s !! ("n1", "s2") = Some v /\ sv_vip v = Some 1 /\ connect_name v = Some "db") /\
  vips s !! "db" = Some (1, []).
Proof. exists (run vip_log st0).1. split; [apply CReach_run|exact vip_advertised_witness]. Qed.

(* ... it holds for the instances that are not sidecar proxies (connect-native services) *)
Theorem C07_vip_advertised_partial : forall s, CReach s ->
  forall k v ip, services s !! k = Some v -> sv_vip v = Some ip ->
    sv_native v = true -> sv_kind v ≠ KProxy ->
    exists m, vips s !! sv_name v = Some (ip, m).
Proof. exact vip_advertised_native. Qed.

Print Assumptions C07_no_orphans.
Print Assumptions C07_cascade_node.
Print Assumptions C07_cascade_service.
Print Assumptions C07_cascade_example.
Print Assumptions C07_vip_unique.
Print Assumptions C07_vip_advertised_refuted.
Print Assumptions C07_vip_advertised_partial.
