(* C07 — catalog integrity: no orphans, complete cascades, derived views agree.  Theorems only.

   Two models are involved (DESIGN.md section 5):
   * the core store model [Verif.Store.Model] (nodes, typical services, checks, sessions, KV,
     transactions; tied to the code by checks C03-C05): orphan freedom and the cascades are proved
     there, so that the session cascades a removal triggers are covered;
   * the catalog extension model [Verif.Catalog.Model] (service kinds, kind-service-names, usage,
     virtual IPs, gateway-services, mesh-topology; tied to the code by this property's check):
     the statements about derived views. *)
From stdpp Require Import gmap strings.
From Coq Require Import NArith.
From Verif Require Store.Model.
From Verif Require Import Catalog.StoreOrphans.
From Verif Require Import Catalog.Model Catalog.Spec Catalog.VIP Catalog.Reach Catalog.Refuted Catalog.Usage Catalog.KindNames Catalog.Examples Catalog.Orphans Catalog.Topology Catalog.ConfUsage Catalog.ManualVIP.
Local Open Scope N_scope.

Module S := Verif.Store.Model.

(* ================= no orphans (store model: all commands, sessions and transactions included) ===== *)
Theorem C07_no_orphans : forall s : S.st, SReach s ->
  (forall nd sid v, S.services s !! (nd, sid) = Some v -> is_Some (S.nodes s !! nd)) /\
  (forall nd cid c, S.checks s !! (nd, cid) = Some c ->
     is_Some (S.nodes s !! nd) /\
     (S.c_service c ≠ "" -> is_Some (S.services s !! (nd, S.c_service c)))).
Proof. exact SReach_NoOrphans. Qed.

(* ================= cascades ================= *)
(* a node deregistration that succeeds leaves no service, no check and no node row of that node *)
Theorem C07_cascade_node : forall idx nd (s s' : S.st), SReach s ->
  S.apply idx (S.Deregister nd "" "") s = (s', S.CNil) ->
  S.nodes s' !! nd = None /\
  (forall sid, S.services s' !! (nd, sid) = None) /\
  (forall cid, S.checks s' !! (nd, cid) = None).
Proof. intros idx nd s s' Hr. apply StoreOrphans.deregister_node_cascade. apply SReach_NoOrphans. exact Hr. Qed.

(* a service deregistration that succeeds leaves neither the instance nor a check that names it *)
Theorem C07_cascade_service : forall idx nd svc cid0 (s s' : S.st), svc ≠ "" -> SReach s ->
  S.apply idx (S.Deregister nd svc cid0) s = (s', S.CNil) ->
  S.services s' !! (nd, svc) = None /\
  (forall cid c, S.checks s' !! (nd, cid) = Some c -> S.c_service c ≠ svc).
Proof. intros idx nd svc cid0 s s' Hsvc Hr. apply StoreOrphans.deregister_service_cascade; [exact Hsvc|]. apply SReach_NoOrphans. exact Hr. Qed.

(* a failed command changes nothing (Store.Theorems.failed_command_changes_nothing, property C05), so
   the two statements above cover every deregistration.  Non-vacuity: a reachable store with a
   service, checks and a session; a rename by node ID and a deregistration that both succeed. *)
Example C07_cascade_example :
  let s := (S.run orphan_log S.st0).1 in
  SReach s /\
  is_Some (S.services s !! ("n1", "s1")) /\ is_Some (S.checks s !! ("n1", "c1")) /\ is_Some (S.sessions s !! "sess") /\
  let s' := (S.apply 5 (S.Register "n3" "id1" 1 false None []) s).1 in
  S.nodes s' !! "n1" = None /\ is_Some (S.nodes s' !! "n3") /\ S.services s' !! ("n1", "s1") = None /\
  S.checks s' !! ("n1", "c1") = None /\ S.sessions s' !! "sess" = None /\ is_Some (S.services s' !! ("n2", "s1")) /\
  (S.apply 6 (S.Deregister "n2" "" "") s').2 = S.CNil.
Proof. exact orphan_example. Qed.

(* non-vacuity of C07_cascade_service: a service deregistration that succeeds in a reachable store *)
Example C07_cascade_service_example :
  let s := (S.run orphan_log S.st0).1 in
  (S.apply 5 (S.Deregister "n1" "s1" "") s).2 = S.CNil /\
  let s' := (S.apply 5 (S.Deregister "n1" "s1" "") s).1 in
  S.services s' !! ("n1", "s1") = None /\ S.checks s' !! ("n1", "c1") = None /\
  is_Some (S.checks s' !! ("n1", "c2")) /\ is_Some (S.nodes s' !! "n1").
Proof. exact service_dereg_example. Qed.

(* ---- the same three statements over the catalog extension model: all service kinds, sidecar
   proxies, gateways, config entries, catalog transactions, and coordinates (no sessions) ---- *)
Theorem C07_no_orphans_catalog : forall s, CReach s ->
  (forall nd sid v, services s !! (nd, sid) = Some v -> is_Some (nodes s !! nd)) /\
  (forall nd cid c, checks s !! (nd, cid) = Some c ->
     is_Some (nodes s !! nd) /\ (c_service c ≠ "" -> is_Some (services s !! (nd, c_service c)))) /\
  (forall nd, nd ∈ coords s -> is_Some (nodes s !! nd)).
Proof. exact CReach_NoOrph. Qed.

(* a node deregistration (it cannot fail in this model) leaves no service, check, coordinate or node row *)
Theorem C07_cascade_node_catalog : forall idx nd s, CReach s ->
  let s' := (apply idx (Deregister nd "" "") s).1 in
  nodes s' !! nd = None /\ nd ∉ coords s' /\
  (forall sid, services s' !! (nd, sid) = None) /\ (forall cid, checks s' !! (nd, cid) = None).
Proof. intros idx nd s Hr. apply Orphans.deregister_node_cascade. apply CReach_NoOrph. exact Hr. Qed.

Theorem C07_cascade_service_catalog : forall idx nd sid cid0 s, sid ≠ "" -> CReach s ->
  let s' := (apply idx (Deregister nd sid cid0) s).1 in
  services s' !! (nd, sid) = None /\ (forall cid c, checks s' !! (nd, cid) = Some c -> c_service c ≠ sid).
Proof. intros idx nd sid cid0 s Hs Hr. apply Orphans.deregister_service_cascade; [exact Hs|]. apply CReach_NoOrph. exact Hr. Qed.

(* ================= virtual IPs (catalog model) ================= *)
(* no two services are ever assigned the same virtual IP *)
Theorem C07_vip_unique : forall s, CReach s ->
  forall n1 n2 ip m1 m2, vips s !! n1 = Some (ip, m1) -> vips s !! n2 = Some (ip, m2) -> n1 = n2.
Proof. exact vip_unique. Qed.

(* the allocator behind it: an assigned address is positive, never beyond the counter and never in the
   free list (so neither the counter nor the free list can hand it out a second time) *)
Theorem C07_vip_allocator : forall s, CReach s ->
  forall n ip m, vips s !! n = Some (ip, m) -> 0 < ip <= counter s /\ ip ∉ free s.
Proof. exact vip_allocator. Qed.

(* manual virtual IPs: no address is in the manual lists of two services (a request takes each of its
   addresses away from the service that held it).  NOT covered: a manual address that equals the
   AUTOMATIC address of another service -- the code accepts it (open finding vip-unique /
   manual-ip-in-auto-range), and the model keeps manual addresses as opaque strings. *)
Theorem C07_vip_manual_unique : forall s, CReach s ->
  forall n1 n2 a1 m1 a2 m2 (x : string),
    vips s !! n1 = Some (a1, m1) -> vips s !! n2 = Some (a2, m2) -> x ∈ m1 -> x ∈ m2 -> n1 = n2.
Proof. exact manual_vip_unique. Qed.

Example C07_vip_manual_example :
  let s := (run manual_log st0).1 in
  CReach s /\ vips s !! "web" = Some (1, ["1.1.1.1"]) /\ vips s !! "db" = Some (2, ["2.2.2.2"; "3.3.3.3"]).
Proof. exact manual_example. Qed.

(* in every reachable state, an instance that advertises a virtual IP is in the connect index and
   advertises the current assignment of the service it is indexed under (its own name if
   connect-native, its destination if a sidecar proxy).  True of every instance since /repo 8e1bd1c
   (freeServiceVirtualIP looks at the connect index); before, it was refuted for sidecar proxies. *)
Theorem C07_vip_advertised : forall s, CReach s ->
  forall k v ip, services s !! k = Some v -> sv_vip v = Some ip ->
    exists n m, connect_name v = Some n /\ vips s !! n = Some (ip, m).
Proof. exact vip_advertised. Qed.

(* the history that used to refute it (a service-defaults entry written and deleted under a live
   sidecar proxy, then another connect service): web keeps address 1, db gets 2 *)
Example C07_vip_advertised_example : exists s, CReach s /\
  (exists v, services s !! ("n1", "s1") = Some v /\ sv_vip v = Some 1 /\ connect_name v = Some "web") /\
  vips s !! "web" = Some (1, []) /\
  (exists v, services s !! ("n1", "s2") = Some v /\ sv_vip v = Some 2 /\ connect_name v = Some "db") /\
  vips s !! "db" = Some (2, []).
Proof. exists (run vip_log st0).1. split; [apply CReach_run|exact vip_repaired_example]. Qed.

(* ================= derived views (catalog model) ================= *)
(* FULL STATEMENT (false): in every reachable state every derived view equals its recomputation from
   the base rows and config entries:
     forall s, CReach s ->
       ksn s = recompute_ksn s /\ (forall id, stored_usage s id = recompute_usage s id) /\
       stored_gws s = recompute_gws s /\ topo s = recompute_topo s.
   The usage conjunct holds (C07_derived_usage).  The other three are refuted below by reachable states
   (the same histories fail on the real store: harness/catalog corpus); what does hold is stated next
   to each refutation. *)

(* ---- usage counts ---- *)
(* the node, instance, service-name, connect-kind, connect-native and billable counters equal the counts
   recomputed from the rows in every reachable state.  Full statement since /repo 10e7cca; before, the
   billable count was refuted by an instance renamed to "consul". *)
Theorem C07_derived_usage : forall s, CReach s ->
  forall id, id ∈ svc_usage_ids -> stored_usage s id = recompute_usage s id.
Proof. exact usage_recomputed. Qed.

(* the four config-entry counters (config-entries-<kind>) equal the number of entries of that kind;
   behind it: an entry is always stored under the key (its own kind, its name), so an update in
   place never changes a kind *)
Theorem C07_derived_usage_confs : forall s, CReach s ->
  forall kind, kind ∈ conf_kinds -> stored_usage s (conf_usage kind) = recompute_usage s (conf_usage kind).
Proof. exact conf_usage_recomputed. Qed.

(* together: every counter of the usage table the model has (all thirteen ids) *)
Theorem C07_derived_usage_all : forall s, CReach s ->
  forall id, id ∈ usage_ids -> stored_usage s id = recompute_usage s id.
Proof. exact usage_all_recomputed. Qed.

Example C07_derived_usage_confs_example :
  let s := (run conf_usage_log st0).1 in
  CReach s /\ stored_usage s (conf_usage "terminating-gateway") = 1 /\ stored_usage s (conf_usage "ingress-gateway") = 0 /\
  stored_usage s (conf_usage "service-defaults") = 2 /\ stored_usage s (conf_usage "service-resolver") = 1 /\
  stored_usage (run (take 2 conf_usage_log) st0).1 (conf_usage "ingress-gateway") = 1.
Proof. exact conf_usage_example. Qed.

(* one commit step, for arbitrary states: if the counters were right before, they are right after *)
Theorem C07_derived_usage_step : forall before after,
  (forall id, id ∈ svc_usage_ids -> stored_usage before id = recompute_usage before id) ->
  forall id, id ∈ svc_usage_ids -> stored_usage (commit_usage before after) id = recompute_usage (commit_usage before after) id.
Proof. exact commit_usage_ok. Qed.

(* non-vacuity: a reachable state in which every counter is non-zero or changes; and the history that
   used to refute the statement (a proxy renamed to "consul" next to a billable service) *)
Example C07_derived_usage_example :
  let s := (run usage_example_log st0).1 in
  CReach s /\ stored_usage s "nodes" = 2 /\ stored_usage s "services" = 3 /\ stored_usage s "service-names" = 3 /\
  stored_usage s (connect_usage KTermGW) = 1 /\ stored_usage s native_usage = 1 /\ stored_usage s billable_usage = 1.
Proof. exact usage_example. Qed.

Example C07_derived_usage_consul_example :
  let s := (run usage_log st0).1 in
  stored_usage s billable_usage = 1 /\ recompute_usage s billable_usage = 1.
Proof. exact usage_repaired_example. Qed.

(* ---- kind-service-names ---- *)
(* FULL STATEMENT (still false): forall s, CReach s -> ksn s = recompute_ksn s.  A reachable state with
   a row no registration or config entry justifies: an instance re-registered under another name (or
   kind) -- a re-registration never passes through deleteServiceTxn, so the old (kind, name) pair
   stays.
   (Two other classes are repaired: a name shared by instances of two kinds, /repo 0bb54ea,
   C07_derived_kindnames_shared_example; a service-defaults entry that loses its Destination by an
   update, /repo 0d0f3e6, C07_derived_kindnames_destination_example.) *)
Theorem C07_derived_kindnames_refuted :
  exists s, CReach s /\ ("", "db") ∈ ksn s /\ ("", "db") ∉ recompute_ksn s /\ ksn s ≠ recompute_ksn s.
Proof. exists (run ksn_log2 st0).1. split; [apply CReach_run|exact kindnames_witness2]. Qed.

(* the history that used to leave the (destination, name) row behind; and the same under a
   terminating wildcard, where the destination's wildcard association used to stay *)
Example C07_derived_kindnames_destination_example :
  ("destination", "ext") ∈ ksn (run (take 1 ksn_log3) st0).1 /\
  let s := (run ksn_log3 st0).1 in ksn s = ∅ /\ recompute_ksn s = ∅.
Proof. exact kindnames_dest_repaired_example. Qed.

Example C07_derived_gateway_destination_example :
  is_Some (gws (run (take 2 gws_dest_log) st0).1 !! ("tgw", "ext", 0)) /\
  let s := (run gws_dest_log st0).1 in gws s !! ("tgw", "ext", 0) = None /\ stored_gws s = recompute_gws s.
Proof. exact gateway_dest_repaired_example. Qed.

(* kind-service-names equals its recomputation in every state reached under a naming discipline D:
   every instance key (node, service id) is always registered with the same name, kind, native flag
   and destination (d_def), and the service-defaults entry of a name always or never carries a
   destination (d_dest) — exactly the histories the two refutations are not in; a name MAY be shared
   by instances of several kinds.  [cmd_ok D c] is the syntactic condition on a command; CReachD D
   closes st0 under the commands that satisfy it. *)
Theorem C07_derived_kindnames_partial : forall (D : discipline) s, CReachD D s -> ksn s = recompute_ksn s.
Proof. exact kindnames_recomputed. Qed.

(* non-vacuity: a discipline and a history under it (a service, its sidecar proxy, a connect-native
   service registered by a transaction, a destination, a wildcard gateway, a proxy registered under
   the name of the service; then deregistrations) *)
Example C07_derived_kindnames_example :
  CReachD example_discipline (run (take 8%nat kn_example_log) st0).1 /\
  ksn (run (take 8%nat kn_example_log) st0).1 =
    {[ ("", "web"); ("connect-proxy", "web-proxy"); ("connect-enabled", "web"); ("", "db"); ("connect-enabled", "db");
       ("destination", "ext") ]} /\
  CReachD example_discipline (run kn_example_log st0).1 /\
  ksn (run kn_example_log st0).1 = {[ ("connect-proxy", "web-proxy"); ("connect-enabled", "web") ]}.
Proof. exact kn_example. Qed.

(* the history that used to leave a row behind (a proxy named like a service; the proxy's node goes) *)
Example C07_derived_kindnames_shared_example :
  let s := (run ksn_log st0).1 in
  ("connect-proxy", "web") ∉ ksn s /\ ("", "web") ∈ ksn s /\ ksn s = recompute_ksn s.
Proof. exact kindnames_repaired_example. Qed.

(* ---- mesh-topology ---- *)
(* What holds (the content of /repo acb191c), for arbitrary states: registering an instance adds it to
   the references of every pair it lists and removes nobody else's reference from those pairs; pairs
   of other destinations are untouched. *)
Theorem C07_topology_refs_kept : forall nd sid dest ups existing s u, u ∈ ups ->
  let s' := update_mesh_topology nd sid dest ups existing s in
  is_Some (topo s' !! (u, dest)) /\ (nd, sid) ∈ refs_of s' (u, dest) /\ refs_of s (u, dest) ⊆ refs_of s' (u, dest).
Proof. exact update_mesh_topology_keeps_refs. Qed.

Theorem C07_topology_other_destination : forall nd sid dest ups existing s p,
  p.2 ≠ dest -> topo (update_mesh_topology nd sid dest ups existing s) !! p = topo s !! p.
Proof. exact update_mesh_topology_other_destination. Qed.

(* the history that used to lose a reference (two proxy instances declare the same upstream, the
   second is deregistered) now agrees with the recomputation after every step *)
Example C07_derived_topology_example :
  topo (run (take 2 topo_log) st0).1 !! ("db", "web") = Some {[ ("n1", "s1"); ("n2", "s1") ]} /\
  topo (run (take 2 topo_log) st0).1 = recompute_topo (run (take 2 topo_log) st0).1 /\
  topo (run topo_log st0).1 !! ("db", "web") = Some {[ ("n1", "s1") ]} /\
  topo (run topo_log st0).1 = recompute_topo (run topo_log st0).1.
Proof. exact topology_repaired_example. Qed.

(* FULL STATEMENT (still false): forall s, CReach s -> topo s = recompute_topo s.  Three reachable
   states in which the table differs from the recomputation:
   (1) an instance that stops listing an upstream deletes the pair although another instance still
       declares it;
   (2) an instance re-registered as a non-proxy keeps the pairs it declared as a proxy;
   (3) an ingress gateway lists a service on one listener and "*" on another: when the service's last
       connect instance goes, the wildcard-derived association is removed and takes the (service,
       gateway) pair with it although the listed association remains.
   (4) a connect-native service registered with upstreams leaves its pairs (upstream, "") behind when
       it is deregistered: no instance is left at all, the pair and its reference are. *)
Theorem C07_derived_topology_refuted :
  (exists s, CReach s /\ topo s !! ("db", "web") = None /\ recompute_topo s !! ("db", "web") = Some {[ ("n1", "s1") ]}) /\
  (exists s, CReach s /\ topo s !! ("db", "web") = Some {[ ("n1", "s1") ]} /\ recompute_topo s !! ("db", "web") = None) /\
  (exists s, CReach s /\ topo s !! ("web", "igw") = None /\ is_Some (gws s !! ("igw", "web", 8080)) /\
             recompute_topo s !! ("web", "igw") = Some ∅) /\
  (exists s, CReach s /\ services s = ∅ /\ topo s !! ("db", "") = Some {[ ("n1", "s1") ]} /\
             recompute_topo s !! ("db", "") = None).
Proof.
  split; [|split; [|split]].
  - exists (run topo_drop_log st0).1. split; [apply CReach_run|exact topology_witness].
  - exists (run topo_redef_log st0).1. split; [apply CReach_run|exact topology_witness2].
  - exists (run topo_gw_log st0).1. split; [apply CReach_run|exact topology_witness3].
  - exists (run topo_native_log st0).1. split; [apply CReach_run|exact topology_witness4].
Qed.

(* ---- gateway-services ---- *)
(* repaired (/repo a882280, 948377c): a service listed next to the wildcard of the same entry keeps its
   listed row through registration and deregistration, and every row of a service learns a new
   service kind *)
Example C07_derived_gateway_example :
  stored_gws (run (take 2 gws_log) st0).1 = recompute_gws (run (take 2 gws_log) st0).1 /\
  stored_gws (run (take 2 gws_log) st0).1 !! ("tgw", "web", 0) = Some (KTermGW, false) /\
  stored_gws (run gws_log st0).1 = recompute_gws (run gws_log st0).1 /\
  stored_gws (run gws_log st0).1 !! ("tgw", "web", 0) = Some (KTermGW, false).
Proof. exact gateway_repaired_example. Qed.

Example C07_derived_gateway_rows_example :
  let s := (run gws_rows_log st0).1 in
  gws s !! ("tgw", "ext", 0) = Some (GS KTermGW false GDestination) /\
  gws s !! ("tgw2", "ext", 0) = Some (GS KTermGW false GDestination).
Proof. exact gateway_rows_repaired_example. Qed.

(* FULL STATEMENT (still false): forall s, CReach s -> stored_gws s = recompute_gws s.  What is still
   wrong is order dependence around wildcards, and the missing cleanup on re-registration:
   (1) the SAME two commands in both orders — a sidecar proxy of "db" (no instance named db) and an
       ingress entry with "*" — give different tables: the association (igw, db) exists only if the
       proxy registers after the entry is written;
   (2) likewise a service-defaults destination gets an association with a wildcard INGRESS gateway
       only if it is written before the entry;
   (3) an instance re-registered under another name leaves the wildcard-derived association of its
       old name behind. *)
Theorem C07_derived_gateway_refuted :
  (let a := (run [(3, igw_conf); (4, igw_proxy)] st0).1 in
   let b := (run [(3, igw_proxy); (4, igw_conf)] st0).1 in
   CReach a /\ CReach b /\
   stored_gws a !! ("igw", "db", 8080) = Some (KIngressGW, true) /\ stored_gws b !! ("igw", "db", 8080) = None /\
   recompute_gws a = recompute_gws b /\ stored_gws b ≠ recompute_gws b) /\
  (let a := (run [(3, ConfSet "ext" (CDefaults true)); (4, igw_conf)] st0).1 in
   let b := (run [(3, igw_conf); (4, ConfSet "ext" (CDefaults true))] st0).1 in
   CReach a /\ CReach b /\
   stored_gws a !! ("igw", "ext", 8080) = Some (KIngressGW, true) /\ stored_gws b !! ("igw", "ext", 8080) = None /\
   recompute_gws a = recompute_gws b /\ stored_gws a ≠ recompute_gws a) /\
  (exists s, CReach s /\ stored_gws s !! ("tgw", "api", 0) = Some (KTermGW, true) /\ recompute_gws s !! ("tgw", "api", 0) = None).
Proof.
  split; [|split].
  - cbv zeta. split; [apply CReach_run|]. split; [apply CReach_run|]. exact gateway_order_witness.
  - cbv zeta. split; [apply CReach_run|]. split; [apply CReach_run|]. exact gateway_order_witness2.
  - exists (run gws_redef_log st0).1. split; [apply CReach_run|exact gateway_redef_witness].
Qed.

(* non-vacuity for the virtual IP theorems: two services with addresses 1 and 2, a connect-native
   instance advertising its service's address (C07_vip_advertised_example has a sidecar proxy) *)
Example C07_vip_example :
  let s := (run (take 4%nat usage_example_log) st0).1 in
  CReach s /\ vips s !! "web" = Some (1, []) /\ vips s !! "db" = Some (2, []) /\
  exists v, services s !! ("n2", "s1") = Some v /\ sv_vip v = Some 2 /\ sv_native v = true /\ sv_kind v ≠ KProxy /\ sv_name v = "db".
Proof. exact vip_example. Qed.

Print Assumptions C07_no_orphans.
Print Assumptions C07_vip_example.
Print Assumptions C07_cascade_node.
Print Assumptions C07_cascade_service.
Print Assumptions C07_cascade_example.
Print Assumptions C07_cascade_service_example.
Print Assumptions C07_no_orphans_catalog.
Print Assumptions C07_cascade_node_catalog.
Print Assumptions C07_cascade_service_catalog.
Print Assumptions C07_vip_unique.
Print Assumptions C07_vip_allocator.
Print Assumptions C07_vip_manual_unique.
Print Assumptions C07_vip_manual_example.
Print Assumptions C07_vip_advertised.
Print Assumptions C07_vip_advertised_example.
Print Assumptions C07_derived_usage.
Print Assumptions C07_derived_usage_consul_example.
Print Assumptions C07_derived_usage_step.
Print Assumptions C07_derived_usage_confs.
Print Assumptions C07_derived_usage_all.
Print Assumptions C07_derived_usage_confs_example.
Print Assumptions C07_derived_usage_example.
Print Assumptions C07_derived_kindnames_refuted.
Print Assumptions C07_derived_kindnames_destination_example.
Print Assumptions C07_derived_gateway_destination_example.
Print Assumptions C07_derived_kindnames_partial.
Print Assumptions C07_derived_kindnames_example.
Print Assumptions C07_derived_kindnames_shared_example.
Print Assumptions C07_topology_refs_kept.
Print Assumptions C07_topology_other_destination.
Print Assumptions C07_derived_topology_example.
Print Assumptions C07_derived_topology_refuted.
Print Assumptions C07_derived_gateway_example.
Print Assumptions C07_derived_gateway_rows_example.
Print Assumptions C07_derived_gateway_refuted.
