(* C10 — conditional writes are honest: applied iff matched, reported iff applied.  Theorems only.

   Vocabulary (CAS/Spec.v).  A conditional command type is a record W of five functions of the
   state s and the request c:
     cw_post W s c     the state after the FSM applied the command (all tables, all index rows)
     cw_ok W s c       the command's result is the success value
     cw_matched W s c  SPECIFICATION: the caller's expected index is the entity's current one
     cw_valid W s c    the unconditional write of the same payload would be accepted
     cw_write W s c    the state the unconditional write produces
   and   applied W s c := cw_post W s c <> s        effective W s c := cw_write W s c <> s
         honest_on P W := for all s c with P s c:
             (cw_ok W s c = true <-> cw_matched W s c = true /\ cw_valid W s c = true)
          /\ (cw_ok W s c = true  -> cw_post W s c = cw_write W s c)
          /\ (cw_ok W s c = false -> cw_post W s c = s)           honest := honest_on (fun _ _ => True).
   The W_... records are defined next to their proofs (CAS/Proofs.v over CAS/Model.v, CAS/StoreProofs.v
   over Store/Model.v); each takes its post state and its result from the model of the FSM command. *)
From stdpp Require Import gmap strings.
From Coq Require Import NArith.
From Verif Require Store.Model Store.Theorems.
From Verif Require Import CAS.Spec CAS.Model CAS.Proofs CAS.StoreProofs CAS.Examples.
Local Open Scope N_scope.

(* ---------- the schema: what honesty gives for every command type at once ---------- *)
Theorem C10_schema : forall (S C : Type) (EqS : EqDecision S) (P : S -> C -> Prop) (W : cond_write S C),
  honest_on P W -> forall s c, P s c ->
  (effective W s c -> (cw_matched W s c = true /\ cw_valid W s c = true <-> applied W s c)) /\
  (effective W s c -> (cw_ok W s c = true <-> applied W s c)) /\
  (applied W s c -> cw_matched W s c = true /\ cw_valid W s c = true) /\
  (~ applied W s c -> cw_post W s c = s) /\
  (cw_matched W s c = false -> cw_post W s c = s) /\
  (cw_post W s c = s \/ cw_post W s c = cw_write W s c).
Proof. exact @schema. Qed.

(* ---------- KV ---------- *)
Theorem C10_kv_cas : honest W_kv_cas.
Proof. exact kv_cas_honest. Qed.

(* delete-cas with "matched" read as upstream's tests pin it (an absent key matches) ... *)
Theorem C10_kv_delete_cas : honest W_kv_delete_cas.
Proof. exact kv_delete_cas_honest. Qed.

(* ... and the delete variant of the schema spelled out:
   reported_ok <-> key absent afterwards /\ (was present -> matched) *)
Theorem C10_kv_delete_cas_variant : forall s c,
  cw_ok W_kv_delete_cas s c = true <->
  Store.Model.kvs (cw_post W_kv_delete_cas s c) !! Store.Model.q_key (kc_req c) = None /\
  (forall e, Store.Model.kvs s !! Store.Model.q_key (kc_req c) = Some e ->
             Store.Model.kv_modify e = Store.Model.q_index (kc_req c)).
Proof. exact kv_delete_cas_variant. Qed.

(* ---------- the eight conditional transaction verbs (kv / node / service / check, cas / delete-cas) ---------- *)
Theorem C10_txn_verbs : honest_on (fun _ c => is_cond (tx_op c) = true) W_txn.
Proof. exact txn_cond_honest. Qed.

(* is_cond covers the cas / delete-cas verbs and the guard verbs check-index / check-not-exists /
   check-session (which write nothing but make the whole transaction conditional);
   mismatch_err op = EGuard for a guard verb, EStale otherwise *)
Theorem C10_txn_mismatch_is_stale : forall s c,
  is_cond (tx_op c) = true -> op_matched (tx_op c) s = false ->
  txn1 c s = (s, Store.Model.CTxn [] [(0%nat, mismatch_err (tx_op c))]).
Proof. exact txn_cond_mismatch_is_stale. Qed.

(* a mismatching conditional verb anywhere in a transaction: nothing of the transaction is applied *)
Theorem C10_txn_mismatch_aborts : forall idx ops1 op ops2 s s1 r1,
  Store.Theorems.seq_ops idx ops1 s = Store.Model.Ok (s1, r1) -> is_cond op = true -> op_matched op s1 = false ->
  txn_ok (Store.Model.txn_rw idx (ops1 ++ op :: ops2) s).2 = false /\
  (Store.Model.txn_rw idx (ops1 ++ op :: ops2) s).1 = s.
Proof. exact txn_cond_mismatch_aborts. Qed.

(* composite clause for transactions of ANY length: committed iff every operation succeeds in
   sequence, each on the state its predecessors produced; then the state is that sequential
   composition, otherwise it is untouched -- all parts or none *)
Theorem C10_txn_all_parts_or_none : forall idx ops s,
  match Store.Theorems.seq_ops idx ops s with
  | Store.Model.Ok (s', _) => txn_ok (Store.Model.txn_rw idx ops s).2 = true /\ (Store.Model.txn_rw idx ops s).1 = s'
  | Store.Model.Err _ _ => txn_ok (Store.Model.txn_rw idx ops s).2 = false /\ (Store.Model.txn_rw idx ops s).1 = s
  end.
Proof. exact txn_all_parts_or_none. Qed.

(* success direction: every conditional operation of a committed transaction matched in ITS state *)
Theorem C10_txn_committed_cond_op_matched : forall idx ops1 op ops2 s s1 r1,
  Store.Theorems.seq_ops idx ops1 s = Store.Model.Ok (s1, r1) -> is_cond op = true ->
  txn_ok (Store.Model.txn_rw idx (ops1 ++ op :: ops2) s).2 = true ->
  op_matched op s1 = true /\ r_ok (op_write idx op s1) = true.
Proof. exact txn_committed_cond_op_matched. Qed.

(* ---------- config entries (for EVERY graph validator) ---------- *)
Theorem C10_config_entry_upsert : forall graph_ok, honest (W_cfg_upsert graph_ok).
Proof. exact cfg_upsert_honest. Qed.

Theorem C10_config_entry_delete : forall graph_ok, honest (W_cfg_delete graph_ok).
Proof. exact cfg_delete_honest. Qed.

Theorem C10_config_entry_delete_reports_removal : forall graph_ok s c,
  cw_ok (W_cfg_delete graph_ok) s c = true ->
  is_Some (cfg s !! d_key c) /\ cfg (cw_post (W_cfg_delete graph_ok) s c) !! d_key c = None.
Proof. exact cfg_delete_reports_removal. Qed.

(* ---------- config entries, the RPC endpoints ConfigEntry.Apply / ConfigEntry.Delete (repaired by fbf8c12) ---------- *)
(* The unconditional write of this layer (cw_write / cw_valid of W_rpc_cfg_upsert) is ConfigEntry.Apply with a
   plain upsert, which is itself a no-op when the stored entry already equals the submitted one.
   Hypothesis stored_positive: the stored entry's ModifyIndex is not zero (it is a Raft index). *)
Theorem C10_config_entry_rpc_upsert : forall graph_ok, honest_on stored_positive (W_rpc_cfg_upsert graph_ok).
Proof. exact rpc_cfg_upsert_honest. Qed.

(* in particular an entry of equal content no longer excuses a wrong index *)
Theorem C10_config_entry_rpc_upsert_equal_content_mismatch : forall graph_ok s c x,
  cfg s !! u_key c = Some x -> u_cidx c <> ce_modify x ->
  apply graph_ok (u_idx c) (rcmd c) s = (s, RBool false).
Proof. exact rpc_cfg_upsert_equal_content_mismatch. Qed.

Theorem C10_config_entry_rpc_upsert_effective : forall graph_ok s c,
  rpc_skip_upsert false 0 (u_key c) (u_content c) (u_status c) s = false ->
  (forall x, cfg s !! u_key c = Some x -> ce_modify x < u_idx c) ->
  cw_valid (W_rpc_cfg_upsert graph_ok) s c = true -> effective (W_rpc_cfg_upsert graph_ok) s c.
Proof. exact rpc_cfg_upsert_effective. Qed.

Theorem C10_config_entry_rpc_delete : forall graph_ok, honest (W_rpc_cfg_delete graph_ok).
Proof. exact rpc_cfg_delete_honest. Qed.

Theorem C10_config_entry_rpc_delete_absent : forall graph_ok s c,
  cfg s !! rd_key c = None ->
  apply graph_ok (rd_idx c) (RpcCfgDelete true (rd_key c) (rd_cidx c)) s = (s, RBool false).
Proof. exact rpc_cfg_delete_absent. Qed.

(* regression + non-vacuity: the inputs answered "true" before the repair (equal content with a stale /
   zero index; delete-cas of an absent entry) are answered false, the matching index is answered true,
   and the witness state meets stored_positive *)
Example C10_example_rpc_regression :
  apply (fun _ _ => true) 9 (rcmd rpc_witness_cmd) rpc_witness_state = (rpc_witness_state, RBool false) /\
  apply (fun _ _ => true) 9 (RpcCfgApply true ("service-defaults", "web") 1 0 0) rpc_witness_state = (rpc_witness_state, RBool false) /\
  apply (fun _ _ => true) 9 (RpcCfgApply true ("service-defaults", "web") 1 0 5) rpc_witness_state = (rpc_witness_state, RBool true) /\
  apply (fun _ _ => true) 5 (RpcCfgDelete true ("service-defaults", "web") 3) st0 = (st0, RBool false) /\
  stored_positive rpc_witness_state rpc_witness_cmd.
Proof. exact rpc_regression. Qed.

(* ---------- CA configuration: a mismatch is an ERROR ---------- *)
Theorem C10_ca_config : honest W_ca_config.
Proof. exact ca_config_honest. Qed.

Theorem C10_ca_config_mismatch_is_error : forall s c,
  cw_matched W_ca_config s c = false ->
  (apply (fun _ _ => true) (ca_idx c) (cacmd c) s).2 = RErr ECAConfigIndex.
Proof. exact ca_config_mismatch_is_error. Qed.

(* explicit deviation: at the FSM command an expected index of zero is "no check" (unconditional
   write, result nil), not "must be absent" as for the same entity inside the composite command *)
Theorem C10_ca_config_zero_overwrites : forall s cl pr idx,
  apply (fun _ _ => true) idx (CASetConfig cl pr 0) s = (ca_set_config_txn idx cl pr s, RNil).
Proof. exact ca_config_zero_overwrites. Qed.

(* ---------- CA roots ---------- *)
Theorem C10_ca_roots : honest W_ca_roots.
Proof. exact ca_roots_honest. Qed.

Theorem C10_ca_roots_stale_is_false : forall s c,
  roots_valid (rr_roots c) = true -> cw_matched W_ca_roots s c = false ->
  apply (fun _ _ => true) (rr_idx c) (CASetRoots (rr_cidx c) (rr_roots c)) s = (s, RBool false).
Proof. exact ca_roots_stale_is_false. Qed.

(* ---------- composite: roots and configuration, all or none ---------- *)
Theorem C10_roots_and_config : honest W_roots_config.
Proof. exact roots_config_honest. Qed.

Theorem C10_roots_and_config_atomic : forall s c,
  max_index ix_roots s < rc_idx c -> (forall x, ca_config s = Some x -> cc_modify x < rc_idx c) ->
  let s' := cw_post W_roots_config s c in
  (roots_part s' ≠ roots_part s <-> ca_config s' ≠ ca_config s).
Proof. exact roots_config_atomic. Qed.

(* ---------- feature gates: two expected indexes ---------- *)
Theorem C10_feature_gate : honest W_feature_gate.
Proof. exact feature_gate_honest. Qed.

(* ---------- autopilot (expected index zero = no configuration stored; repaired by 3cef259) ---------- *)
Theorem C10_autopilot : honest W_autopilot.
Proof. exact autopilot_honest. Qed.

(* ---------- ACL token set with the CAS option: REFUTED, success is reported without a match ---------- *)
(* full statement: honest W_token.  Witness: token t1 stored at index 5, request expecting index 3 *)
Theorem C10_acl_token_refuted :
  cw_ok W_token tok_witness_state tok_witness_cmd = true /\
  cw_matched W_token tok_witness_state tok_witness_cmd = false /\
  cw_valid W_token tok_witness_state tok_witness_cmd = true /\
  cw_post W_token tok_witness_state tok_witness_cmd = tok_witness_state /\
  cw_write W_token tok_witness_state tok_witness_cmd ≠ tok_witness_state.
Proof. exact token_cas_honest_refuted. Qed.

Theorem C10_acl_token_not_honest : ~ honest W_token.
Proof. exact token_cas_not_honest. Qed.

(* everything except "reported -> matched" does hold *)
Theorem C10_acl_token_partial : forall s c,
  well_formed (tk_req c) ->
  (cw_matched W_token s c = true -> cw_valid W_token s c = true ->
   cw_ok W_token s c = true /\ cw_post W_token s c = cw_write W_token s c) /\
  (cw_matched W_token s c = true -> cw_valid W_token s c = false ->
   cw_ok W_token s c = false /\ cw_post W_token s c = s) /\
  (cw_matched W_token s c = false -> cw_post W_token s c = s).
Proof. exact token_cas_partial. Qed.

Theorem C10_acl_token_mismatch_reports_success : forall s c,
  well_formed (tk_req c) -> cw_matched W_token s c = false ->
  apply (fun _ _ => true) (tk_idx c) (tkcmd c) s = (s, RNil).
Proof. exact token_cas_mismatch_reports_success. Qed.

(* a CAS batch is NOT all-or-none: the refused token is skipped, its neighbour written, result nil *)
Theorem C10_acl_token_batch_partial_application :
  let s := tok_witness_state in
  let r := apply (fun _ _ => true) 9 (TokenSet true [TokReq "t1" "s1" 2 3; TokReq "t2" "s2" 7 0]) s in
  r.2 = RNil /\ tokens r.1 !! "t1" = tokens s !! "t1" /\ (t_descr <$> tokens r.1 !! "t2") = Some 7.
Proof. exact token_batch_skips. Qed.

(* ---------- visibility: at an index above every stored one an accepted write always shows ---------- *)
Theorem C10_reachable_bounded : forall graph_ok log n s,
  bounded n s -> increasing n log -> bounded (last_index n log) (final graph_ok log s).
Proof. exact reachable_bounded. Qed.

Theorem C10_bounded_fresh : forall n idx s, bounded n s -> n < idx ->
  (forall k x, cfg s !! k = Some x -> ce_modify x < idx) /\
  (forall x, ca_config s = Some x -> cc_modify x < idx) /\
  max_index ix_roots s < idx /\
  (forall x, autopilot s = Some x -> ap_modify x < idx) /\
  (forall t, fg_status s = Some t -> fs_modify t < idx).
Proof. exact bounded_fresh. Qed.

Theorem C10_config_entry_upsert_effective : forall graph_ok s c,
  (forall x, cfg s !! u_key c = Some x -> ce_modify x < u_idx c) ->
  cw_valid (W_cfg_upsert graph_ok) s c = true -> effective (W_cfg_upsert graph_ok) s c.
Proof. exact cfg_upsert_effective. Qed.

Theorem C10_config_entry_delete_effective : forall graph_ok s c,
  is_Some (cfg s !! d_key c) -> cw_valid (W_cfg_delete graph_ok) s c = true -> effective (W_cfg_delete graph_ok) s c.
Proof. exact cfg_delete_effective. Qed.

Theorem C10_ca_config_effective : forall s c,
  (forall x, ca_config s = Some x -> cc_modify x < ca_idx c) -> effective W_ca_config s c.
Proof. exact ca_config_effective. Qed.

Theorem C10_ca_roots_effective : forall s c,
  max_index ix_roots s < rr_idx c -> cw_valid W_ca_roots s c = true -> effective W_ca_roots s c.
Proof. exact ca_roots_effective. Qed.

Theorem C10_autopilot_effective : forall s c,
  (forall x, autopilot s = Some x -> ap_modify x < ar_idx c) -> effective W_autopilot s c.
Proof. exact autopilot_effective. Qed.

Theorem C10_feature_gate_effective : forall s c,
  (forall t, fg_status s = Some t -> fs_modify t < fg_idx c) ->
  cw_valid W_feature_gate s c = true -> effective W_feature_gate s c.
Proof. exact feature_gate_effective. Qed.

Theorem C10_kv_delete_cas_effective : forall s c,
  is_Some (Store.Model.kvs s !! Store.Model.q_key (kc_req c)) -> effective W_kv_delete_cas s c.
Proof. exact kv_delete_cas_effective. Qed.

Theorem C10_kv_cas_effective : forall s c,
  (forall x, Store.Model.kvs s !! Store.Model.q_key (kc_req c) = Some x ->
             Store.Model.kv_same x (Store.Model.KV (Store.Model.q_value (kc_req c)) (Store.Model.q_flags (kc_req c))
                                                   (Store.Model.kv_session x) (Store.Model.q_lock (kc_req c))
                                                   (Store.Model.kv_create x) 0) = false) ->
  effective W_kv_cas s c.
Proof. exact kv_cas_effective. Qed.

(* ---------- non-vacuity of the hypotheses (states and requests defined in CAS/Examples.v) ---------- *)
Example C10_example_bounded : increasing 0 ex_log10 /\ bounded 9 ex_state10 /\ is_Some (autopilot ex_state10).
Proof. exact example_bounded. Qed.

Example C10_example_cfg :
  let W := W_cfg_upsert (fun _ _ => true) in
  let good := UReq 12 ("service-defaults", "web") 3 0 2 false in
  let stale := UReq 12 ("service-defaults", "web") 3 0 1 false in
  effective W ex_state10 good /\ cw_ok W ex_state10 good = true /\ applied W ex_state10 good /\
  cw_ok W ex_state10 stale = false /\ cw_post W ex_state10 stale = ex_state10.
Proof. exact example_cfg. Qed.

Example C10_example_composite :
  let c := RCReq 12 4 [("r2", true)] "c1" 2 1 in
  cw_ok W_roots_config ex_state10 c = false /\ cw_post W_roots_config ex_state10 c = ex_state10 /\
  cw_ok W_roots_config ex_state10 (RCReq 12 4 [("r2", true)] "c1" 2 3) = true.
Proof. exact example_composite. Qed.

Example C10_example_hypotheses :
  well_formed (tk_req tok_witness_cmd) /\ is_Some (tokens tok_witness_state !! "t1") /\
  is_cond (tx_op (TXC 7 (Store.Model.TNode Store.Model.CCAS "n1" "id1" 9 2))) = true /\
  cw_ok W_txn ex_state (TXC 7 (Store.Model.TNode Store.Model.CCAS "n1" "id1" 9 2)) = true /\
  effective W_txn ex_state (TXC 7 (Store.Model.TNode Store.Model.CCAS "n1" "id1" 9 2)).
Proof. exact example_hypotheses. Qed.

Example C10_example_txn_cond_not_first :
  let ops1 := [Store.Model.TKV Store.Model.VSet (Store.Model.KVReq "a" [7] 0 "" 0 0)] in
  let op := Store.Model.TKV Store.Model.VCAS (Store.Model.KVReq "a" [8] 0 "" 3 0) in
  let tl := [Store.Model.TKV Store.Model.VSet (Store.Model.KVReq "t" [9] 0 "" 0 0)] in
  (exists s1 r1, Store.Theorems.seq_ops 7 ops1 ex_state = Store.Model.Ok (s1, r1) /\ op_matched op s1 = false /\
                 op_matched op ex_state = true) /\
  txn_ok (Store.Model.txn_rw 7 (ops1 ++ op :: tl) ex_state).2 = false /\
  (Store.Model.txn_rw 7 (ops1 ++ op :: tl) ex_state).1 = ex_state.
Proof. exact ex_txn_cond_not_first. Qed.

Example C10_example_txn_guard_after_cas :
  let ops := [Store.Model.TKV Store.Model.VCAS (Store.Model.KVReq "a" [8] 0 "" 3 0);
              Store.Model.TKV Store.Model.VCheckIndex (Store.Model.KVReq "t" [] 0 "" 5 0)] in
  (Store.Model.txn_rw 7 ops ex_state).2 = Store.Model.CTxn [] [(1%nat, Store.Model.EGuard)] /\
  (Store.Model.txn_rw 7 ops ex_state).1 = ex_state.
Proof. exact ex_txn_guard_after_cas. Qed.

Print Assumptions C10_schema.
Print Assumptions C10_kv_cas.
Print Assumptions C10_kv_delete_cas.
Print Assumptions C10_kv_delete_cas_variant.
Print Assumptions C10_txn_verbs.
Print Assumptions C10_txn_mismatch_is_stale.
Print Assumptions C10_txn_mismatch_aborts.
Print Assumptions C10_config_entry_upsert.
Print Assumptions C10_config_entry_delete.
Print Assumptions C10_config_entry_delete_reports_removal.
Print Assumptions C10_ca_config.
Print Assumptions C10_ca_config_mismatch_is_error.
Print Assumptions C10_ca_roots.
Print Assumptions C10_roots_and_config.
Print Assumptions C10_roots_and_config_atomic.
Print Assumptions C10_feature_gate.
Print Assumptions C10_autopilot.
Print Assumptions C10_acl_token_refuted.
Print Assumptions C10_acl_token_not_honest.
Print Assumptions C10_acl_token_partial.
Print Assumptions C10_acl_token_mismatch_reports_success.
Print Assumptions C10_reachable_bounded.
Print Assumptions C10_bounded_fresh.
Print Assumptions C10_config_entry_upsert_effective.
Print Assumptions C10_config_entry_delete_effective.
Print Assumptions C10_ca_config_effective.
Print Assumptions C10_ca_roots_effective.
Print Assumptions C10_autopilot_effective.
Print Assumptions C10_feature_gate_effective.
Print Assumptions C10_kv_delete_cas_effective.
Print Assumptions C10_kv_cas_effective.
Print Assumptions C10_example_bounded.
Print Assumptions C10_example_cfg.
Print Assumptions C10_example_composite.
Print Assumptions C10_example_hypotheses.
Print Assumptions C10_txn_all_parts_or_none.
Print Assumptions C10_txn_committed_cond_op_matched.
Print Assumptions C10_ca_config_zero_overwrites.
Print Assumptions C10_ca_roots_stale_is_false.
Print Assumptions C10_acl_token_batch_partial_application.
Print Assumptions C10_example_txn_cond_not_first.
Print Assumptions C10_example_txn_guard_after_cas.
Print Assumptions C10_config_entry_rpc_upsert.
Print Assumptions C10_config_entry_rpc_upsert_equal_content_mismatch.
Print Assumptions C10_config_entry_rpc_upsert_effective.
Print Assumptions C10_config_entry_rpc_delete.
Print Assumptions C10_config_entry_rpc_delete_absent.
Print Assumptions C10_example_rpc_regression.
