(* C15 — placeholder while the proofs are being developed *)
From Verif Require Import Base.Prelude Chain.Model.
