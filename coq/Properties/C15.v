(* C15 — discovery-chain compilation is closed, terminating and deterministic.
   Theorems only; each closed by an application of a lemma of coq/Chain/*.v.

   The model (coq/Chain/Model.v) follows agent/consul/discoverychain/compile.go function by
   function; [compile es cx svc mo] is compiler.compile for the entry list [es] (read only as a
   map keyed by kind and name), the request [cx] (datacenter, OverrideProtocol) and chain [svc];
   [mo] is the order in which the Go map c.nodes yields its keys when
   flattenAdjacentSplitterNodes collects the node ids it then sorts (Go leaves it unspecified). *)
From Verif Require Import Base.Prelude.
From Verif Require Import Chain.Model.
From Verif Require Import Chain.Lemmas.
From Verif Require Import Chain.Passes.
From Verif Require Import Chain.Resolve.
From Verif Require Import Chain.Assemble.
From Verif Require Import Chain.Proofs.
From Verif Require Import Chain.Det.
From Verif Require Import Chain.Store.
From Verif Require Import Chain.Complete.
From Verif Require Import Chain.Cycles.
From Verif Require Import Chain.Order.
From Verif Require Import Chain.Final.
From Verif Require Import Chain.Validity.
From Verif Require Import Chain.Context.
From Verif Require Import Chain.TargetId.
From Verif Require Import Chain.Examples.
From Coq Require Import Permutation.
Local Open Scope string_scope.
Local Open Scope list_scope.

(* ---------------------------------------------------------------- termination *)

(* Every loop of the compiler is run by the model on a bound; the bound is never exhausted and no
   "impossible" lookup (a Go nil dereference, "compilation references non-retained node") ever
   fails: on EVERY input the result is a graph or one of the errors a user can cause.
   Measures: RESOLVE_AGAIN — the redirectHistory has no repetition and stays inside
   {start service, redirect services} x {"", start subset, default subsets, redirect subsets} x
   {start dc, request dc, redirect dcs}; getSplitterNode — the number of service-splitter names not
   yet in splitterNodes; detectCircularReferences — the current path has no repetition and lies in
   c.nodes; flattenAdjacentSplitterNodes — the largest rank (longest walk below) of a splitter that
   is a leg of a splitter drops with every pass (every node is reachable from the start node, so
   the rank computed by the cycle check covers all of c.nodes); removeUnusedNodes — the size of the
   work list plus 1 + out-degree of every node not yet visited. *)
Theorem C15_terminates : forall es cx svc mo,
  (exists g, compile es cx svc mo = Ok g) \/
  (exists e, compile es cx svc mo = Err e /\ e <> EOutOfFuel /\ e <> EInternal).
Proof. exact compile_total'. Qed.

(* ---------------------------------------------------------------- closure *)

(* In a compiled chain the start node exists, every NextNode of a route or split exists, node kinds
   match their keys, every resolver node's target and failover targets are in the target map, and
   a rank decreases along every edge (no cycle, no infinite walk). *)
Theorem C15_closed : forall es cx svc mo g,
  compile es cx svc mo = Ok g ->
  lookup (g_start g) (g_nodes g) <> None /\
  (forall a nd b, lookup a (g_nodes g) = Some nd -> In b (children nd) -> lookup b (g_nodes g) <> None) /\
  (forall k nd, lookup k (g_nodes g) = Some nd ->
     match k, nd with
     | NRouter _, RouterN _ | NSplitter _, SplitterN _ | NResolver _, ResolverN _ _ => True
     | _, _ => False
     end) /\
  (forall t d fo, lookup (NResolver t) (g_nodes g) = Some (ResolverN d fo) ->
     In t (g_targets g) /\ incl fo (g_targets g)) /\
  (exists r : nid -> nat,
     forall a nd b, lookup a (g_nodes g) = Some nd -> In b (children nd) -> r b < r a).
Proof. exact compile_closed_unfolded. Qed.

(* Every path from the start node ends at a resolver with a target: every node reached from the
   start can be continued to a resolver node whose target is in the target map, and a node without
   outgoing edge IS such a resolver (service-splitter entries have at least one split: Validate). *)
Theorem C15_paths_end_at_resolvers : forall es cx svc mo g,
  (forall s l, get_splitter es s = Some l -> l <> []) ->
  compile es cx svc mo = Ok g ->
  forall a, reachN (g_nodes g) (g_start g) a ->
    (exists t, reachN (g_nodes g) a (NResolver t) /\ In t (g_targets g)) /\
    ((forall b, ~ edge (g_nodes g) a b) -> exists t, a = NResolver t /\ In t (g_targets g)).
Proof. exact compile_paths. Qed.

(* ---------------------------------------------------------------- cycles are reported *)

(* [Req es cx svc q]: the entries make the compiler issue request q while compiling chain svc —
   a splitter node (QSplit), a target handed to getResolverNode by a route, a split or the chain
   itself (QTarget), or a failover target of a resolved target (QFail); see Chain/Cycles.v.
   When assembleChain succeeds every such request was served (requests_served); therefore: *)

(* a redirect cycle under ANY target reachable from the service through routes, splits and
   failover makes compile fail (it cannot be followed, and it cannot be skipped) *)
Theorem C15_cycles_reported : forall es cx svc mo t,
  Req es cx svc (QTarget t) \/ Req es cx svc (QFail t) ->
  cyclic es cx t ->
  exists e, compile es cx svc mo = Err e.
Proof. exact redirect_cycle_reported'. Qed.

(* a splitter reachable from the service that splits, through any number of splitters, back to
   itself makes compile return the circular-reference error (or the error that already stopped
   assembleChain elsewhere in the chain) *)
Theorem C15_cycles_reported_splitters : forall es cx svc mo a,
  Req es cx svc (QSplit a) -> SplitPath es cx a a ->
  (exists e, assemble es cx svc = Err e /\ compile es cx svc mo = Err e) \/
  compile es cx svc mo = Err ECircularReference.
Proof. exact reference_cycle_reported'. Qed.

(* "Failover cycles": failover is never followed, so it cannot form a cycle — a failover target is
   only resolved (its redirects and default subset; a redirect cycle there is reported by
   C15_cycles_reported with QFail) and listed; its own failover section is not looked at.  Two
   resolvers failing over to each other compile to ONE resolver node listing the other as target. *)
Theorem C15_failover_not_followed :
  exists g, compile mutual_failover test_ctx "a" [] = Ok g /\
            g_nodes g = [(NResolver (Tgt "a" "" "dc1"), ResolverN false [Tgt "b" "" "dc1"])] /\
            g_targets g = [Tgt "a" "" "dc1"; Tgt "b" "" "dc1"].
Proof. exact mutual_failover_compiles. Qed.

(* Redirects: wherever getResolverNode starts its RESOLVE_AGAIN loop (routes, splits, failover
   targets) on a target whose redirect / default-subset walk never ends, the loop returns the
   circular-redirect error (a protocol mismatch met earlier on the walk is reported first);
   memoised resolver nodes are final targets, so the memo cannot hide a cycle. *)
Theorem C15_cycles_reported_redirect_loop : forall es cx st t,
  Final_memo es cx st -> cyclic es cx t ->
  resolve_loop es cx (redirect_fuel es) st [] t = Err ECircularRedirect \/
  resolve_loop es cx (redirect_fuel es) st [] t = Err EProtocolMismatch.
Proof. exact resolve_loop_cycle. Qed.

(* ... in particular for the chain's own resolver when no router / splitter sits in front of it *)
Theorem C15_cycles_reported_redirect : forall es cx svc mo,
  (disable_adv cx = true \/ (get_router es svc = None /\ get_splitter es svc = None)) ->
  cyclic es cx (new_target cx svc "") ->
  compile es cx svc mo = Err ECircularRedirect \/ compile es cx svc mo = Err EProtocolMismatch.
Proof. exact compile_redirect_cycle'. Qed.

(* A successful resolution is the END of the walk (so a reachable cycle can never be "followed"):
   the target a resolver call returns is the final target of the walk from the requested one. *)
Theorem C15_resolution_follows_walk : forall es cx svc ip R st t st' t',
  AInv es cx svc ip R st -> get_resolver_node es cx st t = Ok (st', t') -> Orbit es cx t t'.
Proof. exact resolution_follows_walk. Qed.

(* References among router / splitter nodes: a cycle reachable from the start node of the
   assembled table makes compile return the circular-reference error. *)
Theorem C15_cycles_reported_reference : forall es cx svc mo st start router a b,
  assemble es cx svc = Ok (st, start, router) ->
  reachN (to_nodes svc st router) start a -> edge (to_nodes svc st router) a b ->
  reachN (to_nodes svc st router) b a ->
  compile es cx svc mo = Err ECircularReference.
Proof. exact compile_reference_cycle'. Qed.

(* ---------------------------------------------------------------- determinism *)

(* The result depends on the entry MAP only: listing the entries in another order changes nothing. *)
Theorem C15_deterministic : forall es es' cx svc mo,
  NoDup (map ekey es) -> Permutation es es' ->
  compile es cx svc mo = compile es' cx svc mo.
Proof. exact compile_permutation'. Qed.

(* ... nor on the iteration order of the Go map c.nodes: flattenAdjacentSplitterNodes sorts the node
   ids before visiting them (2e58eb8).  Before that fix the statement was false: the loop, run with
   two different visiting orders on three chained splitters, rounds to different weights
   (Chain/Examples.v loop_order_would_matter; the regression is generated on every run). *)
Theorem C15_deterministic_order : forall es cx svc mo1 mo2,
  compile es cx svc mo1 = compile es cx svc mo2.
Proof. exact compile_map_order. Qed.

(* ---------------------------------------------------------------- write guard *)

(* EnsureConfigEntry / DeleteConfigEntry accept a write iff every chain the code re-validates —
   [affected]: the written name and every chain that reaches it through router / splitter / resolver
   entries (breadth-first walk over the link index); every chain with such an entry for
   proxy-defaults — compiles with the write applied (deleting an absent entry
   validates nothing); a rejected write leaves the stored entries unchanged. *)
Theorem C15_write_guard : forall store op store' acc,
  write store op = (store', acc) ->
  (acc = true <-> no_validation store op \/
                  forall s, In s (affected store (op_key op)) ->
                            exists g, compile (proposed store op) test_ctx s [] = Ok g) /\
  (acc = false -> store' = store) /\
  (acc = true -> store' = proposed store op \/ (no_validation store op /\ store' = store)).
Proof. exact write_guard. Qed.

(* An accepted write breaks no chain: every chain that compiled over the stored entries still
   compiles afterwards.  (The chains that can reach the written name are re-validated — the walk
   over the link index is complete, f9df4b1; every other chain reads none of the changed entries.)
   Hypothesis: no stored failover section sets both Datacenters and Targets — Validate refuses
   such an entry, and ListRelatedServices (the link index) would not list its Service. *)
Theorem C15_write_preserves_validity : forall store op store' mo,
  (forall n r key f, get_resolver store n = Some r -> In (key, f) (rs_failover r) ->
                     fo_dcs f = [] \/ fo_targets f = []) ->
  write store op = (store', true) ->
  forall x, (exists g, compile store test_ctx x mo = Ok g) -> exists g, compile store' test_ctx x mo = Ok g.
Proof. exact write_preserves_validity. Qed.

(* History level: every store that arises from the empty store by EnsureConfigEntry /
   DeleteConfigEntry calls (accepted or not) with entries Validate lets through keeps every chain
   compilable in the guard's context, and keeps the hypothesis above. *)
Theorem C15_reachable_stores_valid : forall store,
  Reachable store ->
  failover_wf store /\ forall x mo, exists g, compile store test_ctx x mo = Ok g.
Proof. exact reachable_valid. Qed.

(* "... in all evaluation contexts and overrides": the guard test-compiles in dc1 without override
   only.  Full statement FALSE of the faithful model (finding C15-guard-context): a reachable store
   whose chain "a" compiles in the guard's context and fails under OverrideProtocol = tcp, because
   the override skips the splitter in front of a's resolver, which the guard never resolved. *)
Theorem C15_context_independence_refuted :
  Reachable ctx_store /\
  (exists g, compile ctx_store test_ctx "a" [] = Ok g) /\
  compile ctx_store (Ctx "dc1" "tcp") "a" [] = Err EBadSubset.
Proof. exact context_dependence. Qed.

(* ... and holds for every context in the guard's datacenter whose override keeps routers and
   splitters (none, or an http-like protocol): the same chain is compiled.  (Other datacenters:
   not proved; the store oracle compiles every stored chain in dc2 as well.) *)
Theorem C15_context_independence_partial : forall es cx svc mo g,
  c_dc cx = "dc1" -> disable_adv cx = false ->
  compile es test_ctx svc mo = Ok g ->
  exists g', compile es cx svc mo = Ok g' /\
             g_start g' = g_start g /\ g_nodes g' = g_nodes g /\ g_targets g' = g_targets g.
Proof. exact context_independence_partial. Qed.

(* Regression witness: the two-hop write that used to be accepted — router a -> splitter b -> c,
   then service-defaults c protocol=grpc — is refused and leaves the store unchanged. *)
Theorem C15_write_guard_two_hops :
  forallb (compiles indirect_store) ["a"; "b"; "c"] = true /\
  affected indirect_store (op_key indirect_op) = ["c"; "b"; "a"] /\
  compile (proposed indirect_store indirect_op) test_ctx "a" [] = Err EProtocolMismatch /\
  write indirect_store indirect_op = (indirect_store, false).
Proof. exact guard_two_hops_rejected. Qed.

(* ---------------------------------------------------------------- target identity *)

(* The model identifies a target with (service, subset, datacenter); the code with the string
   structs.ChainID.  "Distinct targets have distinct ids" is FALSE (finding C15-target-id-collision:
   newTarget hands back the earlier object, so a route to service "v1.a" lands on subset v1 of "a") *)
Theorem C15_target_id_injective_refuted :
  Tgt "v1.a" "" "dc1" <> Tgt "a" "v1" "dc1" /\ chain_id (Tgt "v1.a" "" "dc1") = chain_id (Tgt "a" "v1" "dc1").
Proof. exact chain_id_collision. Qed.

(* ... and holds when service, subset and datacenter names contain no dot: exactly the inputs on
   which all theorems of this file speak about the code *)
Theorem C15_target_id_injective_partial : forall t1 t2,
  dot_free t1 -> dot_free t2 -> chain_id t1 = chain_id t2 -> t1 = t2.
Proof. exact chain_id_injective. Qed.

(* ---------------------------------------------------------------- non-vacuity *)

(* the hypotheses of the theorems above are met by non-trivial inputs (coq/Chain/Examples.v):
   a chain that compiles to a router, a splitter and three resolvers; a redirect cycle a -> b -> a;
   a redirect cycle behind a failover target; a splitter cycle; the initial compiler state *)
Example C15_example_compiles :
  NoDup (map ekey ex_entries) /\
  (forall s l, get_splitter ex_entries s = Some l -> l <> []) /\
  exists g, compile ex_entries test_ctx "a" [] = Ok g /\ List.length (g_nodes g) = 5.
Proof. exact example_compiles. Qed.

Example C15_example_cycle :
  cyclic cyc_entries test_ctx (new_target test_ctx "a" "") /\
  compile cyc_entries test_ctx "a" [] = Err ECircularRedirect.
Proof. exact example_cycle. Qed.

Example C15_example_initial_invariants : forall es cx svc,
  AInv es cx svc [] [] st0 /\ Final_memo es cx st0.
Proof. exact initial_invariants. Qed.

Example C15_example_dot_free : dot_free (Tgt "web" "v1" "dc1") /\ disable_adv (Ctx "dc1" "http") = false.
Proof. repeat split. Qed.

Example C15_example_failover_cycle :
  Req fail_cycle test_ctx "a" (QFail (Tgt "b" "" "dc1")) /\
  cyclic fail_cycle test_ctx (Tgt "b" "" "dc1") /\
  compile fail_cycle test_ctx "a" [] = Err ECircularRedirect.
Proof. exact example_failover_cycle. Qed.

Example C15_example_splitter_cycle :
  Req split_cycle test_ctx "a" (QSplit "a") /\ SplitPath split_cycle test_ctx "a" "a" /\
  compile split_cycle test_ctx "a" [] = Err ECircularReference.
Proof. exact example_splitter_cycle. Qed.

Example C15_example_validity :
  failover_wf ex_entries /\
  write ex_entries (WPut (EDefaults "b" "http" false)) =
    (proposed ex_entries (WPut (EDefaults "b" "http" false)), true).
Proof. exact example_validity. Qed.

Print Assumptions C15_terminates.
Print Assumptions C15_closed.
Print Assumptions C15_paths_end_at_resolvers.
Print Assumptions C15_cycles_reported.
Print Assumptions C15_cycles_reported_splitters.
Print Assumptions C15_cycles_reported_redirect_loop.
Print Assumptions C15_cycles_reported_redirect.
Print Assumptions C15_resolution_follows_walk.
Print Assumptions C15_cycles_reported_reference.
Print Assumptions C15_deterministic.
Print Assumptions C15_deterministic_order.
Print Assumptions C15_write_guard.
Print Assumptions C15_write_preserves_validity.
Print Assumptions C15_write_guard_two_hops.
Print Assumptions C15_failover_not_followed.
Print Assumptions C15_reachable_stores_valid.
Print Assumptions C15_context_independence_refuted.
Print Assumptions C15_context_independence_partial.
Print Assumptions C15_target_id_injective_refuted.
Print Assumptions C15_target_id_injective_partial.
Print Assumptions C15_example_validity.
Print Assumptions C15_example_compiles.
Print Assumptions C15_example_cycle.
Print Assumptions C15_example_initial_invariants.
Print Assumptions C15_example_dot_free.
Print Assumptions C15_example_failover_cycle.
Print Assumptions C15_example_splitter_cycle.
