(* C16 — anti-entropy makes the catalog converge to the agent's local state.
   Theorems only; each closed by an application of a lemma of AE/{Proofs,Conv,Hist,Witness}.v.

   Reading guide.  [g] is the agent's configuration (tokens, node info).  [st : lstate] is
   local.State's bookkeeping (per entry: definition, token, InSync, Deleted), [c : cat] the node's
   rows in the catalog.  [fs : list outcome] is the RPC fault oracle: one outcome consumed per RPC
   (OOk / OFail / ODenied / ONotFound; an exhausted list answers OOk).  [os]/[oc] are the orders
   in which Go's map iteration visits the services / checks.  All theorems quantify over ALL
   [fs], [os], [oc] (and all states satisfying the stated hypotheses); [wf_local] and [wf_cat]
   hold of every state an agent-style history reaches (C16_hypotheses_reachable).

   holds_svc c id d  : the catalog's service row [id] is exactly [d]
   holds_chk c id d  : the catalog's check row [id] equals [d] up to ServiceName/ServiceTags (which the
                       catalog copies from its own service row), an empty Status (defaulted to critical)
                       and the four fields HealthCheck.IsSame never compares (Type, Interval, Timeout,
                       ExposedPort: C16_ignored_fields_refuted shows they do NOT converge)
   holds_ce c id e d : [holds_chk], except that the Output is ignored while the deferred-output timer of
                       the entry [e] is pending (CheckUpdateInterval > 0; C16_deferred_output_refuted)
   refused_svc/chk   : the log contains an ACL refusal of the entry's registration *)
From Verif Require Import Base.Prelude AE.Model AE.Basics AE.Steps AE.Inv AE.Proofs AE.Any AE.Conv AE.Hist AE.More AE.Witness.
From stdpp Require Import gmap.

(* ---------------------------------------------------------------- convergence *)

(* All RPCs succeed ([fs = []]), nothing changes concurrently (sync_full runs alone): the catalog's
   services and checks for the node become exactly the local registrations, modulo server-owned
   fields ([converged]: see AE/Conv.v; cv_svc_kept says what "modulo" means, [svc_own]).
   [bind_ok]: a locally removed check that the catalog still holds is bound there to the same
   service.  Without it the statement is false (next theorem). *)
Theorem C16_converges : forall g os oc st c st' c' fs' log err,
  wf_local st -> wf_cat c -> bind_ok st c ->
  covers (l_svcs st) os -> covers (c_svcs c) os -> covers (l_chks st) oc -> covers (c_chks c) oc ->
  sync_full g os oc st c [] = (st', c', fs', log, err) ->
  err = false /\ converged g st c st' c'.
Proof. exact converges. Qed.

(* C16_converges without [bind_ok] is refuted: a check that the catalog holds under another
   service survives the deregistration of "its" service, and the local mark is pruned. *)
Theorem C16_converges_rebound_refuted :
  exists g os oc st c st' c' fs' log err,
    wf_local st /\ wf_cat c /\
    covers (l_svcs st) os /\ covers (c_svcs c) os /\ covers (l_chks st) oc /\ covers (c_chks c) oc /\
    sync_full g os oc st c [] = (st', c', fs', log, err) /\ ~ converged g st c st' c'.
Proof. exact converges_rebound_refuted. Qed.

(* ... but two fault-free full syncs always converge. *)
Theorem C16_converges_second : forall g os oc os2 oc2 st c st1 c1 fs1 log1 err1 st2 c2 fs2 log2 err2,
  wf_local st -> wf_cat c ->
  covers (l_svcs st) os -> covers (c_svcs c) os -> covers (l_chks st) oc -> covers (c_chks c) oc ->
  sync_full g os oc st c [] = (st1, c1, fs1, log1, err1) ->
  covers (l_svcs st1) os2 -> covers (c_svcs c1) os2 -> covers (l_chks st1) oc2 -> covers (c_chks c1) oc2 ->
  sync_full g os2 oc2 st1 c1 [] = (st2, c2, fs2, log2, err2) ->
  err1 = false /\ err2 = false /\ converged g st1 c1 st2 c2.
Proof. exact converges_second. Qed.

(* ---------------------------------------------------------------- no false in-sync mark *)

(* Partial sync (SyncChanges), every fault list, every order: an entry that is live and marked
   in sync afterwards is held by the catalog, or its registration was refused by ACLs during this
   sync, or it is the very same entry as before (the sync did not mark it). *)
Theorem C16_no_false_insync : forall g os oc st c fs st' c' fs' log err,
  wf_local st -> sync_changes g os oc st c fs = (st', c', fs', log, err) ->
  (forall id e d, l_svcs st' !! id = Some e -> se_sync e = true -> se_del e = false -> se_def e = Some d ->
     holds_svc c' id d \/ refused_svc log id \/ l_svcs st !! id = Some e) /\
  (forall id e d, l_chks st' !! id = Some e -> ce_sync e = true -> ce_del e = false -> ce_def e = Some d ->
     holds_ce c' id e d \/ refused_chk log id \/ l_chks st !! id = Some e).
Proof. exact no_false_insync_changes. Qed.

(* Full sync (SyncFull), every fault list, every order: either the reads failed and nothing
   changed, or EVERY live entry marked in sync is held by the catalog or was refused by ACLs. *)
Theorem C16_no_false_insync_full : forall g os oc st c fs st' c' fs' log err,
  wf_local st -> c_svcs c !! 0%N = None ->
  sync_full g os oc st c fs = (st', c', fs', log, err) ->
  (st' = st /\ c' = c /\ err = true) \/
  ((forall id e d, l_svcs st' !! id = Some e -> se_sync e = true -> se_del e = false -> se_def e = Some d ->
      holds_svc c' id d \/ refused_svc log id) /\
   (forall id e d, l_chks st' !! id = Some e -> ce_sync e = true -> ce_del e = false -> ce_def e = Some d ->
      holds_ce c' id e d \/ refused_chk log id)).
Proof. exact no_false_insync_full. Qed.

(* For SERVICES both claims (no false in-sync mark, deletions remembered) hold of ANY local state
   and any catalog (no hypothesis; on states with a live entry without definition, which no history
   reaches, the model skips the entry where Go would dereference nil) — every fault list, every order. *)
Theorem C16_services_any_state : forall g os oc st c fs st' c' fs' log err,
  sync_changes g os oc st c fs = (st', c', fs', log, err) ->
  (forall id e d, l_svcs st' !! id = Some e -> se_sync e = true -> se_del e = false -> se_def e = Some d ->
     holds_svc c' id d \/ refused_svc log id \/ l_svcs st !! id = Some e) /\
  (forall id e, l_svcs st !! id = Some e -> se_del e = true ->
     (exists e', l_svcs st' !! id = Some e' /\ se_del e' = true) \/ c_svcs c' !! id = None).
Proof. exact svc_any_changes. Qed.

Theorem C16_services_any_state_full : forall g os oc st c fs st' c' fs' log err,
  sync_full g os oc st c fs = (st', c', fs', log, err) ->
  (st' = st /\ c' = c /\ err = true) \/
  ((forall id e d, l_svcs st' !! id = Some e -> se_sync e = true -> se_del e = false -> se_def e = Some d ->
      holds_svc c' id d \/ refused_svc log id) /\
   (forall id e, l_svcs st !! id = Some e -> se_del e = true ->
      (exists e', l_svcs st' !! id = Some e' /\ se_del e' = true) \/ c_svcs c' !! id = None)).
Proof. exact svc_any_full. Qed.

(* The local mutators (every State function that changes an entry): none of them marks in sync
   an entry the catalog does not hold.  [honest st c]: every live entry marked in sync is held.
   (Before 9a2a9bf this was false of add_service / add_check: re-adding an identical definition
   over a never-pushed entry marked it in sync; the model mirrors the repaired code.) *)
Theorem C16_local_add_service : forall id d tok loc st st' r c,
  add_service id d tok loc st = (st', r) -> honest st c -> honest st' c.
Proof. exact add_service_honest. Qed.

Theorem C16_local_add_check : forall id d tok loc st st' r c,
  add_check id d tok loc st = (st', r) -> honest st c -> honest st' c.
Proof. exact add_check_honest. Qed.

Theorem C16_local_remove_service : forall id st st' r c,
  remove_service id st = (st', r) -> honest st c -> honest st' c.
Proof. exact remove_service_honest. Qed.

Theorem C16_local_remove_check : forall id st st' r c,
  remove_check id st = (st', r) -> honest st c -> honest st' c.
Proof. exact remove_check_honest. Qed.

Theorem C16_local_update_check : forall interval id status out st c,
  honest st c -> honest (update_check interval id status out st) c.
Proof. exact update_check_honest. Qed.

Theorem C16_local_timer_fires : forall id st c, honest st c -> honest (timer_fires id st) c.
Proof. exact timer_fires_honest. Qed.

(* Regression examples (current behaviour) for the two defects repaired in 9a2a9bf: on the state
   where "web" was registered and its push failed, registering it again leaves it out of sync; a
   local add over the placeholder of a foreign catalog entry (definition nil) is an ordinary
   registration (it used to be a nil dereference). *)
Example C16_readd_stays_unsynced :
  let st := fst (state_of h_readd [OFail]) in
  let c := snd (state_of h_readd [OFail]) in
  honest st c /\
  (exists e, l_svcs (fst (add_service 1 web 0 false st)) !! 1%N = Some e /\ se_sync e = false /\ se_del e = false) /\
  c_svcs c !! 1%N = None.
Proof. exact readd_stays_unsynced. Qed.

Theorem C16_add_over_placeholder : forall id d tok loc st e,
  l_svcs st !! id = Some e -> se_def e = None ->
  add_service id d tok loc st =
  (LS (l_node st) (<[id := SE (Some d) tok false false loc]> (l_svcs st)) (l_chks st), ROk).
Proof. exact add_service_over_placeholder. Qed.

Example C16_placeholder_add_ok :
  let st := fst (state_of h_placeholder []) in
  (exists e, l_svcs st !! 1%N = Some e /\ se_def e = None /\ se_del e = true) /\
  snd (add_service 1 web 0 false st) = ROk /\
  (exists e, l_svcs (fst (add_service 1 web 0 false st)) !! 1%N = Some e /\ se_sync e = false /\ se_del e = false).
Proof. exact placeholder_add_ok. Qed.

(* ---------------------------------------------------------------- retry *)

(* After the diff (updateSyncState), a live entry that the catalog does not hold is out of sync,
   whatever its flag said before — in particular "in sync" after an ACL refusal. *)
Theorem C16_retry_marked : forall g st c,
  (forall id e d, l_svcs (uss_apply g st c) !! id = Some e -> se_del e = false -> se_def e = Some d ->
     ~ holds_svc c id d -> se_sync e = false) /\
  (forall id e d, l_chks (uss_apply g st c) !! id = Some e -> ce_del e = false -> ce_def e = Some d ->
     ~ holds_ce c id e d -> ce_sync e = false).
Proof. exact retry_marked. Qed.

(* ... and the full sync pushes it again (a Register RPC for it appears in the log), unless the
   reads or the node-info registration failed — every fault list, every order. *)
Theorem C16_retry : forall g os oc st c fs st' c' fs' log err,
  sync_full g os oc st c fs = (st', c', fs', log, err) ->
  (st' = st /\ c' = c /\ err = true) \/ node_failed log \/
  ((forall id e d, l_svcs (uss_apply g st c) !! id = Some e -> se_del e = false -> se_def e = Some d ->
      ~ holds_svc c id d -> In id os -> pushed_svc log id) /\
   (forall id e d, l_chks (uss_apply g st c) !! id = Some e -> ce_del e = false -> ce_def e = Some d ->
      ~ holds_ce c id e d -> In id oc -> pushed_chk log id)).
Proof. exact retry_full. Qed.

(* A partial sync pushes every visited live entry that is out of sync. *)
Theorem C16_retry_partial_sync : forall g os oc st c fs st' c' fs' log err,
  sync_changes g os oc st c fs = (st', c', fs', log, err) ->
  (forall id e d, l_svcs st !! id = Some e -> se_del e = false -> se_sync e = false -> se_def e = Some d ->
     In id os -> pushed_svc log id \/ node_failed log) /\
  (forall id e d, l_chks st !! id = Some e -> ce_del e = false -> ce_sync e = false -> ce_def e = Some d ->
     In id oc -> pushed_chk log id \/ node_failed log).
Proof. exact retry_changes. Qed.

(* ---------------------------------------------------------------- deletions are remembered *)

(* Every fault list, every order, partial sync: an entry marked deleted stays marked deleted
   until the catalog no longer holds it.  For services unconditionally; for checks when the catalog
   binds the check to the same service ([bind_ok]) and has no check without its service. *)
Theorem C16_deletes_remembered : forall g os oc st c fs st' c' fs' log err,
  wf_local st -> sync_changes g os oc st c fs = (st', c', fs', log, err) ->
  (forall id e, l_svcs st !! id = Some e -> se_del e = true ->
     (exists e', l_svcs st' !! id = Some e' /\ se_del e' = true) \/ c_svcs c' !! id = None) /\
  (wf_cat c -> bind_ok st c ->
   forall id e, l_chks st !! id = Some e -> ce_del e = true ->
     (exists e', l_chks st' !! id = Some e' /\ ce_del e' = true) \/ c_chks c' !! id = None).
Proof. exact deletes_remembered_changes. Qed.

Theorem C16_deletes_remembered_full : forall g os oc st c fs st' c' fs' log err,
  wf_local st -> wf_cat c ->
  sync_full g os oc st c fs = (st', c', fs', log, err) ->
  (forall id e, l_svcs st !! id = Some e -> se_del e = true ->
     (exists e', l_svcs st' !! id = Some e' /\ se_del e' = true) \/ c_svcs c' !! id = None) /\
  (bind_ok st c ->
   forall id e, l_chks st !! id = Some e -> ce_del e = true ->
     (exists e', l_chks st' !! id = Some e' /\ ce_del e' = true) \/ c_chks c' !! id = None).
Proof. exact deletes_remembered_full. Qed.

(* Without [bind_ok] the statement for checks is refuted (deleteService prunes by the LOCAL
   binding "service deregister also deletes associated checks"; the catalog cascades by ITS binding). *)
Theorem C16_deletes_remembered_rebound_refuted :
  exists g os oc st c id e,
    wf_local st /\ wf_cat c /\ l_chks st !! id = Some e /\ ce_del e = true /\
    let '(st', c', _, _, _) := sync_full g os oc st c [] in
    l_chks st' !! id = None /\ is_Some (c_chks c' !! id).
Proof. exact deletes_remembered_rebound_refuted. Qed.

(* ---------------------------------------------------------------- further clauses *)

(* Deregistrations are retried: every visited entry that is marked deleted gets a Deregister RPC in
   a partial sync (a check may instead be dropped together with its service), whatever its InSync
   flag says (deleteService/deleteCheck set it on an ACL refusal) — every fault list, every order. *)
Theorem C16_retry_delete : forall g os oc st c fs st' c' fs' log err,
  sync_changes g os oc st c fs = (st', c', fs', log, err) ->
  (forall id e, l_svcs st !! id = Some e -> se_del e = true -> In id os -> del_svc_rpc log id \/ node_failed log) /\
  (forall id e, l_chks st !! id = Some e -> ce_del e = true -> In id oc ->
     del_chk_rpc log id \/ l_chks st' !! id = None \/ node_failed log).
Proof. exact retry_delete_changes. Qed.

(* SyncFull returned nil (err = false) under ANY fault list — in particular with ACL refusals, which
   do not make it fail: every entry left is marked in sync; a live one is held by the catalog or its
   registration was refused in this sync; one still marked deleted had its deregistration refused. *)
Theorem C16_successful_sync : forall g os oc st c fs st' c' fs' log,
  wf_local st -> c_svcs c !! 0%N = None ->
  covers (l_svcs st) os -> covers (c_svcs c) os -> covers (l_chks st) oc -> covers (c_chks c) oc ->
  sync_full g os oc st c fs = (st', c', fs', log, false) ->
  (forall id e, l_svcs st' !! id = Some e ->
     se_sync e = true /\
     (se_del e = true -> refused_del_svc log id) /\
     (se_del e = false -> forall d, se_def e = Some d -> holds_svc c' id d \/ refused_svc log id)) /\
  (forall id e, l_chks st' !! id = Some e ->
     ce_sync e = true /\
     (ce_del e = true -> refused_del_chk log id) /\
     (ce_del e = false -> forall d, ce_def e = Some d -> holds_ce c' id e d \/ refused_chk log id)).
Proof. exact sync_full_success. Qed.

(* From a state where every in-sync entry is held, a partial sync under any faults leaves every
   live in-sync entry held or refused (no "it was like that before" disjunct). *)
Theorem C16_honest_partial_sync : forall g os oc st c fs st' c' fs' log err,
  wf_local st -> honest st c -> sync_changes g os oc st c fs = (st', c', fs', log, err) ->
  (forall id e d, l_svcs st' !! id = Some e -> se_sync e = true -> se_del e = false -> se_def e = Some d ->
     holds_svc c' id d \/ refused_svc log id) /\
  (forall id e d, l_chks st' !! id = Some e -> ce_sync e = true -> ce_del e = false -> ce_def e = Some d ->
     holds_ce c' id e d \/ refused_chk log id).
Proof. exact honest_sync_changes. Qed.

(* End to end: ANY agent-style history under ANY faults, then two fault-free full syncs: converged. *)
Theorem C16_history_then_two_syncs : forall g ss fs st c fs0 os oc os2 oc2 st1 c1 fs1 log1 err1 st2 c2 fs2 log2 err2,
  agent_hist g ss lstate0 cat0 fs -> run_hist g ss lstate0 cat0 fs = (st, c, fs0) ->
  covers (l_svcs st) os -> covers (c_svcs c) os -> covers (l_chks st) oc -> covers (c_chks c) oc ->
  sync_full g os oc st c [] = (st1, c1, fs1, log1, err1) ->
  covers (l_svcs st1) os2 -> covers (c_svcs c1) os2 -> covers (l_chks st1) oc2 -> covers (c_chks c1) oc2 ->
  sync_full g os2 oc2 st1 c1 [] = (st2, c2, fs2, log2, err2) ->
  err1 = false /\ err2 = false /\ converged g st1 c1 st2 c2.
Proof. exact history_then_two_syncs. Qed.

(* ---------------------------------------------------------------- the two exceptions to "equal" *)

(* "The catalog equals the local registrations" read literally (exact Output, exact
   Type/Interval/Timeout/ExposedPort) is refuted twice; [converged] holds in both witnesses. *)

(* (1) CheckUpdateInterval > 0, the agent's default: an Output-only update is deferred (local
   definition changes, InSync stays, a timer starts); the diff of a full sync then blanks the Output
   on both sides: after a fault-free full sync the check is in sync and the catalog's Output is stale. *)
Theorem C16_deferred_output_refuted :
  exists g os oc st c st' c' fs' log err,
    wf_local st /\ wf_cat c /\ bind_ok st c /\
    covers (l_svcs st) os /\ covers (c_svcs c) os /\ covers (l_chks st) oc /\ covers (c_chks c) oc /\
    sync_full g os oc st c [] = (st', c', fs', log, err) /\ err = false /\
    exists id e d, l_chks st' !! id = Some e /\ ce_def e = Some d /\ ce_sync e = true /\ ce_del e = false /\
                   ce_defer e = true /\ ~ holds_chk c' id d.
Proof. exact deferred_output_refuted. Qed.

(* The exception is exactly that: with no timer pending [holds_ce] is [holds_chk], syncs never start
   a timer, and once the timer has fired a partial sync pushes the Output. *)
Theorem C16_no_timer_exact : forall c id e d, ce_defer e = false -> holds_ce c id e d -> holds_chk c id d.
Proof. exact holds_ce_exact. Qed.

Theorem C16_no_timer_preserved : forall g os oc st c fs st' c' fs' log err,
  no_defer st -> sync_full g os oc st c fs = (st', c', fs', log, err) -> no_defer st'.
Proof. exact no_defer_sync_full. Qed.

Example C16_deferred_output_after_timer :
  let st := fst (state_of_g g0d (h_defer ++ [STimer 1; SSyncChanges all_s all_c]) []) in
  let c := snd (state_of_g g0d (h_defer ++ [STimer 1; SSyncChanges all_s all_c]) []) in
  exists e, l_chks st !! 1%N = Some e /\ ce_sync e = true /\ ce_defer e = false /\ holds_chk c 1 chk_web_out2.
Proof. exact deferred_output_after_timer. Qed.

(* (2) HealthCheck.IsSame does not compare Type, Interval, Timeout, ExposedPort: a check re-registered
   with only these changed stays in sync and is never pushed (and drift in them is never repaired). *)
Theorem C16_ignored_fields_refuted :
  exists g os oc st c st' c' fs' log err,
    wf_local st /\ wf_cat c /\ bind_ok st c /\
    covers (l_svcs st) os /\ covers (c_svcs c) os /\ covers (l_chks st) oc /\ covers (c_chks c) oc /\
    sync_full g os oc st c [] = (st', c', fs', log, err) /\ err = false /\
    exists id e d r, l_chks st' !! id = Some e /\ ce_def e = Some d /\ ce_sync e = true /\ ce_del e = false /\
                     ce_defer e = false /\ c_chks c' !! id = Some r /\ ck_aux r <> ck_aux d.
Proof. exact ignored_fields_refuted. Qed.

(* ---------------------------------------------------------------- the hypotheses are not vacuous *)

(* Every state an agent-style history reaches (local changes as the agent performs them, catalog
   drift through the state store, syncs under ANY fault list) satisfies wf_local and wf_cat. *)
Theorem C16_hypotheses_reachable : forall g ss fs st c fs',
  agent_hist g ss lstate0 cat0 fs -> run_hist g ss lstate0 cat0 fs = (st, c, fs') -> wf_local st /\ wf_cat c.
Proof. exact wf_reachable. Qed.

(* All hypotheses of C16_converges hold of a reachable state with a deleted entry, drift and
   server-owned fields in play. *)
Example C16_converges_hypotheses_met :
  exists os oc st c,
    wf_local st /\ wf_cat c /\ bind_ok st c /\
    covers (l_svcs st) os /\ covers (c_svcs c) os /\ covers (l_chks st) oc /\ covers (c_chks c) oc /\
    (exists e, l_svcs st !! 1%N = Some e /\ se_del e = true) /\ is_Some (c_svcs c !! 1%N) /\ is_Some (c_chks c !! 1%N).
Proof. exact converges_hypotheses_met. Qed.

(* wf_local / wf_cat also hold of a state reached under faults, in which an entry is marked in
   sync by an ACL refusal without being held (so the refusal disjunct is not vacuous either). *)
Example C16_faulty_state_wf :
  let st := fst (state_of h_rich [OOk; OOk; OOk; OOk; OOk; ODenied; OFail]) in
  let c := snd (state_of h_rich [OOk; OOk; OOk; OOk; OOk; ODenied; OFail]) in
  wf_local st /\ wf_cat c /\ ~ honest st c.
Proof. exact faulty_state_wf. Qed.

Print Assumptions C16_converges.
Print Assumptions C16_converges_rebound_refuted.
Print Assumptions C16_converges_second.
Print Assumptions C16_no_false_insync.
Print Assumptions C16_no_false_insync_full.
Print Assumptions C16_services_any_state.
Print Assumptions C16_services_any_state_full.
Print Assumptions C16_local_add_service.
Print Assumptions C16_local_add_check.
Print Assumptions C16_local_remove_service.
Print Assumptions C16_local_remove_check.
Print Assumptions C16_local_update_check.
Print Assumptions C16_readd_stays_unsynced.
Print Assumptions C16_add_over_placeholder.
Print Assumptions C16_placeholder_add_ok.
Print Assumptions C16_retry_marked.
Print Assumptions C16_retry.
Print Assumptions C16_retry_partial_sync.
Print Assumptions C16_deletes_remembered.
Print Assumptions C16_deletes_remembered_full.
Print Assumptions C16_deletes_remembered_rebound_refuted.
Print Assumptions C16_local_timer_fires.
Print Assumptions C16_retry_delete.
Print Assumptions C16_successful_sync.
Print Assumptions C16_honest_partial_sync.
Print Assumptions C16_history_then_two_syncs.
Print Assumptions C16_deferred_output_refuted.
Print Assumptions C16_no_timer_exact.
Print Assumptions C16_no_timer_preserved.
Print Assumptions C16_deferred_output_after_timer.
Print Assumptions C16_ignored_fields_refuted.
Print Assumptions C16_hypotheses_reachable.
Print Assumptions C16_converges_hypotheses_met.
Print Assumptions C16_faulty_state_wf.
