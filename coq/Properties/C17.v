(* C17 — Peering: imports mirror exactly what was exported and touch nothing else.
   Theorems only; each closed by an application of a lemma of coq/Peering/*.v.

   The model (Peering/Model.v) is handleUpsert / handleUpdateService /
   handleUpsertExportedServiceList over the peer-keyed catalog tables, with the catalog verbs the
   Backend calls end in (ensureRegistrationTxn, deleteServiceTxn, ...), and
   exportedServicesForPeerTxn.  Every `range` over a Go map is an arbitrary permutation
   ([shuffles_ok sh]); all theorems hold for every such iteration order. *)
From Verif Require Import Base.Prelude Peering.Model Peering.Lemmas Peering.Verbs Peering.Frame Peering.Prune
     Peering.Export Peering.Phase1 Peering.Snapshot Peering.MirrorTop Peering.SamePeer
     Peering.Keep Peering.Refute Peering.Proofs Run.C17 Peering.Order.
Local Open Scope string_scope.

(* ================================================================== frame *)

(* An event of peer p leaves the node, service and check rows of every other peer and of the
   local cluster (q = "", which includes the mesh-topology table) exactly as they were — same
   rows, same order — whatever the prior state, whatever the snapshot (coherent or not, naming
   upstreams or not), whether or not the handler fails. *)
Theorem C17_frame : forall sh c e q,
  shuffles_ok sh -> ev_peer e <> q -> same_rows q c (h_cat (handle sh c e)).
Proof. exact handle_frame. Qed.

(* ... and so does any history of events of peers other than q *)
Theorem C17_frame_history : forall q c es c',
  run c es c' -> Forall (fun e => ev_peer e <> q) es -> same_rows q c c'.
Proof. exact run_frame. Qed.

(* every Backend call (CatalogRegister / CatalogDeregister) carries the peer name (and every
   primary key of the three tables starts with the peer: node_key, svc_key, chk_key) ... *)
Theorem C17_ops_carry_peer : forall sh c e,
  shuffles_ok sh -> Forall (fun o => op_peer o = ev_peer e) (h_ops (handle sh c e)).
Proof. exact handle_ops_peer. Qed.

(* ... and the list of calls determines the resulting store (an error leaves the store alone) *)
Theorem C17_calls_determine_store : forall sh c e,
  shuffles_ok sh -> apply_ops (rev (h_ops (handle sh c e))) c = h_cat (handle sh c e).
Proof. exact handle_replay. Qed.

(* The mesh-topology table has no peer in its key and belongs to the local cluster: it is part
   of [same_rows ""].  Spelled out: no event of a peer changes it (updateMeshTopology returns
   at once for an imported instance, cleanupMeshTopology likewise). *)
Theorem C17_frame_topology : forall sh c e,
  shuffles_ok sh -> ev_peer e <> "" -> topo (h_cat (handle sh c e)) = topo c.
Proof. exact handle_frame_topo. Qed.

(* ================================================================== prune *)

(* After an exported-service list has been processed without error every service row of the
   peer belongs to an exported name or to its synthetic sidecar, and no row was added. *)
Theorem C17_prune : forall sh, shuffles_ok sh -> forall p names c,
  h_err (handle_exported_list sh c p names) = None ->
  incl (svcs (h_cat (handle_exported_list sh c p names))) (svcs c) /\
  (forall x, In x (svcs (h_cat (handle_exported_list sh c p names))) -> s_peer x = p ->
             In (s_name x) (exported_set names)).
Proof. exact handle_exported_list_prune. Qed.

(* ... and it removes nothing else: an instance of the peer whose service name is still exported
   (or is the sidecar of an exported name) is kept, with the node row under it and its own
   checks (unique keys and non-empty stored identifiers: state invariants, see below) *)
Theorem C17_prune_keeps : forall sh p names, shuffles_ok sh -> forall c z,
  h_err (handle_exported_list sh c p names) = None ->
  wf c -> ids_nonempty c p ->
  In z (svcs c) -> s_peer z = p -> In (s_name z) (exported_set names) ->
  In z (svcs (h_cat (handle_exported_list sh c p names))) /\
  (forall b, In b (nodes c) -> n_peer b = p -> n_name b = s_node z ->
             In b (nodes (h_cat (handle_exported_list sh c p names)))) /\
  (forall k, In k (chks c) -> c_peer k = p -> c_node k = s_node z -> c_sid k = s_id z ->
             In k (chks (h_cat (handle_exported_list sh c p names)))).
Proof. exact exported_list_keeps. Qed.

(* ================================================================== nodes left without services *)

(* After an update that returned no error, a node on which the service had an instance and
   which the snapshot no longer contains is gone, unless a service of the peer is still
   registered on it (for any snapshot, coherent or not). *)
Theorem C17_orphan_nodes_removed : forall sh p sn c0 export,
  shuffles_ok sh ->
  h_err (handle_update_service sh c0 p sn (Some export)) = None ->
  forall z, In z (svcs c0) -> s_peer z = p -> s_name z = sn ->
            find_ns (new_health_snapshot p export) (s_node z) = None ->
            get_node (h_cat (handle_update_service sh c0 p sn (Some export))) p (s_node z) = None \/
            node_has_services (h_cat (handle_update_service sh c0 p sn (Some export))) p (s_node z) = true.
Proof. exact orphan_nodes_removed. Qed.

(* ================================================================== invariant over histories *)

(* Unique primary keys (the hypothesis [wf] of the theorems below) survive every event and
   every history, whatever the events contain and whether or not a handler fails. *)
Theorem C17_unique_keys_invariant : forall sh c e, shuffles_ok sh -> wf c -> wf (h_cat (handle sh c e)).
Proof. exact handle_wf. Qed.

Theorem C17_unique_keys_history : forall c es c', run c es c' -> wf c -> wf c'.
Proof. exact run_wf. Qed.

(* ================================================================== mirror *)

(* The full statement: for every prior state and every coherent snapshot the rows of
   (peer, service) afterwards are the snapshot's.  It is FALSE of the code, in three ways: *)
Theorem C17_mirror_refuted_node_id_moves : ~ mirror_statement.
Proof. exact mirror_refuted_node_id. Qed.

Theorem C17_mirror_refuted_check_changes_owner : ~ mirror_statement.
Proof. exact mirror_refuted_check_owner. Qed.

Theorem C17_mirror_refuted_stale_node_check : ~ mirror_statement.
Proof. exact mirror_refuted_stale_node_check. Qed.

(* It holds for every prior state and snapshot outside these three classes
   (ids_keep_names, check_ids_keep_owner, slots_owned: Peering/MirrorTop.v). *)
Theorem C17_mirror_partial : forall sh p sn c0 export,
  shuffles_ok sh -> wf c0 ->
  snap_coh p sn (map (inst_set_peer p) export) ->
  ids_keep_names c0 p (map (inst_set_peer p) export) ->
  check_ids_keep_owner c0 p (map (inst_set_peer p) export) ->
  slots_owned c0 p sn (map (inst_set_peer p) export) ->
  ids_nonempty c0 p ->
  h_err (handle_update_service sh c0 p sn (Some export)) = None ->
  mirrors (h_cat (handle_update_service sh c0 p sn (Some export))) p sn (map (inst_set_peer p) export).
Proof. exact mirror_top. Qed.

(* ... and then Store.CheckServiceNodes(service, peer) returns the received snapshot: the same
   instances, each with the received node and service records and exactly the received checks *)
Theorem C17_mirror_view : forall c p sn snap,
  mirrors c p sn snap -> snap_coh p sn snap ->
  exists view, check_service_nodes c p sn = Ok view /\
    (forall j, In j view -> exists i, In i snap /\ i_node j = i_node i /\ i_svc j = i_svc i /\
                                      (forall r, In r (i_chks j) -> exists k, In k (i_chks i) /\ img_chk k r) /\
                                      (forall k, In k (i_chks i) -> exists r, In r (i_chks j) /\ img_chk k r)) /\
    (forall i, In i snap -> exists j, In j view /\ i_svc j = i_svc i).
Proof. exact mirrors_view. Qed.

(* ================================================================== same peer *)

(* Other services of the same peer.  FALSE as it stands: a received node that carries the ID of
   a stored node under another name makes the store delete that node with all its instances *)
Theorem C17_same_peer_frame_refuted : ~ same_peer_statement.
Proof. exact same_peer_refuted_rename. Qed.

(* Without such an ID move: an instance of another service is kept (unless the snapshot sends
   an instance under the same node and service id), with its node row when that node is not
   in the snapshot and with its service-level checks (unless the snapshot sends a check under
   the same node and check id).  Shared by design: the node row of every snapshot node and the
   node-level checks of nodes hosting an instance of the service. *)
Theorem C17_same_peer_frame : forall sh p sn c0 export,
  shuffles_ok sh -> wf c0 ->
  snap_coh p sn (map (inst_set_peer p) export) ->
  ids_keep_names c0 p (map (inst_set_peer p) export) ->
  ids_nonempty c0 p ->
  h_err (handle_update_service sh c0 p sn (Some export)) = None ->
  forall z, In z (svcs c0) -> s_peer z = p -> s_name z <> sn ->
            (forall i, In i (map (inst_set_peer p) export) -> svc_key (i_svc i) <> svc_key z) ->
    In z (svcs (h_cat (handle_update_service sh c0 p sn (Some export)))) /\
    (forall b, In b (nodes c0) -> n_peer b = p -> n_name b = s_node z ->
               (forall i, In i (map (inst_set_peer p) export) -> n_name (i_node i) <> n_name b) ->
               In b (nodes (h_cat (handle_update_service sh c0 p sn (Some export))))) /\
    (forall k, In k (chks c0) -> c_peer k = p -> c_node k = s_node z -> c_sid k = s_id z ->
               (forall i k', In i (map (inst_set_peer p) export) -> In k' (i_chks i) -> chk_key k' <> chk_key k) ->
               In k (chks (h_cat (handle_update_service sh c0 p sn (Some export))))).
Proof. exact same_peer_top. Qed.

(* A node of the peer that is not in the snapshot and hosts no instance of the service keeps
   every row: node, instances, node-level and service-level checks. *)
Theorem C17_same_peer_uninvolved_nodes : forall sh p sn c0 export,
  shuffles_ok sh -> wf c0 ->
  snap_coh p sn (map (inst_set_peer p) export) ->
  ids_keep_names c0 p (map (inst_set_peer p) export) ->
  ids_nonempty c0 p ->
  h_err (handle_update_service sh c0 p sn (Some export)) = None ->
  forall n, (forall i, In i (map (inst_set_peer p) export) -> n_name (i_node i) <> n) ->
            (forall y, In y (svcs c0) -> s_peer y = p -> s_node y = n -> s_name y <> sn) ->
    (forall b, In b (nodes c0) -> n_peer b = p -> n_name b = n ->
               In b (nodes (h_cat (handle_update_service sh c0 p sn (Some export))))) /\
    (forall y, In y (svcs c0) -> s_peer y = p -> s_node y = n ->
               In y (svcs (h_cat (handle_update_service sh c0 p sn (Some export))))) /\
    (forall k, In k (chks c0) -> c_peer k = p -> c_node k = n ->
               In k (chks (h_cat (handle_update_service sh c0 p sn (Some export))))).
Proof. exact uninvolved_top. Qed.

(* ================================================================== exporting side *)

(* A service is offered to a peer only if an exported-services entry names that peer as a
   consumer of it or of the wildcard; "consul" is never offered. *)
Theorem C17_export_only_if_named : forall peer entry typical s,
  In s (exported_services peer entry typical) ->
  s <> consul_name /\ exists e, In e entry /\ In peer (snd e) /\ (fst e = s \/ fst e = wildcard).
Proof. exact exported_services_named. Qed.

(* the same for the discovery chains exported as connect services *)
Theorem C17_export_chains_only_if_named : forall peer entry typical connect chains tgw chain_ok s,
  In s (exported_chains peer entry typical connect chains tgw chain_ok) ->
  s <> consul_name /\ exists e, In e entry /\ In peer (snd e) /\ (fst e = s \/ fst e = wildcard).
Proof. exact exported_chains_named. Qed.

(* exact characterisation of the exported service list *)
Theorem C17_export_exact : forall peer entry typical s,
  In s (exported_services peer entry typical) <->
  exists e, In e entry /\ fst e <> consul_name /\ In peer (snd e) /\
            ((fst e <> wildcard /\ s = fst e) \/ (fst e = wildcard /\ In s typical /\ s <> consul_name)).
Proof. exact exported_services_spec. Qed.

(* ================================================================== the evaluated instance *)

(* the iteration orders the correspondence check reads off the implementation's call log are
   iteration orders in the sense of the theorems above *)
Theorem C17_observed_orders_are_orders : forall h, shuffles_ok (hint_shuffles h).
Proof. exact hint_shuffles_ok. Qed.

(* ================================================================== non-vacuity *)

(* the hypotheses of C17_mirror_partial / C17_same_peer_frame hold for a prior state with
   rows of the peer, of another peer and of the local cluster under colliding names ... *)
Example C17_hypotheses_satisfiable :
  wf ex_before /\ snap_coh pa "web" ex_snap /\ ids_keep_names ex_before pa ex_snap /\
  check_ids_keep_owner ex_before pa ex_snap /\ slots_owned ex_before pa "web" ex_snap /\
  ids_nonempty ex_before pa /\
  h_err (handle_update_service id_shuffles ex_before pa "web" (Some ex_export)) = None.
Proof. exact ex_hypotheses. Qed.

(* ... with a retained node ID and a retained check id (the hypotheses are not met by absence) *)
Example C17_hypotheses_satisfiable_with_ids :
  wf ex2_before /\ snap_coh pa "web" ex2_snap /\ ids_keep_names ex2_before pa ex2_snap /\
  check_ids_keep_owner ex2_before pa ex2_snap /\ slots_owned ex2_before pa "web" ex2_snap /\
  ids_nonempty ex2_before pa /\
  h_err (handle_update_service id_shuffles ex2_before pa "web" (Some ex2_export)) = None /\
  (exists b i, In b (nodes ex2_before) /\ In i ex2_snap /\ n_id b = n_id (i_node i) /\ n_id b <> "") /\
  (exists k0 i k, In k0 (chks ex2_before) /\ In i ex2_snap /\ In k (i_chks i) /\ c_node k0 = n_name (i_node i) /\ c_id k0 = c_id k).
Proof. exact ex2_hypotheses. Qed.

(* ... the premises of the same-peer theorems: another service in a slot the snapshot does not
   send, and a node that has nothing to do with the service *)
Example C17_same_peer_premises_satisfiable :
  (In (mk_svc "a" "api1" "api" 9) (svcs ex2_before) /\ s_name (mk_svc "a" "api1" "api" 9) <> "web" /\
   forall i, In i ex2_snap -> svc_key (i_svc i) <> svc_key (mk_svc "a" "api1" "api" 9)) /\
  ((forall i, In i ex2_snap -> n_name (i_node i) <> "u") /\
   (forall y, In y (svcs ex2_before) -> s_peer y = pa -> s_node y = "u" -> s_name y <> "web") /\
   In (Node pa "u" "" 1) (nodes ex2_before)).
Proof. exact ex2_same_peer_premises. Qed.

(* ... an exported-service list that prunes one service and keeps another with its sidecar *)
Example C17_list_hypotheses_satisfiable :
  wf ex3_before /\ ids_nonempty ex3_before pa /\
  h_err (handle_exported_list id_shuffles ex3_before pa ["web"]) = None /\
  In "web-sidecar-proxy" (exported_set ["web"]).
Proof. exact ex3_hypotheses. Qed.

(* ... the identity order is an iteration order, and the exporting side exports something *)
Example C17_shuffles_satisfiable : shuffles_ok id_shuffles /\ shuffles_ok rev_nodes.
Proof. exact (conj id_shuffles_ok rev_nodes_ok). Qed.

Example C17_export_nonempty :
  exported_services "x" [("web", ["x"]); ("*", ["y"]); ("consul", ["x"; "y"])] ["web"; "api"; "consul"] = ["web"]
  /\ exported_services "y" [("web", ["x"]); ("*", ["y"]); ("consul", ["x"; "y"])] ["web"; "api"; "consul"] = ["web"; "api"].
Proof. exact ex_export_side. Qed.

Print Assumptions C17_frame.
Print Assumptions C17_frame_history.
Print Assumptions C17_ops_carry_peer.
Print Assumptions C17_calls_determine_store.
Print Assumptions C17_frame_topology.
Print Assumptions C17_prune.
Print Assumptions C17_prune_keeps.
Print Assumptions C17_orphan_nodes_removed.
Print Assumptions C17_unique_keys_invariant.
Print Assumptions C17_unique_keys_history.
Print Assumptions C17_mirror_refuted_node_id_moves.
Print Assumptions C17_mirror_refuted_check_changes_owner.
Print Assumptions C17_mirror_refuted_stale_node_check.
Print Assumptions C17_mirror_partial.
Print Assumptions C17_mirror_view.
Print Assumptions C17_same_peer_frame_refuted.
Print Assumptions C17_same_peer_frame.
Print Assumptions C17_same_peer_uninvolved_nodes.
Print Assumptions C17_export_only_if_named.
Print Assumptions C17_export_chains_only_if_named.
Print Assumptions C17_export_exact.
Print Assumptions C17_observed_orders_are_orders.
Print Assumptions C17_hypotheses_satisfiable.
Print Assumptions C17_hypotheses_satisfiable_with_ids.
Print Assumptions C17_same_peer_premises_satisfiable.
Print Assumptions C17_list_hypotheses_satisfiable.
Print Assumptions C17_shuffles_satisfiable.
Print Assumptions C17_export_nonempty.
