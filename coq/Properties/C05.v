(* C05 — transactions are all-or-nothing and isolated.  Theorems only. *)
From stdpp Require Import gmap strings.
From Coq Require Import NArith.
From Verif Require Import Store.Model Store.Inv Store.Theorems Store.EndInv.
Local Open Scope N_scope.

(* If any operation fails, nothing changes: no table, no index row, no lock delay; no results. *)
Theorem C05_all_or_nothing : forall idx ops s s' rs es,
  txn_rw idx ops s = (s', CTxn rs es) -> es ≠ [] -> s' = s /\ rs = [].
Proof. exact txn_all_or_nothing. Qed.

(* Otherwise the transaction is exactly the sequential composition of its operations at one index:
   operation i runs on the state produced by operations < i (read-your-writes), and the results
   are the concatenation of the operations' results. *)
Theorem C05_commit_is_sequential : forall idx ops s s' rs,
  txn_rw idx ops s = (s', CTxn rs []) -> seq_ops idx ops s = Ok (s', rs).
Proof. exact txn_commit_is_sequential. Qed.

(* The KV verbs inside a transaction are the standalone commands; read verbs change nothing. *)
Theorem C05_txn_kv_is_command : forall idx v q s s' r,
  txn_kv idx v q s = Ok (s', r) ->
  match v with VSet | VDelete | VDeleteCAS | VDeleteTree | VCAS | VLock | VUnlock => (apply_kvs idx v q s).1 = s'
          | _ => s' = s end.
Proof. exact txn_kv_is_command. Qed.

(* Read-only transactions never modify the state. *)
Theorem C05_ro_pure : forall idx ops i s,
  forallb is_read ops = true -> (txn_dispatch idx i ops s).1.1 = s.
Proof. exact txn_ro_pure. Qed.

(* "At one index": after a committed transaction -- any length, any mix of KV, node, service, check
   and session verbs, with all the cascades they trigger -- every KV row and every tombstone either
   was there before, unchanged, or carries the transaction's index. *)
Theorem C05_one_index : forall idx ops s,
  (forall k e, kvs (txn_rw idx ops s).1 !! k = Some e -> kvs s !! k = Some e \/ kv_modify e = idx) /\
  (forall k i, tombs (txn_rw idx ops s).1 !! k = Some i -> tombs s !! k = Some i \/ i = idx).
Proof. intros idx ops s. exact (one_index idx (Txn ops) s). Qed.

Example C05_one_index_example :
  let s := (run ld_log st0).1 in
  let s' := (txn_rw 4 [TCheck CSet (CheckReq "n1" "c1" 2 "" false "" 0 0); TKV VSet (KVReq "b" [1] 0 "" 0 0)] s).1 in
  kvs s !! "a" = Some (KV [] 0 "s1" 1 3 3) /\ kvs s' !! "a" = Some (KV [] 0 "" 1 3 4) /\
  kvs s' !! "b" = Some (KV [1] 0 "" 0 4 4).
Proof. cbv zeta. repeat split; vm_compute; reflexivity. Qed.

(* the same for every command *)
Theorem C05_one_index_command : forall idx c s, Stamp s idx (apply idx c s).1.
Proof. exact one_index. Qed.

(* No operation of any transaction ever fails with the model's own "out of fuel" (a transaction that
   failed only because a cascade was cut short would satisfy all-or-nothing for the wrong reason). *)
Theorem C05_no_fuel : forall idx ops s j e,
  match (txn_rw idx ops s).2 with CTxn _ es => (j, e) ∈ es -> e ≠ EFuel | _ => True end.
Proof.
  intros idx ops s j e. pose proof (no_fuel_anywhere idx (Txn ops) s) as H. cbn [apply] in H.
  destruct (txn_rw idx ops s).2; try exact I. apply H.
Qed.

(* Every command (not only transactions) that reports an error leaves the state untouched. *)
Theorem C05_failed_command_changes_nothing : forall idx c s e,
  (apply idx c s).2 = CErr e -> (apply idx c s).1 = s.
Proof. exact failed_command_changes_nothing. Qed.

(* Non-vacuity: a concrete failing transaction over a non-trivial state (a locked key, a session
   bound to a check); the same transaction without the failing operation does have effects. *)
Theorem C05_example :
  let s := (run ld_log st0).1 in
  (txn_rw 4 ld_txn s).2 = CTxn [] [(1%nat, ENotFound)] /\ (txn_rw 4 ld_txn s).1 = s /\
  (exists e, kvs s !! "a" = Some e /\ kv_session e = "s1") /\
  lockdelay (txn_rw 4 [TCheck CSet (CheckReq "n1" "c1" 2 "" false "" 0 0)] s).1 = {["a"]}.
Proof. exact txn_failed_example. Qed.

Print Assumptions C05_all_or_nothing.
Print Assumptions C05_commit_is_sequential.
Print Assumptions C05_txn_kv_is_command.
Print Assumptions C05_ro_pure.
Print Assumptions C05_one_index.
Print Assumptions C05_one_index_command.
Print Assumptions C05_one_index_example.
Print Assumptions C05_no_fuel.
Print Assumptions C05_failed_command_changes_nothing.
Print Assumptions C05_example.
