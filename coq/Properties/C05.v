(* C05 — transactions are all-or-nothing and isolated.  Theorems only. *)
From stdpp Require Import gmap strings.
From Coq Require Import NArith.
From Verif Require Import Store.Model Store.Inv Store.Theorems.
Local Open Scope N_scope.

(* If any operation fails, nothing changes: no table, no index row, no lock delay; no results. *)
Theorem C05_all_or_nothing : forall idx ops s s' rs es,
  txn_rw idx ops s = (s', CTxn rs es) -> es ≠ [] -> s' = s /\ rs = [].
Proof. exact txn_all_or_nothing. Qed.

(* Otherwise the transaction is exactly the sequential composition of its operations at one index:
   operation i runs on the state produced by operations < i (read-your-writes), and the results
   are the concatenation of the operations' results. *)
Theorem C05_commit_is_sequential : forall idx ops s s' rs,
  txn_rw idx ops s = (s', CTxn rs []) -> seq_ops idx ops s = Ok (s', rs).
Proof. exact txn_commit_is_sequential. Qed.

(* The KV verbs inside a transaction are the standalone commands; read verbs change nothing. *)
Theorem C05_txn_kv_is_command : forall idx v q s s' r,
  txn_kv idx v q s = Ok (s', r) ->
  match v with VSet | VDelete | VDeleteCAS | VDeleteTree | VCAS | VLock | VUnlock => (apply_kvs idx v q s).1 = s'
          | _ => s' = s end.
Proof. exact txn_kv_is_command. Qed.

(* Read-only transactions never modify the state. *)
Theorem C05_ro_pure : forall idx ops i s,
  forallb is_read ops = true -> (txn_dispatch idx i ops s).1.1 = s.
Proof. exact txn_ro_pure. Qed.

(* Every command (not only transactions) that reports an error leaves the state untouched. *)
Theorem C05_failed_command_changes_nothing : forall idx c s e,
  (apply idx c s).2 = CErr e -> (apply idx c s).1 = s.
Proof. exact failed_command_changes_nothing. Qed.

(* Non-vacuity: a concrete failing transaction over a non-trivial state (a locked key, a session
   bound to a check); the same transaction without the failing operation does have effects. *)
Theorem C05_example :
  let s := (run ld_log st0).1 in
  (txn_rw 4 ld_txn s).2 = CTxn [] [(1%nat, ENotFound)] /\ (txn_rw 4 ld_txn s).1 = s /\
  (exists e, kvs s !! "a" = Some e /\ kv_session e = "s1") /\
  lockdelay (txn_rw 4 [TCheck CSet (CheckReq "n1" "c1" 2 "" false "" 0 0)] s).1 = {["a"]}.
Proof. exact txn_failed_example. Qed.

Print Assumptions C05_all_or_nothing.
Print Assumptions C05_commit_is_sequential.
Print Assumptions C05_txn_kv_is_command.
Print Assumptions C05_ro_pure.
Print Assumptions C05_failed_command_changes_nothing.
Print Assumptions C05_example.
