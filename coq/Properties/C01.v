(* C01 — replicas that apply the same committed log hold the same state.  Theorems only.

   [run], [apply], [repl], [lockdelay]: the core store model (coq/Store/Model.v), tied to the code by
   checks C03-C05 and by the replay of Run/C01.v.  [repl s] is everything that is replicated;
   [lockdelay s] is the server-local, wall-clock dependent part (state/delay_ce.go).
   [assign_manual], [write_usage_deltas], [prune_old_upstreams], [merge_tagged], [validate_meta],
   [missing_providers]: the handlers that range over Go maps (coq/FSM/Model.v), the iteration order
   being an arbitrary permutation chosen by an environment [Env]. *)
From stdpp Require Import gmap strings.
From RecordUpdate Require Import RecordSet.
From Coq Require Import NArith.
From Verif Require Import Store.Model FSM.Model FSM.Sorting FSM.NonInterference FSM.IndexOrigin FSM.Proofs FSM.Machine FSM.MachineProofs.
Import RecordSetNotations.
Local Open Scope N_scope.

(* ---------- the property over ONE machine whose steps take the replica's environment ---------- *)
(* [mrun es log s] (coq/FSM/Machine.v): entry i of the log is applied under environment es[i], which
   fixes the order in which every Go map the handler ranges over is visited and the server's wall clock.
   The machine runs the core store commands, the manual-virtual-IP table, the usage rows written at
   commit, the mesh-topology rows of a proxy registration, the tagged addresses of terminating-gateway
   instances, service metadata validation and the JWT-provider check of service-intentions.  [mrepl]
   erases what is server-local (the lock-delay key set and the expiry times computed from the clock).
   [MInv]: no address is a manual virtual IP of two services (holds initially, kept by every step).

   Two replicas -- ANY two environment lists -- that start from states agreeing on the replicated part
   end every log with the same replicated part and return the same result for every entry. *)
Theorem C01_machine_replicas_agree : forall log es1 es2 s1 s2,
  MInv s1 -> mrepl s1 = mrepl s2 ->
  mrepl (mrun es1 log s1).1 = mrepl (mrun es2 log s2).1 /\ (mrun es1 log s1).2 = (mrun es2 log s2).2.
Proof. exact machine_replicas_agree. Qed.

Theorem C01_machine_invariant_kept : forall e idx c s, MInv s -> MInv (mapply e idx c s).1.
Proof. exact mapply_MInv. Qed.
Example C01_machine_invariant_initially : MInv mst0.
Proof. exact MInv_mst0. Qed.

(* A log with every kind of step, run by three replicas (identity order, reversed order, and a mix of
   rotated / reversed / identity orders; clocks 100, 7777, 31): same results -- among them the manual-VIP
   list ["db"; "web"], the named metadata pair and the two missing-provider lines -- while the expiry
   of the lock delay on key "a" is 115 on one replica and 7792 on another. *)
Example C01_machine_example :
  (mrun ex_es_a ex_mlog mst0).2 =
  [RCore CNil; RCore (CStr "s1"); RCore (CBool true); RVip None; RVip None; RVip None;
   RVip (Some (VRes true [])); RVip (Some (VRes true []));
   RVip (Some (VRes true ["db"; "web"])); RDone; RDone; RDone; RDone; RDone;
   RMetaError ("also bad?", "y"); RDone; RJwtError ["auth0"; "keycloak"]; RCore CNil] /\
  (mrun ex_es_b ex_mlog mst0).2 = (mrun ex_es_a ex_mlog mst0).2 /\
  (mrun ex_es_c ex_mlog mst0).2 = (mrun ex_es_a ex_mlog mst0).2.
Proof. exact machine_example_results. Qed.
Example C01_machine_example_local_differs :
  m_expiry (mrun ex_es_a ex_mlog mst0).1 !! "a" = Some 115 /\
  m_expiry (mrun ex_es_b ex_mlog mst0).1 !! "a" = Some 7792.
Proof. exact machine_example_local_differs. Qed.

(* ---------- the core store alone ---------- *)
(* Two replicas whose replicated data agree, whatever their local lock-delay sets (whatever their
   clocks and their own histories of forced lock releases made of them), end any log with the same
   replicated data and return the same result for every command. *)
Theorem C01_replicas_agree : forall log s1 s2,
  repl s1 = repl s2 ->
  repl (run log s1).1 = repl (run log s2).1 /\ (run log s1).2 = (run log s2).2.
Proof. exact replicas_agree. Qed.

(* Non-interference of the local part, command by command: nothing reads the lock-delay set. *)
Theorem C01_local_never_read : forall idx c s l,
  repl (apply idx c (s <| lockdelay := l |>)).1 = repl (apply idx c s).1 /\
  (apply idx c (s <| lockdelay := l |>)).2 = (apply idx c s).2.
Proof. exact local_never_read. Qed.

(* The hypothesis is met by different states, the log does write the local part, and the local parts
   stay different while everything else agrees. *)
Example C01_replicas_agree_example :
  repl st0 = repl ex_s2 /\ st0 ≠ ex_s2 /\
  lockdelay (run ex_log st0).1 = {["a"]} /\ lockdelay (run ex_log ex_s2).1 = {["a"; "zz"]} /\
  (run ex_log st0).2 = [CNil; CStr "s1"; CBool true; CNil; CErr EInvalidSession] /\
  kvs (run ex_log st0).1 !! "a" = Some (KV [] 0 "" 1 3 5).
Proof. exact replicas_agree_example. Qed.

(* Every Raft index found in a row, a tombstone or the index table after a command is the index of
   that log entry or was in the store before: no local counter, nothing from outside the log. *)
Theorem C01_index_from_log_only : forall idx c s n,
  has_idx (apply idx c s).1 n -> n = idx \/ has_idx s n.
Proof. exact index_from_log_only. Qed.

Theorem C01_index_from_log_only_run : forall log s n,
  has_idx (run log s).1 n -> n ∈ (fst <$> log) \/ has_idx s n.
Proof. exact run_index_from_log_only. Qed.

(* ---------- handlers that range over Go maps ---------- *)

(* AssignManualServiceVIPs: whatever orders the two replicas iterate in, they store the same rows and
   return the same result, the `UnassignedFrom` list included (sorted since fix 9d6116b; before it the
   raw list was refuted to be deterministic) ... *)
Theorem C01_manual_vips_order_invariant : forall e1 e2 e1' e2' idx svc ips s,
  Uniq (vips s) ->
  assign_manual e1 e2 idx svc ips s = assign_manual e1' e2' idx svc ips s.
Proof. exact assign_manual_order. Qed.

(* ... [Uniq] (an address is a manual IP of at most one service) holds initially and is kept by every
   command on the table, so the same is true along whole logs, each command meeting arbitrary and
   different environments on the two replicas. *)
Theorem C01_manual_vips_unique_kept : forall e1 e2 idx c s,
  Uniq (vips s) -> Uniq (vips (vapply e1 e2 idx c s).1).
Proof. exact vapply_Uniq. Qed.
Example C01_manual_vips_unique_initially : Uniq (vips vst0).
Proof. exact Uniq_empty. Qed.

Theorem C01_manual_vips_runs_agree : forall log1 log2,
  Forall2 same_cmd log1 log2 -> forall s, Uniq (vips s) -> vrun log1 s = vrun log2 s.
Proof. exact vrun_order. Qed.

(* the history that used to split the replicas: two services lose an address each *)
Example C01_raw_result_order_example :
  (assign_manual env_id env_id 9 "cache" ["240.0.0.1"; "240.0.0.2"] ex_vstate).2 = VRes true ["db"; "web"] /\
  (assign_manual env_rev env_rev 9 "cache" ["240.0.0.1"; "240.0.0.2"] ex_vstate).2 = VRes true ["db"; "web"].
Proof. exact assign_manual_example. Qed.

(* writeUsageDeltas (one usage row per key of the delta map) *)
Theorem C01_usage_deltas_order_invariant : forall idx d1 d2 u,
  Permutation d1 d2 -> NoDup (fst <$> d1) -> write_usage_deltas idx d1 u = write_usage_deltas idx d2 u.
Proof. exact write_usage_deltas_order. Qed.
Example C01_usage_deltas_example :
  write_usage_deltas 7 [("nodes", 1%Z); ("services", (-3)%Z)] (<["services" := (2, 4)]> ∅) =
  <["services" := (0, 7)]> (<["nodes" := (1, 7)]> ∅).
Proof. exact usage_deltas_example. Qed.

(* updateMeshTopology: pruning the upstreams a proxy no longer declares *)
Theorem C01_topology_prune_order_invariant : forall idx ds ins old1 old2 t,
  Permutation old1 old2 -> prune_old_upstreams idx ds ins old1 t = prune_old_upstreams idx ds ins old2 t.
Proof. exact prune_old_upstreams_order. Qed.

(* ensureServiceTxn: copying the terminating-gateway virtual addresses into the tagged addresses *)
Theorem C01_tagged_addresses_order_invariant : forall a1 a2 m,
  Permutation a1 a2 -> NoDup (fst <$> a1) -> merge_tagged a1 m = merge_tagged a2 m.
Proof. exact merge_tagged_order. Qed.
(* the same handlers as the machine calls them: the environment picks the order of the map's entries *)
Theorem C01_usage_step_env_invariant : forall e1 e2 idx deltas u,
  write_usage_deltas idx (ordered_items e1 deltas) u = write_usage_deltas idx (ordered_items e2 deltas) u.
Proof. exact usage_step_order. Qed.
Theorem C01_mesh_topology_env_invariant : forall e1 e2 idx ds news old t,
  update_mesh_topology e1 idx ds news old t = update_mesh_topology e2 idx ds news old t.
Proof. exact topology_step_order. Qed.
Theorem C01_gateway_register_tagged_env_invariant : forall e1 e2 addrs m, ensure_tagged e1 addrs m = ensure_tagged e2 addrs m.
Proof. exact ensure_tagged_order. Qed.
(* updateTerminatingGatewayVirtualIPs: two map ranges feeding one fresh map *)
Theorem C01_tgw_tagged_order_invariant : forall e1 e2 e1' e2' addrs existing,
  update_tgw_tagged e1 e2 addrs existing = update_tgw_tagged e1' e2' addrs existing.
Proof. exact update_tgw_tagged_order. Qed.

(* instances with two different orders *)
Example C01_manual_vips_unique_example : Uniq (vips ex_vstate).
Proof. exact ex_vstate_Uniq. Qed.
Example C01_usage_two_orders :
  write_usage_deltas 7 [("nodes", 1%Z); ("services", (-3)%Z)] (<["services" := (2, 4)]> ∅) =
  write_usage_deltas 7 [("services", (-3)%Z); ("nodes", 1%Z)] (<["services" := (2, 4)]> ∅).
Proof. exact usage_two_orders. Qed.
Example C01_topology_two_orders :
  t_rows (update_mesh_topology env_id 9 "web" ["api"] {["db"; "api"; "cache"]} ex_topo) =
  t_rows (update_mesh_topology env_rev 9 "web" ["api"] {["db"; "api"; "cache"]} ex_topo) /\
  t_rows (update_mesh_topology env_id 9 "web" ["api"] {["db"; "api"; "cache"]} ex_topo) = <[tkey "api" "web" := ("api", "web")]> ∅ /\
  t_index (update_mesh_topology env_rev 9 "web" ["api"] {["db"; "api"; "cache"]} ex_topo) = 9.
Proof. exact topology_two_orders. Qed.
Example C01_tagged_two_orders :
  let addrs : gmap string (string * N) := <["consul-virtual:db" := ("240.0.0.7", 0)]> (<["consul-virtual:web" := ("240.0.0.6", 0)]> ∅) in
  let existing : gmap string (string * N) := <["lan" := ("10.0.0.9", 8443)]> (<["consul-virtual:old" := ("240.0.0.1", 0)]> ∅) in
  update_tgw_tagged env_id env_rev addrs existing = update_tgw_tagged env_rev env_id addrs existing /\
  update_tgw_tagged env_id env_id addrs existing =
    <["lan" := ("10.0.0.9", 8443)]> (<["consul-virtual:db" := ("240.0.0.7", 0)]> (<["consul-virtual:web" := ("240.0.0.6", 0)]> ∅)).
Proof. exact tagged_two_orders. Qed.

(* Error results built from the keys of a map: the keys are sorted before they are visited (fixes
   7ea9e44, 281c379), so the pair named by validateMetadata and the lines reported for missing JWT
   providers are the same on every replica (before the fixes both texts were refuted to be). *)
Theorem C01_error_text_order_invariant : forall e1 e2 bad meta,
  validate_meta e1 bad meta = validate_meta e2 bad meta.
Proof. exact validate_meta_order. Qed.
Example C01_error_text_order_example :
  validate_meta env_rev (fun _ => true) (<["bad key!" := "x"]> (<["also bad?" := "y"]> ∅)) = Some ("also bad?", "y") /\
  validate_meta env_id (fun _ => true) (<["bad key!" := "x"]> (<["also bad?" := "y"]> ∅)) = Some ("also bad?", "y").
Proof. exact validate_meta_example. Qed.
Theorem C01_error_lines_order_invariant : forall known r1 r2,
  Permutation r1 r2 -> missing_providers known r1 = missing_providers known r2.
Proof. exact missing_providers_order. Qed.
Example C01_error_lines_order_example :
  missing_providers ∅ ["okta"; "auth0"] = ["auth0"; "okta"] /\ missing_providers ∅ ["auth0"; "okta"] = ["auth0"; "okta"].
Proof. exact missing_providers_example. Qed.

Print Assumptions C01_machine_replicas_agree.
Print Assumptions C01_machine_invariant_kept.
Print Assumptions C01_machine_example.
Print Assumptions C01_replicas_agree.
Print Assumptions C01_usage_step_env_invariant.
Print Assumptions C01_mesh_topology_env_invariant.
Print Assumptions C01_gateway_register_tagged_env_invariant.
Print Assumptions C01_tgw_tagged_order_invariant.
Print Assumptions C01_local_never_read.
Print Assumptions C01_replicas_agree_example.
Print Assumptions C01_index_from_log_only.
Print Assumptions C01_index_from_log_only_run.
Print Assumptions C01_manual_vips_order_invariant.
Print Assumptions C01_manual_vips_unique_kept.
Print Assumptions C01_manual_vips_runs_agree.
Print Assumptions C01_usage_deltas_order_invariant.
Print Assumptions C01_topology_prune_order_invariant.
Print Assumptions C01_tagged_addresses_order_invariant.
Print Assumptions C01_error_text_order_invariant.
Print Assumptions C01_error_lines_order_invariant.
Print Assumptions C01_raw_result_order_example.
