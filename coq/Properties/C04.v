(* C04 — locks: one holder, only live sessions, released whenever the session ends.  Theorems only. *)
From stdpp Require Import gmap strings.
From Coq Require Import NArith.
From Verif Require Import Store.Model Store.Inv Store.Theorems Store.SessInv Store.EndInv Store.Holder.
Local Open Scope N_scope.

(* In every reachable state (any history of any commands, transactions included): every lock holder
   is a live session (a key has one holder field, so at most one), every check link and every
   session-bound prepared query names a live session. *)
Theorem C04_lock_invariant : forall log, LockInv (run log st0).1.
Proof. exact lock_invariant. Qed.

(* The invariant is inductive over single commands, including failing ones. *)
Theorem C04_invariant_step : forall idx c s, LockInv s -> LockInv (apply idx c s).1.
Proof. exact apply_LockInv. Qed.

(* Whenever a session is gone -- for whatever reason, within whatever command -- it holds no key,
   has no check link and no prepared query left: in that same committed step. *)
Theorem C04_gone_session_holds_nothing : forall s sid,
  LockInv s -> sessions s !! sid = None -> sid ≠ "" ->
  (forall k e, kvs s !! k = Some e -> kv_session e ≠ sid) /\
  (forall n c, (n, c, sid) ∉ schecks s) /\
  (forall q, queries s !! q ≠ Some sid).
Proof. exact gone_session_holds_nothing. Qed.

(* ... and each key it held is deleted (with a tombstone) or released, by its behaviour. *)
Theorem C04_session_end_keys : forall idx sid ss s k e0,
  kvs s !! k = Some e0 -> kv_session e0 = sid ->
  if s_delete ss
  then kvs (drop_session idx sid ss s) !! k = None /\ tombs (drop_session idx sid ss s) !! k = Some idx
  else kvs (drop_session idx sid ss s) !! k
       = Some (KV (kv_value e0) (kv_flags e0) "" (kv_lock e0) (kv_create e0) idx).
Proof. exact session_end_keys. Qed.

(* Acquisition succeeds iff the session is live and the key is free or already held by it. *)
Theorem C04_acquire : forall idx k e s,
  match kvs_lock idx k e s with
  | Err er _ => (er = ENoSession /\ kv_session e = "") \/
                (er = EInvalidSession /\ kv_session e ≠ "" /\ sessions s !! kv_session e = None)
  | Ok (ok, (s', _)) =>
    kv_session e ≠ "" /\ is_Some (sessions s !! kv_session e) /\
    (ok = true <-> match kvs s !! k with
                   | None => True
                   | Some x => kv_session x = "" \/ kv_session x = kv_session e
                   end) /\
    (ok = true -> exists e', kvs s' !! k = Some e' /\ kv_session e' = kv_session e) /\
    (ok = false -> s' = s)
  end.
Proof. exact lock_acquire. Qed.

(* Only the holder can release. *)
Theorem C04_release_only_holder : forall idx k e s,
  match kvs_unlock idx k e s with
  | Err er _ => er = ENoSession /\ kv_session e = ""
  | Ok (ok, (s', _)) =>
    (ok = true <-> exists x, kvs s !! k = Some x /\ kv_session x = kv_session e) /\
    (ok = false -> s' = s)
  end.
Proof. exact lock_release. Qed.

(* The session -> session-check -> session invalidation cascade terminates: with the fuel the
   model gives it, it never runs out (for every predicate preserved by one session removal). *)
Theorem C04_cascade_terminates : forall P idx sid,
  lock_only P -> drop_ok P -> forall s, P s -> post P id (delete_session_top idx sid s).
Proof. exact delete_session_top_preserves. Qed.

(* The triggers: in every reachable state a live session's node is registered, and every check it
   is bound to exists on that node, is linked to it and is not critical (a check of type "session"
   excepted, which session creation accepts in critical state).  So the step that deregisters the
   node, deletes a bound check or makes it critical -- a registration, a deregistration, a
   transaction verb, a node rename, a cascade of another session's end -- has ended the session,
   and by C04_gone_session_holds_nothing its keys, links and queries are released with it. *)
Theorem C04_sessions_valid : forall log sid ss,
  sessions (run log st0).1 !! sid = Some ss ->
  is_Some (nodes (run log st0).1 !! s_node ss) /\
  forall cid, cid ∈ s_checks ss ->
    (s_node ss, cid, sid) ∈ schecks (run log st0).1 /\
    exists c, checks (run log st0).1 !! (s_node ss, cid) = Some c /\
              (c_status c = critical -> c_session_type c = true).
Proof. exact sessions_valid. Qed.

Theorem C04_session_validity_step : forall idx c s, SessValid s -> SessValid (apply idx c s).1.
Proof. exact apply_SessValid. Qed.

Theorem C04_trigger_ends_session : forall log sid ss,
  let s := (run log st0).1 in
  (nodes s !! s_node ss = None \/
   exists cid, cid ∈ s_checks ss /\
     match checks s !! (s_node ss, cid) with
     | None => True
     | Some c => c_status c = critical /\ c_session_type c = false
     end) ->
  sessions s !! sid ≠ Some ss.
Proof. exact trigger_ends_session. Qed.

(* The end-of-session clause at the level of whole commands: whatever command (other than a
   transaction) makes a live session disappear -- destroy, deregistration of its node, of a service
   or of a check, a registration that fails a bound check or renames its node -- every key the
   session held is, in the state the command leaves, deleted with a tombstone at the command's
   index (behaviour "delete"), or released with value, flags, lock counter and create index kept and
   the modify index set to the command's index (behaviour "release"). *)
Theorem C04_end_of_session_command : forall idx c s,
  LockInv s -> (forall ops, c ≠ Txn ops) ->
  forall sid ss, sessions s !! sid = Some ss -> sessions (apply idx c s).1 !! sid = None ->
  forall k e0, kvs s !! k = Some e0 -> kv_session e0 = sid ->
    if s_delete ss then kvs (apply idx c s).1 !! k = None /\ tombs (apply idx c s).1 !! k = Some idx
    else kvs (apply idx c s).1 !! k = Some (released_row e0 idx).
Proof. exact end_of_session_command. Qed.

(* Inside a transaction a later operation may write the released key again, so the clause is stated
   per operation, on the state that operation ran on (a committed transaction is the sequential
   composition of its operations: C05_commit_is_sequential). *)
Theorem C04_end_of_session_txn_op : forall idx op s s' r,
  LockInv s -> txn_op idx op s = Ok (s', r) ->
  forall sid ss, sessions s !! sid = Some ss -> sessions s' !! sid = None ->
  forall k e0, kvs s !! k = Some e0 -> kv_session e0 = sid ->
    if s_delete ss then kvs s' !! k = None /\ tombs s' !! k = Some idx
    else kvs s' !! k = Some (released_row e0 idx).
Proof. exact end_of_session_txn_op. Qed.

Theorem C04_end_of_session_in_txn : forall idx ops s, LockInv s -> StepsEnd idx ops s.
Proof. exact end_of_session_in_txn. Qed.

(* Who holds a key changes only by a successful acquisition of a free key by a live session, by a
   release by the holder, or because the holder's session ended -- for every standalone KV command
   (set, cas, delete, delete-cas, delete-tree, lock, unlock) and every other command; transactions are
   compositions of these steps (C05_commit_is_sequential, C03_txn_frame). *)
Theorem C04_kv_command_holder : forall idx v q s k h h',
  holder s k = Some h -> holder (apply_kvs idx v q s).1 k = Some h' -> h' ≠ h ->
  (v = VLock /\ k = q_key q /\ h = "" /\ h' = q_session q /\ q_session q ≠ "" /\
   is_Some (sessions s !! q_session q)) \/
  (v = VUnlock /\ k = q_key q /\ h = q_session q /\ h' = "" /\ q_session q ≠ "").
Proof. exact kv_command_holder. Qed.

Theorem C04_other_command_holder : forall idx c s k h h',
  LockInv s ->
  match c with KVS _ _ | Txn _ | Reap _ => True | _ =>
    holder s k = Some h -> holder (apply idx c s).1 k = Some h' -> h' ≠ h ->
    h' = "" /\ is_Some (sessions s !! h) /\ sessions (apply idx c s).1 !! h = None
  end.
Proof. exact other_command_holder. Qed.

(* No command of any history ever reports the model's own "out of fuel": the invalidation cascades
   always run to completion, so no invariant above holds merely because a cascade was cut short. *)
Theorem C04_no_fuel : forall log s, Forall no_fuel (run log s).2.
Proof. exact run_no_fuel. Qed.

Example C04_end_example :
  let s := (run ld_log st0).1 in
  let s' := (apply 4 (Deregister "n1" "" "c1") s).1 in
  sessions s !! "s1" = Some (Sess "n1" "" false ["c1"] true 2) /\ sessions s' !! "s1" = None /\
  kvs s !! "a" = Some (KV [] 0 "s1" 1 3 3) /\ kvs s' !! "a" = Some (released_row (KV [] 0 "s1" 1 3 3) 4).
Proof. cbv zeta. repeat split; vm_compute; reflexivity. Qed.

(* Non-vacuity of the triggers: the session of C04_example is bound to check c1; a registration
   that leaves c1's status out (the store defaults it to critical) ends it and releases its key. *)
Example C04_trigger_example :
  let s := (run (ld_log ++ [(4, Register "n1" "" 1 false None [CheckReq "n1" "c1" 3 "" false "" 0 0])]) st0).1 in
  sessions s !! "s1" = None /\ (exists e, kvs s !! "a" = Some e /\ kv_session e = "") /\
  sessions (run ld_log st0).1 !! "s1" = Some (Sess "n1" "" false ["c1"] true 2).
Proof.
  cbv zeta. split; [vm_compute; reflexivity|]. split; [eexists; split; vm_compute; reflexivity|].
  vm_compute; reflexivity.
Qed.

(* Non-vacuity: a state with a locked key, a check link and a bound query satisfies the invariant
   non-trivially. *)
Example C04_example :
  let s := (run (ld_log ++ [(4, QuerySet "q1" "s1")]) st0).1 in
  LockInv s /\ (exists e, kvs s !! "a" = Some e /\ kv_session e = "s1") /\
  ("n1", "c1", "s1") ∈ schecks s /\ queries s !! "q1" = Some "s1".
Proof.
  cbv zeta. split; [apply lock_invariant|].
  split; [eexists; split; vm_compute; reflexivity|].
  split; [eapply bool_decide_eq_true_1; vm_compute; reflexivity|vm_compute; reflexivity].
Qed.

Print Assumptions C04_lock_invariant.
Print Assumptions C04_invariant_step.
Print Assumptions C04_gone_session_holds_nothing.
Print Assumptions C04_session_end_keys.
Print Assumptions C04_acquire.
Print Assumptions C04_release_only_holder.
Print Assumptions C04_cascade_terminates.
Print Assumptions C04_sessions_valid.
Print Assumptions C04_session_validity_step.
Print Assumptions C04_trigger_ends_session.
Print Assumptions C04_trigger_example.
Print Assumptions C04_end_of_session_command.
Print Assumptions C04_end_of_session_txn_op.
Print Assumptions C04_end_of_session_in_txn.
Print Assumptions C04_no_fuel.
Print Assumptions C04_kv_command_holder.
Print Assumptions C04_other_command_holder.
Print Assumptions C04_end_example.
Print Assumptions C04_example.
