(* C09 — ACL enforcement: nothing unreadable returned, expired tokens never honoured.
   Theorems only; each closed by an application of a lemma of Filter/{Loops,Proofs,Switch,ResolveProofs}.v.
   The authorizer [az] is an arbitrary record of functions: everything holds for ALL authorizers.
   Readability of each element kind ([readable_*]), the declarative result of every branch of the
   type switch ([spec_response]) and the flattened view ([items], [ids], [flag_of]) are in Filter/Spec.v. *)
From Verif Require Import Base.Prelude.
From Verif Require Import Filter.Model.
From Verif Require Import Filter.Loops.
From Verif Require Import Filter.Spec.
From Verif Require Import Filter.Proofs.
From Verif Require Import Filter.Switch.
From Verif Require Import Filter.ResolveModel.
From Verif Require Import Filter.ResolveProofs.
From Coq Require Import Permutation.

Section C09.
  Variable az : authz.

  (* ---------- the loops ---------- *)

  (* "for i := 0; i < len(s); i++ { if keep(s[i]) {continue}; removed = true; s = append(s[:i], s[i+1:]...); i-- }"
     is List.filter and reports exactly whether something was dropped — adjacent removals, first,
     last, all, none; for every fuel that covers the list. *)
  Theorem C09_loop_is_filter : forall (A : Type) (keep : A -> bool) (fuel : nat) (s : list A),
    List.length s <= fuel ->
    inplace_loop keep fuel 0 s false = (filter keep s, negb (forallb keep s)).
  Proof. exact (@loop_is_filter). Qed.

  (* at every index of the walk: the prefix is final, the rest is still to be filtered *)
  Theorem C09_loop_invariant : forall (A : Type) (keep : A -> bool) (fuel i : nat) (s : list A) (r : bool),
    List.length s - i <= fuel ->
    inplace_loop keep fuel i s r = (firstn i s ++ filter keep (skipn i s), r || negb (forallb keep (skipn i s))).
  Proof. exact (@inplace_loop_inv). Qed.

  (* the "range + append to a fresh slice" loops *)
  Theorem C09_range_is_filter : forall (A : Type) (keep : A -> bool) (l : list A),
    range_filter keep l = (filter keep l, negb (forallb keep l)).
  Proof. exact (@range_filter_spec). Qed.

  (* FilterEntries (span compaction with Move) used by FilterDirEnt / FilterTxnResults *)
  Theorem C09_compact_is_filter : forall (A : Type) (filtered : A -> bool) (a : list A),
    filter_slice filtered a = filter (fun x => negb (filtered x)) a.
  Proof. exact (@compact_is_filter). Qed.

  (* ---------- the whole type switch ---------- *)

  (* Every branch of Filter.Filter computes the declarative result: the readable elements in
     their original order and multiplicity, nested lists filtered the same way, emptied
     datacenters / peers dropped, secrets hidden, the flag exactly as specified. *)
  Theorem C09_filter_exact : forall r, wf r -> filter_response az r = spec_response az r.
  Proof. exact (switch_exact az). Qed.

  (* every returned element (at every nesting level) is readable under the authorizer *)
  Theorem C09_sound : forall r, wf r -> forall i, In i (ids (filter_response az r)) ->
    exists it, In it (items az r) /\ it_id it = i /\ it_readable it = true.
  Proof. exact (switch_sound az). Qed.

  (* every readable element is returned: same order, same multiplicity, nothing else *)
  Theorem C09_complete : forall r, wf r ->
    ids (filter_response az r) = map it_id (filter it_readable (items az r)).
  Proof. exact (switch_complete az). Qed.

  (* the flag afterwards, for every response type that has one *)
  Theorem C09_flag : forall r, wf r ->
    match flag_of (filter_response az r) with
    | Some f' => f' = (sticky_type r && flag0 r) || existsb bad_item (items az r)
    | None => flag_of r = None
    end.
  Proof. exact (switch_flag az). Qed.

  (* starting from a clear flag: set exactly when a reportable element was removed *)
  Theorem C09_flag_iff : forall r f', wf r -> flag0 r = false -> flag_of (filter_response az r) = Some f' ->
    (f' = true <-> exists it, In it (items az r) /\ it_readable it = false /\ it_flagged it = true).
  Proof. exact (switch_flag_iff az). Qed.

  (* ---------- map-iterating branches: the runtime's iteration order does not matter ---------- *)

  Theorem C09_exported_any_order : forall ord m flag,
    NoDup (map fst ord) -> (forall kv, In kv ord <-> In kv m) ->
    exported_loop az ord m flag
    = (spec_groups (readable_svcname az) m, flag || group_removed (readable_svcname az) m).
  Proof. exact (exported_loop_exact az). Qed.

  Theorem C09_datacenters_any_order : forall ord m, Permutation ord m ->
    Permutation (fst (dc_loop az ord [] false)) (fst (filter_dc_nodes az m))
    /\ snd (dc_loop az ord [] false) = snd (filter_dc_nodes az m).
  Proof. exact (dc_loop_order_irrelevant az). Qed.

  Theorem C09_services_any_order : forall ord m,
    NoDup (map fst m) -> (forall kv, In kv ord <-> In kv m) ->
    filter_services_ord az ord m
    = (filter (fun kv => svc_ok az EmptyString (fst kv)) m,
       negb (forallb (fun kv => svc_ok az EmptyString (fst kv)) m)).
  Proof. exact (filter_services_ord_exact az). Qed.

  Theorem C09_node_services_any_order : forall ord n m,
    NoDup (map fst m) -> (forall kv, In kv ord <-> In kv m) ->
    filter_node_services_ord az ord (Some (n, m))
    = if readable_node az n
      then (Some (n, filter (fun kv => readable_nsvc_on az (nd_name n) (snd kv)) m),
            negb (forallb (fun kv => readable_nsvc_on az (nd_name n) (snd kv)) m))
      else (None, true).
  Proof. exact (filter_node_services_ord_exact az). Qed.

  (* ---------- nested node dumps ---------- *)
  Theorem C09_node_dump : forall l,
    filter_node_dump az l
    = (map (spec_nodeinfo az) (filter (readable_nodeinfo az) l), negb (forallb (nodeinfo_intact az) l)).
  Proof. exact (filter_node_dump_exact az). Qed.

  (* ---------- redaction ---------- *)
  Theorem C09_token_secrets_hidden : forall l t,
    acl_write az = false -> In (Some t) (filter_tokens az l) -> tk_secret t = redacted.
  Proof. exact (tokens_redacted az). Qed.

  Theorem C09_query_tokens_hidden : forall l q,
    acl_write az = false -> In q (fst (filter_prepared_queries az l)) ->
    pq_token q = EmptyString \/ pq_token q = redacted.
  Proof. exact (query_tokens_redacted az). Qed.
End C09.

(* ---------- token expiry ---------- *)

(* ACLToken.IsExpired: expired iff it has a (non-zero) expiration time strictly before a non-zero reference time *)
Theorem C09_is_expired : forall t now,
  is_expired t now = true <-> now <> 0%N /\ exists e, id_exp t = Some e /\ e <> 0%N /\ (e < now)%N.
Proof. exact is_expired_spec. Qed.

(* Whatever ResolveToken grants passed the expiry test at the time of the attempt that granted
   it — for every cache state, backend, RPC answer, policy outcome, down policy, on every retry. *)
Theorem C09_granted_unexpired : forall acls cls env down cache t c',
  resolve_token acls cls env down cache = (OGranted t, c') ->
  exists k, k < max_retries /\ is_expired t (a_now (env k)) = false.
Proof. exact resolve_token_granted_unexpired. Qed.

(* An identity that is expired when the attempt tests it — obtained from the backend, a fresh
   cache entry, a stale entry served asynchronously, an extended cache entry or the primary
   datacenter — ends the resolution with ACL-not-found: for every cache state. *)
Theorem C09_expired : forall env down fuel i cache last t c1,
  resolve_identity (a_bk (env i)) cache (a_fresh (env i)) (a_rpc (env i)) down = ((Some t, INone), c1) ->
  is_expired t (a_now (env i)) = true ->
  resolve_loop env down (S fuel) i cache last = (OErr ENotFound, c1).
Proof. exact expired_not_found. Qed.

(* If every copy of the token that any source offers is expired, the result is independent of
   the token: not found, an error, or the down-policy authorizer (never the token's own). *)
Theorem C09_all_expired : forall env down fuel cache last,
  (forall t, offered (a_bk (env 0)) cache (a_rpc (env 0)) t -> is_expired t (a_now (env 0)) = true) ->
  match fst (resolve_loop env down (S fuel) 0 cache last) with
  | OErr _ | ODown => True
  | _ => False
  end.
Proof. exact all_expired_outcome. Qed.

Theorem C09_expired_while_cached : forall env down fuel t last,
  a_bk (env 0) = BkNotDone -> a_fresh (env 0) = true -> is_expired t (a_now (env 0)) = true ->
  resolve_loop env down (S fuel) 0 (Some t) last = (OErr ENotFound, Some t).
Proof. exact cached_fresh_expired. Qed.

Theorem C09_expired_not_yet_reaped : forall env down fuel t cache last,
  a_bk (env 0) = BkDone (Some t) BkOk -> is_expired t (a_now (env 0)) = true ->
  resolve_loop env down (S fuel) 0 cache last = (OErr ENotFound, cache).
Proof. exact store_still_holds_expired. Qed.

Theorem C09_expired_cache_extended : forall env fuel t last down,
  a_bk (env 0) = BkNotDone -> a_fresh (env 0) = false -> a_rpc (env 0) = RpcFail -> extends_cache down = true ->
  is_expired t (a_now (env 0)) = true ->
  resolve_loop env down (S fuel) 0 (Some t) last = (OErr ENotFound, Some t).
Proof. exact cached_stale_primary_down_expired. Qed.

(* ---------- non-vacuity ---------- *)
Definition ex_az : authz :=
  Authz (fun _ n => negb (String.eqb n "bad")) (fun _ n => negb (String.eqb n "bad"))
        (fun _ => true) (fun _ => true) (fun _ => true) (fun _ => true) true false.

(* a well-formed response with two peers, one of them losing a service: the hypotheses of the
   map theorems are met and the flag is set although the peer visited last is intact *)
Example C09_example_exported :
  let r := RIndexedExportedServiceList [("p1"%string, [SV 1 "bad"; SV 2 "web"]); ("p2"%string, [SV 3 "api"])] false in
  wf r /\ filter_response ex_az r
          = RIndexedExportedServiceList [("p1"%string, [SV 2 "web"]); ("p2"%string, [SV 3 "api"])] true.
Proof. split; [repeat constructor; cbn; intuition discriminate | reflexivity]. Qed.

(* the hypotheses of the any-order theorems are met by a visiting order different from the
   stored one (here: reversed), and the defect repaired by d107a26 would show exactly here *)
Example C09_example_any_order :
  let m := [("p1"%string, [SV 1 "bad"; SV 2 "web"]); ("p2"%string, [SV 3 "api"]); ("p3"%string, [SV 4 "bad"])] in
  let ord := rev m in
  NoDup (map fst ord) /\ (forall kv, In kv ord <-> In kv m)
  /\ exported_loop ex_az ord m false = ([("p1"%string, [SV 2 "web"]); ("p2"%string, [SV 3 "api"])], true)
  /\ exported_loop ex_az m m false = exported_loop ex_az ord m false.
Proof.
  cbv zeta. split; [|split; [|split; reflexivity]].
  - repeat constructor; cbn; intuition discriminate.
  - intros kv. rewrite <- in_rev. reflexivity.
Qed.

(* adjacent removals, first and last element, nested lists *)
Example C09_example_node_dump :
  filter_response ex_az
    (RIndexedNodeDump [] [NI 1 "bad" "" [NS 2 "a" "a" ""] []; NI 3 "bad" "" [] [];
                          NI 4 "n1" "" [NS 5 "bad" "bad" ""; NS 6 "web" "web" ""; NS 7 "bad" "bad" ""] [HC 8 "n1" "" ""; HC 9 "n1" "bad" ""];
                          NI 10 "bad" "" [] []] false)
  = RIndexedNodeDump [] [NI 4 "n1" "" [NS 6 "web" "web" ""] [HC 8 "n1" "" ""]] true.
Proof. reflexivity. Qed.

(* the expiry hypotheses are satisfiable: a cached token that expired one tick ago *)
Example C09_example_expired :
  let t := Ident 7 (Some 99%N) false in
  let env := fun _ : nat => Attempt BkNotDone true RpcFail PolOk 100%N in
  is_expired t 100%N = true
  /\ resolve_token true SecPlain env DownExtend (Some t) = (OErr ENotFound, Some t)
  /\ resolve_token true SecPlain (fun _ => Attempt BkNotDone true RpcFail PolOk 99%N) DownExtend (Some t) = (OGranted t, Some t).
Proof. repeat split. Qed.

Print Assumptions C09_loop_is_filter.
Print Assumptions C09_loop_invariant.
Print Assumptions C09_range_is_filter.
Print Assumptions C09_compact_is_filter.
Print Assumptions C09_filter_exact.
Print Assumptions C09_sound.
Print Assumptions C09_complete.
Print Assumptions C09_flag.
Print Assumptions C09_flag_iff.
Print Assumptions C09_exported_any_order.
Print Assumptions C09_datacenters_any_order.
Print Assumptions C09_services_any_order.
Print Assumptions C09_node_services_any_order.
Print Assumptions C09_node_dump.
Print Assumptions C09_token_secrets_hidden.
Print Assumptions C09_query_tokens_hidden.
Print Assumptions C09_is_expired.
Print Assumptions C09_granted_unexpired.
Print Assumptions C09_expired.
Print Assumptions C09_all_expired.
Print Assumptions C09_expired_while_cached.
Print Assumptions C09_expired_not_yet_reaped.
Print Assumptions C09_expired_cache_extended.
Print Assumptions C09_example_exported.
Print Assumptions C09_example_any_order.
Print Assumptions C09_example_node_dump.
Print Assumptions C09_example_expired.
