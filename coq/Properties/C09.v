(* C09 — ACL enforcement: nothing unreadable returned, expired tokens never honoured.
   Theorems only; each closed by an application of a lemma of Filter/{Loops,Proofs,Switch,ResolveProofs}.v.
   The authorizer [az] is an arbitrary record of functions: everything holds for ALL authorizers.
   Readability of each element kind ([readable_*]), the declarative result of every branch of the
   type switch ([spec_response]) and the flattened view ([items], [ids], [flag_of]) are in Filter/Spec.v. *)
From Verif Require Import Base.Prelude.
From Verif Require Import Filter.Model.
From Verif Require Import Filter.Loops.
From Verif Require Import Filter.Spec.
From Verif Require Import Filter.Proofs.
From Verif Require Import Filter.Switch.
From Verif Require Import Filter.Deviations.
From Verif Require Import Filter.ResolveModel.
From Verif Require Import Filter.ResolveProofs.
From Coq Require Import Permutation.

Section C09.
  Variable az : authz.

  (* ---------- the loops ---------- *)

  (* "for i := 0; i < len(s); i++ { if keep(s[i]) {continue}; removed = true; s = append(s[:i], s[i+1:]...); i-- }"
     is List.filter and reports exactly whether something was dropped — adjacent removals, first,
     last, all, none; for every fuel that covers the list. *)
  Theorem C09_loop_is_filter : forall (A : Type) (keep : A -> bool) (fuel : nat) (s : list A),
    List.length s <= fuel ->
    inplace_loop keep fuel 0 s false = (filter keep s, negb (forallb keep s)).
  Proof. exact (@loop_is_filter). Qed.

  (* at every index of the walk: the prefix is final, the rest is still to be filtered *)
  Theorem C09_loop_invariant : forall (A : Type) (keep : A -> bool) (fuel i : nat) (s : list A) (r : bool),
    List.length s - i <= fuel ->
    inplace_loop keep fuel i s r = (firstn i s ++ filter keep (skipn i s), r || negb (forallb keep (skipn i s))).
  Proof. exact (@inplace_loop_inv). Qed.

  (* the "range + append to a fresh slice" loops *)
  Theorem C09_range_is_filter : forall (A : Type) (keep : A -> bool) (l : list A),
    range_filter keep l = (filter keep l, negb (forallb keep l)).
  Proof. exact (@range_filter_spec). Qed.

  (* FilterEntries (span compaction with Move) used by FilterDirEnt / FilterTxnResults *)
  Theorem C09_compact_is_filter : forall (A : Type) (filtered : A -> bool) (a : list A),
    filter_slice filtered a = filter (fun x => negb (filtered x)) a.
  Proof. exact (@compact_is_filter). Qed.

  (* ---------- the whole type switch ---------- *)

  (* Every branch of Filter.Filter computes the declarative result: the readable elements in
     their original order and multiplicity, nested lists filtered the same way, emptied
     datacenters / peers dropped, secrets hidden, the flag exactly as specified. *)
  Theorem C09_filter_exact : forall r, wf r -> filter_response az r = spec_response az r.
  Proof. exact (switch_exact az). Qed.

  (* every returned element (at every nesting level) is readable under the authorizer
     (by identifier: a corollary of [C09_complete], which is the statement that carries the clause) *)
  Theorem C09_sound : forall r, wf r -> forall i, In i (ids (filter_response az r)) ->
    exists it, In it (items az r) /\ it_id it = i /\ it_readable it = true.
  Proof. exact (switch_sound az). Qed.

  (* every readable element is returned: same order, same multiplicity, nothing else *)
  Theorem C09_complete : forall r, wf r ->
    ids (filter_response az r) = map it_id (filter it_readable (items az r)).
  Proof. exact (switch_complete az). Qed.

  (* the flag afterwards, for every response type that has one: set exactly when this run removed
     an element whose removal is reported — whatever the flag was on entry (a blocking query
     re-runs its function on the same reply; since a96cac5 every branch assigns the flag) *)
  Theorem C09_flag : forall r, wf r ->
    match flag_of (filter_response az r) with
    | Some f' => f' = existsb bad_item (items az r)
    | None => flag_of r = None
    end.
  Proof. exact (switch_flag az). Qed.

  Theorem C09_flag_iff : forall r f', wf r -> flag_of (filter_response az r) = Some f' ->
    (f' = true <-> exists it, In it (items az r) /\ it_readable it = false /\ it_flagged it = true).
  Proof. exact (switch_flag_iff az). Qed.

  (* ---------- the filters' predicates against ONE independent rule of readability ----------
     rule: the node under the element's own peer context, and every service the element names
     ([may_node], [may_service]; an element naming no service needs no service permission) *)
  Theorem C09_rule_check : forall c, readable_check az c = ideal_check az c.
  Proof. exact (check_is_ideal az). Qed.
  Theorem C09_rule_service_node : forall n, readable_snode az n = ideal_snode az n.
  Proof. exact (snode_is_ideal az). Qed.
  Theorem C09_rule_node_service : forall n s, readable_nsvc_on az n s = ideal_nsvc_on az n s.
  Proof. exact (nsvc_on_is_ideal az). Qed.
  Theorem C09_rule_node_check : forall n c, readable_check_on az n c = ideal_check_on az n c.
  Proof. exact (check_on_is_ideal az). Qed.
  Theorem C09_rule_service_info : forall s, readable_svcinfo az s = ideal_svcinfo az s.
  Proof. exact (svcinfo_is_ideal az). Qed.
  (* deviation empty-service-name (filter stricter): holds for named services *)
  Theorem C09_rule_csn_partial : forall l,
    forallb (fun c => negb (str_empty (c_svc c))) l = true ->
    filter_csns az l = (filter (ideal_csn az) l, removed (ideal_csn az) l).
  Proof. exact (csns_ideal az). Qed.
  Theorem C09_rule_service_name_partial : forall s,
    str_empty (sv_name s) = false -> readable_svcname az s = ideal_svcname az s.
  Proof. exact (svcname_ideal_partial az). Qed.
  (* gateway mappings of a service dump (all gateways): both names, as the rule says *)
  Theorem C09_rule_gateway_mapping : forall g,
    str_empty (gs_service g) = false -> readable_gwmapping az g = ideal_gwsvc az g.
  Proof. exact (gwmapping_is_ideal az). Qed.
  (* deviation gateway-unchecked (IndexedGatewayServices only): holds when every gateway named is
     readable, which Catalog.GatewayServices establishes before it filters *)
  Theorem C09_rule_gateway_partial : forall l,
    forallb (fun g => may_service az EmptyString (gs_gateway g) && negb (str_empty (gs_service g))) l = true ->
    filter_gateway_services az l = (filter (ideal_gwsvc az) l, removed (ideal_gwsvc az) l).
  Proof. exact (gateway_services_ideal_partial az). Qed.
  (* deviation service-list-node-context: holds when the instance carries its node's peer *)
  Theorem C09_rule_service_list_partial : forall (n : node) s,
    readable_node az n = true -> ns_peer s = nd_peer n ->
    readable_nsvc az s = ideal_nsvc_on az (nd_name n) s.
  Proof. exact (nsvc_list_ideal_partial az). Qed.
  (* deviation txn-service-check: holds for node checks, and for service checks on a readable node *)
  Theorem C09_rule_txn_partial : forall r,
    match r with
    | TCheck _ n s p => str_empty s = true \/ may_node az p n = true
    | TSvc _ s _ => str_empty s = false
    | _ => True
    end -> readable_txn az r = ideal_txn az r.
  Proof. exact (txn_ideal_partial az). Qed.

  (* ---------- map-iterating branches: the runtime's iteration order does not matter ---------- *)

  Theorem C09_exported_any_order : forall ord m flag,
    NoDup (map fst ord) -> (forall kv, In kv ord <-> In kv m) ->
    exported_loop az ord m flag
    = (spec_groups (readable_svcname az) m, flag || group_removed (readable_svcname az) m).
  Proof. exact (exported_loop_exact az). Qed.

  Theorem C09_datacenters_any_order : forall ord m, Permutation ord m ->
    Permutation (fst (dc_loop az ord [] false)) (fst (filter_dc_nodes az m))
    /\ snd (dc_loop az ord [] false) = snd (filter_dc_nodes az m).
  Proof. exact (dc_loop_order_irrelevant az). Qed.

  Theorem C09_services_any_order : forall ord m,
    NoDup (map fst m) -> (forall kv, In kv ord <-> In kv m) ->
    filter_services_ord az ord m
    = (filter (fun kv => svc_ok az EmptyString (fst kv)) m,
       negb (forallb (fun kv => svc_ok az EmptyString (fst kv)) m)).
  Proof. exact (filter_services_ord_exact az). Qed.

  Theorem C09_node_services_any_order : forall ord n m,
    NoDup (map fst m) -> (forall kv, In kv ord <-> In kv m) ->
    filter_node_services_ord az ord (Some (n, m))
    = if readable_node az n
      then (Some (n, filter (fun kv => readable_nsvc_on az (nd_name n) (snd kv)) m),
            negb (forallb (fun kv => readable_nsvc_on az (nd_name n) (snd kv)) m))
      else (None, true).
  Proof. exact (filter_node_services_ord_exact az). Qed.

  (* ---------- nested node dumps ---------- *)
  Theorem C09_node_dump : forall l,
    filter_node_dump az l
    = (map (spec_nodeinfo az) (filter (readable_nodeinfo az) l), negb (forallb (nodeinfo_intact az) l)).
  Proof. exact (filter_node_dump_exact az). Qed.

  (* ---------- redaction ---------- *)
  Theorem C09_token_secrets_hidden : forall l t,
    acl_write az = false -> In (Some t) (filter_tokens az l) -> tk_secret t = redacted.
  Proof. exact (tokens_redacted az). Qed.

  Theorem C09_query_tokens_hidden : forall l q,
    acl_write az = false -> In q (fst (filter_prepared_queries az l)) ->
    pq_token q = EmptyString \/ pq_token q = redacted.
  Proof. exact (query_tokens_redacted az). Qed.
End C09.

(* ---------- named deviations from the rule: witnesses ---------- *)

(* by contract: IndexedGatewayServices trusts its endpoint to have authorized the gateway *)
Theorem C09_gateway_unchecked_refuted :
  exists az g, readable_gwsvc az g = true /\ ideal_gwsvc az g = false
  /\ filter_response az (RIndexedGatewayServices [g] false) = RIndexedGatewayServices [g] false.
Proof. exact gateway_unchecked_refuted. Qed.

Theorem C09_empty_service_name_refuted : exists az c, readable_csn az c = false /\ ideal_csn az c = true.
Proof. exact empty_service_name_refuted. Qed.

Theorem C09_service_list_node_context_refuted :
  exists az n s, readable_node az n = true /\ readable_nsvc az s = true /\ ideal_nsvc_on az (nd_name n) s = false.
Proof. exact service_list_node_context_refuted. Qed.

Theorem C09_txn_service_check_refuted : exists az r, readable_txn az r = true /\ ideal_txn az r = false.
Proof. exact txn_service_check_refuted. Qed.

(* a NodeServiceList without a Node passes unfiltered (unreachable: the endpoint leaves Services
   empty when the node does not exist, the condition of the partial theorem) *)
Theorem C09_nil_node_passthrough_refuted :
  exists az s, may_service az (ns_peer s) (ns_name s) = false
  /\ filter_response az (RIndexedNodeServiceList None [s] false) = RIndexedNodeServiceList None [s] false.
Proof. exact nil_node_passthrough_refuted. Qed.
Theorem C09_nil_node_passthrough_partial : forall az f,
  filter_response az (RIndexedNodeServiceList None [] f) = RIndexedNodeServiceList None [] false.
Proof. exact nil_node_passthrough_partial. Qed.

(* by design: an intention match REQUEST is refused as a whole; unnamed queries are invisible *)
Theorem C09_intention_match_all_or_nothing_refuted :
  exists az l i n, In (i, n) l /\ intention_read az n = true
  /\ filter_response az (RIntentionQueryMatch (Some l)) = RIntentionQueryMatch None.
Proof. exact intention_match_all_or_nothing_refuted. Qed.
Theorem C09_intention_match_partial : forall az l,
  forallb (fun e => str_empty (snd e) || intention_read az (snd e)) l = true ->
  filter_response az (RIntentionQueryMatch (Some l)) = RIntentionQueryMatch (Some l).
Proof. exact intention_match_partial. Qed.
Theorem C09_unnamed_query_invisible : forall az q f,
  acl_write az = false -> query_named q = false ->
  filter_response az (RIndexedPreparedQueries [q] f) = RIndexedPreparedQueries [] false.
Proof. exact unnamed_query_invisible. Qed.

(* ---------- token expiry ---------- *)

(* ACLToken.IsExpired: expired iff it has a (non-zero) expiration time strictly before a non-zero reference time *)
Theorem C09_is_expired : forall t now,
  is_expired t now = true <-> now <> 0%N /\ exists e, id_exp t = Some e /\ e <> 0%N /\ (e < now)%N.
Proof. exact is_expired_spec. Qed.

(* Whatever ResolveToken grants passed the expiry test at the time of the attempt that granted
   it — for every cache state, backend, RPC answer, policy outcome, down policy, on every retry. *)
Theorem C09_granted_unexpired : forall acls cls env down cache t c',
  resolve_token acls cls env down cache = (OGranted t, c') ->
  exists k, k < max_retries /\ is_expired t (a_now (env k)) = false.
Proof. exact resolve_token_granted_unexpired. Qed.

(* An identity that is expired when the attempt tests it — obtained from the backend, a fresh
   cache entry, a stale entry served asynchronously, an extended cache entry or the primary
   datacenter — ends the resolution with ACL-not-found: for every cache state. *)
Theorem C09_expired : forall env down fuel i cache last t c1,
  resolve_identity (a_bk (env i)) cache (a_fresh (env i)) (a_rpc (env i)) down = ((Some t, INone), c1) ->
  is_expired t (a_now (env i)) = true ->
  resolve_loop env down (S fuel) i cache last = (OErr ENotFound, c1).
Proof. exact expired_not_found. Qed.

(* If every copy of the token that any source offers is expired, the result is independent of
   the token: not found, an error, or the down-policy authorizer (never the token's own).
   NOTE [ODown]: with down policy "allow" and the primary datacenter unreachable, the expired
   token gets allow-all — as ANY secret would (the outcome does not depend on the token). *)
Theorem C09_all_expired : forall env down fuel cache last,
  (forall t, offered (a_bk (env 0)) cache (a_rpc (env 0)) t -> is_expired t (a_now (env 0)) = true) ->
  match fst (resolve_loop env down (S fuel) 0 cache last) with
  | OErr _ | ODown => True
  | _ => False
  end.
Proof. exact all_expired_outcome. Qed.

Theorem C09_expired_while_cached : forall env down fuel t last,
  a_bk (env 0) = BkNotDone -> a_fresh (env 0) = true -> is_expired t (a_now (env 0)) = true ->
  resolve_loop env down (S fuel) 0 (Some t) last = (OErr ENotFound, Some t).
Proof. exact cached_fresh_expired. Qed.

Theorem C09_expired_not_yet_reaped : forall env down fuel t cache last,
  a_bk (env 0) = BkDone (Some t) BkOk -> is_expired t (a_now (env 0)) = true ->
  resolve_loop env down (S fuel) 0 cache last = (OErr ENotFound, cache).
Proof. exact store_still_holds_expired. Qed.

Theorem C09_expired_cache_extended : forall env fuel t last down,
  a_bk (env 0) = BkNotDone -> a_fresh (env 0) = false -> a_rpc (env 0) = RpcFail -> extends_cache down = true ->
  is_expired t (a_now (env 0)) = true ->
  resolve_loop env down (S fuel) 0 (Some t) last = (OErr ENotFound, Some t).
Proof. exact cached_stale_primary_down_expired. Qed.

(* ---------- the authorizer of the runs of a blocking query ---------- *)

(* endpoints whose query function resolves the token again in every run (filterACL): every run the
   token authorizes happens before its expiration, for every schedule of runs *)
Theorem C09_reresolved_runs_unexpired : forall (resolve_at : N -> outcome),
  (forall now t, resolve_at now = OGranted t -> is_expired t now = false) ->
  forall times k t now,
    nth_error (blocking_reresolve resolve_at times) k = Some (ByToken t) ->
    nth_error times k = Some now -> is_expired t now = false.
Proof. exact reresolve_runs_unexpired. Qed.

(* the hypothesis above is what ResolveToken provides when its clock shows [now] *)
Theorem C09_resolve_at_unexpired : forall acls cls bk fresh rpc pol down cache now t c',
  resolve_token acls cls (env_at bk fresh rpc pol now) down cache = (OGranted t, c') -> is_expired t now = false.
Proof. exact resolve_at_unexpired. Qed.

(* OPEN FINDING expired-token-honoured-in-blocking-query: endpoints that resolve once and keep the
   authorizer (Catalog.ListServices, KVS.List, ...) run after the expiration with the token's authorizer *)
Theorem C09_held_authorizer_refuted :
  exists t now0 times k now,
    is_expired t now0 = false /\ nth_error times k = Some now /\ is_expired t now = true
    /\ nth_error (blocking_held (OGranted t) times) k = Some (ByToken t).
Proof. exact held_after_expiry_refuted. Qed.

(* ... they satisfy the property exactly when no run happens after the expiration *)
Theorem C09_held_authorizer_partial : forall t times,
  (forall now, In now times -> is_expired t now = false) ->
  forall k now, nth_error (blocking_held (OGranted t) times) k = Some (ByToken t) ->
    nth_error times k = Some now -> is_expired t now = false.
Proof. exact held_partial. Qed.

(* rpc.go maskResultsFilteredByACLs: only ever clears; clears for blank / unresolvable / anonymous *)
Theorem C09_mask : forall blank ok anon flag,
  mask_flag blank ok anon flag = flag && negb blank && ok && negb anon.
Proof. exact mask_spec. Qed.

(* ---------- non-vacuity ---------- *)
Definition ex_az : authz :=
  Authz (fun _ n => negb (String.eqb n "bad")) (fun _ n => negb (String.eqb n "bad"))
        (fun _ => true) (fun _ => true) (fun _ => true) (fun _ => true) true false.

(* a well-formed response with two peers, one of them losing a service: the hypotheses of the
   map theorems are met and the flag is set although the peer visited last is intact *)
Example C09_example_exported :
  let r := RIndexedExportedServiceList [("p1"%string, [SV 1 "bad"; SV 2 "web"]); ("p2"%string, [SV 3 "api"])] false in
  wf r /\ filter_response ex_az r
          = RIndexedExportedServiceList [("p1"%string, [SV 2 "web"]); ("p2"%string, [SV 3 "api"])] true.
Proof. split; [repeat constructor; cbn; intuition discriminate | reflexivity]. Qed.

(* the hypotheses of the any-order theorems are met by a visiting order different from the
   stored one (here: reversed), and the defect repaired by d107a26 would show exactly here *)
Example C09_example_any_order :
  let m := [("p1"%string, [SV 1 "bad"; SV 2 "web"]); ("p2"%string, [SV 3 "api"]); ("p3"%string, [SV 4 "bad"])] in
  let ord := rev m in
  NoDup (map fst ord) /\ (forall kv, In kv ord <-> In kv m)
  /\ exported_loop ex_az ord m false = ([("p1"%string, [SV 2 "web"]); ("p2"%string, [SV 3 "api"])], true)
  /\ exported_loop ex_az m m false = exported_loop ex_az ord m false.
Proof.
  cbv zeta. split; [|split; [|split; reflexivity]].
  - repeat constructor; cbn; intuition discriminate.
  - intros kv. rewrite <- in_rev. reflexivity.
Qed.

(* the other any-order theorems with a visiting order different from the stored one *)
Example C09_example_any_order_maps :
  let m := [("bad"%string, 1%N); ("web"%string, 2%N); ("api"%string, 3%N)] in
  let ns := [("i-1"%string, NS 1 "i-1" "bad" ""); ("i-2"%string, NS 2 "i-2" "web" "")] in
  let dc := [("dc1"%string, [CSN 1 "n1" "bad" ""]); ("dc2"%string, [CSN 2 "n1" "web" ""; CSN 3 "bad" "web" ""])] in
  (NoDup (map fst m) /\ (forall kv, In kv (rev m) <-> In kv m)
   /\ filter_services_ord ex_az (rev m) m = ([("web"%string, 2%N); ("api"%string, 3%N)], true))
  /\ (NoDup (map fst ns) /\ (forall kv, In kv (rev ns) <-> In kv ns)
      /\ filter_node_services_ord ex_az (rev ns) (Some (ND 9 "n1" "", ns)) = (Some (ND 9 "n1" "", [("i-2"%string, NS 2 "i-2" "web" "")]), true))
  /\ (Permutation (rev dc) dc /\ dc_loop ex_az (rev dc) [] false = ([("dc2"%string, [CSN 2 "n1" "web" ""])], true)).
Proof.
  cbv zeta. repeat split; try reflexivity; try (repeat constructor; cbn; intuition discriminate);
    try (intros H; apply in_rev in H; exact H); try (intros H; apply in_rev; rewrite rev_involutive; exact H).
Qed.

(* secrets and captured query tokens are hidden from a reader without acl:write *)
Example C09_example_redaction :
  acl_write ex_az = false
  /\ filter_response ex_az (RACLTokens [Some (TK 1 "s3cret"); None; Some (TK 2 "")])
     = RACLTokens [Some (TK 1 redacted); Some (TK 2 redacted)]
  /\ filter_response ex_az (RIndexedPreparedQueries [PQ 1 "q" false "s3cret"; PQ 2 "q2" false ""; PQ 3 "" false "x"] false)
     = RIndexedPreparedQueries [PQ 1 "q" false redacted; PQ 2 "q2" false ""] false.
Proof. repeat split. Qed.

(* adjacent removals, first and last element, nested lists *)
Example C09_example_node_dump :
  filter_response ex_az
    (RIndexedNodeDump [] [NI 1 "bad" "" [NS 2 "a" "a" ""] []; NI 3 "bad" "" [] [];
                          NI 4 "n1" "" [NS 5 "bad" "bad" ""; NS 6 "web" "web" ""; NS 7 "bad" "bad" ""] [HC 8 "n1" "" ""; HC 9 "n1" "bad" ""];
                          NI 10 "bad" "" [] []] false)
  = RIndexedNodeDump [] [NI 4 "n1" "" [NS 6 "web" "web" ""] [HC 8 "n1" "" ""]] true.
Proof. reflexivity. Qed.

(* the expiry hypotheses are satisfiable: a cached token that expired one tick ago *)
Example C09_example_expired :
  let t := Ident 7 (Some 99%N) false in
  let env := fun _ : nat => Attempt BkNotDone true RpcFail PolOk 100%N in
  is_expired t 100%N = true
  /\ resolve_token true SecPlain env DownExtend (Some t) = (OErr ENotFound, Some t)
  /\ resolve_token true SecPlain (fun _ => Attempt BkNotDone true RpcFail PolOk 99%N) DownExtend (Some t) = (OGranted t, Some t).
Proof. repeat split. Qed.

Print Assumptions C09_loop_is_filter.
Print Assumptions C09_loop_invariant.
Print Assumptions C09_range_is_filter.
Print Assumptions C09_compact_is_filter.
Print Assumptions C09_filter_exact.
Print Assumptions C09_sound.
Print Assumptions C09_complete.
Print Assumptions C09_flag.
Print Assumptions C09_flag_iff.
Print Assumptions C09_exported_any_order.
Print Assumptions C09_datacenters_any_order.
Print Assumptions C09_services_any_order.
Print Assumptions C09_node_services_any_order.
Print Assumptions C09_node_dump.
Print Assumptions C09_token_secrets_hidden.
Print Assumptions C09_query_tokens_hidden.
Print Assumptions C09_is_expired.
Print Assumptions C09_granted_unexpired.
Print Assumptions C09_expired.
Print Assumptions C09_all_expired.
Print Assumptions C09_expired_while_cached.
Print Assumptions C09_expired_not_yet_reaped.
Print Assumptions C09_expired_cache_extended.
Print Assumptions C09_example_exported.
Print Assumptions C09_example_any_order.
Print Assumptions C09_example_node_dump.
Print Assumptions C09_example_expired.
Print Assumptions C09_rule_gateway_mapping.
Print Assumptions C09_rule_check.
Print Assumptions C09_rule_service_node.
Print Assumptions C09_rule_node_service.
Print Assumptions C09_rule_node_check.
Print Assumptions C09_rule_service_info.
Print Assumptions C09_rule_csn_partial.
Print Assumptions C09_rule_service_name_partial.
Print Assumptions C09_rule_gateway_partial.
Print Assumptions C09_rule_service_list_partial.
Print Assumptions C09_rule_txn_partial.
Print Assumptions C09_gateway_unchecked_refuted.
Print Assumptions C09_empty_service_name_refuted.
Print Assumptions C09_service_list_node_context_refuted.
Print Assumptions C09_txn_service_check_refuted.
Print Assumptions C09_nil_node_passthrough_refuted.
Print Assumptions C09_nil_node_passthrough_partial.
Print Assumptions C09_intention_match_all_or_nothing_refuted.
Print Assumptions C09_intention_match_partial.
Print Assumptions C09_unnamed_query_invisible.
Print Assumptions C09_reresolved_runs_unexpired.
Print Assumptions C09_resolve_at_unexpired.
Print Assumptions C09_held_authorizer_refuted.
Print Assumptions C09_held_authorizer_partial.
Print Assumptions C09_mask.
Print Assumptions C09_example_any_order_maps.
Print Assumptions C09_example_redaction.
