(* C09 — placeholder while the proofs are being written (replaced below). *)
From Verif Require Import Base.Prelude Filter.Model.
Theorem C09_placeholder : forall (A : Type) (keep : A -> bool), inplace_filter keep [] = ([], false).
Proof. reflexivity. Qed.
Print Assumptions C09_placeholder.
