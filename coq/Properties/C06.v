(* C06 -- blocking-query contract: a change is never missed.
   Model: Blocking/Model.v (state.Store index rules, watch sets, blockingquery.Query).
   The full statements are false of the faithful model (and of the code: see known_findings.json);
   each comes with its refutation and the theorem under the exact hypotheses that exclude the
   failing classes. *)
From stdpp Require Import gmap strings.
From Coq Require Import NArith.
From Verif Require Import Blocking.Model Blocking.Valid Blocking.Fires Blocking.Proofs Blocking.Witness.
Local Open Scope N_scope.

(* ---- a change is never missed: index strictly grows, the registered watch fires ---- *)
Definition never_missed_statement : Prop :=
  forall hi s i c q, Reach hi s -> hi < i ->
    res q (apply i c s) <> res q s ->
    idx q s < idx q (apply i c s) /\ fires (ws q s) (touched i c s) = true.

(* refuted: ConnectServiceNodes reports the index row of the destination service, which a proxy
   registration does not touch (two more classes below; the delete-tree, service-rename, check-move and
   check-delete classes were repaired in /repo by d2fdf7c, 2c57fbe, e956cb5, 566301e and are now
   covered by the theorems; see C06_repaired_classes) *)
Theorem C06_never_missed_refuted : ~ never_missed_statement.
Proof. exact never_missed_refuted_lemma. Qed.
Theorem C06_never_missed_refuted_classes : violates w_connect /\ violates w_csn_connect.
Proof. exact refuted_classes_lemma. Qed.

(* partial: for every query outside the Connect pair (okq = safe_query), every reachable state and
   every write.  Since 77429de no hypothesis on the state (Coherent) or on the write (safe_cmd) is
   left: renames, check moves (also of checks whose stored service name is stale), check deletes,
   delete-trees and registrations that rename their service while carrying checks are covered. *)
Theorem C06_never_missed_partial :
  forall hi s i c q, Reach hi s -> hi < i -> safe_query q ->
    res q (apply i c s) <> res q s ->
    idx q s < idx q (apply i c s) /\ fires (ws q s) (touched i c s) = true.
Proof. exact never_missed_partial_lemma. Qed.

(* coherence (every check row carries its service's current name) is no longer a hypothesis of any
   theorem here; it stays as a fact about the data: it holds initially and is kept by every write that
   registers no service id under another name (see C06_covers_incoherent for a state without it) *)
Theorem C06_coherent_invariant :
  Coherent st0 /\ forall i c s, Coherent s -> rename_free c s -> Coherent (apply i c s).
Proof. exact (conj Coherent_st0 Coherent_apply). Qed.

(* ---- the reported index is never zero ---- *)
Theorem C06_nonzero : forall q s, 1 <= reported q s.
Proof. exact nonzero_reported. Qed.

(* ---- the index never decreases, except by a tombstone reap ----
   (still refuted: CheckConnectServiceNodes reports the maximum over the names currently in the
   result and falls when the instances of one name leave) *)
Definition monotone_statement : Prop :=
  forall hi s i c q, Reach hi s -> hi < i -> (forall u, c <> Reap u) -> idx q s <= idx q (apply i c s).
Theorem C06_monotone_refuted : ~ monotone_statement.
Proof. exact monotone_refuted_lemma. Qed.
Theorem C06_monotone_partial :
  forall hi s i c q, Reach hi s -> hi < i -> safe_query q ->
    (forall u, c <> Reap u) -> idx q s <= idx q (apply i c s).
Proof. exact monotone_index. Qed.

(* ---- the loop returns only with an index above the (effective) minimum, on timeout, or on abandon ---- *)
Theorem C06_loop :
  forall min rounds,
    match blocking_query min rounds with
    | XIndex i => min <> 0 /\ exists m, min_source min rounds m /\ m < i
    | XTimeout _ | XAbandon _ => min <> 0
    | XNonBlocking _ => min = 0
    | XStuck => True
    end.
Proof. exact loop_lemma. Qed.

(* ---- a query blocked on the old index is woken, re-runs and returns the new index ---- *)
Theorem C06_wakes :
  forall hi s i c q, Reach hi s -> hi < i -> 1 < i -> safe_query q ->
    res q (apply i c s) <> res q s ->
    fires (ws q s) (touched i c s) = true /\
    reported q s < reported q (apply i c s) /\
    forall w rest,
      loop (LS (reported q s) false false) ((idx q s, ENone, Fired) :: (idx q (apply i c s), ENone, w) :: rest)
      = XIndex (reported q (apply i c s)).
Proof. exact wakes_lemma. Qed.

(* ---- regression: the history that used to lose a KV listing update (index 26 -> 23) ---- *)
Example C06_deltree_repaired :
  let s := run (v_log w_kvlist) st0 in
  res (QKVList "a/b") (apply 27 (KVDeleteTree "a/") s) <> res (QKVList "a/b") s /\
  idx (QKVList "a/b") s = 26 /\ idx (QKVList "a/b") (apply 27 (KVDeleteTree "a/") s) = 27.
Proof. exact w_kvlist_repaired. Qed.

(* ---- non-vacuity of the hypotheses ---- *)
Example C06_hypotheses_met :
  Reach 8 ex_state /\ 8 < 9 /\ safe_query (QCSN "web") /\
  res (QCSN "web") (apply 9 ex_cmd ex_state) <> res (QCSN "web") ex_state.
Proof. exact hypotheses_met_lemma. Qed.
(* and the refuting writes are exactly the excluded ones *)
Example C06_hypotheses_exclude_witnesses :
  ~ okq (v_q w_connect) /\ ~ okq (v_q w_csn_connect).
Proof. exact hypotheses_exclude_lemma. Qed.
(* the theorems apply in a reachable state that is NOT coherent: the state of the former witness *)
Example C06_covers_incoherent :
  let s := run (v_log w_move_stale) st0 in Reach 7 s /\ ~ Coherent s /\ safe_query (QCSN "api").
Proof. exact covers_incoherent_lemma. Qed.
(* regression (77429de): moving a check with a stale stored service name now raises the index of the
   service's current name and wakes its watch (was: 7 -> 7, no wake) *)
Example C06_move_stale_repaired :
  let s := run (v_log w_move_stale) st0 in
  res (QCSN "api") (apply 9 (v_c w_move_stale) s) <> res (QCSN "api") s /\
  idx (QCSN "api") s = 7 /\ idx (QCSN "api") (apply 9 (v_c w_move_stale) s) = 9 /\
  fires (ws (QCSN "api") s) (touched 9 (v_c w_move_stale) s) = true.
Proof. exact move_stale_repaired_lemma. Qed.

(* ---- regression: the former witnesses of the repaired classes now satisfy the contract ---- *)
Example C06_repaired_classes :
  (let s := run (v_log w_rename) st0 in
   res (QCSN "web") (apply 5 (v_c w_rename) s) <> res (QCSN "web") s /\
   idx (QSvcNodes "web") s = 3 /\ idx (QSvcNodes "web") (apply 5 (v_c w_rename) s) = 5 /\
   idx (QCSN "web") (apply 5 (v_c w_rename) s) = 5 /\
   fires (ws (QCSN "web") s) (touched 5 (v_c w_rename) s) = true) /\
  (let s := run (v_log w_rename_back) st0 in
   idx (QSvcNodes "web") s = 6 /\ idx (QSvcNodes "web") (apply 8 (v_c w_rename_back) s) = 8) /\
  (let s := run (v_log w_check_moved) st0 in
   res (QCSN "api") (apply 7 (v_c w_check_moved) s) <> res (QCSN "api") s /\
   idx (QCSN "api") s = 5 /\ idx (QCSN "api") (apply 7 (v_c w_check_moved) s) = 7 /\
   fires (ws (QCSN "api") s) (touched 7 (v_c w_check_moved) s) = true).
Proof. exact repaired_classes_lemma. Qed.


(* ---- the same contract at the strength the proofs have (audit round) ---- *)
(* 21 of the 25 proved query kinds (all table-maximum queries, the three KV sub-index queries,
   NodeServices) need NEITHER coherence NOR safe writes: any reachable state, any write *)
Theorem C06_never_missed_plain :
  forall hi s i c q, Reach hi s -> hi < i -> plainq q -> res q (apply i c s) <> res q s ->
    i <= idx q (apply i c s) /\ idx q s < idx q (apply i c s) /\ fires (ws q s) (touched i c s) = true.
Proof. exact never_missed_plain_lemma. Qed.
Theorem C06_monotone_plain :
  forall hi s i c q, Reach hi s -> hi < i -> plainq q -> (forall u, c <> Reap u) -> idx q s <= idx q (apply i c s).
Proof. exact monotone_plain. Qed.

(* high-water form: a changed result reports at least the index of the write; no state reports more
   than the index of its last write; hence the new index exceeds the index reported by ANY state of
   the history so far (s0), also one from before a tombstone reap lowered the index *)
Theorem C06_highwater :
  forall hi s i c q, Reach hi s -> hi < i -> safe_query q ->
    res q (apply i c s) <> res q s -> i <= idx q (apply i c s).
Proof. exact highwater_okq. Qed.
Theorem C06_index_bounded : forall hi s q, Reach hi s -> safe_query q -> idx q s <= hi.
Proof. exact idx_bounded. Qed.
Theorem C06_above_every_earlier :
  forall hi0 s0 hi s i c q, Reach hi0 s0 -> hi0 <= hi -> Reach hi s -> hi < i ->
    safe_query q -> res q (apply i c s) <> res q s -> idx q s0 < idx q (apply i c s).
Proof. exact above_every_earlier_lemma. Qed.
Theorem C06_above_every_earlier_plain :
  forall hi0 s0 hi s i c q, Reach hi0 s0 -> hi0 <= hi -> Reach hi s -> hi < i -> plainq q ->
    res q (apply i c s) <> res q s -> idx q s0 < idx q (apply i c s).
Proof. exact above_every_earlier_plain_lemma. Qed.

(* the loop, tightly: XIndex i is the floored index of an EXECUTED round n (all earlier rounds were
   woken), compared with the requested minimum or with the floored index of a round j <= n that
   really replaced it (not-found after an earlier not-found, not-changed after any earlier round) *)
Theorem C06_loop_tight :
  forall min rounds i, min <> 0 -> blocking_query min rounds = XIndex i ->
    exists n raw e w, rounds !! n = Some (raw, e, w) /\ i = N.max 1 raw /\
      forallb fired (take n rounds) = true /\
      exists m, m < i /\ (m = min \/ exists j rj ej wj, (j <= n)%nat /\ replaces rounds j /\
                                                rounds !! j = Some (rj, ej, wj) /\ m = N.max 1 rj).
Proof. exact loop_contract_tight. Qed.
Example C06_loop_exits_reachable :
  blocking_query 10 [(10, ENone, Fired); (12, ENone, Timeout)] = XIndex 12 /\
  blocking_query 10 [(10, ENone, Timeout)] = XTimeout 10 /\
  blocking_query 10 [(10, ENone, Abandoned)] = XAbandon 10 /\
  blocking_query 0 [(0, ENone, Timeout)] = XNonBlocking 1 /\
  blocking_query 10 [(3, ENotFound, Fired); (5, ENotFound, Fired); (7, ENone, Timeout)] = XIndex 7.
Proof. exact loop_exits_reachable. Qed.

(* the wake of the blocked round IS the model's fires (not a scripted constant); a watch that stays
   silent leaves the query blocked until its timeout with the stale index *)
Theorem C06_wakes_derived :
  forall hi s i c q, Reach hi s -> hi < i -> 1 < i -> safe_query q ->
    res q (apply i c s) <> res q s ->
    forall w rest,
      loop (LS (reported q s) false false)
           ((idx q s, ENone, wake_of (fires (ws q s) (touched i c s))) :: (idx q (apply i c s), ENone, w) :: rest)
      = XIndex (reported q (apply i c s)).
Proof. exact wakes_derived_lemma. Qed.
Theorem C06_silent_watch_times_out :
  forall q s rest,
    loop (LS (reported q s) false false) ((idx q s, ENone, wake_of false) :: rest) = XTimeout (reported q s).
Proof. exact no_fire_times_out_lemma. Qed.

(* a service update (same id and name) with its checks on EXISTING rows changes the health view;
   safe_cmd (a hypothesis of earlier rounds, no longer needed) holds of it *)
Example C06_safe_update_met :
  Reach 8 ex_state /\ Coherent ex_state /\ safe_cmd ex_update ex_state /\
  res (QCSN "web") (apply 9 ex_update ex_state) <> res (QCSN "web") ex_state.
Proof. exact (conj ex_reach (conj ex_coherent (conj ex_update_safe ex_update_changes))). Qed.

Print Assumptions C06_never_missed_refuted.
Print Assumptions C06_never_missed_refuted_classes.
Print Assumptions C06_never_missed_partial.
Print Assumptions C06_coherent_invariant.
Print Assumptions C06_nonzero.
Print Assumptions C06_monotone_refuted.
Print Assumptions C06_monotone_partial.
Print Assumptions C06_loop.
Print Assumptions C06_wakes.
Print Assumptions C06_deltree_repaired.
Print Assumptions C06_hypotheses_met.
Print Assumptions C06_hypotheses_exclude_witnesses.
Print Assumptions C06_repaired_classes.
Print Assumptions C06_covers_incoherent.
Print Assumptions C06_move_stale_repaired.
Print Assumptions C06_never_missed_plain.
Print Assumptions C06_monotone_plain.
Print Assumptions C06_highwater.
Print Assumptions C06_index_bounded.
Print Assumptions C06_above_every_earlier.
Print Assumptions C06_above_every_earlier_plain.
Print Assumptions C06_loop_tight.
Print Assumptions C06_loop_exits_reachable.
Print Assumptions C06_wakes_derived.
Print Assumptions C06_silent_watch_times_out.
Print Assumptions C06_safe_update_met.
