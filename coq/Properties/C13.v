(* placeholder while the pipeline is brought up *)
From Verif Require Import Base.Prelude Intention.Model.
Theorem C13_placeholder : prec_of "default" "a" "default" "b" = 9%N.
Proof. reflexivity. Qed.
Print Assumptions C13_placeholder.
