(* C13 — intention decisions follow precedence, independent of write order.
   Theorems only; each is closed by an application of a lemma of Intention/Theorems.v (or Proofs.v).

   Vocabulary (Intention/Spec.v, definitions only):
     covers peer sns s dns d i      authz.go's IntentionMatch holds of i on the source side (peer, sns/s)
                                    and on the destination side (dns/d)
     more_specific i j              (destination specificity, source specificity) of i is lexicographically
                                    above that of j; specificity = number of exact (non-"*") parts
     best all q i                   i is stored, covers q, and every other stored covering intention is
                                    strictly less specific
     decided all q o                o = Some (the best intention) or None when nothing stored covers q
     summary_of o default aperms    the IntentionDecisionSummary that o must produce
     route1 / route2 (Model.v)      Store.IntentionMatch by source + IntentionDecision on the destination
                                    (Intention.Check), resp. by destination + decision on the source
                                    (agent authorize, xDS, topology)
     legacy_ok / store_ok           the invariants the legacy table / the config-entry table maintain
     coherent names                 no two of the names differ only in letter case
     shadow_free st                 no entry has two sources with the same service name (local + peered) *)
From Coq Require Import Sorting.Permutation Sorting.Sorted.
From Verif Require Import Base.Prelude.
From Verif Require Import Intention.Model.
From Verif Require Import Intention.Spec.
From Verif Require Import Intention.OrderProofs.
From Verif Require Import Intention.Proofs.
From Verif Require Import Intention.Theorems.
From Verif Require Import Intention.Mixed.
Local Open Scope string_scope.
Local Open Scope list_scope.

(* Precedence numbers order intentions exactly by (destination specificity, source specificity). *)
Theorem C13_precedence_is_specificity : forall i j,
  wf i -> wf j -> ((i_prec j < i_prec i)%N <-> more_specific i j).
Proof. exact prec_lt_specific. Qed.

(* At most one intention can be "the most specific one covering the pair". *)
Theorem C13_decision_unique : forall all peer sns s dns d o o',
  (forall i j, In i all -> In j all -> key5 i = key5 j -> i = j) ->
  decided all peer sns s dns d o -> decided all peer sns s dns d o' -> o = o'.
Proof. exact decision_unique. Qed.

(* The decision is the action of the unique most specific covering intention, the default policy when
   none covers the pair — along both routes — for config entries (sources of any peer) ... *)
Theorem C13_most_specific : forall st peer s d default_allow allow_perms,
  store_ok st -> coherent (enames st ++ [d]) ->
  exists o, decided (call st) peer dflt s dflt d o /\
    route2 (fun _ n => cmatch_dst st n) peer dflt s dflt d default_allow allow_perms
      = summary_of o default_allow allow_perms /\
    (peer = "" ->
     route1 (fun _ n => cmatch_src st n) dflt s dflt d default_allow allow_perms
      = summary_of o default_allow allow_perms).
Proof. exact most_specific_config. Qed.

(* ... and for the legacy table (any namespaces). *)
Theorem C13_most_specific_legacy : forall t peer sns s dns d default_allow allow_perms,
  legacy_ok t -> coherent (tnames t ++ [sns; s; dns; d]) ->
  exists o, decided t peer sns s dns d o /\
    route2 (legacy_match t MDst) peer sns s dns d default_allow allow_perms
      = summary_of o default_allow allow_perms /\
    (peer = "" ->
     route1 (legacy_match t MSrc) sns s dns d default_allow allow_perms
      = summary_of o default_allow allow_perms).
Proof. exact most_specific_legacy. Qed.

(* The check path (match by source, decide on destination) and the authorize path (match by destination,
   decide on source) give the same answer. *)
Theorem C13_paths_agree : forall st s d default_allow allow_perms,
  store_ok st -> coherent (enames st ++ [d]) ->
  route1 (fun _ n => cmatch_src st n) dflt s dflt d default_allow allow_perms
  = route2 (fun _ n => cmatch_dst st n) "" dflt s dflt d default_allow allow_perms.
Proof. exact paths_agree_config. Qed.

Theorem C13_paths_agree_legacy : forall t sns s dns d default_allow allow_perms,
  legacy_ok t -> coherent (tnames t ++ [sns; s; dns; d]) ->
  route1 (legacy_match t MSrc) sns s dns d default_allow allow_perms
  = route2 (legacy_match t MDst) "" sns s dns d default_allow allow_perms.
Proof. exact paths_agree_legacy. Qed.

(* The full statements without the case hypothesis are false of the code: the table indexes fold case,
   authz.go does not.  Entry "DB": nothing covers web -> db, route 2 allows it, route 1 does not. *)
Theorem C13_case_folding_refuted :
  store_ok cf_store /\
  decided (call cf_store) "" dflt "web" dflt "db" None /\
  d_allowed (route2 (fun _ n => cmatch_dst cf_store n) "" dflt "web" dflt "db" false false) = true /\
  d_allowed (route1 (fun _ n => cmatch_src cf_store n) dflt "web" dflt "db" false false) = false.
Proof. exact case_folding_refuted. Qed.

Theorem C13_case_folding_legacy_refuted :
  legacy_ok cf_table /\
  decided cf_table "" dflt "web" dflt "db" None /\
  d_allowed (route2 (legacy_match cf_table MDst) "" dflt "web" dflt "db" false false) = true /\
  d_allowed (route1 (legacy_match cf_table MSrc) dflt "web" dflt "db" false false) = false.
Proof. exact case_folding_legacy_refuted. Qed.

(* Match and list results: sorted by (precedence descending, tie-break) and a permutation of the stored
   intentions whose pattern covers the queried name. *)
Theorem C13_sorted_legacy : forall t mt ns n,
  (forall i, In i t -> wf i) -> coherent (tnames t ++ [ns; n]) ->
  isorted (legacy_match t mt ns n) /\
  Permutation (legacy_match t mt ns n) (filter (side_pred mt ns n) t).
Proof. exact sorted_legacy. Qed.

Theorem C13_sorted_dst : forall st d,
  store_ok st -> coherent (enames st ++ [d]) ->
  isorted (cmatch_dst st d) /\
  Permutation (cmatch_dst st d) (filter (fun j => wild_or_eq (i_dname j) d) (call st)).
Proof. exact sorted_config_dst. Qed.

(* by source: for EVERY valid store, sorted and exactly what [src_sel] selects ... *)
Theorem C13_sorted_src : forall st s,
  store_ok st ->
  isorted (cmatch_src st s) /\
  Permutation (cmatch_src st s) (filter (src_sel (call st) s) (call st)).
Proof. exact sorted_config_src. Qed.

(* ... which is "the local intentions whose source covers s" when no entry mixes a local and a peered
   source of the same name ... *)
Theorem C13_sorted_src_partial : forall st s,
  store_ok st -> shadow_free st ->
  Permutation (cmatch_src st s)
              (filter (fun j => String.eqb (i_peer j) "" && wild_or_eq (i_sname j) s)%bool (call st)).
Proof. exact sorted_config_src_clean. Qed.

(* ... and contains a peered intention that does not match the local service otherwise. *)
Theorem C13_sorted_src_refuted :
  store_ok so_st1 /\
  exists j, In j (cmatch_src so_st1 "web") /\ i_peer j = "p" /\
            authz_match MSrc "web" dflt "" j = false.
Proof. exact src_match_peered_refuted. Qed.

Theorem C13_sorted_lists : forall t st,
  (isorted (legacy_list t) /\ Permutation (legacy_list t) t) /\
  (isorted (config_list st) /\ Permutation (config_list st) (call st)).
Proof. exact sorted_lists. Qed.

(* the order is strict on stored intentions: no two distinct ones tie *)
Theorem C13_sorted_strict : forall all l,
  (forall i j, In i all -> In j all -> key5 i = key5 j -> i = j) -> incl l all ->
  forall i j, In i l -> In j l -> ileb i j = true -> ileb j i = true -> i = j.
Proof. exact sorted_strict. Qed.

(* Order independence.  Legacy table: creating fresh intentions in any order. *)
Theorem C13_order_independent_legacy : forall t ws ws',
  fresh_writes t ws -> Permutation ws ws' ->
  let t1 := legacy_apply t ws in
  let t2 := legacy_apply t ws' in
  legacy_list t1 = legacy_list t2 /\
  (forall mt ns n, legacy_match t1 mt ns n = legacy_match t2 mt ns n) /\
  (forall peer sns s dns d da ap,
     route1 (legacy_match t1 MSrc) sns s dns d da ap = route1 (legacy_match t2 MSrc) sns s dns d da ap /\
     route2 (legacy_match t1 MDst) peer sns s dns d da ap = route2 (legacy_match t2 MDst) peer sns s dns d da ap).
Proof. exact order_independent_legacy. Qed.

(* Whole service-intentions entries (ConfigEntry.Apply), any sources incl. peered ones: any order of writes
   of distinct entries, starting from any two valid stores holding the same intentions in any stored order. *)
Theorem C13_order_independent_entries : forall st1 st2 es1 es2,
  store_ok st1 -> store_ok st2 -> Permutation (call st1) (call st2) ->
  Permutation es1 es2 -> NoDup (map lname es1) ->
  let a := ensure_all st1 es1 in
  let b := ensure_all st2 es2 in
  config_list a = config_list b /\
  (forall s, cmatch_src a s = cmatch_src b s) /\
  (forall d, coherent ((enames st1 ++ map e_name es1) ++ [d]) -> cmatch_dst a d = cmatch_dst b d) /\
  (forall peer s d da ap, coherent ((enames st1 ++ map e_name es1) ++ [d]) ->
     route1 (fun _ n => cmatch_src a n) dflt s dflt d da ap = route1 (fun _ n => cmatch_src b n) dflt s dflt d da ap /\
     route2 (fun _ n => cmatch_dst a n) peer dflt s dflt d da ap = route2 (fun _ n => cmatch_dst b n) peer dflt s dflt d da ap).
Proof. exact order_independent_entries. Qed.

(* Upserts (Intention.Apply -> Store.IntentionMutation), valid or rejected ones alike: any order of upserts of
   distinct (destination, source) pairs, from any two valid stores holding the same intentions in any stored
   order — provided no entry mixes a local and a peered source of the same name ... *)
Theorem C13_order_independent_upsert_partial : forall st1 st2 ws1 ws2,
  store_ok st1 -> store_ok st2 -> shadow_free st1 -> shadow_free st2 ->
  Permutation (call st1) (call st2) -> Permutation ws1 ws2 ->
  NoDup (map wkey ws1) -> (forall w, In w ws1 -> s_peer (snd w) = "") ->
  coherent (enames st1 ++ map fst ws1) ->
  let a := upsert_all st1 ws1 in
  let b := upsert_all st2 ws2 in
  config_list a = config_list b /\
  (forall s, cmatch_src a s = cmatch_src b s) /\
  (forall d, coherent ((enames st1 ++ map fst ws1) ++ [d]) -> cmatch_dst a d = cmatch_dst b d) /\
  (forall peer s d da ap, coherent ((enames st1 ++ map fst ws1) ++ [d]) ->
     route1 (fun _ n => cmatch_src a n) dflt s dflt d da ap = route1 (fun _ n => cmatch_src b n) dflt s dflt d da ap /\
     route2 (fun _ n => cmatch_dst a n) peer dflt s dflt d da ap = route2 (fun _ n => cmatch_dst b n) peer dflt s dflt d da ap).
Proof. exact order_independent_upsert. Qed.

(* ... without that proviso the stored order decides whether the upsert of the local source is accepted
   (UpsertSourceByName ignores the peer), and with it the decision ... *)
Theorem C13_stored_order_refuted :
  store_ok so_st1 /\ store_ok so_st2 /\ Permutation (call so_st1) (call so_st2) /\
  s_peer (snd so_w) = "" /\ coherent (enames so_st1 ++ ["db"; "web"]) /\
  fst (upsert so_st1 (fst so_w) (snd so_w)) = WInvalid 10 /\
  fst (upsert so_st2 (fst so_w) (snd so_w)) = WOk /\
  d_allowed (route2 (fun _ n => cmatch_dst (upsert_all so_st1 [so_w]) n) "" dflt "web" dflt "db" false false) = true /\
  d_allowed (route2 (fun _ n => cmatch_dst (upsert_all so_st2 [so_w]) n) "" dflt "web" dflt "db" false false) = false.
Proof. exact stored_order_refuted. Qed.

(* ... and without [coherent] two upserts whose destinations differ only in case do not commute. *)
Theorem C13_case_folding_order_refuted :
  NoDup (map wkey [cf_w1; cf_w2]) /\
  d_allowed (route1 (fun _ n => cmatch_src (upsert_all [] [cf_w1; cf_w2]) n) dflt "web" dflt "db" false false) = true /\
  d_allowed (route1 (fun _ n => cmatch_src (upsert_all [] [cf_w2; cf_w1]) n) dflt "web" dflt "db" false false) = false.
Proof. exact case_folding_order_refuted. Qed.

(* ---- added after the audit ---- *)

(* The key-injectivity premise of C13_decision_unique / C13_sorted_strict is met by every valid store / table. *)
Theorem C13_store_keys_distinct : forall st, store_ok st ->
  forall i j, In i (call st) -> In j (call st) -> key5 i = key5 j -> i = j.
Proof. exact config_all_key. Qed.

Theorem C13_legacy_keys_distinct : forall t, key4_unique t ->
  forall i j, In i t -> In j t -> key5 i = key5 j -> i = j.
Proof. exact legacy_all_key. Qed.

(* "Returned in precedence order" in the property's own terms: in every sorted list of well-formed
   intentions a more specific intention comes before a less specific one ... *)
Theorem C13_more_specific_first : forall l i j,
  isorted l -> (forall x, In x l -> wf x) -> In i l -> In j l -> more_specific i j -> precedes l i j.
Proof. exact more_specific_first. Qed.

(* ... in particular in Store.Intentions and in both match results, for every valid store / table. *)
Theorem C13_more_specific_first_config : forall st s d i j,
  store_ok st -> more_specific i j ->
  (In i (config_list st) -> In j (config_list st) -> precedes (config_list st) i j) /\
  (In i (cmatch_src st s) -> In j (cmatch_src st s) -> precedes (cmatch_src st s) i j) /\
  (In i (cmatch_dst st d) -> In j (cmatch_dst st d) -> precedes (cmatch_dst st d) i j).
Proof. exact more_specific_first_config. Qed.

Theorem C13_more_specific_first_legacy : forall t mt ns n i j,
  (forall x, In x t -> wf x) -> more_specific i j ->
  (In i (legacy_list t) -> In j (legacy_list t) -> precedes (legacy_list t) i j) /\
  (In i (legacy_match t mt ns n) -> In j (legacy_match t mt ns n) -> precedes (legacy_match t mt ns n) i j).
Proof. exact more_specific_first_legacy. Qed.

(* Histories that mix whole-entry writes and upserts: any order, any stored order, provided the writes are
   pairwise independent, the entries upserts go into are shadow free (finding) and names are coherent (finding). *)
Theorem C13_order_independent_mixed_partial : forall st1 st2 ws1 ws2,
  store_ok st1 -> store_ok st2 -> Permutation (call st1) (call st2) -> Permutation ws1 ws2 ->
  cw_independent ws1 -> shadow_free_on ws1 st1 -> shadow_free_on ws1 st2 ->
  coherent (enames st1 ++ map cw_name ws1) ->
  let a := capply_all st1 ws1 in
  let b := capply_all st2 ws2 in
  config_list a = config_list b /\
  (forall s, cmatch_src a s = cmatch_src b s) /\
  (forall d, coherent ((enames st1 ++ map cw_name ws1) ++ [d]) -> cmatch_dst a d = cmatch_dst b d) /\
  (forall peer s d da ap, coherent ((enames st1 ++ map cw_name ws1) ++ [d]) ->
     route1 (fun _ n => cmatch_src a n) dflt s dflt d da ap = route1 (fun _ n => cmatch_src b n) dflt s dflt d da ap /\
     route2 (fun _ n => cmatch_dst a n) peer dflt s dflt d da ap = route2 (fun _ n => cmatch_dst b n) peer dflt s dflt d da ap).
Proof. exact order_independent_mixed. Qed.

(* Destination-kind services (a service-defaults entry with a Destination block, names [dk]): the Check route
   decides by the most specific covering intention among those whose destination is NOT such a name ... *)
Theorem C13_check_route_dest_kind : forall dk st s d,
  store_ok st ->
  decided (call (filter (visible dk false) st)) "" dflt s dflt d
          (find (authz_match MDst d dflt "") (cmatch_src_k dk false st s)).
Proof. exact route1_dest_kind. Qed.

(* ... so the two routes agree when no stored destination is destination-kind ... *)
Theorem C13_paths_agree_dest_kind_partial : forall dk st s d default_allow allow_perms,
  store_ok st -> coherent (enames st ++ [d]) ->
  (forall e, In e st -> is_dest_kind dk (e_name e) = false) ->
  route1 (fun _ n => cmatch_src_k dk false st n) dflt s dflt d default_allow allow_perms
  = route2 (fun _ n => cmatch_dst st n) "" dflt s dflt d default_allow allow_perms.
Proof. exact paths_agree_kinds. Qed.

(* ... and disagree otherwise: web -> db deny, web -> * allow, db destination-kind: Check allows. *)
Theorem C13_dest_kind_refuted :
  store_ok dkx_store /\ coherent (enames dkx_store ++ ["db"]) /\
  d_allowed (route1 (fun _ n => cmatch_src_k ["db"] false dkx_store n) dflt "web" dflt "db" false false) = true /\
  d_allowed (route2 (fun _ n => cmatch_dst dkx_store n) "" dflt "web" dflt "db" false false) = false.
Proof. exact dest_kind_refuted. Qed.

(* The premises of the order theorems are met by non-empty write lists and their (different) reversals. *)
Example C13_order_hypotheses_satisfiable :
  (store_ok [] /\ shadow_free [] /\ Permutation ox_upserts (rev ox_upserts) /\ ox_upserts <> rev ox_upserts /\
   NoDup (map wkey ox_upserts) /\ (forall w, In w ox_upserts -> s_peer (snd w) = "") /\
   coherent (enames [] ++ map fst ox_upserts)) /\
  (Permutation ox_entries (rev ox_entries) /\ ox_entries <> rev ox_entries /\ NoDup (map lname ox_entries)) /\
  (fresh_writes [] ex_writes /\ Permutation ex_writes (rev ex_writes) /\ ex_writes <> rev ex_writes).
Proof. exact order_examples. Qed.

Example C13_mixed_hypotheses_satisfiable :
  cw_independent mx_writes /\ shadow_free_on mx_writes [] /\ coherent (enames [] ++ map cw_name mx_writes) /\
  Permutation mx_writes (rev mx_writes) /\
  List.length (call (capply_all [] mx_writes)) = 5%nat.
Proof. exact mx_example. Qed.

(* Non-vacuity: concrete stores meet every hypothesis used above, with non-trivial decisions
   (exact allow; wildcard deny over default allow; wildcard-destination deny; L7; default). *)
Example C13_hypotheses_satisfiable_config :
  store_ok ex_store /\ shadow_free ex_store /\ coherent (enames ex_store ++ ["web"; "db"; "api"; "zz"]) /\
  summary_code' (route2 (fun _ n => cmatch_dst ex_store n) "" dflt "web" dflt "db" false false) = (true, false, true) /\
  summary_code' (route2 (fun _ n => cmatch_dst ex_store n) "" dflt "zz" dflt "db" true false) = (false, false, false) /\
  summary_code' (route2 (fun _ n => cmatch_dst ex_store n) "" dflt "web" dflt "zz" true false) = (false, false, false) /\
  summary_code' (route2 (fun _ n => cmatch_dst ex_store n) "" dflt "web" dflt "api" true false) = (false, true, true) /\
  summary_code' (route2 (fun _ n => cmatch_dst ex_store n) "" dflt "zz" dflt "zz" true false) = (true, false, false).
Proof. exact ex_store_ok. Qed.

Example C13_hypotheses_satisfiable_legacy :
  fresh_writes [] ex_writes /\ legacy_ok (legacy_apply [] ex_writes) /\
  coherent (tnames (legacy_apply [] ex_writes) ++ [dflt; "web"; dflt; "db"]) /\
  d_allowed (route1 (legacy_match (legacy_apply [] ex_writes) MSrc) dflt "web" dflt "db" false false) = true /\
  d_allowed (route1 (legacy_match (legacy_apply [] ex_writes) MSrc) dflt "api" dflt "db" true false) = false.
Proof. exact ex_legacy_ok. Qed.

Print Assumptions C13_precedence_is_specificity.
Print Assumptions C13_decision_unique.
Print Assumptions C13_most_specific.
Print Assumptions C13_most_specific_legacy.
Print Assumptions C13_paths_agree.
Print Assumptions C13_paths_agree_legacy.
Print Assumptions C13_case_folding_refuted.
Print Assumptions C13_case_folding_legacy_refuted.
Print Assumptions C13_sorted_legacy.
Print Assumptions C13_sorted_dst.
Print Assumptions C13_sorted_src.
Print Assumptions C13_sorted_src_partial.
Print Assumptions C13_sorted_src_refuted.
Print Assumptions C13_sorted_lists.
Print Assumptions C13_sorted_strict.
Print Assumptions C13_order_independent_legacy.
Print Assumptions C13_order_independent_entries.
Print Assumptions C13_order_independent_upsert_partial.
Print Assumptions C13_stored_order_refuted.
Print Assumptions C13_case_folding_order_refuted.
Print Assumptions C13_hypotheses_satisfiable_config.
Print Assumptions C13_hypotheses_satisfiable_legacy.
Print Assumptions C13_store_keys_distinct.
Print Assumptions C13_legacy_keys_distinct.
Print Assumptions C13_more_specific_first.
Print Assumptions C13_more_specific_first_config.
Print Assumptions C13_more_specific_first_legacy.
Print Assumptions C13_order_independent_mixed_partial.
Print Assumptions C13_check_route_dest_kind.
Print Assumptions C13_paths_agree_dest_kind_partial.
Print Assumptions C13_dest_kind_refuted.
Print Assumptions C13_order_hypotheses_satisfiable.
Print Assumptions C13_mixed_hypotheses_satisfiable.
