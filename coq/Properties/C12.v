(* C12 — the Connect CA issues only authorized, verifiable identities.
   Theorems only; each closed by an application of a lemma of CA/{Proofs,UrlProofs,Confusion,Witness}.v.

   The model (CA/Model.v) follows the code as it is at /repo HEAD, including the three repairs
   88c1fa0 (datacenter test for agent identities), b4828e2 (the agent host rewrite compares
   identities, not URL strings) and 6968ec2 (a root list whose active entry is overwritten by a
   later entry with the same ID is refused).  Clauses still FALSE of the code carry a [_refuted]
   witness and an open known finding: a name with an encoded "/" can be issued with a URI that no
   reader can parse back (never one that reads as a different identity: C12_no_confusion); DNS/IP
   SANs are copied unchecked (a service token gets the servers' DNS name); agent identities in a
   partition are issued verbatim.  Repaired since the audit: bf079b3 (datacenter test on the
   auto-config path), 3ebfd83 (URIs with userinfo/query/fragment refused).
   "Chains to the currently active root" is not a theorem: X.509 is outside the model; the direct
   oracle checks crypto/x509 verification against the store's active root on every issued leaf. *)
From Verif Require Import Base.Prelude.
From Verif Require Import CA.Model.
From Verif Require Import CA.Proofs.
From Verif Require Import CA.UrlProofs.
From Verif Require Import CA.Confusion.
From Verif Require Import CA.Witness.
From Coq Require Import Sorted.
Open Scope string_scope.
Open Scope N_scope.
Open Scope list_scope.

(* ------------------------------------------------------------------ issuing *)

(* The property's issuing clause, for every authorizer, request and state.  A successful
   CAManager.AuthorizeAndSignCertificate implies: exactly one URI SAN and no e-mail SAN; the URI
   parses as an identity of a supported kind; the token grants write on exactly that service /
   node / mesh / ACL scope; the certificate is not a CA and takes the next serial number of the
   replicated counter; and [identity_clauses]: the identity's datacenter is this one, and the
   certificate carries exactly one URI, whose host is the cluster's trust domain, which is the
   requested URI or - agents only - the identity printed with the host coerced to the trust
   domain. *)
Theorem C12_issue_sound : forall e az c s crt s',
  sign_request e az c s = Ok (crt, s') ->
  exists u id,
    csr_uris c = [u] /\ csr_emails c = 0 /\ parse_cert_uri u = Ok id /\
    validate_supported id = true /\ granted az id /\ c_is_ca crt = false /\
    c_serial crt = next_serial s /\
    (id_dc id = e_dc e /\
     exists u', c_uris crt = [u'] /\ lower (u_host u') = trust_domain e /\
                (u' = u \/ (is_agent id = true /\ u' = uri_of (coerce e id)))).
Proof. exact issue_sound_full. Qed.

(* The same with the code's case split visible: services, mesh gateways and servers keep the
   requested URI and their host is the trust domain; agents keep it when the host already is the
   trust domain and get the re-printed identity otherwise; the state changes by the serial counter
   only. *)
Theorem C12_issue_sound_detailed : forall e az c s crt s',
  sign_request e az c s = Ok (crt, s') ->
  exists u id,
    csr_uris c = [u] /\ csr_emails c = 0 /\ parse_cert_uri u = Ok id /\
    validate_supported id = true /\ granted az id /\ id_dc id = e_dc e /\
    (is_agent id = false -> lower (id_host id) = trust_domain e /\ c_uris crt = [u]) /\
    (is_agent id = true -> c_uris crt = [agent_cert_uri e u id]) /\
    c_is_ca crt = false /\ c_serial crt = next_serial s /\ s' = incr_serial s.
Proof. exact issue_sound_detailed. Qed.

(* The environment is not a free constant in the code: SignCertificate derives the trust domain
   from the ClusterID of the STORED configuration on every request ([store_env]).  Signing does
   not change it, and no command other than the two configuration writes (and a restore, which
   drops a blank-provider configuration) does. *)
Theorem C12_trust_domain_from_store : forall dc az c s crt s' e,
  store_env dc s = Some e -> sign_request e az c s = Ok (crt, s') -> store_env dc s' = Some e.
Proof. exact sign_keeps_env. Qed.

Theorem C12_trust_domain_stable : forall dc s idx o,
  match o with OpSetConfig _ | OpSetRootsAndConfig _ _ _ | OpSnapshotRestore => False | _ => True end ->
  store_env dc (fst (step s idx o)) = store_env dc s.
Proof. exact step_keeps_env. Qed.

(* ---- clauses of "the certificate carries exactly that identity" that are FALSE of the code ---- *)

(* The DNS names and IP addresses of the request are copied into the certificate unchecked (a fact
   about ConsulProvider.Sign, not a soundness clause) ... *)
Theorem C12_sans_copied : forall e az c s crt s',
  sign_request e az c s = Ok (crt, s') -> c_dns crt = csr_dns c /\ c_ips crt = csr_ips c.
Proof. exact sans_copied. Qed.

(* ... so a token with service:write on "web" and no acl:write obtains a leaf that also carries
   the DNS name designating the servers of the datacenter (open finding server-dns-san). *)
Theorem C12_server_dns_san_refuted :
  exists e az c s crt s' u svc,
    sign_request e az c s = Ok (crt, s') /\ csr_uris c = [u] /\
    parse_cert_uri u = Ok (IdService w_td "default" "default" "dc1" svc) /\
    az_acl_write az = false /\ In "server.dc1.consul" (c_dns crt).
Proof. exact server_dns_san_refuted. Qed.

(* "supported identity" is weak for agents: validateSupportedIdentityScopesInCertificate accepts
   an agent identity in ANY partition (upstream's own test demands it), and with the host already
   in the trust domain the URI is issued verbatim (open finding agent-partition). *)
Theorem C12_agent_partition_refuted :
  exists e az c s crt s' u host ap dc agent,
    sign_request e az c s = Ok (crt, s') /\ csr_uris c = [u] /\ c_uris crt = [u] /\
    parse_cert_uri u = Ok (IdAgent host ap dc agent) /\ ap <> "default".
Proof. exact agent_partition_refuted. Qed.

(* A URI with userinfo, a query or a fragment is not a SPIFFE ID: no certificate is issued for
   one, and the URI that goes into the certificate carries none (3ebfd83; [is_duser] marks exactly
   userinfo / query / fragment - the omit-host form of an agent URI is re-printed, see the
   regression example). *)
Theorem C12_no_decorated_uri : forall e az c s crt s',
  sign_request e az c s = Ok (crt, s') ->
  exists u u', csr_uris c = [u] /\ is_duser (u_deco u) = false /\
               c_uris crt = [u'] /\ is_duser (u_deco u') = false.
Proof. exact no_decorated_uri. Qed.

(* ---- the second entry point: AutoConfig.InitialConfiguration -> CAManager.SignCertificate ---- *)

(* Full strength: one undecorated URI, no e-mail, an agent identity OF THIS DATACENTER (bf079b3) for
   exactly the node the JWT authorized, a certificate URI in the trust domain (the requested one or
   the re-printed identity), not a CA, next serial. *)
Theorem C12_autoconfig_sound : forall e node c s crt s',
  autoconfig_sign e node c s = Ok (crt, s') ->
  exists u host ap,
    csr_uris c = [u] /\ csr_emails c = 0 /\ is_duser (u_deco u) = false /\
    parse_cert_uri u = Ok (IdAgent host ap (e_dc e) node) /\
    c_uris crt = [agent_cert_uri e u (IdAgent host ap (e_dc e) node)] /\
    (exists u', c_uris crt = [u'] /\ lower (u_host u') = trust_domain e /\
                (u' = u \/ u' = uri_of (IdAgent (trust_domain e) ap (e_dc e) node))) /\
    c_is_ca crt = false /\ c_serial crt = next_serial s /\ s' = incr_serial s.
Proof. exact autoconfig_sound. Qed.

(* ------------------------------------------------------------------ identities and their spelling *)

(* Printing an identity and parsing it gives the identity back (well-formed: non-empty segments
   without "/", the default namespace, lower-case partition; community edition). *)
Theorem C12_parse_print : forall id, wf_id id -> parse_cert_uri (uri_of id) = Ok id.
Proof. exact parse_print. Qed.

(* ... also through the certificate: URI() -> String() in the SAN -> url.Parse -> ParseCertURI. *)
Theorem C12_parse_print_cert : forall id, wf_id id -> parse_cert_uri (reparse (uri_of id)) = Ok id.
Proof. exact parse_print_cert. Qed.

(* net/url: decoding the default encoding of a path gives the path back. *)
Theorem C12_unescape_escape : forall s, unescape (escape_path s) = Some s.
Proof. exact unescape_escape. Qed.

(* No confusion.  For every issued certificate whose request URL is as url.Parse produces it
   ([url_wf]; escaped, case-varied, decorated spellings included): whatever identity a reader that
   parses the certificate's URI SAN the way consul does (url.Parse, then ParseCertURI: peers' proxies
   configured by consul, consul's own authorize endpoint) obtains is [cert_identity] - the identity the ACL check
   was made for (host coerced and partition defaulted when the CA re-printed an agent URI) - so it has
   the same ACL scope and name, and the token that was presented grants write on it. *)
Theorem C12_no_confusion : forall e az c s crt s',
  sign_request e az c s = Ok (crt, s') ->
  (forall u, In u (csr_uris c) -> url_wf u) ->
  exists u id u',
    csr_uris c = [u] /\ parse_cert_uri u = Ok id /\ granted az id /\ c_uris crt = [u'] /\
    forall id2, parse_cert_uri (reparse u') = Ok id2 ->
      id2 = cert_identity e u id /\ scope_of id2 = scope_of id /\ granted az id2.
Proof. exact no_confusion. Qed.

(* [url_wf] is decidable; the boolean is evaluated on every URL crypto/x509 hands to the CA in the
   correspondence run (Run/C12.v check_sign), which ties the hypothesis above to net/url. *)
Theorem C12_url_wfb_sound : forall u, url_wfb u = true -> url_wf u.
Proof. exact url_wfb_spec. Qed.

(* The two readings of one URL agree: through the RawPath with per-segment unescaping (what the
   CA does) and through the decoded Path alone (what a reader of a re-encoded URI does). *)
Theorem C12_readings_agree : forall sch h p r pl id id2,
  nonempty r = true -> unescape r = Some p ->
  parse_cert_uri (Url sch h p r pl) = Ok id ->
  parse_cert_uri (Url sch h p "" pl) = Ok id2 -> id2 = id.
Proof. exact reading_same. Qed.

(* "The certificate carries exactly that identity" in the strong sense (the reader DOES obtain
   it) is refuted: an authorized name with an encoded "/" and a byte net/url re-encodes is
   issued with a URI that no longer reads as an identity. *)
Theorem C12_cert_identity_readable_refuted :
  exists e az c s crt s' u id,
    sign_request e az c s = Ok (crt, s') /\ url_wf u /\ csr_uris c = [u] /\ c_uris crt = [u] /\
    parse_cert_uri u = Ok id /\ parse_cert_uri (reparse u) = Err PFormat.
Proof. exact refuted_readable. Qed.

(* ------------------------------------------------------------------ serial numbers *)

(* Along every history of CA commands (root and configuration updates, provider-state writes and
   deletions, snapshot/restore, invalid commands) and signing requests, from any state, the serial
   numbers handed out are strictly increasing and above the last one handed out before. *)
Theorem C12_serial_fresh : forall e evs s s' l,
  run_events e s evs = (s', l) ->
  StronglySorted N.lt l /\ Forall (fun n => last_serial s < n) l.
Proof. exact serials_increasing. Qed.

(* ------------------------------------------------------------------ the root set *)

(* Every reachable state - any sequence of CA commands at any indexes, root lists with repeated
   IDs included - has no root or exactly one active root. *)
Theorem C12_one_active : forall s, Reach s -> one_active s.
Proof. exact reach_one_active. Qed.

(* The list that used to break the clause ([{a, active}; {a, inactive}]: one Active flag in the
   list, but the row is overwritten) is refused and changes nothing; the list the leader emits when
   only the intermediates of a root change ([{a, inactive}; {a, active}]) is accepted. *)
Theorem C12_active_overwritten_refused :
  step empty_store 1 (OpSetRoots 0 [("a", true); ("a", false)]) = (empty_store, OErr EActiveOverwritten) /\
  step empty_store 1 (OpSetRoots 0 [("a", false); ("a", true)]) =
    (Store [Root "a" true 1 1] 1 None [] 0 None, OBool true).
Proof. exact active_overwritten_refused. Qed.

(* A set-roots command replaces the WHOLE set (nothing of the old set survives, every given ID is
   stored, index entry := this Raft index, nothing else changes) and answers true, or changes
   NOTHING and does not answer true; with a non-matching index it changes nothing and answers
   false (or one of the two errors about the list itself). *)
Theorem C12_root_swap_atomic : forall s idx cidx rs s' r,
  step s idx (OpSetRoots cidx rs) = (s', r) ->
  (r = OBool true /\ s_roots_idx s = cidx /\ count_active rs = 1%nat /\
   replaced_by (s_roots s) idx rs (s_roots s') /\ s_roots_idx s' = idx /\ same_but_roots s s')
  \/ (s' = s /\ r <> OBool true /\
      (s_roots_idx s <> cidx -> r = OBool false \/ r = OErr EOneActive \/ r = OErr EActiveOverwritten)).
Proof. exact set_roots_atomic. Qed.

(* Roots and configuration in one command: both are replaced or nothing changes. *)
Theorem C12_roots_and_config_atomic : forall s idx cidx rs ci s' r,
  step s idx (OpSetRootsAndConfig cidx rs ci) = (s', r) ->
  (r = OBool true /\ s_roots_idx s = cidx /\ config_index_ok s (gi_modify ci) = true /\
   replaced_by (s_roots s) idx rs (s_roots s') /\ s_roots_idx s' = idx /\
   s_config s' = Some (set_config s idx ci) /\
   s_pstates s' = s_pstates s /\ s_builtin_idx s' = s_builtin_idx s /\ s_serial s' = s_serial s)
  \/ (s' = s /\ r <> OBool true).
Proof. exact set_roots_config_atomic. Qed.

(* A conditional configuration update applies exactly when the index matches; otherwise it changes
   nothing and reports the mismatch. *)
Theorem C12_config_cas_honest : forall s idx ci s' r,
  step s idx (OpSetConfig ci) = (s', r) -> gi_modify ci <> 0 ->
  (r = OBool true /\ config_index_ok s (gi_modify ci) = true /\ s_config s' = Some (set_config s idx ci) /\
   s_roots s' = s_roots s /\ s_roots_idx s' = s_roots_idx s)
  \/ (s' = s /\ r = OErr EConfigCAS /\ config_index_ok s (gi_modify ci) = false).
Proof. exact set_config_cas_honest. Qed.

(* No other command (configuration, provider state, serial counter, snapshot/restore, invalid)
   touches the roots table or its index. *)
Theorem C12_other_commands_keep_roots : forall s idx o,
  match o with OpSetRoots _ _ | OpSetRootsAndConfig _ _ _ => False | _ => True end ->
  s_roots (fst (step s idx o)) = s_roots s /\ s_roots_idx (fst (step s idx o)) = s_roots_idx s.
Proof. exact other_ops_keep_roots. Qed.

(* ------------------------------------------------------------------ non-vacuity *)

(* a request that is issued, with an escaped spelling that satisfies [url_wf] *)
Example C12_issue_example :
  url_wf w_web_esc /\
  sign_request w_env w_az (w_csr w_web_esc) empty_store =
    Ok (Cert [w_web_esc] [] [] false 1, incr_serial empty_store).
Proof. exact (conj w_web_esc_wf w_web_esc_issued). Qed.

(* agent requests: the dummy host of auto-encrypt, a foreign host with an explicit default
   partition and one with a percent-escape are all coerced into the trust domain; an agent
   identity of another datacenter is refused *)
Example C12_agent_example :
  sign_request w_env w_az (w_csr w_agent_dummy) empty_store =
    Ok (Cert [w_agent_td] [] [] false 1, incr_serial empty_store) /\
  sign_request w_env w_az (w_csr w_agent_foreign) empty_store =
    Ok (Cert [w_agent_td] [] [] false 1, incr_serial empty_store) /\
  sign_request w_env w_az (w_csr w_agent_esc) empty_store =
    Ok (Cert [w_agent_td] [] [] false 1, incr_serial empty_store) /\
  sign_request w_env w_az (w_csr w_agent_dc2) empty_store = Err EDatacenter.
Proof. exact agent_example. Qed.

(* regressions for the two repaired clauses: the dc2 agent identity is refused on the auto-config
   path; decorated URIs are refused through both entry points *)
Example C12_autoconfig_datacenter_regression :
  parse_cert_uri w_agent_dc2 = Ok (IdAgent w_td "default" "dc2" "n1") /\
  autoconfig_sign w_env "n1" (w_csr w_agent_dc2) empty_store = Err EDatacenter.
Proof. exact autoconfig_datacenter_refused. Qed.

Example C12_decorated_uri_regression :
  sign_request w_env w_az (w_csr w_web_query) empty_store = Err EDecorated /\
  autoconfig_sign w_env "n1" (w_csr w_agent_query) empty_store = Err EDecorated /\
  sign_request w_env w_az (w_csr w_agent_omithost) empty_store =
    Ok (Cert [w_agent_td] [] [] false 1, incr_serial empty_store).
Proof. exact decorated_uri_refused. Qed.

(* the auto-config path: issued for the authorized node, refused for another node or a non-agent *)
Example C12_autoconfig_example :
  autoconfig_sign w_env "n1" (w_csr w_agent_dummy) empty_store =
    Ok (Cert [w_agent_td] [] [] false 1, incr_serial empty_store) /\
  autoconfig_sign w_env "n2" (w_csr w_agent_dummy) empty_store = Err EWrongNode /\
  autoconfig_sign w_env "web" (w_csr w_web) empty_store = Err ENotAgent.
Proof. exact autoconfig_example. Qed.

(* both arms of [C12_config_cas_honest] *)
Example C12_config_cas_example :
  let s := fst (step empty_store 3 (OpSetConfig (ConfigIn "consul" "c1" 0 7))) in
  snd (step s 5 (OpSetConfig (ConfigIn "consul" "c1" 3 8))) = OBool true /\
  step s 5 (OpSetConfig (ConfigIn "consul" "c1" 2 8)) = (s, OErr EConfigCAS).
Proof. exact config_cas_example. Qed.

(* [store_env]: the environment follows the stored ClusterID *)
Example C12_store_env_example :
  let s := fst (step empty_store 3 (OpSetConfig (ConfigIn "consul" "11111111-2222-3333-4444-555555555555" 0 7))) in
  store_env "dc1" s = Some w_env /\
  store_env "dc1" (fst (step s 4 (OpSetConfig (ConfigIn "consul" "c2" 0 7)))) = Some (CaEnv "dc1" "c2").
Proof. exact store_env_example. Qed.

(* well-formed identities exist for [C12_parse_print] *)
Example C12_wf_id_example :
  wf_id (IdService w_td "default" "default" "dc1" "web") /\ wf_id (IdAgent w_td "default" "dc1" "n1") /\
  wf_id (IdGateway w_td "default" "dc1") /\ wf_id (IdServer w_td "dc1").
Proof. exact wf_id_example. Qed.

(* a reachable state with a rotated root set, a refused stale update, an issued serial *)
Example C12_reach_example :
  Reach (run_ops empty_store w_hist) /\
  run_ops empty_store w_hist =
    Store [Root "r1" false 4 6; Root "r2" true 6 6] 6 (Some (Config "consul" "c1" 3 4 8)) [] 0 (Some 1).
Proof. exact (conj w_hist_reach w_hist_result). Qed.

Print Assumptions C12_issue_sound.
Print Assumptions C12_issue_sound_detailed.
Print Assumptions C12_trust_domain_from_store.
Print Assumptions C12_trust_domain_stable.
Print Assumptions C12_sans_copied.
Print Assumptions C12_server_dns_san_refuted.
Print Assumptions C12_agent_partition_refuted.
Print Assumptions C12_no_decorated_uri.
Print Assumptions C12_autoconfig_sound.
Print Assumptions C12_autoconfig_datacenter_regression.
Print Assumptions C12_decorated_uri_regression.
Print Assumptions C12_url_wfb_sound.
Print Assumptions C12_autoconfig_example.
Print Assumptions C12_config_cas_example.
Print Assumptions C12_store_env_example.
Print Assumptions C12_parse_print.
Print Assumptions C12_parse_print_cert.
Print Assumptions C12_unescape_escape.
Print Assumptions C12_no_confusion.
Print Assumptions C12_readings_agree.
Print Assumptions C12_cert_identity_readable_refuted.
Print Assumptions C12_serial_fresh.
Print Assumptions C12_one_active.
Print Assumptions C12_active_overwritten_refused.
Print Assumptions C12_root_swap_atomic.
Print Assumptions C12_roots_and_config_atomic.
Print Assumptions C12_config_cas_honest.
Print Assumptions C12_other_commands_keep_roots.
Print Assumptions C12_issue_example.
Print Assumptions C12_agent_example.
Print Assumptions C12_wf_id_example.
Print Assumptions C12_reach_example.
