(* C18 — resource store: version CAS, stable UIDs, ordered watches.
   Theorems only; each is closed by a lemma of Resource/{CasProofs,RaftProofs,WatchProofs,RaftWatch,Examples}.v.
   Model: Resource/Model.v (inmem.Store/Backend + the part of agent/consul/stream the watches ride on).
   [run st ops] executes a schedule; [step st o] returns (state, output);
   [lk k st] is the stored row of id k; [glog st ops] the commits of a run (read off the outputs of the
   successful writes and deletes), [deliv n st ops] what watch n returned from Next. *)
From Verif Require Import Base.Prelude Resource.Model Resource.TableProofs Resource.CasProofs
     Resource.RaftProofs Resource.WatchDefs Resource.WatchProofs Resource.Examples Resource.RaftWatch.
Local Open Scope N_scope.

(* ---- version CAS: of any writes presenting the same version for the same id at most one succeeds.
   For ALL schedules of backend operations (any interleaving with other writes, deletes, reads, lists,
   watch and publisher steps) from any state whose versions were handed out by the counter: if two
   writes present the same version for one id and both succeed, the version is the empty one
   ("create") and the id was deleted in between. *)
Theorem C18_cas_exclusive : forall st a r1 b r2 x y,
  vb st -> forallb backend_op (a ++ OWrite r1 :: b) = true ->
  r_id r1 = r_id r2 -> r_version r1 = r_version r2 ->
  let s1 := run st a in
  let s1' := fst (step s1 (OWrite r1)) in
  let s2 := run s1' b in
  snd (step s1 (OWrite r1)) = OutRes x ->
  snd (step s2 (OWrite r2)) = OutRes y ->
  r_version r1 = 0 /\
  exists b1 d b2, b = b1 ++ d :: b2 /\ effective_delete (run s1' b1) d (r_id r1).
Proof. exact cas_exclusive. Qed.

(* ---- UIDs are stable. *)
Theorem C18_uid_write_keeps : forall st r x ex,
  lk (r_id r) st = Some ex -> snd (step st (OWrite r)) = OutRes x -> r_uid x = r_uid ex /\ r_uid r = r_uid ex.
Proof. exact uid_write_keeps. Qed.

Theorem C18_uid_mismatch_rejected : forall st r ex,
  lk (r_id r) st = Some ex -> r_uid r <> r_uid ex ->
  snd (step st (OWrite r)) = OutErr EWrongUid /\ s_res (fst (step st (OWrite r))) = s_res st.
Proof. exact uid_mismatch_rejected. Qed.

(* over any restore-free schedule (Store-level writes included) during which the id stays stored *)
Theorem C18_uid_stable : forall k ops st r r',
  forallb no_restore ops = true ->
  (forall p q, ops = p ++ q -> lk k (run st p) <> None) ->
  lk k st = Some r -> lk k (run st ops) = Some r' -> r_uid r' = r_uid r.
Proof. exact uid_stable. Qed.

(* ---- a re-created resource is a new lifetime: once an id that carried version v_old has been absent,
   no write presenting v_old is accepted and no delete presenting v_old has any effect, whatever uid they carry;
   and a stale uid can neither write nor delete. *)
Theorem C18_new_lifetime : forall st a b c r_old,
  vb st -> forallb backend_op (a ++ b ++ c) = true ->
  let k := r_id r_old in
  let s_i := run st a in
  let s_j := run s_i b in
  let s_m := run s_j c in
  lk k s_i = Some r_old -> lk k s_j = None ->
  (forall r, r_id r = k -> r_version r = r_version r_old ->
     (snd (step s_m (OWrite r)) = OutErr ECAS \/ snd (step s_m (OWrite r)) = OutErr EWrongUid) /\
     s_res (fst (step s_m (OWrite r))) = s_res s_m) /\
  (forall uid, s_res (fst (step s_m (ODelete k uid (r_version r_old)))) = s_res s_m).
Proof. exact new_lifetime. Qed.

Theorem C18_stale_uid_powerless : forall st k r_new uid,
  lk k st = Some r_new -> uid <> r_uid r_new ->
  (forall r, r_id r = k -> r_uid r = uid ->
     snd (step st (OWrite r)) = OutErr EWrongUid /\ s_res (fst (step st (OWrite r))) = s_res st) /\
  (forall v, step st (ODelete k uid v) = (st, OutOk)).
Proof. exact stale_uid_powerless. Qed.

(* ---- a version consumed by a successful write cannot be used by a later delete either (both paths). *)
Theorem C18_write_then_delete : forall st a r b uid x,
  vb st -> forallb backend_op (a ++ OWrite r :: b) = true -> r_version r <> 0 ->
  let s1 := run st a in
  let s2 := run (fst (step s1 (OWrite r))) b in
  snd (step s1 (OWrite r)) = OutRes x ->
  s_res (fst (step s2 (ODelete (r_id r) uid (r_version r)))) = s_res s2.
Proof. exact cas_write_then_delete. Qed.

(* ---- the same three clauses for the Raft-backed path: raft.Backend.Apply -> Store.WriteCAS(res, presented)
   with res.Version = the log index ([OWriteS], caller-chosen version) and snapshot restores in the schedule.
   The only assumption is the discipline Raft itself provides, stated on the schedule alone ([raft_ok B ops]):
   no Backend-counter writes, every written version exceeds every version in use so far (B, raised by each
   write and by each restore to the largest version it installs), restored rows carry a version >= 1.
   [vbb B st]: the rows of st have versions in 1..B (true of the empty store for any B, C18_vbb_init, and
   maintained across restores by raft_ok). *)
Theorem C18_raft_cas_exclusive : forall B st a r1 v b r2,
  vbb B st -> raft_ok B (a ++ OWriteS r1 v :: b ++ [OWriteS r2 v]) -> forallb no_restore b = true ->
  r_id r1 = r_id r2 ->
  let s1 := run st a in
  let s1' := fst (step s1 (OWriteS r1 v)) in
  let s2 := run s1' b in
  snd (step s1 (OWriteS r1 v)) = OutOk ->
  snd (step s2 (OWriteS r2 v)) = OutOk ->
  v = 0 /\ exists b1 d b2, b = b1 ++ d :: b2 /\ effective_delete (run s1' b1) d (r_id r1).
Proof. exact raft_cas_exclusive. Qed.
(* [a] may contain restores; between the two writes a restore may legitimately re-install version v (a
   rollback), which is why [b] is restore-free: exclusion is per epoch, the bound carries across epochs. *)

Theorem C18_raft_new_lifetime : forall B st a b c r_old,
  vbb B st -> raft_ok B (a ++ b ++ c) -> forallb no_restore (b ++ c) = true ->
  let k := r_id r_old in
  let s_i := run st a in
  let s_j := run s_i b in
  let s_m := run s_j c in
  lk k s_i = Some r_old -> lk k s_j = None ->
  (forall r, r_id r = k -> raft_bound B (a ++ b ++ c) < r_version r ->
     (snd (step s_m (OWriteS r (r_version r_old))) = OutErr ECAS \/ snd (step s_m (OWriteS r (r_version r_old))) = OutErr EWrongUid) /\
     fst (step s_m (OWriteS r (r_version r_old))) = s_m) /\
  (forall uid, s_res (fst (step s_m (ODelete k uid (r_version r_old)))) = s_res s_m).
Proof. exact raft_new_lifetime. Qed.

Theorem C18_raft_write_then_delete : forall B st a r v b uid,
  vbb B st -> raft_ok B (a ++ OWriteS r v :: b) -> forallb no_restore b = true -> v <> 0 ->
  let s1 := run st a in
  let s2 := run (fst (step s1 (OWriteS r v))) b in
  snd (step s1 (OWriteS r v)) = OutOk ->
  s_res (fst (step s2 (ODelete (r_id r) uid v))) = s_res s2.
Proof. exact raft_write_then_delete. Qed.

(* the version bound survives every schedule that keeps the discipline, restores included *)
Theorem C18_raft_bound_kept : forall a B st c, vbb B st -> raft_ok B (a ++ c) ->
  B <= raft_bound B a /\ vbb (raft_bound B a) (run st a) /\ raft_ok (raft_bound B a) c.
Proof. exact raft_run. Qed.

(* for the inmem.Backend path: a restore of rows whose versions were handed out keeps [vb]; keys stay unique *)
Theorem C18_vb_after_restore : forall st l,
  (forall r, In r l -> 1 <= r_version r <= s_vsn st) -> vb (fst (step st (ORestore l))).
Proof. exact vb_restore. Qed.
Theorem C18_keys_unique_after_restore : forall st l, NoDup (keys (s_res (fst (step st (ORestore l))))).
Proof. exact restore_keys_nodup. Qed.

(* ---- reads: Store.Read in terms of the stored row; a reader naming the uid of another (deleted) lifetime is
   told not-found whatever GroupVersion it speaks. *)
Theorem C18_read_spec : forall st k gv uid,
  snd (step st (ORead k gv uid)) =
  match lk k st with
  | None => OutErr ENotFound
  | Some r => if negb (str_eqb uid []) && negb (str_eqb (r_uid r) uid) then OutErr ENotFound
              else if negb (str_eqb gv (r_gv r)) then OutGVM r else OutRes r
  end.
Proof. exact read_spec. Qed.
Theorem C18_read_stale_uid_notfound : forall st k gv uid r,
  lk k st = Some r -> uid <> [] -> uid <> r_uid r -> snd (step st (ORead k gv uid)) = OutErr ENotFound.
Proof. exact read_stale_uid_notfound. Qed.

(* ---- watches, for ALL schedules of commits, publications, opens, nexts, closes, cache evictions and
   restores.  A schedule is a sequence of epochs separated by restores; every restore leaves a clean
   state (C18_restore_clean: Restoration.Commit makes the publisher drop whatever is still queued, the
   topic buffers and the cached snapshots, and closes the watches), and so is the initial state.
   For the watch opened by [OWatch q] in the restore-free stretch [pre ++ OWatch q :: mid] of an epoch
   that starts in the clean state st0, and for ANY continuation [post] (nothing, or the next restore
   followed by arbitrary operations, further restores included):
   the events the watch returns over the whole schedule are a prefix of [ideal q T La] = the full match
   set of the table T at a snapshot point Lp (a prefix of the epoch's commit log, not later than the
   open), end-of-snapshot, then exactly the matching commits of the epoch after that point, in commit
   order, none twice, none skipped - in particular for a watch opened while commits are queued but
   unpublished (finding 13) and for a watch opened right after a restore that found batches queued or
   old watches unreleased (the former restore-residue finding); and while the epoch lasts, when nothing
   is queued and Next would block, the watch has been given all of it. *)
Theorem C18_watch_complete_ordered : forall st0 pre q mid post,
  clean st0 -> forallb no_restore (pre ++ OWatch q :: mid) = true ->
  (post = [] \/ exists l post', post = ORestore l :: post') ->
  let ops1 := pre ++ OWatch q :: mid in
  let n := List.length (s_watches (run st0 pre)) in
  snd (step (run st0 pre) (OWatch q)) = OutWatch n /\
  exists Lp La,
    glog st0 ops1 = Lp ++ La /\ (List.length Lp <= List.length (glog st0 pre))%nat /\
    (exists rest, deliv n st0 (ops1 ++ post) ++ rest = ideal q (replay (s_res st0) Lp) La) /\
    (s_queue (run st0 ops1) = [] -> snd (step (run st0 ops1) (ONext n)) = OutNoEvent ->
     deliv n st0 ops1 = ideal q (replay (s_res st0) Lp) La).
Proof. exact watch_complete_ordered_all. Qed.

Theorem C18_restore_clean : forall st l, clean (fst (step st (ORestore l))).
Proof. exact restore_clean. Qed.

(* the same, spelled out for an arbitrary schedule from the initial state: [a] is anything, restores included *)
Theorem C18_watch_complete_ordered_from_init : forall a l pre q mid post,
  forallb no_restore (pre ++ OWatch q :: mid) = true ->
  (post = [] \/ exists l' post', post = ORestore l' :: post') ->
  let st0 := fst (step (run init a) (ORestore l)) in
  let ops1 := pre ++ OWatch q :: mid in
  let n := List.length (s_watches (run st0 pre)) in
  exists Lp La,
    glog st0 ops1 = Lp ++ La /\ (List.length Lp <= List.length (glog st0 pre))%nat /\
    (exists rest, deliv n st0 (ops1 ++ post) ++ rest = ideal q (replay (s_res st0) Lp) La) /\
    (s_queue (run st0 ops1) = [] -> snd (step (run st0 ops1) (ONext n)) = OutNoEvent ->
     deliv n st0 ops1 = ideal q (replay (s_res st0) Lp) La).
Proof.
  intros a l pre q mid post H1 H2.
  exact (proj2 (watch_complete_ordered_all _ pre q mid post (restore_clean (run init a) l) H1 H2)).
Qed.

(* every event a watch returns was committed earlier in the run (or is a row of the starting state) *)
Theorem C18_delivered_committed : forall st0 ops n e,
  clean st0 -> forallb no_restore ops = true -> (List.length (s_watches st0) <= n)%nat ->
  In e (deliv n st0 ops) ->
  match e with
  | Upsert r => In r (s_res st0) \/ In (Upsert r) (map snd (glog st0 ops))
  | Delete r => In (Delete r) (map snd (glog st0 ops))
  | EndOfSnapshot => True
  end.
Proof. exact delivered_committed. Qed.

(* ---- the stored row after an event (every read, uid-qualified or not, is a function of it: C18_read_spec).
   The row the event carries WAS the stored row at a point a1 of the run before the Next; afterwards the id
   holds a version >= it, or is absent and then an effective delete lies AFTER that point; after a delete
   event of version v the id is absent or holds a version > v.  Both paths. *)
Theorem C18_row_after_event : forall st0 a n e b,
  clean st0 -> vb st0 -> NoDup (keys (s_res st0)) ->
  forallb backend_op (a ++ ONext n :: b) = true -> (List.length (s_watches st0) <= n)%nat ->
  let s1 := run st0 a in
  snd (step s1 (ONext n)) = OutEvent e ->
  let s2 := run (fst (step s1 (ONext n))) b in
  match e with
  | Upsert r =>
      exists a1 a2, a = a1 ++ a2 /\ lk (r_id r) (run st0 a1) = Some r /\
        match lk (r_id r) s2 with
        | Some r' => r_version r <= r_version r'
        | None => exists c1 d c2, a2 ++ ONext n :: b = c1 ++ d :: c2 /\ effective_delete (run (run st0 a1) c1) d (r_id r)
        end
  | Delete r => match lk (r_id r) s2 with Some r' => r_version r < r_version r' | None => True end
  | EndOfSnapshot => True
  end.
Proof. exact row_after_event. Qed.

Theorem C18_raft_row_after_event : forall B st0 a n e b,
  clean st0 -> vbb B st0 -> NoDup (keys (s_res st0)) ->
  raft_ok B (a ++ ONext n :: b) -> forallb no_restore (a ++ ONext n :: b) = true ->
  (List.length (s_watches st0) <= n)%nat ->
  let s1 := run st0 a in
  snd (step s1 (ONext n)) = OutEvent e ->
  let s2 := run (fst (step s1 (ONext n))) b in
  match e with
  | Upsert r =>
      exists a1 a2, a = a1 ++ a2 /\ lk (r_id r) (run st0 a1) = Some r /\
        match lk (r_id r) s2 with
        | Some r' => r_version r <= r_version r'
        | None => exists c1 d c2, a2 ++ ONext n :: b = c1 ++ d :: c2 /\ effective_delete (run (run st0 a1) c1) d (r_id r)
        end
  | Delete r => match lk (r_id r) s2 with Some r' => r_version r < r_version r' | None => True end
  | EndOfSnapshot => True
  end.
Proof. exact raft_row_after_event. Qed.

(* ---- a read made after receiving an event is not older than the event: after an upsert of version v
   the read returns a version >= v, or not-found and the id was deleted by a step of the run; after a
   delete event of version v it returns not-found or a version > v (a new lifetime). *)
Theorem C18_read_after_event : forall st0 a n e b gv,
  clean st0 -> vb st0 -> NoDup (keys (s_res st0)) ->
  forallb backend_op (a ++ ONext n :: b) = true -> (List.length (s_watches st0) <= n)%nat ->
  let s1 := run st0 a in
  snd (step s1 (ONext n)) = OutEvent e ->
  let s2 := run (fst (step s1 (ONext n))) b in
  match e with
  | Upsert r =>
      (exists r', read_sees s2 (r_id r) gv r' /\ r_version r <= r_version r') \/
      (snd (step s2 (ORead (r_id r) gv [])) = OutErr ENotFound /\
       exists c1 d c2, a ++ ONext n :: b = c1 ++ d :: c2 /\ effective_delete (run st0 c1) d (r_id r))
  | Delete r =>
      (exists r', read_sees s2 (r_id r) gv r' /\ r_version r < r_version r') \/
      snd (step s2 (ORead (r_id r) gv [])) = OutErr ENotFound
  | EndOfSnapshot => True
  end.
Proof. exact read_after_event. Qed.

(* ---- the hypotheses are met (clean: the initial state and the state after every restore), the former
   counterexamples now behave, and the watch theorem speaks about non-empty deliveries. *)
Example C18_clean_init : clean init.
Proof. exact clean_init. Qed.
Example C18_vb_init : vb init /\ NoDup (keys (s_res init)).
Proof. split; [exact init_vb|constructor]. Qed.
Example C18_restore_drops_queued_batch :
  deliv 0 (after_restore pre_a) (OWatch xq :: post_a) = [EndOfSnapshot] /\
  outs (after_restore pre_a) (OWatch xq :: post_a)
    = [OutWatch 0; OutEvent EndOfSnapshot; OutNoEvent; OutBool true; OutNoEvent].
Proof. exact queued_batch_dropped. Qed.
Example C18_restore_then_commit_delivered :
  deliv 1 (after_restore pre_b) (OWatch xq :: post_b) = [EndOfSnapshot; Upsert (xres [98] [117;50] 2 2)] /\
  glog (after_restore pre_b) (OWatch xq :: post_b) = [(3, Upsert (xres [98] [117;50] 2 2))] /\
  last (outs (after_restore pre_b) (OWatch xq :: post_b)) OutOk = OutErr EWatchClosed.
Proof. exact new_commit_delivered. Qed.
Example C18_vbb_init : forall B, vbb B init.
Proof. exact vbb_init. Qed.
Example C18_raft_schedule_with_restore :
  raft_ok 0 raft_demo /\ outs init raft_demo = [OutOk; OutOk; OutOk; OutOk] /\ raft_bound 0 raft_demo = 9.
Proof. exact raft_demo_ok. Qed.
Example C18_hypotheses_after_restore :
  let st := fst (step (run init [OWrite (zres [97] [117;49] 0 1); OWrite (zres [98] [117;50] 0 2)])
                      (ORestore [zres [97] [117;49] 1 1; zres [98] [117;50] 2 2])) in
  clean st /\ vb st /\ NoDup (keys (s_res st)) /\ s_res st <> [].
Proof. exact hyps_after_restore. Qed.
Example C18_completeness_antecedent_met :
  exists Lp La, glog init demo = Lp ++ La /\ List.length Lp = 2%nat /\ List.length La = 1%nat /\
    s_queue (run init demo) = [] /\ snd (step (run init demo) (ONext 0)) = OutNoEvent /\
    deliv 0 init demo = ideal xq (replay (s_res init) Lp) La.
Proof. exact demo_complete. Qed.
Example C18_lifetime_hypotheses_met :
  let a := [OWrite (zres [97] [117;49] 0 1)] in
  let b := [ODelete (zk [97]) [117;49] 1] in
  let c := [OWrite (zres [97] [117;50] 0 2)] in
  forallb backend_op (a ++ b ++ c) = true /\
  lk (zk [97]) (run init a) = Some (zres [97] [117;49] 1 1) /\ lk (zk [97]) (run (run init a) b) = None /\
  lk (zk [97]) (run (run (run init a) b) c) = Some (zres [97] [117;50] 2 2) /\
  snd (step (run (run (run init a) b) c) (OWrite (zres [97] [117;50] 1 9))) = OutErr ECAS.
Proof. exact lifetime_demo. Qed.
Example C18_uid_stable_hypotheses_met :
  let st := run init [OWrite (zres [97] [117;49] 0 1)] in
  let ops := [OWrite (zres [97] [117;49] 1 2); ORead (zk [97]) [118;49] []] in
  forallb no_restore ops = true /\ (forall p q, ops = p ++ q -> lk (zk [97]) (run st p) <> None) /\
  exists r r', lk (zk [97]) st = Some r /\ lk (zk [97]) (run st ops) = Some r' /\ r_version r <> r_version r'.
Proof. exact uid_stable_demo. Qed.
Example C18_gap_watch_delivers :
  deliv 0 init demo = [Upsert (xres [97] [117;49] 2 2); EndOfSnapshot; Upsert (xres [97] [117;49] 3 3)].
Proof. exact demo_deliv. Qed.

Print Assumptions C18_cas_exclusive.
Print Assumptions C18_uid_write_keeps.
Print Assumptions C18_uid_mismatch_rejected.
Print Assumptions C18_uid_stable.
Print Assumptions C18_new_lifetime.
Print Assumptions C18_stale_uid_powerless.
Print Assumptions C18_watch_complete_ordered.
Print Assumptions C18_watch_complete_ordered_from_init.
Print Assumptions C18_delivered_committed.
Print Assumptions C18_read_after_event.
Print Assumptions C18_clean_init.
Print Assumptions C18_vb_init.
Print Assumptions C18_restore_clean.
Print Assumptions C18_restore_drops_queued_batch.
Print Assumptions C18_restore_then_commit_delivered.
Print Assumptions C18_gap_watch_delivers.
Print Assumptions C18_write_then_delete.
Print Assumptions C18_raft_cas_exclusive.
Print Assumptions C18_raft_new_lifetime.
Print Assumptions C18_raft_write_then_delete.
Print Assumptions C18_raft_bound_kept.
Print Assumptions C18_vb_after_restore.
Print Assumptions C18_keys_unique_after_restore.
Print Assumptions C18_read_spec.
Print Assumptions C18_read_stale_uid_notfound.
Print Assumptions C18_row_after_event.
Print Assumptions C18_raft_row_after_event.
Print Assumptions C18_vbb_init.
Print Assumptions C18_raft_schedule_with_restore.
Print Assumptions C18_hypotheses_after_restore.
Print Assumptions C18_completeness_antecedent_met.
Print Assumptions C18_lifetime_hypotheses_met.
Print Assumptions C18_uid_stable_hypotheses_met.
