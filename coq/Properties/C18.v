(* C18 — resource store: version CAS, stable UIDs, ordered watches.
   Theorems only; each is closed by a lemma of Resource/{CasProofs,WatchProofs,Examples}.v.
   Model: Resource/Model.v (inmem.Store/Backend + the part of agent/consul/stream the watches ride on).
   [run st ops] executes a schedule; [step st o] returns (state, output);
   [lk k st] is the stored row of id k; [glog st ops] the commits of a run (read off the outputs of the
   successful writes and deletes), [deliv n st ops] what watch n returned from Next. *)
From Verif Require Import Base.Prelude Resource.Model Resource.TableProofs Resource.CasProofs
     Resource.WatchDefs Resource.WatchProofs Resource.Examples.
Local Open Scope N_scope.

(* ---- version CAS: of any writes presenting the same version for the same id at most one succeeds.
   For ALL schedules of backend operations (any interleaving with other writes, deletes, reads, lists,
   watch and publisher steps) from any state whose versions were handed out by the counter: if two
   writes present the same version for one id and both succeed, the version is the empty one
   ("create") and the id was deleted in between. *)
Theorem C18_cas_exclusive : forall st a r1 b r2 x y,
  vb st -> forallb backend_op (a ++ OWrite r1 :: b) = true ->
  r_id r1 = r_id r2 -> r_version r1 = r_version r2 ->
  let s1 := run st a in
  let s1' := fst (step s1 (OWrite r1)) in
  let s2 := run s1' b in
  snd (step s1 (OWrite r1)) = OutRes x ->
  snd (step s2 (OWrite r2)) = OutRes y ->
  r_version r1 = 0 /\
  exists b1 d b2, b = b1 ++ d :: b2 /\ effective_delete (run s1' b1) d (r_id r1).
Proof. exact cas_exclusive. Qed.

(* ---- UIDs are stable. *)
Theorem C18_uid_write_keeps : forall st r x ex,
  lk (r_id r) st = Some ex -> snd (step st (OWrite r)) = OutRes x -> r_uid x = r_uid ex /\ r_uid r = r_uid ex.
Proof. exact uid_write_keeps. Qed.

Theorem C18_uid_mismatch_rejected : forall st r ex,
  lk (r_id r) st = Some ex -> r_uid r <> r_uid ex ->
  snd (step st (OWrite r)) = OutErr EWrongUid /\ s_res (fst (step st (OWrite r))) = s_res st.
Proof. exact uid_mismatch_rejected. Qed.

(* over any restore-free schedule (Store-level writes included) during which the id stays stored *)
Theorem C18_uid_stable : forall k ops st r r',
  forallb no_restore ops = true ->
  (forall p q, ops = p ++ q -> lk k (run st p) <> None) ->
  lk k st = Some r -> lk k (run st ops) = Some r' -> r_uid r' = r_uid r.
Proof. exact uid_stable. Qed.

(* ---- a re-created resource is a new lifetime: once an id that carried version v_old has been absent,
   no write presenting v_old is accepted and no delete presenting v_old has any effect, whatever uid they carry;
   and a stale uid can neither write nor delete. *)
Theorem C18_new_lifetime : forall st a b c r_old,
  vb st -> forallb backend_op (a ++ b ++ c) = true ->
  let k := r_id r_old in
  let s_i := run st a in
  let s_j := run s_i b in
  let s_m := run s_j c in
  lk k s_i = Some r_old -> lk k s_j = None ->
  (forall r, r_id r = k -> r_version r = r_version r_old ->
     (snd (step s_m (OWrite r)) = OutErr ECAS \/ snd (step s_m (OWrite r)) = OutErr EWrongUid) /\
     s_res (fst (step s_m (OWrite r))) = s_res s_m) /\
  (forall uid, s_res (fst (step s_m (ODelete k uid (r_version r_old)))) = s_res s_m).
Proof. exact new_lifetime. Qed.

Theorem C18_stale_uid_powerless : forall st k r_new uid,
  lk k st = Some r_new -> uid <> r_uid r_new ->
  (forall r, r_id r = k -> r_uid r = uid ->
     snd (step st (OWrite r)) = OutErr EWrongUid /\ s_res (fst (step st (OWrite r))) = s_res st) /\
  (forall v, step st (ODelete k uid v) = (st, OutOk)).
Proof. exact stale_uid_powerless. Qed.

(* ---- watches, for ALL schedules of commits, publications, opens, nexts, closes, cache evictions and
   restores.  A schedule is a sequence of epochs separated by restores; every restore leaves a clean
   state (C18_restore_clean: Restoration.Commit makes the publisher drop whatever is still queued, the
   topic buffers and the cached snapshots, and closes the watches), and so is the initial state.
   For the watch opened by [OWatch q] in the restore-free stretch [pre ++ OWatch q :: mid] of an epoch
   that starts in the clean state st0, and for ANY continuation [post] (nothing, or the next restore
   followed by arbitrary operations, further restores included):
   the events the watch returns over the whole schedule are a prefix of [ideal q T La] = the full match
   set of the table T at a snapshot point Lp (a prefix of the epoch's commit log, not later than the
   open), end-of-snapshot, then exactly the matching commits of the epoch after that point, in commit
   order, none twice, none skipped - in particular for a watch opened while commits are queued but
   unpublished (finding 13) and for a watch opened right after a restore that found batches queued or
   old watches unreleased (the former restore-residue finding); and while the epoch lasts, when nothing
   is queued and Next would block, the watch has been given all of it. *)
Theorem C18_watch_complete_ordered : forall st0 pre q mid post,
  clean st0 -> forallb no_restore (pre ++ OWatch q :: mid) = true ->
  (post = [] \/ exists l post', post = ORestore l :: post') ->
  let ops1 := pre ++ OWatch q :: mid in
  let n := List.length (s_watches (run st0 pre)) in
  snd (step (run st0 pre) (OWatch q)) = OutWatch n /\
  exists Lp La,
    glog st0 ops1 = Lp ++ La /\ (List.length Lp <= List.length (glog st0 pre))%nat /\
    (exists rest, deliv n st0 (ops1 ++ post) ++ rest = ideal q (replay (s_res st0) Lp) La) /\
    (s_queue (run st0 ops1) = [] -> snd (step (run st0 ops1) (ONext n)) = OutNoEvent ->
     deliv n st0 ops1 = ideal q (replay (s_res st0) Lp) La).
Proof. exact watch_complete_ordered_all. Qed.

Theorem C18_restore_clean : forall st l, clean (fst (step st (ORestore l))).
Proof. exact restore_clean. Qed.

(* the same, spelled out for an arbitrary schedule from the initial state: [a] is anything, restores included *)
Theorem C18_watch_complete_ordered_from_init : forall a l pre q mid post,
  forallb no_restore (pre ++ OWatch q :: mid) = true ->
  (post = [] \/ exists l' post', post = ORestore l' :: post') ->
  let st0 := fst (step (run init a) (ORestore l)) in
  let ops1 := pre ++ OWatch q :: mid in
  let n := List.length (s_watches (run st0 pre)) in
  exists Lp La,
    glog st0 ops1 = Lp ++ La /\ (List.length Lp <= List.length (glog st0 pre))%nat /\
    (exists rest, deliv n st0 (ops1 ++ post) ++ rest = ideal q (replay (s_res st0) Lp) La) /\
    (s_queue (run st0 ops1) = [] -> snd (step (run st0 ops1) (ONext n)) = OutNoEvent ->
     deliv n st0 ops1 = ideal q (replay (s_res st0) Lp) La).
Proof.
  intros a l pre q mid post H1 H2.
  exact (proj2 (watch_complete_ordered_all _ pre q mid post (restore_clean (run init a) l) H1 H2)).
Qed.

(* every event a watch returns was committed earlier in the run (or is a row of the starting state) *)
Theorem C18_delivered_committed : forall st0 ops n e,
  clean st0 -> forallb no_restore ops = true -> (List.length (s_watches st0) <= n)%nat ->
  In e (deliv n st0 ops) ->
  match e with
  | Upsert r => In r (s_res st0) \/ In (Upsert r) (map snd (glog st0 ops))
  | Delete r => In (Delete r) (map snd (glog st0 ops))
  | EndOfSnapshot => True
  end.
Proof. exact delivered_committed. Qed.

(* ---- a read made after receiving an event is not older than the event: after an upsert of version v
   the read returns a version >= v, or not-found and the id was deleted by a step of the run; after a
   delete event of version v it returns not-found or a version > v (a new lifetime). *)
Theorem C18_read_after_event : forall st0 a n e b gv,
  clean st0 -> vb st0 -> NoDup (keys (s_res st0)) ->
  forallb backend_op (a ++ ONext n :: b) = true -> (List.length (s_watches st0) <= n)%nat ->
  let s1 := run st0 a in
  snd (step s1 (ONext n)) = OutEvent e ->
  let s2 := run (fst (step s1 (ONext n))) b in
  match e with
  | Upsert r =>
      (exists r', read_sees s2 (r_id r) gv r' /\ r_version r <= r_version r') \/
      (snd (step s2 (ORead (r_id r) gv [])) = OutErr ENotFound /\
       exists c1 d c2, a ++ ONext n :: b = c1 ++ d :: c2 /\ effective_delete (run st0 c1) d (r_id r))
  | Delete r =>
      (exists r', read_sees s2 (r_id r) gv r' /\ r_version r < r_version r') \/
      snd (step s2 (ORead (r_id r) gv [])) = OutErr ENotFound
  | EndOfSnapshot => True
  end.
Proof. exact read_after_event. Qed.

(* ---- the hypotheses are met (clean: the initial state and the state after every restore), the former
   counterexamples now behave, and the watch theorem speaks about non-empty deliveries. *)
Example C18_clean_init : clean init.
Proof. exact clean_init. Qed.
Example C18_vb_init : vb init /\ NoDup (keys (s_res init)).
Proof. split; [exact init_vb|constructor]. Qed.
Example C18_restore_drops_queued_batch :
  deliv 0 (after_restore pre_a) (OWatch xq :: post_a) = [EndOfSnapshot] /\
  outs (after_restore pre_a) (OWatch xq :: post_a)
    = [OutWatch 0; OutEvent EndOfSnapshot; OutNoEvent; OutBool true; OutNoEvent].
Proof. exact queued_batch_dropped. Qed.
Example C18_restore_then_commit_delivered :
  deliv 1 (after_restore pre_b) (OWatch xq :: post_b) = [EndOfSnapshot; Upsert (xres [98] [117;50] 2 2)] /\
  glog (after_restore pre_b) (OWatch xq :: post_b) = [(3, Upsert (xres [98] [117;50] 2 2))] /\
  last (outs (after_restore pre_b) (OWatch xq :: post_b)) OutOk = OutErr EWatchClosed.
Proof. exact new_commit_delivered. Qed.
Example C18_gap_watch_delivers :
  deliv 0 init demo = [Upsert (xres [97] [117;49] 2 2); EndOfSnapshot; Upsert (xres [97] [117;49] 3 3)].
Proof. exact demo_deliv. Qed.

Print Assumptions C18_cas_exclusive.
Print Assumptions C18_uid_write_keeps.
Print Assumptions C18_uid_mismatch_rejected.
Print Assumptions C18_uid_stable.
Print Assumptions C18_new_lifetime.
Print Assumptions C18_stale_uid_powerless.
Print Assumptions C18_watch_complete_ordered.
Print Assumptions C18_watch_complete_ordered_from_init.
Print Assumptions C18_delivered_committed.
Print Assumptions C18_read_after_event.
Print Assumptions C18_clean_init.
Print Assumptions C18_vb_init.
Print Assumptions C18_restore_clean.
Print Assumptions C18_restore_drops_queued_batch.
Print Assumptions C18_restore_then_commit_delivered.
Print Assumptions C18_gap_watch_delivers.
