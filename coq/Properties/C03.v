(* C03 — the KV store behaves as a sequential versioned map.  Theorems only.
   [SpecKV] is the abstract map (key -> value, flags, holder, lock counter, create, modify);
   spec_* are its one-line verb semantics (Store/Theorems.v). *)
From stdpp Require Import gmap strings.
From Coq Require Import NArith.
From Verif Require Import Store.Model Store.Inv Store.Theorems Store.EndInv.
Local Open Scope N_scope.

(* Refinement: each store verb (with its graveyard, index-table and session bookkeeping) has
   exactly the effect and the reported outcome of the abstract verb. *)
Theorem C03_refines_set : forall idx k e s, kvs (kvs_set idx k e false s).1 = spec_set idx k e (kvs s).
Proof. exact refine_set. Qed.
Theorem C03_refines_cas : forall idx k e s,
  ((kvs_set_cas idx k e s).1, kvs (kvs_set_cas idx k e s).2.1) = spec_cas idx k e (kvs s).
Proof. exact refine_cas. Qed.
Theorem C03_refines_delete : forall idx k s, kvs (kvs_delete idx k s) = spec_delete k (kvs s).
Proof. exact refine_delete. Qed.
Theorem C03_refines_delete_cas : forall idx cidx k s,
  ((kvs_delete_cas idx cidx k s).1, kvs (kvs_delete_cas idx cidx k s).2) = spec_delete_cas cidx k (kvs s).
Proof. exact refine_delete_cas. Qed.
Theorem C03_refines_delete_tree : forall idx p s,
  kvs (kvs_delete_tree idx p s) = spec_delete_tree p (kvs s).
Proof. exact refine_delete_tree. Qed.
Theorem C03_refines_lock : forall idx k e s r,
  kvs_lock idx k e s = Ok r -> (r.1, kvs r.2.1) = spec_lock idx k e (kvs s).
Proof. exact refine_lock. Qed.
Theorem C03_refines_unlock : forall idx k e s r,
  kvs_unlock idx k e s = Ok r -> (r.1, kvs r.2.1) = spec_unlock idx k e (kvs s).
Proof. exact refine_unlock. Qed.
(* the same verbs inside transactions are these functions (C05_txn_kv_is_command); get returns the map *)
Theorem C03_get_returns_map : forall idx k q s,
  q_key q = k ->
  txn_kv idx VGet q s = match kvs s !! k with Some x => Ok (s, [RKV k x true]) | None => Err ENotFound s end.
Proof. exact read_get. Qed.

(* the list verb returns exactly the map's entries under the prefix, each key once *)
Theorem C03_list_returns_map : forall idx q s,
  exists l, txn_kv idx VGetTree q s = Ok (s, (fun kv : string * kvent => RKV kv.1 kv.2 true) <$> l) /\
            NoDup l.*1 /\
            forall k e, (k, e) ∈ l <-> kvs s !! k = Some e /\ has_prefix (q_key q) k = true.
Proof. exact read_tree. Qed.

(* A write that changes nothing does not advance the modify index (the entry is untouched). *)
Theorem C03_noop_keeps_modify : forall idx k v f l m x,
  m !! k = Some x -> kv_value x = v -> kv_flags x = f -> kv_lock x = l ->
  spec_write idx k v f (kv_session x) l m = m.
Proof. exact noop_keeps_modify. Qed.
(* ... and one that changes something stamps exactly the command's index. *)
Theorem C03_change_advances_modify : forall idx k v f sess l m x,
  m !! k = Some x -> spec_write idx k v f sess l m ≠ m ->
  spec_write idx k v f sess l m !! k = Some (KV v f sess l (kv_create x) idx).
Proof. exact write_changes_advance_modify. Qed.
(* A key's create index never changes while the key exists. *)
Theorem C03_create_stable : forall idx k v f sess l m x x',
  m !! k = Some x -> spec_write idx k v f sess l m !! k = Some x' -> kv_create x' = kv_create x.
Proof. exact create_stable. Qed.
Theorem C03_other_keys_untouched : forall idx k v f sess l m k',
  k' ≠ k -> spec_write idx k v f sess l m !! k' = m !! k'.
Proof. exact other_keys_untouched. Qed.
(* Lock counter: +1 on a fresh acquisition, unchanged on re-acquisition and on release. *)
Theorem C03_lock_counter : forall idx k e m,
  match m !! k with
  | None => forall x', (spec_lock idx k e m).2 !! k = Some x' -> kv_lock x' = 1
  | Some x =>
    (forall x', (spec_lock idx k e m).1 = true -> (spec_lock idx k e m).2 !! k = Some x' ->
       kv_lock x' = if bool_decide (kv_session x = kv_session e) then kv_lock x else kv_lock x + 1) /\
    (forall x', (spec_unlock idx k e m).2 !! k = Some x' -> kv_lock x' = kv_lock x)
  end.
Proof. exact lock_counter. Qed.

(* Interleaved session destruction / deregistration (with all their cascades) alter the map only by
   ending sessions: every key is untouched, or its holder's session is gone and the key is
   deleted or released with value, flags, lock counter and create index kept. *)
Theorem C03_session_destroy_frame : forall idx sid s,
  LockInv s -> post (KVFrame s) id (delete_session_top idx sid s).
Proof. exact session_destroy_frame. Qed.
Theorem C03_deregister_frame : forall idx nd svc cid s,
  LockInv s ->
  post (KVFrame s) id (if negb (bool_decide (svc = "")) then delete_service idx nd svc s
                       else if negb (bool_decide (cid = "")) then delete_check idx nd cid s
                            else delete_node idx nd s).
Proof. exact deregister_frame. Qed.
(* Every command that is not a KV write, a transaction or a reap -- session create and destroy,
   registration, deregistration, prepared-query writes -- leaves every key either untouched (row and
   tombstone) or, when its holder's session ended in this command, deleted with a tombstone at the
   command's index or released with value, flags, lock counter and create index kept, according to
   the session's behaviour.  Nothing else can happen to the map. *)
Theorem C03_other_commands_frame : forall idx c s,
  LockInv s ->
  match c with KVS _ _ | Txn _ | Reap _ => True | _ => KVEnd s idx (apply idx c s).1 end.
Proof. exact kv_frame_command. Qed.

(* The same for the node, service, check and session operations of a transaction, each on the state
   it ran on; the KV operations of a transaction are the standalone verbs (C05_txn_kv_is_command),
   so a committed transaction's effect on the map is the composition of verb steps and frame steps. *)
Theorem C03_txn_frame : forall idx ops s, LockInv s -> TxnKVSteps idx ops s.
Proof. exact kv_frame_in_txn. Qed.

(* tombstone reaping never touches the map *)
Theorem C03_reap_keeps_map : forall upto s, kvs (reap_tombstones upto s) = kvs s.
Proof. reflexivity. Qed.

(* Non-vacuity: a map with a locked key and prefix-related siblings. *)
Example C03_example :
  let m : SpecKV := <["a" := KV [1] 0 "s1" 1 5 7]> (<["a/b" := KV [] 0 "" 0 6 6]> ∅) in
  (spec_lock 9 "a" (KV [2] 0 "s1" 0 0 0) m).2 !! "a" = Some (KV [2] 0 "s1" 1 5 9) /\
  (spec_lock 9 "a" (KV [2] 0 "s2" 0 0 0) m).1 = false /\
  spec_delete_tree "a/" m !! "a/b" = None /\ spec_delete_tree "a/" m !! "a" = m !! "a".
Proof. vm_compute. repeat split; reflexivity. Qed.

Print Assumptions C03_refines_set.
Print Assumptions C03_refines_cas.
Print Assumptions C03_refines_delete.
Print Assumptions C03_refines_delete_cas.
Print Assumptions C03_refines_delete_tree.
Print Assumptions C03_refines_lock.
Print Assumptions C03_refines_unlock.
Print Assumptions C03_get_returns_map.
Print Assumptions C03_list_returns_map.
Print Assumptions C03_noop_keeps_modify.
Print Assumptions C03_change_advances_modify.
Print Assumptions C03_create_stable.
Print Assumptions C03_other_keys_untouched.
Print Assumptions C03_lock_counter.
Print Assumptions C03_session_destroy_frame.
Print Assumptions C03_deregister_frame.
Print Assumptions C03_other_commands_frame.
Print Assumptions C03_txn_frame.
Print Assumptions C03_reap_keeps_map.
Print Assumptions C03_example.
