(* Property C19: all proofs, in four files.
     Order.v       keys, the order laws, the stable insertion sort (permutation, sortedness)
     WalkProofs.v  the merge walk equals the set-based specification (any list lengths)
     RoundProofs.v applying the diff: convergence, untouched objects, no writes when equal
     Instances.v   the three instances (ACL objects, config entries, federation states) *)
From Verif Require Export Repl.Order.
From Verif Require Export Repl.WalkProofs.
From Verif Require Export Repl.RoundProofs.
From Verif Require Export Repl.Instances.
