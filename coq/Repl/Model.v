(* Model of one replication round of a secondary datacenter (property C19).

   Anchors: agent/consul/acl_replication.go  (diffACLType, replicateACLType,
   deleteLocalACLType, updateLocalACLType), acl_replication_types.go (the three
   aclTypeReplicators: SortState / LocalMeta / RemoteMeta / FetchUpdated),
   config_replication.go (diffConfigEntries, reconcileLocalConfig, replicateConfig),
   agent/configentry/compare.go (SortSlice, Less, EqualID, SameHash),
   federation_state_replication.go (DiffRemoteAndLocalState, federationStateSort),
   replication.go (IndexReplicator.Replicate).

   The three diff functions are one merge walk over two lists sorted by the
   object's key.  They differ in
     - the key and its order   (ACL: the id string; config entries: kind, then name —
                                the enterprise-meta comparison in between is a no-op in CE;
                                federation states: the datacenter string),
     - whether an empty key is skipped         (ACL only),
     - the content-hash test                   (ACL: bytes.Equal; config: SameHash, where a
                                                zero hash is never "same"; federation states: none),
     - which keys the apply step really writes (config: reconcileLocalConfig skips the
                                                exported-services kind).
   These four are the Section variables below; Model.v instantiates them at the end.

   Where the code is peculiar the model is peculiar the same way: empty ids are
   skipped wherever they are met (and counted), the modify-index test is strict and
   looks at the REMOTE index only, the sort is a stable insertion sort (what
   sort.Slice does for fewer than 13 elements and sort.SliceStable always), duplicates
   are not removed. *)
From Verif Require Import Base.Prelude.

(* Go's [<] on strings: bytewise lexicographic. *)
Fixpoint bytes_ltb (a b : bytes) : bool :=
  match a, b with
  | [], [] => false
  | [], _ :: _ => true
  | _ :: _, [] => false
  | x :: a', y :: b' =>
      if N.ltb x y then true else if N.ltb y x then false else bytes_ltb a' b'
  end.

Definition bytes_is_empty (a : bytes) : bool := match a with [] => true | _ => false end.

Section Repl.
  Context {K H : Type}.
  Variable keqb : K -> K -> bool.        (* localID == remoteID / configentry.EqualID *)
  Variable kltb : K -> K -> bool.        (* localID <  remoteID / configentry.Less    *)
  Variable is_empty : K -> bool.         (* id == ""  (ACL); never for the other two  *)
  Variable same_hash : H -> H -> bool.   (* bytes.Equal / configentry.SameHash / none *)
  Variable applies : K -> bool.          (* the apply step issues a write for this key *)

  (* One object as replication sees it.  [it_body] stands for the whole content (what the
     round is supposed to copy); [it_hash] is the stored content hash the diff looks at;
     [it_local] marks a token of local scope (never listed for replication). *)
  Record item := Item {
    it_id : K; it_mod : N; it_hash : H; it_body : N; it_local : bool }.

  Definition ids (l : list item) : list K := map it_id l.
  Definition live (x : item) : bool := negb (is_empty (it_id x)).

  (* ---- SortState / configentry.SortSlice / federationStateSort ---- *)
  Fixpoint insert (x : item) (l : list item) : list item :=
    match l with
    | [] => [x]
    | y :: l' => if kltb (it_id y) (it_id x) then y :: insert x l' else x :: y :: l'
    end.

  Fixpoint isort (l : list item) : list item :=
    match l with
    | [] => []
    | x :: l' => insert x (isort l')
    end.

  (* ---- the result of a diff ---- *)
  Record diffres := DiffRes {
    d_del : list item;      (* LocalDeletes  (local objects, in walk order)  *)
    d_ups : list item;      (* LocalUpserts  (remote objects, in walk order) *)
    d_lskip : N;            (* LocalSkipped  *)
    d_rskip : N }.          (* RemoteSkipped *)

  Definition d_nil : diffres := DiffRes [] [] 0 0.
  Definition add_del (x : item) (d : diffres) := DiffRes (x :: d_del d) (d_ups d) (d_lskip d) (d_rskip d).
  Definition add_ups (y : item) (d : diffres) := DiffRes (d_del d) (y :: d_ups d) (d_lskip d) (d_rskip d).
  Definition add_lskip (d : diffres) := DiffRes (d_del d) (d_ups d) (N.succ (d_lskip d)) (d_rskip d).
  Definition add_rskip (d : diffres) := DiffRes (d_del d) (d_ups d) (d_lskip d) (N.succ (d_rskip d)).

  (* "remoteMod > lastRemoteIndex && !bytes.Equal(remoteHash, localHash)" *)
  Definition need_update (last : N) (x y : item) : bool :=
    N.ltb last (it_mod y) && negb (same_hash (it_hash x) (it_hash y)).

  (* the two loops after the main loop *)
  Fixpoint tail_local (l : list item) : diffres :=
    match l with
    | [] => d_nil
    | x :: l' => if is_empty (it_id x) then add_lskip (tail_local l') else add_del x (tail_local l')
    end.

  Fixpoint tail_remote (r : list item) : diffres :=
    match r with
    | [] => d_nil
    | y :: r' => if is_empty (it_id y) then add_rskip (tail_remote r') else add_ups y (tail_remote r')
    end.

  (* the main loop of diffACLType / diffConfigEntries / DiffRemoteAndLocalState *)
  Fixpoint walk (last : N) (l : list item) : list item -> diffres :=
    fix walk_r (r : list item) : diffres :=
      match l with
      | [] => tail_remote r
      | x :: l' =>
          match r with
          | [] => tail_local l
          | y :: r' =>
              if is_empty (it_id x) then add_lskip (walk last l' r)
              else if is_empty (it_id y) then add_rskip (walk_r r')
              else if keqb (it_id x) (it_id y) then
                     (if need_update last x y then add_ups y (walk last l' r')
                      else walk last l' r')
              else if kltb (it_id x) (it_id y) then add_del x (walk last l' r)
              else add_ups y (walk_r r')
          end
      end.

  Definition diff (last : N) (local remote : list item) : diffres :=
    walk last (isort local) (isort remote).

  (* ---- applying a diff to the secondary's table ---- *)
  (* The table is keyed by the object's id: a write of an existing id replaces it. *)
  Definition remove_id (k : K) (st : list item) : list item :=
    filter (fun x => negb (keqb (it_id x) k)) st.

  (* the object as stored by the secondary's own log entry: same content, local index *)
  Definition restamp (stamp : N) (y : item) : item :=
    Item (it_id y) stamp (it_hash y) (it_body y) (it_local y).

  Definition upsert (stamp : N) (y : item) (st : list item) : list item :=
    remove_id (it_id y) st ++ [restamp stamp y].

  Definition delete_all (ds : list item) (st : list item) : list item :=
    fold_left (fun s d => remove_id (it_id d) s) ds st.

  Definition upsert_all (stamp : N) (us : list item) (st : list item) : list item :=
    fold_left (fun s y => upsert stamp y s) us st.

  (* the writes really issued (reconcileLocalConfig's "continue" on exported-services) *)
  Definition issued (l : list item) : list item := filter (fun x => applies (it_id x)) l.

  (* deletions first, then upserts *)
  Definition apply_round (stamp : N) (d : diffres) (st : list item) : list item :=
    upsert_all stamp (issued (d_ups d)) (delete_all (issued (d_del d)) st).

  (* what FetchLocal lists: everything but tokens of local scope *)
  Definition view (st : list item) : list item := filter (fun x => negb (it_local x)) st.

  (* "if remoteIndex < lastRemoteIndex { lastRemoteIndex = 0 }" *)
  Definition effective_last (remote_index last : N) : N :=
    if N.ltb remote_index last then 0%N else last.

  (* replicateConfig / IndexReplicator.Replicate: the diff carries the objects to write *)
  Definition round (stamp remote_index last : N) (remote st : list item) : list item :=
    apply_round stamp (diff (effective_last remote_index last) (view st) remote) st.

  (* replicateACLType: the diff carries ids; the objects to upsert are fetched by id
     (FetchUpdated: a batch read, for roles a filter of the list already fetched) *)
  Definition memk (k : K) (ks : list K) : bool := existsb (keqb k) ks.

  Definition fetch_updated (upd_ids : list K) (remote_sorted : list item) : list item :=
    filter (fun y => memk (it_id y) upd_ids) remote_sorted.

  Definition acl_round (stamp remote_index last : N) (remote st : list item) : list item :=
    let d := diff (effective_last remote_index last) (view st) remote in
    let updated := fetch_updated (ids (d_ups d)) (isort remote) in
    upsert_all stamp (issued updated) (delete_all (issued (d_del d)) st).
  (* ---- what the idealised rounds above leave out, modelled where the code was seen to differ ---- *)

  (* (1) Two snapshots of the primary.  The list (ACL.TokenList / PolicyList) and the batch read of the
     objects to upsert (ACL.TokenBatchRead / PolicyBatchRead) are two stale-allowed RPCs that different
     servers of the primary may answer: [batch] is what the second one sees.  [acl_round] is the case
     batch = remote.  (Roles are upserted from the list itself; for policies ensureRemoteConsistent
     rejects an older batch; tokens have no such guard.) *)
  Definition acl_round_two (stamp remote_index last : N) (remote batch st : list item) : list item :=
    let d := diff (effective_last remote_index last) (view st) remote in
    let updated := fetch_updated (ids (d_ups d)) (isort batch) in
    upsert_all stamp (issued updated) (delete_all (issued (d_del d)) st).

  (* (2) Writes the state store refuses.  Policies and roles carry a second unique key, their Name
     (state/acl.go aclPolicySetTxn / aclRoleSetTxn: "A policy with name %q already exists").  The name
     is part of the content: [name_of body].  UpdateLocalBatch is ONE state-store transaction over the
     upserts in id order: the first refused object aborts all of it, the deletions (earlier log
     entries) stay applied, the round returns an error and the replicated index is not advanced. *)
  Variable name_of : N -> option N.

  Definition holds_name (n : N) (x : item) : bool :=
    match name_of (it_body x) with Some m => N.eqb m n | None => false end.

  Definition name_conflict (y : item) (st : list item) : bool :=
    match name_of (it_body y) with
    | None => false
    | Some n => existsb (fun x => negb (keqb (it_id x) (it_id y)) && holds_name n x) st
    end.

  Fixpoint upsert_batch (stamp : N) (us : list item) (st : list item) : option (list item) :=
    match us with
    | [] => Some st
    | y :: us' => if name_conflict y st then None else upsert_batch stamp us' (upsert stamp y st)
    end.

  (* the round as the store lets it happen: (table afterwards, did the round succeed) *)
  Definition acl_round_store (stamp remote_index last : N) (remote st : list item) : list item * bool :=
    let d := diff (effective_last remote_index last) (view st) remote in
    let updated := fetch_updated (ids (d_ups d)) (isort remote) in
    let st1 := delete_all (issued (d_del d)) st in
    match upsert_batch stamp (issued updated) st1 with
    | Some st2 => (st2, true)
    | None => (st1, false)
    end.
End Repl.

Arguments Item {K H}.
Arguments DiffRes {K H}.

(* ------------------------------------------------------------------ instances *)

(* ACL tokens, policies, roles: key = AccessorID / ID, hash = []byte *)
Definition acl_applies (k : bytes) : bool := true.
Definition acl_item := @item bytes bytes.
Definition acl_diff := @diff bytes bytes bytes_eqb bytes_ltb bytes_is_empty bytes_eqb.
Definition acl_round_m := @acl_round bytes bytes bytes_eqb bytes_ltb bytes_is_empty bytes_eqb acl_applies.
Definition acl_round_two_m := @acl_round_two bytes bytes bytes_eqb bytes_ltb bytes_is_empty bytes_eqb acl_applies.
(* the harness keeps the name of a policy / role in bits 20..22 of the content number: 0 = a name derived
   from the id (never shared), k > 0 = the shared name number k *)
Definition acl_name_of (body : N) : option N :=
  let k := ((body / 1048576) mod 8)%N in if N.eqb k 0 then None else Some k.
Definition acl_round_store_m :=
  @acl_round_store bytes bytes bytes_eqb bytes_ltb bytes_is_empty bytes_eqb acl_applies acl_name_of.

(* config entries: key = (kind, name), hash = uint64 *)
Definition ckey := (bytes * bytes)%type.
Definition cfg_eqb (a b : ckey) : bool := bytes_eqb (fst a) (fst b) && bytes_eqb (snd a) (snd b).
(* configentry.Less: kind <, kind >, [enterprise meta: both false in CE], name < *)
Definition cfg_ltb (a b : ckey) : bool :=
  if bytes_ltb (fst a) (fst b) then true
  else if bytes_ltb (fst b) (fst a) then false
  else bytes_ltb (snd a) (snd b).
Definition cfg_is_empty (k : ckey) : bool := false.
(* configentry.SameHash *)
Definition cfg_same_hash (a b : N) : bool :=
  if N.eqb a 0 || N.eqb b 0 then false else N.eqb a b.
Definition exported_services : bytes :=
  [101;120;112;111;114;116;101;100;45;115;101;114;118;105;99;101;115]%N.
Definition cfg_applies (k : ckey) : bool := negb (bytes_eqb (fst k) exported_services).
Definition cfg_item := @item ckey N.
Definition cfg_diff := @diff ckey N cfg_eqb cfg_ltb cfg_is_empty cfg_same_hash.
Definition cfg_round_m := @round ckey N cfg_eqb cfg_ltb cfg_is_empty cfg_same_hash cfg_applies.

(* federation states: key = datacenter, no hash test *)
Definition fed_is_empty (k : bytes) : bool := false.
Definition fed_same_hash (a b : unit) : bool := false.
Definition fed_applies (k : bytes) : bool := true.
Definition fed_item := @item bytes unit.
Definition fed_diff := @diff bytes unit bytes_eqb bytes_ltb fed_is_empty fed_same_hash.
Definition fed_round_m := @round bytes unit bytes_eqb bytes_ltb fed_is_empty fed_same_hash fed_applies.
