(* The sorted merge walk computes the set difference (property C19, C19_walk_is_set_difference).
   All lemmas are by induction on the two lists: no bound on their length. *)
From Verif Require Import Base.Prelude.
From Verif Require Import Repl.Model.
From Verif Require Import Repl.Order.
From Coq Require Import Sorting.Sorted Sorting.Permutation.

Section WalkProofs.
  Context {K H : Type}.
  Variable keqb : K -> K -> bool.
  Variable kltb : K -> K -> bool.
  Variable is_empty : K -> bool.
  Variable same_hash : H -> H -> bool.
  Hypothesis keqb_spec : forall a b, keqb a b = true <-> a = b.
  Hypothesis kltb_irrefl : forall a, kltb a a = false.
  Hypothesis kltb_trans : forall a b c, kltb a b = true -> kltb b c = true -> kltb a c = true.
  Hypothesis kltb_total : forall a b, keqb a b = false -> kltb a b = false -> kltb b a = true.

  Notation item := (@item K H).
  Notation diffres := (@diffres K H).
  Notation isort := (@isort K H kltb).
  Notation live := (@live K H is_empty).
  Notation memk := (@memk K keqb).
  Notation need_update := (@need_update K H same_hash).
  Notation tail_local := (@tail_local K H is_empty).
  Notation tail_remote := (@tail_remote K H is_empty).
  Notation walk := (@walk K H keqb kltb is_empty same_hash).
  Notation diff := (@diff K H keqb kltb is_empty same_hash).
  Notation ile := (@ile K H kltb).
  Notation ilt := (@ilt K H kltb).

  (* ---- the set-based specification ---- *)
  Definition findk (k : K) (l : list item) : option item :=
    find (fun x => keqb (it_id x) k) l.

  (* does the remote object y have to be written, given the local objects L? *)
  Definition upd_needed (last : N) (L : list item) (y : item) : bool :=
    match findk (it_id y) L with
    | None => true
    | Some x => need_update last x y
    end.

  Definition spec_del (L R : list item) : list item :=
    filter (fun x => negb (memk (it_id x) (ids R))) L.

  Definition spec_ups (last : N) (L R : list item) : list item :=
    filter (upd_needed last L) R.

  (* number of objects with an empty id *)
  Definition nempty (l : list item) : N :=
    N.of_nat (List.length (filter (fun x => negb (live x)) l)).

  (* ---- unfolding the nested fixpoint ---- *)
  Lemma walk_nil_l last r : walk last [] r = tail_remote r.
  Proof. destruct r; reflexivity. Qed.

  Lemma walk_nil_r last l : walk last l [] = tail_local l.
  Proof. destruct l; reflexivity. Qed.

  Lemma walk_cons last x l y r :
    walk last (x :: l) (y :: r) =
      if is_empty (it_id x) then add_lskip (walk last l (y :: r))
      else if is_empty (it_id y) then add_rskip (walk last (x :: l) r)
      else if keqb (it_id x) (it_id y) then
             (if need_update last x y then add_ups y (walk last l r) else walk last l r)
      else if kltb (it_id x) (it_id y) then add_del x (walk last l (y :: r))
      else add_ups y (walk last (x :: l) r).
  Proof. reflexivity. Qed.

  (* ---- stage 1: objects with an empty id are only counted ---- *)
  Definition mk (W : diffres) (a b : N) : diffres := DiffRes (d_del W) (d_ups W) a b.

  Lemma nempty_cons x l :
    nempty (x :: l) = if is_empty (it_id x) then N.succ (nempty l) else nempty l.
  Proof.
    unfold nempty, Model.live. cbn [filter]. destruct (is_empty (it_id x)); cbn [negb]; [|reflexivity].
    cbn [List.length]. apply Nat2N.inj_succ.
  Qed.

  Lemma filter_live_cons x l :
    filter live (x :: l) = if is_empty (it_id x) then filter live l else x :: filter live l.
  Proof. cbn [filter]. unfold Model.live at 1. destruct (is_empty (it_id x)); reflexivity. Qed.

  Lemma tail_local_live l :
    tail_local l = mk (tail_local (filter live l)) (nempty l) 0.
  Proof.
    induction l as [|x l IH]; [reflexivity|].
    rewrite filter_live_cons, nempty_cons. cbn [Model.tail_local].
    destruct (is_empty (it_id x)) eqn:E.
    - rewrite IH. reflexivity.
    - cbn [Model.tail_local]. rewrite E, IH. reflexivity.
  Qed.

  Lemma tail_remote_live r :
    tail_remote r = mk (tail_remote (filter live r)) 0 (nempty r).
  Proof.
    induction r as [|y r IH]; [reflexivity|].
    rewrite filter_live_cons, nempty_cons. cbn [Model.tail_remote].
    destruct (is_empty (it_id y)) eqn:E.
    - rewrite IH. reflexivity.
    - cbn [Model.tail_remote]. rewrite E, IH. reflexivity.
  Qed.

  Lemma walk_live last l r :
    walk last l r = mk (walk last (filter live l) (filter live r)) (nempty l) (nempty r).
  Proof.
    revert r. induction l as [|x l IHl]; intros r.
    - rewrite walk_nil_l. cbn [filter]. rewrite walk_nil_l. apply tail_remote_live.
    - induction r as [|y r IHr].
      + rewrite walk_nil_r. cbn [filter]. rewrite walk_nil_r. apply tail_local_live.
      + rewrite walk_cons.
        destruct (is_empty (it_id x)) eqn:Ex.
        * rewrite IHl. rewrite (filter_live_cons x l), Ex, (nempty_cons x l), Ex. reflexivity.
        * destruct (is_empty (it_id y)) eqn:Ey.
          -- rewrite IHr. rewrite (filter_live_cons y r), Ey, (nempty_cons y r), Ey. reflexivity.
          -- rewrite (filter_live_cons x l), Ex, (filter_live_cons y r), Ey.
             rewrite walk_cons, Ex, Ey. rewrite (nempty_cons x l), Ex, (nempty_cons y r), Ey.
             destruct (keqb (it_id x) (it_id y)).
             ++ rewrite IHl. destruct (need_update last x y); reflexivity.
             ++ destruct (kltb (it_id x) (it_id y)).
                ** rewrite IHl. rewrite (filter_live_cons y r), Ey, (nempty_cons y r), Ey. reflexivity.
                ** rewrite IHr. rewrite (filter_live_cons x l), Ex, (nempty_cons x l), Ex. reflexivity.
  Qed.

  (* ---- what the walk returns is taken from its inputs (no hypothesis at all) ---- *)
  Lemma tail_local_sub l : forall x, In x (d_del (tail_local l)) -> In x l /\ live x = true.
  Proof.
    induction l as [|z l IH]; cbn [Model.tail_local]; intros x Hx; [contradiction|].
    destruct (is_empty (it_id z)) eqn:E; cbn in Hx.
    - destruct (IH x Hx). split; [right|]; assumption.
    - destruct Hx as [Hx|Hx].
      + subst. split; [left; reflexivity|]. unfold Model.live. rewrite E. reflexivity.
      + destruct (IH x Hx). split; [right|]; assumption.
  Qed.

  Lemma tail_local_ups l : d_ups (tail_local l) = [].
  Proof. induction l as [|z l IH]; cbn [Model.tail_local]; [reflexivity|]. destruct (is_empty (it_id z)); exact IH. Qed.

  Lemma tail_remote_sub r : forall y, In y (d_ups (tail_remote r)) -> In y r /\ live y = true.
  Proof.
    induction r as [|z r IH]; cbn [Model.tail_remote]; intros y Hy; [contradiction|].
    destruct (is_empty (it_id z)) eqn:E; cbn in Hy.
    - destruct (IH y Hy). split; [right|]; assumption.
    - destruct Hy as [Hy|Hy].
      + subst. split; [left; reflexivity|]. unfold Model.live. rewrite E. reflexivity.
      + destruct (IH y Hy). split; [right|]; assumption.
  Qed.

  Lemma tail_remote_del r : d_del (tail_remote r) = [].
  Proof. induction r as [|z r IH]; cbn [Model.tail_remote]; [reflexivity|]. destruct (is_empty (it_id z)); exact IH. Qed.

  Lemma walk_sub last l r :
    (forall x, In x (d_del (walk last l r)) -> In x l /\ live x = true) /\
    (forall y, In y (d_ups (walk last l r)) -> In y r /\ live y = true).
  Proof.
    revert r. induction l as [|x l IHl]; intros r.
    - rewrite walk_nil_l. split.
      + rewrite tail_remote_del. intros ? [].
      + apply tail_remote_sub.
    - induction r as [|y r IHr].
      + rewrite walk_nil_r. split.
        * apply tail_local_sub.
        * rewrite tail_local_ups. intros ? [].
      + rewrite walk_cons.
        destruct (IHl (y :: r)) as [Dl Ul]. destruct (IHl r) as [Dl' Ul']. destruct IHr as [Dr Ur].
        assert (Hlive : forall z : item, is_empty (it_id z) = false -> live z = true)
          by (intros z Hz; unfold Model.live; rewrite Hz; reflexivity).
        destruct (is_empty (it_id x)) eqn:Ex; [|destruct (is_empty (it_id y)) eqn:Ey;
          [|destruct (keqb (it_id x) (it_id y)); [destruct (need_update last x y)|destruct (kltb (it_id x) (it_id y))]]];
          cbn [d_del d_ups add_lskip add_rskip add_del add_ups]; split; intros z Hz;
          repeat match goal with
          | Hz : In _ (_ :: _) |- _ => destruct Hz as [Hz|Hz]; [subst; split; [left; reflexivity|auto]|]
          end;
          first [ destruct (Dl _ Hz); split; [right|]; assumption
                | destruct (Ul _ Hz); split; assumption
                | destruct (Dl' _ Hz); split; [right|]; assumption
                | destruct (Ul' _ Hz); split; [right|]; assumption
                | destruct (Dr _ Hz); split; assumption
                | destruct (Ur _ Hz); split; [right|]; assumption ].
  Qed.

  (* ---- stage 2: live, strictly sorted lists ---- *)
  Lemma lt_all_not_mem k (l : list item) :
    Forall (fun z => kltb k (it_id z) = true) l -> memk k (ids l) = false.
  Proof.
    induction 1 as [|z l Hz _ IH]; [reflexivity|].
    unfold Model.memk, ids in *. cbn [map existsb]. rewrite IH.
    rewrite (kltb_keqb keqb kltb keqb_spec kltb_irrefl _ _ Hz). reflexivity.
  Qed.

  Lemma lt_all_find_none k (l : list item) :
    Forall (fun z => kltb k (it_id z) = true) l -> findk k l = None.
  Proof.
    induction 1 as [|z l Hz _ IH]; [reflexivity|].
    unfold findk in *. cbn [find]. rewrite (keqb_sym keqb keqb_spec).
    rewrite (kltb_keqb keqb kltb keqb_spec kltb_irrefl _ _ Hz). exact IH.
  Qed.

  Lemma all_live_tail_local l :
    Forall (fun x => live x = true) l -> tail_local l = DiffRes l [] 0 0.
  Proof.
    induction 1 as [|x l Hx _ IH]; [reflexivity|].
    cbn [Model.tail_local]. unfold Model.live in Hx. apply negb_true_iff in Hx. rewrite Hx, IH. reflexivity.
  Qed.

  Lemma all_live_tail_remote r :
    Forall (fun x => live x = true) r -> tail_remote r = DiffRes [] r 0 0.
  Proof.
    induction 1 as [|x l Hx _ IH]; [reflexivity|].
    cbn [Model.tail_remote]. unfold Model.live in Hx. apply negb_true_iff in Hx. rewrite Hx, IH. reflexivity.
  Qed.

  Lemma walk_sorted last l r :
    Forall (fun x => live x = true) l -> Forall (fun x => live x = true) r ->
    StronglySorted ilt l -> StronglySorted ilt r ->
    d_del (walk last l r) = spec_del l r /\ d_ups (walk last l r) = spec_ups last l r.
  Proof.
    revert r. induction l as [|x l IHl]; intros r Ll Lr Sl Sr.
    - rewrite walk_nil_l, (all_live_tail_remote r Lr). cbn [d_del d_ups]. split; [reflexivity|].
      unfold spec_ups, upd_needed, findk. cbn [find]. symmetry. apply filter_true.
    - induction r as [|y r IHr].
      + rewrite walk_nil_r, (all_live_tail_local _ Ll). cbn [d_del d_ups]. split; [|reflexivity].
        unfold spec_del. cbn [ids map Model.memk existsb negb]. symmetry. apply filter_true.
      + rewrite walk_cons.
        pose proof (Forall_inv Ll) as Lx. pose proof (Forall_inv_tail Ll) as Ll'.
        pose proof (Forall_inv Lr) as Ly. pose proof (Forall_inv_tail Lr) as Lr'.
        unfold Model.live in Lx, Ly. apply negb_true_iff in Lx, Ly. rewrite Lx, Ly.
        apply StronglySorted_inv in Sl as [Sl' Hxl]. apply StronglySorted_inv in Sr as [Sr' Hyr].
        assert (Sl : StronglySorted ilt (x :: l)) by (constructor; assumption).
        assert (Sr : StronglySorted ilt (y :: r)) by (constructor; assumption).
        unfold Order.ilt in Hxl, Hyr.
        destruct (keqb (it_id x) (it_id y)) eqn:Exy.
        * (* same id: both advance *)
          apply keqb_spec in Exy.
          destruct (IHl r Ll' Lr' Sl' Sr') as [Hd Hu].
          assert (Hdel : spec_del (x :: l) (y :: r) = spec_del l r).
          { unfold spec_del. cbn [filter ids map Model.memk existsb].
            rewrite Exy, (keqb_refl keqb keqb_spec). cbn [orb negb].
            apply filter_ext_in. intros z Hz. rewrite Forall_forall in Hxl.
            rewrite <- Exy. rewrite (keqb_sym keqb keqb_spec).
            rewrite (kltb_keqb keqb kltb keqb_spec kltb_irrefl _ _ (Hxl z Hz)). reflexivity. }
          assert (Hups : spec_ups last (x :: l) (y :: r) =
                         (if need_update last x y then [y] else []) ++ spec_ups last l r).
          { unfold spec_ups. cbn [filter]. unfold upd_needed at 1, findk. cbn [find].
            rewrite Exy, (keqb_refl keqb keqb_spec).
            replace (filter (upd_needed last (x :: l)) r) with (filter (upd_needed last l) r).
            - destruct (need_update last x y); reflexivity.
            - apply filter_ext_in. intros z Hz. rewrite Forall_forall in Hyr.
              unfold upd_needed, findk. cbn [find]. rewrite Exy.
              rewrite (kltb_keqb keqb kltb keqb_spec kltb_irrefl _ _ (Hyr z Hz)). reflexivity. }
          rewrite Hdel, Hups.
          destruct (need_update last x y); cbn [d_del d_ups add_ups app]; rewrite ?Hd, ?Hu; split; reflexivity.
        * destruct (kltb (it_id x) (it_id y)) eqn:Lxy.
          -- (* local only: delete *)
             destruct (IHl (y :: r) Ll' Lr Sl' Sr) as [Hd Hu].
             assert (Hxr : Forall (fun z => kltb (it_id x) (it_id z) = true) (y :: r)).
             { constructor; [exact Lxy|]. eapply Forall_impl; [|exact Hyr].
               intros z Hz. eapply kltb_trans; eassumption. }
             cbn [d_del d_ups add_del]. rewrite Hd, Hu. split.
             ++ unfold spec_del at 2. cbn [filter]. rewrite (lt_all_not_mem _ _ Hxr). reflexivity.
             ++ unfold spec_ups. apply filter_ext_in. intros z Hz.
                unfold upd_needed, findk. cbn [find]. rewrite Forall_forall in Hxr.
                rewrite (kltb_keqb keqb kltb keqb_spec kltb_irrefl _ _ (Hxr z Hz)). reflexivity.
          -- (* remote only: upsert *)
             pose proof (kltb_total _ _ Exy Lxy) as Lyx.
             destruct (IHr Lr' Sr') as [Hd Hu].
             assert (Hyl : Forall (fun z => kltb (it_id y) (it_id z) = true) (x :: l)).
             { constructor; [exact Lyx|]. eapply Forall_impl; [|exact Hxl].
               intros z Hz. eapply kltb_trans; eassumption. }
             cbn [d_del d_ups add_ups]. rewrite Hd, Hu. split.
             ++ unfold spec_del. apply filter_ext_in. intros z Hz.
                cbn [ids map Model.memk existsb]. rewrite Forall_forall in Hyl.
                rewrite (keqb_sym keqb keqb_spec).
                rewrite (kltb_keqb keqb kltb keqb_spec kltb_irrefl _ _ (Hyl z Hz)). reflexivity.
             ++ unfold spec_ups at 2. cbn [filter]. unfold upd_needed at 1.
                rewrite (lt_all_find_none _ _ Hyl). reflexivity.
  Qed.

  (* ---- stage 3: any two lists, through the sort ---- *)
  Lemma memk_perm k (l l' : list K) : Permutation l l' -> memk k l = memk k l'.
  Proof.
    intros Hp. destruct (memk k l') eqn:E.
    - apply (memk_In keqb keqb_spec). apply (memk_In keqb keqb_spec) in E.
      eapply Permutation_in; [apply Permutation_sym; exact Hp|exact E].
    - apply (memk_false keqb keqb_spec). apply (memk_false keqb keqb_spec) in E.
      intros Hin. apply E. eapply Permutation_in; eassumption.
  Qed.

  Lemma findk_some k l x : findk k l = Some x -> In x l /\ it_id x = k.
  Proof.
    unfold findk. intros Hf. apply find_some in Hf as [Hin Heq]. apply keqb_spec in Heq. split; assumption.
  Qed.

  Lemma findk_none k l : findk k l = None -> ~ In k (ids l).
  Proof.
    unfold findk. intros Hf Hin. apply in_map_iff in Hin as [z [Hz Hin]].
    pose proof (find_none _ _ Hf z Hin) as Hn. cbn in Hn. rewrite Hz, (keqb_refl keqb keqb_spec) in Hn. discriminate.
  Qed.

  Lemma findk_in (l : list item) x :
    NoDup (ids l) -> In x l -> findk (it_id x) l = Some x.
  Proof.
    intros Hnd Hin. destruct (findk (it_id x) l) as [z|] eqn:E.
    - apply findk_some in E as [Hz Heq]. f_equal. eapply nodup_ids_inj; eassumption.
    - apply findk_none in E. exfalso. apply E. apply in_map; exact Hin.
  Qed.

  Lemma findk_perm k (l l' : list item) :
    NoDup (ids l) -> Permutation l l' -> findk k l = findk k l'.
  Proof.
    intros Hnd Hp.
    assert (Hnd' : NoDup (ids l')) by (eapply Permutation_NoDup; [apply Permutation_map; exact Hp|exact Hnd]).
    destruct (findk k l) as [x|] eqn:E.
    - apply findk_some in E as [Hin Heq]. subst k. symmetry. apply findk_in; [exact Hnd'|].
      eapply Permutation_in; eassumption.
    - destruct (findk k l') as [x'|] eqn:E'; [|reflexivity].
      apply findk_some in E' as [Hin Heq]. apply findk_none in E. exfalso. apply E.
      subst k. apply in_map. eapply Permutation_in; [apply Permutation_sym; exact Hp|exact Hin].
  Qed.

  Lemma nempty_perm l l' : Permutation l l' -> nempty l = nempty l'.
  Proof.
    intros Hp. unfold nempty. f_equal. apply Permutation_length. apply Permutation_filter; exact Hp.
  Qed.

  Lemma all_live_filter l : Forall (fun x => live x = true) (filter live l).
  Proof. apply Forall_forall. intros x Hx. apply filter_In in Hx as [_ Hx]. exact Hx. Qed.

  Lemma live_sorted_strict l :
    NoDup (ids (filter live l)) -> StronglySorted ilt (filter live (isort l)).
  Proof.
    intros Hnd. apply (sorted_nodup_strict keqb kltb keqb_spec kltb_total).
    - apply StronglySorted_filter. apply (isort_sorted keqb kltb keqb_spec kltb_irrefl kltb_trans kltb_total).
    - eapply Permutation_NoDup; [|exact Hnd]. apply Permutation_map. apply Permutation_sym.
      apply Permutation_filter. apply isort_perm.
  Qed.

  (* The merge walk over the sorted lists equals the set-based specification:
       deletions = the live local objects whose id no live remote object has,
       upserts   = the live remote objects that are new, or newer than [last] with another hash,
     both in key order; objects with an empty id are only counted. *)
  Theorem walk_is_set_difference last local remote :
    NoDup (ids (filter live local)) -> NoDup (ids (filter live remote)) ->
    diff last local remote =
      DiffRes (spec_del (filter live (isort local)) (filter live remote))
              (spec_ups last (filter live local) (filter live (isort remote)))
              (nempty local) (nempty remote).
  Proof.
    intros Hl Hr. unfold Model.diff. rewrite walk_live. unfold mk.
    destruct (walk_sorted last (filter live (isort local)) (filter live (isort remote)))
      as [Hd Hu]; try apply all_live_filter; try (apply live_sorted_strict; assumption).
    rewrite Hd, Hu. f_equal.
    - unfold spec_del. apply filter_ext. intros x. f_equal. apply memk_perm.
      apply Permutation_map. apply Permutation_filter. apply isort_perm.
    - unfold spec_ups. apply filter_ext. intros y. unfold upd_needed.
      rewrite (findk_perm (it_id y) (filter live local) (filter live (isort local))); [reflexivity|exact Hl|].
      apply Permutation_filter. apply Permutation_sym. apply isort_perm.
    - apply nempty_perm. apply isort_perm.
    - apply nempty_perm. apply isort_perm.
  Qed.

  (* membership form of the same statement *)
  Lemma in_del_iff last local remote x :
    NoDup (ids (filter live local)) -> NoDup (ids (filter live remote)) ->
    In x (d_del (diff last local remote)) <->
    In x (filter live local) /\ ~ In (it_id x) (ids (filter live remote)).
  Proof.
    intros Hl Hr. rewrite (walk_is_set_difference last local remote Hl Hr). cbn [d_del].
    unfold spec_del. rewrite filter_In, negb_true_iff, (memk_false keqb keqb_spec).
    split; intros [Hin Hn]; (split; [|exact Hn]).
    - eapply Permutation_in; [|exact Hin]. apply Permutation_filter. apply isort_perm.
    - eapply Permutation_in; [|exact Hin]. apply Permutation_filter. apply Permutation_sym. apply isort_perm.
  Qed.

  Lemma in_ups_iff last local remote y :
    NoDup (ids (filter live local)) -> NoDup (ids (filter live remote)) ->
    In y (d_ups (diff last local remote)) <->
    In y (filter live remote) /\ upd_needed last (filter live local) y = true.
  Proof.
    intros Hl Hr. rewrite (walk_is_set_difference last local remote Hl Hr). cbn [d_ups].
    unfold spec_ups. rewrite filter_In.
    split; intros [Hin Hn]; (split; [|exact Hn]).
    - eapply Permutation_in; [|exact Hin]. apply Permutation_filter. apply isort_perm.
    - eapply Permutation_in; [|exact Hin]. apply Permutation_filter. apply Permutation_sym. apply isort_perm.
  Qed.

  (* without any hypothesis: the diff only names live objects of its inputs *)
  Lemma diff_sub last local remote :
    (forall x, In x (d_del (diff last local remote)) -> In x local /\ live x = true) /\
    (forall y, In y (d_ups (diff last local remote)) -> In y remote /\ live y = true).
  Proof.
    unfold Model.diff. destruct (walk_sub last (isort local) (isort remote)) as [Hd Hu]. split.
    - intros x Hx. destruct (Hd x Hx) as [Hin Hl]. split; [|exact Hl].
      eapply Permutation_in; [apply isort_perm|exact Hin].
    - intros y Hy. destruct (Hu y Hy) as [Hin Hl]. split; [|exact Hl].
      eapply Permutation_in; [apply isort_perm|exact Hin].
  Qed.

  Lemma diff_skips last local remote :
    d_lskip (diff last local remote) = nempty local /\ d_rskip (diff last local remote) = nempty remote.
  Proof.
    unfold Model.diff. rewrite walk_live. cbn [mk d_lskip d_rskip]. split; apply nempty_perm; apply isort_perm.
  Qed.
End WalkProofs.
