(* Keys, their order, and the sort used by the replication diff (property C19).
   Everything is proved for an arbitrary key type with a decidable equality and a
   strict total order; Instances.v discharges these laws for Go strings (byte lists)
   and for (kind, name) pairs. *)
From Verif Require Import Base.Prelude.
From Verif Require Import Repl.Model.
From Coq Require Import Sorting.Sorted Sorting.Permutation.

Section Order.
  Context {K H : Type}.
  Variable keqb : K -> K -> bool.
  Variable kltb : K -> K -> bool.
  Hypothesis keqb_spec : forall a b, keqb a b = true <-> a = b.
  Hypothesis kltb_irrefl : forall a, kltb a a = false.
  Hypothesis kltb_trans : forall a b c, kltb a b = true -> kltb b c = true -> kltb a c = true.
  Hypothesis kltb_total : forall a b, keqb a b = false -> kltb a b = false -> kltb b a = true.

  Notation item := (@item K H).
  Notation isort := (@isort K H kltb).
  Notation insert := (@insert K H kltb).
  Notation memk := (@memk K keqb).

  Lemma keqb_refl a : keqb a a = true.
  Proof. apply keqb_spec; reflexivity. Qed.

  Lemma keqb_false a b : keqb a b = false <-> a <> b.
  Proof.
    split.
    - intros Hf Heq. apply keqb_spec in Heq. congruence.
    - intros Hn. destruct (keqb a b) eqn:E; [|reflexivity]. apply keqb_spec in E. contradiction.
  Qed.

  Lemma keqb_sym a b : keqb a b = keqb b a.
  Proof.
    destruct (keqb a b) eqn:E1, (keqb b a) eqn:E2; try reflexivity.
    - apply keqb_spec in E1. subst. rewrite keqb_refl in E2. discriminate.
    - apply keqb_spec in E2. subst. rewrite keqb_refl in E1. discriminate.
  Qed.

  Lemma kltb_neq a b : kltb a b = true -> a <> b.
  Proof. intros Hlt Heq. subst. rewrite kltb_irrefl in Hlt. discriminate. Qed.

  Lemma kltb_asym a b : kltb a b = true -> kltb b a = false.
  Proof.
    intros Hab. destruct (kltb b a) eqn:E; [|reflexivity].
    pose proof (kltb_trans _ _ _ Hab E) as Haa. rewrite kltb_irrefl in Haa. discriminate.
  Qed.

  Lemma kltb_keqb a b : kltb a b = true -> keqb a b = false.
  Proof. intros Hlt. apply keqb_false. apply kltb_neq; assumption. Qed.

  (* a <= b  as  not (b < a) *)
  Lemma kle_trans a b c : kltb b a = false -> kltb c b = false -> kltb c a = false.
  Proof.
    intros Hab Hbc. destruct (kltb c a) eqn:Hca; [|reflexivity].
    destruct (keqb a b) eqn:Eab.
    - apply keqb_spec in Eab. subst. congruence.
    - destruct (kltb a b) eqn:Lab.
      + pose proof (kltb_trans _ _ _ Hca Lab). congruence.
      + pose proof (kltb_total _ _ Eab Lab). congruence.
  Qed.

  Lemma memk_In k ks : memk k ks = true <-> In k ks.
  Proof.
    unfold Model.memk. rewrite existsb_exists. split.
    - intros [x [Hin Heq]]. apply keqb_spec in Heq. subst. assumption.
    - intros Hin. exists k. split; [assumption|apply keqb_refl].
  Qed.

  Lemma memk_false k ks : memk k ks = false <-> ~ In k ks.
  Proof.
    split.
    - intros Hf Hin. apply memk_In in Hin. congruence.
    - intros Hn. destruct (memk k ks) eqn:E; [|reflexivity]. apply memk_In in E. contradiction.
  Qed.

  (* ---- the sort ---- *)
  Definition ile (x y : item) : Prop := kltb (it_id y) (it_id x) = false.
  Definition ilt (x y : item) : Prop := kltb (it_id x) (it_id y) = true.

  Lemma insert_perm x l : Permutation (insert x l) (x :: l).
  Proof.
    induction l as [|y l IH]; cbn [Model.insert].
    - apply Permutation_refl.
    - destruct (kltb (it_id y) (it_id x)).
      + eapply perm_trans; [apply perm_skip; exact IH|apply perm_swap].
      + apply Permutation_refl.
  Qed.

  Lemma isort_perm l : Permutation (isort l) l.
  Proof.
    induction l as [|x l IH]; cbn [Model.isort].
    - apply perm_nil.
    - eapply perm_trans; [apply insert_perm|apply perm_skip; exact IH].
  Qed.

  Lemma insert_sorted x l : StronglySorted ile l -> StronglySorted ile (insert x l).
  Proof.
    induction l as [|y l IH]; intros Hs; cbn [Model.insert].
    - constructor; constructor.
    - apply StronglySorted_inv in Hs as [Hs Hall].
      destruct (kltb (it_id y) (it_id x)) eqn:E.
      + constructor; [apply IH; exact Hs|].
        eapply Permutation_Forall; [apply Permutation_sym, insert_perm|].
        constructor; [|exact Hall]. unfold ile. apply kltb_asym; exact E.
      + constructor; [constructor; assumption|].
        constructor; [exact E|].
        eapply Forall_impl; [|exact Hall]. intros z Hz. unfold ile in *.
        eapply kle_trans; eassumption.
  Qed.

  Lemma isort_sorted l : StronglySorted ile (isort l).
  Proof.
    induction l as [|x l IH]; cbn [Model.isort]; [constructor|apply insert_sorted; exact IH].
  Qed.

  Lemma StronglySorted_filter {A} (R : A -> A -> Prop) (p : A -> bool) l :
    StronglySorted R l -> StronglySorted R (filter p l).
  Proof.
    induction l as [|x l IH]; intros Hs; cbn [filter]; [constructor|].
    apply StronglySorted_inv in Hs as [Hs Hall].
    destruct (p x); [|apply IH; exact Hs].
    constructor; [apply IH; exact Hs|].
    apply Forall_forall. intros z Hz. apply filter_In in Hz as [Hz _].
    rewrite Forall_forall in Hall. apply Hall; exact Hz.
  Qed.

  Lemma sorted_nodup_strict (l : list item) :
    StronglySorted ile l -> NoDup (ids l) -> StronglySorted ilt l.
  Proof.
    induction l as [|x l IH]; intros Hs Hnd; [constructor|].
    apply StronglySorted_inv in Hs as [Hs Hall]. cbn [ids map] in Hnd.
    apply NoDup_cons_iff in Hnd as [Hnin Hnd].
    constructor; [apply IH; assumption|].
    apply Forall_forall. intros z Hz. rewrite Forall_forall in Hall. specialize (Hall z Hz).
    unfold ile in Hall. unfold ilt.
    destruct (kltb (it_id x) (it_id z)) eqn:E; [reflexivity|].
    assert (Hne : keqb (it_id z) (it_id x) = false).
    { apply keqb_false. intros Heq. apply Hnin. rewrite <- Heq. apply in_map; exact Hz. }
    pose proof (kltb_total _ _ Hne Hall). congruence.
  Qed.

  (* ---- small list facts used later ---- *)
  Lemma Permutation_filter {A} (p : A -> bool) l l' :
    Permutation l l' -> Permutation (filter p l) (filter p l').
  Proof.
    induction 1; cbn [filter].
    - apply perm_nil.
    - destruct (p x); [apply perm_skip|]; assumption.
    - destruct (p x), (p y); try apply Permutation_refl. apply perm_swap.
    - eapply perm_trans; eassumption.
  Qed.

  Lemma NoDup_ids_filter (p : item -> bool) (l : list item) :
    NoDup (ids l) -> NoDup (ids (filter p l)).
  Proof.
    induction l as [|x l IH]; intros Hnd; cbn [filter ids map] in *; [constructor|].
    apply NoDup_cons_iff in Hnd as [Hnin Hnd].
    destruct (p x); [|apply IH; exact Hnd].
    cbn [map]. constructor; [|apply IH; exact Hnd].
    intros Hin. apply Hnin. apply in_map_iff in Hin as [z [Hz Hin]].
    apply filter_In in Hin as [Hin _]. apply in_map_iff. exists z. split; assumption.
  Qed.

  Lemma nodup_ids_inj (l : list item) x y :
    NoDup (ids l) -> In x l -> In y l -> it_id x = it_id y -> x = y.
  Proof.
    induction l as [|z l IH]; intros Hnd Hx Hy Heq; [contradiction|].
    cbn [ids map] in Hnd. apply NoDup_cons_iff in Hnd as [Hnin Hnd].
    destruct Hx as [Hx|Hx], Hy as [Hy|Hy]; subst.
    - reflexivity.
    - exfalso. apply Hnin. rewrite Heq. apply in_map; exact Hy.
    - exfalso. apply Hnin. rewrite <- Heq. apply in_map; exact Hx.
    - apply IH; assumption.
  Qed.

  Lemma filter_nil_iff {A} (p : A -> bool) l :
    filter p l = [] <-> (forall x, In x l -> p x = false).
  Proof.
    induction l as [|x l IH]; cbn [filter]; split.
    - intros _ y [].
    - reflexivity.
    - destruct (p x) eqn:E; [discriminate|]. intros Hn y [Hy|Hy]; [subst; exact E|].
      apply IH; assumption.
    - intros Hall. rewrite (Hall x (or_introl eq_refl)). apply IH. intros y Hy. apply Hall. right; exact Hy.
  Qed.

  Lemma filter_true {A} (l : list A) : filter (fun _ => true) l = l.
  Proof. induction l as [|x l IH]; cbn [filter]; [reflexivity|rewrite IH; reflexivity]. Qed.

  Lemma filter_and {A} (p q : A -> bool) l :
    filter p (filter q l) = filter (fun x => q x && p x) l.
  Proof.
    induction l as [|x l IH]; cbn [filter]; [reflexivity|].
    destruct (q x); cbn [filter andb]; [destruct (p x)|]; rewrite IH; reflexivity.
  Qed.

  Lemma filter_filter_in {A} (p q : A -> bool) l :
    (forall x, In x l -> p x = true -> q x = true) -> filter p (filter q l) = filter p l.
  Proof.
    intros Himp. rewrite filter_and. apply filter_ext_in. intros x Hx.
    destruct (p x) eqn:E.
    - rewrite (Himp x Hx E). reflexivity.
    - apply andb_false_r.
  Qed.
End Order.
