(* Applying the diff: one round makes the replicated set equal to the primary's, leaves
   everything else alone, and an equal secondary is not written to (property C19). *)
From Verif Require Import Base.Prelude.
From Verif Require Import Repl.Model.
From Verif Require Import Repl.Order.
From Verif Require Import Repl.WalkProofs.
From Coq Require Import Sorting.Sorted Sorting.Permutation.

Section RoundProofs.
  Context {K H : Type}.
  Variable keqb : K -> K -> bool.
  Variable kltb : K -> K -> bool.
  Variable is_empty : K -> bool.
  Variable same_hash : H -> H -> bool.
  Variable applies : K -> bool.
  Hypothesis keqb_spec : forall a b, keqb a b = true <-> a = b.
  Hypothesis kltb_irrefl : forall a, kltb a a = false.
  Hypothesis kltb_trans : forall a b c, kltb a b = true -> kltb b c = true -> kltb a c = true.
  Hypothesis kltb_total : forall a b, keqb a b = false -> kltb a b = false -> kltb b a = true.

  Notation item := (@item K H).
  Notation isort := (@isort K H kltb).
  Notation live := (@live K H is_empty).
  Notation memk := (@memk K keqb).
  Notation need_update := (@need_update K H same_hash).
  Notation diff := (@diff K H keqb kltb is_empty same_hash).
  Notation remove_id := (@remove_id K H keqb).
  Notation upsert := (@upsert K H keqb).
  Notation delete_all := (@delete_all K H keqb).
  Notation upsert_all := (@upsert_all K H keqb).
  Notation issued := (@issued K H applies).
  Notation apply_round := (@apply_round K H keqb applies).
  Notation round := (@round K H keqb kltb is_empty same_hash applies).
  Notation acl_round := (@acl_round K H keqb kltb is_empty same_hash applies).
  Notation fetch_updated := (@fetch_updated K H keqb).
  Notation findk := (@findk K H keqb).
  Notation upd_needed := (@upd_needed K H keqb same_hash).

  (* ---- vocabulary of the property ---- *)

  (* the objects replication is responsible for: a usable id, a kind the apply step writes,
     not a token of local scope *)
  Definition repl (l : list item) : list item :=
    filter (fun x => live x && applies (it_id x) && negb (it_local x)) l.

  (* everything else in the secondary's table *)
  Definition untouchable (x : item) : bool :=
    it_local x || is_empty (it_id x) || negb (applies (it_id x)).

  Definition content (l : list item) : list (K * N) := map (fun x => (it_id x, it_body x)) l.

  (* "last is consistent with what the secondary has applied": whatever the primary has not
     modified after [last] is already there with the primary's content *)
  Definition consistent (last : N) (L R : list item) : Prop :=
    forall x y, In x L -> In y R -> it_id x = it_id y -> (it_mod y <= last)%N -> it_body x = it_body y.

  (* equal hashes mean equal content (no collision between two versions of one object) *)
  Definition hash_sound (L R : list item) : Prop :=
    forall x y, In x L -> In y R -> it_id x = it_id y ->
      same_hash (it_hash x) (it_hash y) = true -> it_body x = it_body y.

  (* equal content is recognised: by the hash test or because the primary has not touched it since [last] *)
  Definition hash_complete (last : N) (L R : list item) : Prop :=
    forall x y, In x L -> In y R -> it_id x = it_id y -> it_body x = it_body y ->
      need_update last x y = false.

  Definition all_global (R : list item) : Prop := forall y, In y R -> it_local y = false.

  (* ---- membership after deletions and upserts ---- *)
  Lemma In_remove_id k st z : In z (remove_id k st) <-> In z st /\ it_id z <> k.
  Proof.
    unfold Model.remove_id. rewrite filter_In, negb_true_iff, (keqb_false keqb keqb_spec). reflexivity.
  Qed.

  Lemma In_delete_all ds : forall st z,
    In z (delete_all ds st) <-> In z st /\ ~ In (it_id z) (ids ds).
  Proof.
    induction ds as [|d ds IH]; intros st z; cbn [Model.delete_all fold_left ids map].
    - split; [intros Hz; split; [exact Hz|intros []]|intros [Hz _]; exact Hz].
    - fold (delete_all ds (remove_id (it_id d) st)). rewrite IH, In_remove_id. fold (ids ds).
      cbn [In]. split.
      + intros [[Hz Hne] Hn]. split; [exact Hz|]. intros [Heq|Hin]; [apply Hne; symmetry; exact Heq|apply Hn; exact Hin].
      + intros [Hz Hn]. repeat split; [exact Hz| |].
        * intros Heq. apply Hn. left. symmetry; exact Heq.
        * intros Hin. apply Hn. right; exact Hin.
  Qed.

  Lemma In_upsert stamp y st z :
    In z (upsert stamp y st) <-> (In z st /\ it_id z <> it_id y) \/ z = restamp stamp y.
  Proof.
    unfold Model.upsert. rewrite in_app_iff, In_remove_id. cbn [In]. split.
    - intros [Hz|[Hz|[]]]; [left; exact Hz|right; symmetry; exact Hz].
    - intros [Hz|Hz]; [left; exact Hz|right; left; symmetry; exact Hz].
  Qed.

  Lemma In_upsert_all stamp us : forall st z,
    NoDup (ids us) ->
    (In z (upsert_all stamp us st) <->
     (In z st /\ ~ In (it_id z) (ids us)) \/ (exists y, In y us /\ z = restamp stamp y)).
  Proof.
    induction us as [|u us IH]; intros st z Hnd; cbn [Model.upsert_all fold_left ids map].
    - split.
      + intros Hz. left. split; [exact Hz|intros []].
      + intros [[Hz _]|[y [[] _]]]. exact Hz.
    - fold (upsert_all stamp us (upsert stamp u st)). fold (ids us).
      cbn [ids map] in Hnd. apply NoDup_cons_iff in Hnd as [Hnin Hnd].
      rewrite (IH _ _ Hnd), In_upsert. cbn [In]. split.
      + intros [[[[Hz Hne]|Hz] Hn]|[y [Hy Hz]]].
        * left. split; [exact Hz|]. intros [Heq|Hin]; [apply Hne; symmetry; exact Heq|apply Hn; exact Hin].
        * right. exists u. split; [left; reflexivity|exact Hz].
        * right. exists y. split; [right; exact Hy|exact Hz].
      + intros [[Hz Hn]|[y [[Hy|Hy] Hz]]].
        * left. split; [left; split; [exact Hz|]|].
          -- intros Heq. apply Hn. left. symmetry; exact Heq.
          -- intros Hin. apply Hn. right; exact Hin.
        * subst y. left. split; [right; exact Hz|]. subst z. cbn [restamp it_id]. exact Hnin.
        * right. exists y. split; assumption.
  Qed.

  (* ---- the table keeps unique ids ---- *)
  Lemma live_id (x y : item) : it_id x = it_id y -> live x = live y.
  Proof. unfold Model.live. intros ->. reflexivity. Qed.

  Lemma nodup_live_filter (p : item -> bool) st :
    NoDup (ids (filter live st)) -> NoDup (ids (filter live (filter p st))).
  Proof.
    intros Hnd. rewrite filter_and.
    replace (filter (fun x => p x && live x) st) with (filter p (filter live st)).
    - apply NoDup_ids_filter; exact Hnd.
    - rewrite filter_and. apply filter_ext. intros x. apply andb_comm.
  Qed.

  Lemma nodup_delete_all ds : forall st,
    NoDup (ids (filter live st)) -> NoDup (ids (filter live (delete_all ds st))).
  Proof.
    induction ds as [|d ds IH]; intros st Hnd; cbn [Model.delete_all fold_left]; [exact Hnd|].
    apply IH. unfold Model.remove_id. apply nodup_live_filter; exact Hnd.
  Qed.

  Lemma nodup_upsert stamp y st :
    NoDup (ids (filter live st)) -> NoDup (ids (filter live (upsert stamp y st))).
  Proof.
    intros Hnd. unfold Model.upsert. rewrite filter_app.
    assert (Hrem : NoDup (ids (filter live (remove_id (it_id y) st))))
      by (unfold Model.remove_id; apply nodup_live_filter; exact Hnd).
    cbn [filter]. destruct (live (restamp stamp y)); [|rewrite app_nil_r; exact Hrem].
    unfold ids. rewrite map_app. cbn [map restamp it_id].
    eapply Permutation_NoDup; [apply Permutation_cons_append|].
    constructor; [|exact Hrem].
    intros Hin. apply in_map_iff in Hin as [z [Hz Hin]]. apply filter_In in Hin as [Hin _].
    apply In_remove_id in Hin as [_ Hne]. contradiction.
  Qed.

  Lemma nodup_upsert_all stamp us : forall st,
    NoDup (ids (filter live st)) -> NoDup (ids (filter live (upsert_all stamp us st))).
  Proof.
    induction us as [|u us IH]; intros st Hnd; cbn [Model.upsert_all fold_left]; [exact Hnd|].
    apply IH. apply nodup_upsert; exact Hnd.
  Qed.

  Lemma nodup_apply_round stamp d st :
    NoDup (ids (filter live st)) -> NoDup (ids (filter live (apply_round stamp d st))).
  Proof. intros Hnd. unfold Model.apply_round. apply nodup_upsert_all, nodup_delete_all; exact Hnd. Qed.

  (* ---- facts about the view and the replicated part ---- *)
  Lemma in_live_view st x :
    In x (filter live (view st)) <-> In x st /\ live x = true /\ it_local x = false.
  Proof.
    unfold Model.view. rewrite !filter_In, negb_true_iff. tauto.
  Qed.

  Lemma in_repl l x :
    In x (repl l) <-> In x l /\ live x = true /\ applies (it_id x) = true /\ it_local x = false.
  Proof.
    unfold repl. rewrite filter_In, !andb_true_iff, negb_true_iff. tauto.
  Qed.

  Lemma nodup_live_view st : NoDup (ids (filter live st)) -> NoDup (ids (filter live (view st))).
  Proof. intros Hnd. unfold Model.view. apply nodup_live_filter; exact Hnd. Qed.

  Lemma in_issued l x : In x (issued l) <-> In x l /\ applies (it_id x) = true.
  Proof. unfold Model.issued. apply filter_In. Qed.

  Lemma need_update_false last x y :
    need_update last x y = false ->
    (it_mod y <= last)%N \/ same_hash (it_hash x) (it_hash y) = true.
  Proof.
    unfold Model.need_update. intros Hn. apply andb_false_iff in Hn as [Hn|Hn].
    - left. apply N.ltb_ge; exact Hn.
    - right. apply negb_false_iff; exact Hn.
  Qed.

  (* ---- C19_round ---- *)
  Section Round.
    Variables (stamp last : N) (remote st : list item).
    Hypothesis Hst : NoDup (ids (filter live st)).
    Hypothesis Hrem : NoDup (ids (filter live remote)).
    Hypothesis Hglob : all_global remote.

    Let d := diff last (view st) remote.
    Let result := apply_round stamp d st.

    Let Hview : NoDup (ids (filter live (view st))) := nodup_live_view st Hst.

    Lemma del_iff x :
      In x (d_del d) <-> In x (filter live (view st)) /\ ~ In (it_id x) (ids (filter live remote)).
    Proof. apply (in_del_iff keqb kltb is_empty same_hash keqb_spec kltb_irrefl kltb_trans kltb_total); assumption. Qed.

    Lemma ups_iff y :
      In y (d_ups d) <-> In y (filter live remote) /\ upd_needed last (filter live (view st)) y = true.
    Proof. apply (in_ups_iff keqb kltb is_empty same_hash keqb_spec kltb_irrefl kltb_trans kltb_total); assumption. Qed.

    Lemma nodup_issued_ups : NoDup (ids (issued (d_ups d))).
    Proof.
      unfold d. rewrite (walk_is_set_difference keqb kltb is_empty same_hash keqb_spec kltb_irrefl kltb_trans kltb_total
                           last (view st) remote Hview Hrem). cbn [d_ups].
      unfold Model.issued, spec_ups. apply NoDup_ids_filter. apply NoDup_ids_filter.
      eapply Permutation_NoDup; [|exact Hrem]. apply Permutation_map. apply Permutation_sym.
      apply Permutation_filter. apply isort_perm.
    Qed.

    Lemma in_result z :
      In z result <->
      (In z st /\ ~ In (it_id z) (ids (issued (d_del d))) /\ ~ In (it_id z) (ids (issued (d_ups d)))) \/
      (exists y, In y (issued (d_ups d)) /\ z = restamp stamp y).
    Proof.
      unfold result, Model.apply_round. rewrite (In_upsert_all stamp _ _ _ nodup_issued_ups), In_delete_all. tauto.
    Qed.

    Theorem round_converges :
      consistent last (repl st) remote -> hash_sound (repl st) remote ->
      forall kb, In kb (content (repl result)) <-> In kb (content (repl remote)).
    Proof.
      intros Hcons Hsound [k b]. unfold content. rewrite !in_map_iff. split.
      - intros [z [Hkb Hz]]. apply in_repl in Hz as [Hz [Hlz [Haz Hgz]]].
        apply in_result in Hz as [[Hzst [Hnd Hnu]]|[y [Hy Hz]]].
        + (* z was there before and was neither deleted nor overwritten *)
          assert (Hzv : In z (filter live (view st))) by (apply in_live_view; auto).
          assert (Hndel : ~ In z (d_del d)).
          { intros Hin. apply Hnd. apply in_map. apply in_issued. split; assumption. }
          assert (Hinr : In (it_id z) (ids (filter live remote))).
          { destruct (memk (it_id z) (ids (filter live remote))) eqn:Hi.
            - apply (memk_In keqb keqb_spec); exact Hi.
            - apply (memk_false keqb keqb_spec) in Hi. exfalso. apply Hndel. apply del_iff. split; assumption. }
          apply in_map_iff in Hinr as [y [Hyid Hy]].
          assert (Hnups : ~ In y (d_ups d)).
          { intros Hin. apply Hnu. rewrite <- Hyid. apply in_map. apply in_issued. split; [exact Hin|].
            rewrite Hyid; exact Haz. }
          assert (Hupd : upd_needed last (filter live (view st)) y = false).
          { destruct (upd_needed last (filter live (view st)) y) eqn:E; [|reflexivity].
            exfalso. apply Hnups. apply ups_iff. split; assumption. }
          unfold WalkProofs.upd_needed in Hupd.
          rewrite Hyid, (findk_in keqb keqb_spec _ z Hview Hzv) in Hupd.
          apply filter_In in Hy as [Hyr Hly].
          assert (Hzr : In z (repl st)) by (apply in_repl; auto).
          clear Hzv. rename Hzr into Hzv.
          assert (Hbody : it_body z = it_body y).
          { apply need_update_false in Hupd as [Hm|Hs].
            - apply (Hcons z y Hzv Hyr (eq_sym Hyid) Hm).
            - apply (Hsound z y Hzv Hyr (eq_sym Hyid) Hs). }
          exists y. split.
          * inversion Hkb; subst. rewrite Hyid, Hbody. reflexivity.
          * apply in_repl. repeat split; [exact Hyr|exact Hly|rewrite Hyid; exact Haz|apply Hglob; exact Hyr].
        + (* z is a remote object written by the round *)
          apply in_issued in Hy as [Hy Hay]. apply ups_iff in Hy as [Hy _].
          apply filter_In in Hy as [Hyr Hly].
          exists y. split.
          * subst z. exact Hkb.
          * apply in_repl. repeat split; [exact Hyr|exact Hly|exact Hay|apply Hglob; exact Hyr].
      - intros [y [Hkb Hy]]. apply in_repl in Hy as [Hyr [Hly [Hay Hgy]]].
        assert (Hyl : In y (filter live remote)) by (apply filter_In; split; assumption).
        destruct (upd_needed last (filter live (view st)) y) eqn:Hupd.
        + (* written by the round *)
          exists (restamp stamp y). split; [exact Hkb|].
          apply in_repl. repeat split; [|exact Hly|exact Hay|exact Hgy].
          apply in_result. right. exists y. split; [|reflexivity].
          apply in_issued. split; [|exact Hay]. apply ups_iff. split; assumption.
        + (* already there with the same content *)
          unfold WalkProofs.upd_needed in Hupd.
          destruct (findk (it_id y) (filter live (view st))) as [x|] eqn:Hf; [|discriminate].
          apply (findk_some keqb keqb_spec) in Hf as [Hxv Hxid].
          pose proof Hxv as Hxv'. apply in_live_view in Hxv' as [Hxst [Hlx Hgx]].
          assert (Hxview : In x (repl st)).
          { apply in_repl. repeat split; [exact Hxst|exact Hlx|rewrite Hxid; exact Hay|exact Hgx]. }
          assert (Hbody : it_body x = it_body y).
          { apply need_update_false in Hupd as [Hm|Hs].
            - apply (Hcons x y Hxview Hyr Hxid Hm).
            - apply (Hsound x y Hxview Hyr Hxid Hs). }
          exists x. split.
          * inversion Hkb; subst. rewrite Hxid, Hbody. reflexivity.
          * apply in_repl. repeat split; [|exact Hlx|rewrite Hxid; exact Hay|exact Hgx].
            apply in_result. left. repeat split; [exact Hxst| |].
            -- intros Hin. apply in_map_iff in Hin as [e [He Hin]]. apply in_issued in Hin as [Hin _].
               apply del_iff in Hin as [_ Hn]. apply Hn. rewrite He, Hxid. apply in_map; exact Hyl.
            -- intros Hin. apply in_map_iff in Hin as [u [Hu Hin]]. apply in_issued in Hin as [Hin _].
               apply ups_iff in Hin as [Hul Hun].
               assert (u = y) by (eapply nodup_ids_inj; [exact Hrem|exact Hul|exact Hyl|congruence]).
               subst u. unfold WalkProofs.upd_needed in Hun.
               rewrite <- Hxid, (findk_in keqb keqb_spec _ x Hview Hxv) in Hun.
               apply need_update_false in Hupd as Hupd'. unfold Model.need_update in Hun.
               destruct Hupd' as [Hm|Hs].
               ++ apply N.ltb_ge in Hm. rewrite Hm in Hun. discriminate.
               ++ rewrite Hs, andb_false_r in Hun. discriminate.
    Qed.
  End Round.

  (* ---- the same statement as a permutation of (id, content) lists ---- *)
  Lemma nodup_content (l : list item) : NoDup (ids (filter live l)) -> NoDup (content (repl l)).
  Proof.
    intros Hnd. apply (NoDup_map_inv fst). unfold content. rewrite map_map. cbn [fst].
    fold (ids (repl l)). unfold repl.
    replace (filter (fun x => live x && applies (it_id x) && negb (it_local x)) l)
      with (filter (fun x => applies (it_id x) && negb (it_local x)) (filter live l)).
    - apply NoDup_ids_filter; exact Hnd.
    - rewrite filter_and. apply filter_ext. intros x. apply andb_assoc.
  Qed.

  Theorem round_permutation stamp last remote st :
    NoDup (ids (filter live st)) -> NoDup (ids (filter live remote)) -> all_global remote ->
    consistent last (repl st) remote -> hash_sound (repl st) remote ->
    Permutation (content (repl (apply_round stamp (diff last (view st) remote) st)))
                (content (repl remote)).
  Proof.
    intros Hst Hrem Hglob Hc Hs. apply NoDup_Permutation.
    - apply nodup_content. apply nodup_apply_round; exact Hst.
    - apply nodup_content; exact Hrem.
    - apply round_converges; assumption.
  Qed.

  (* a full sync needs no assumption on [last]: raft indexes are positive *)
  Lemma consistent_zero L R : (forall y, In y R -> (0 < it_mod y)%N) -> consistent 0 L R.
  Proof. intros Hpos x y _ Hy _ Hle. specialize (Hpos y Hy). lia. Qed.

  Lemma effective_last_backwards ri last : (ri < last)%N -> effective_last ri last = 0%N.
  Proof. intros Hlt. unfold effective_last. apply N.ltb_lt in Hlt. rewrite Hlt. reflexivity. Qed.

  Lemma effective_last_forward ri last : (last <= ri)%N -> effective_last ri last = last.
  Proof. intros Hle. unfold effective_last. apply N.ltb_ge in Hle. rewrite Hle. reflexivity. Qed.

  (* ---- FetchUpdated: fetching the upserts by id returns exactly the objects the walk chose ---- *)
  Lemma fetch_updated_exact last local remote :
    NoDup (ids (filter live local)) -> NoDup (ids (filter live remote)) ->
    fetch_updated (ids (d_ups (diff last local remote))) (isort remote) = d_ups (diff last local remote).
  Proof.
    intros Hl Hr.
    pose proof (in_ups_iff keqb kltb is_empty same_hash keqb_spec kltb_irrefl kltb_trans kltb_total
                  last local remote) as Hiff.
    rewrite (walk_is_set_difference keqb kltb is_empty same_hash keqb_spec kltb_irrefl kltb_trans kltb_total
               last local remote Hl Hr) in *. cbn [d_ups] in *.
    unfold Model.fetch_updated, spec_ups. rewrite filter_and.
    apply filter_ext_in. intros y Hy.
    assert (Hsr : NoDup (ids (filter live (isort remote)))).
    { eapply Permutation_NoDup; [|exact Hr]. apply Permutation_map. apply Permutation_sym.
      apply Permutation_filter. apply isort_perm. }
    destruct (live y && WalkProofs.upd_needed keqb same_hash last (filter live local) y) eqn:E.
    - apply (memk_In keqb keqb_spec). apply in_map. apply filter_In. split; [exact Hy|exact E].
    - apply (memk_false keqb keqb_spec). intros Hin. apply in_map_iff in Hin as [u [Hu Hin]].
      apply filter_In in Hin as [Hus Hun]. apply andb_true_iff in Hun as [Hlu Hpu].
      assert (Hly : live y = true) by (rewrite <- (live_id u y Hu); exact Hlu).
      assert (u = y).
      { eapply nodup_ids_inj; [exact Hsr| | |exact Hu]; apply filter_In; split; assumption. }
      subst u. rewrite Hly, Hpu in E. discriminate.
  Qed.

  Theorem acl_round_is_round stamp ri last remote st :
    NoDup (ids (filter live st)) -> NoDup (ids (filter live remote)) ->
    acl_round stamp ri last remote st = round stamp ri last remote st.
  Proof.
    intros Hst Hrem. unfold Model.acl_round, Model.round, Model.apply_round.
    rewrite fetch_updated_exact; [reflexivity|apply nodup_live_view; exact Hst|exact Hrem].
  Qed.

  (* ---- C19_local_untouched ---- *)
  Lemma filter_untouchable_remove k st :
    (forall x, In x st -> untouchable x = true -> it_id x <> k) ->
    filter untouchable (remove_id k st) = filter untouchable st.
  Proof.
    intros Hne. unfold Model.remove_id. apply filter_filter_in. intros x Hx Hu.
    apply negb_true_iff. apply (keqb_false keqb keqb_spec). apply Hne; assumption.
  Qed.

  Lemma filter_untouchable_delete_all ds : forall st,
    (forall e x, In e ds -> In x st -> untouchable x = true -> it_id x <> it_id e) ->
    filter untouchable (delete_all ds st) = filter untouchable st.
  Proof.
    induction ds as [|e ds IH]; intros st Hne; cbn [Model.delete_all fold_left]; [reflexivity|].
    fold (delete_all ds (remove_id (it_id e) st)). rewrite IH.
    - apply filter_untouchable_remove. intros x Hx Hu. apply (Hne e x); [left; reflexivity|exact Hx|exact Hu].
    - intros e' x He' Hx Hu. apply In_remove_id in Hx as [Hx _]. apply (Hne e' x); [right; exact He'|exact Hx|exact Hu].
  Qed.

  Lemma filter_untouchable_upsert_all stamp us : forall st,
    (forall u, In u us -> untouchable u = false) ->
    (forall u x, In u us -> In x st -> untouchable x = true -> it_id x <> it_id u) ->
    filter untouchable (upsert_all stamp us st) = filter untouchable st.
  Proof.
    induction us as [|u us IH]; intros st Hun Hne; cbn [Model.upsert_all fold_left]; [reflexivity|].
    fold (upsert_all stamp us (upsert stamp u st)). rewrite IH.
    - unfold Model.upsert. rewrite filter_app. cbn [filter].
      assert (Hu : untouchable (restamp stamp u) = false) by (apply (Hun u); left; reflexivity).
      rewrite Hu, app_nil_r. apply filter_untouchable_remove.
      intros x Hx Hux. apply (Hne u x); [left; reflexivity|exact Hx|exact Hux].
    - intros u' Hu'. apply Hun. right; exact Hu'.
    - intros u' x Hu' Hx Hux. apply In_upsert in Hx as [[Hx _]|Hx].
      + apply (Hne u' x); [right; exact Hu'|exact Hx|exact Hux].
      + subst x. exfalso. assert (Hf : untouchable (restamp stamp u) = false) by (apply (Hun u); left; reflexivity).
        congruence.
  Qed.

  (* Whatever replication is not responsible for -- tokens of local scope, objects with an empty id,
     kinds the apply step does not write -- is left exactly as it was (same objects, same order).
     Only hypothesis besides unique ids: a local-scoped object does not carry the id of a remote one. *)
  Theorem local_untouched stamp last remote st :
    NoDup (ids (filter live st)) -> all_global remote ->
    (forall x, In x st -> it_local x = true -> live x = true -> ~ In (it_id x) (ids (filter live remote))) ->
    filter untouchable (apply_round stamp (diff last (view st) remote) st) = filter untouchable st.
  Proof.
    intros Hst Hglob Hdisj. unfold Model.apply_round.
    destruct (diff_sub keqb kltb is_empty same_hash last (view st) remote) as [Hd Hu].
    rewrite filter_untouchable_upsert_all.
    - apply filter_untouchable_delete_all. intros e x He Hx Hux Heq.
      apply in_issued in He as [He Hae]. destruct (Hd e He) as [Hev Hle].
      unfold Model.view in Hev. apply filter_In in Hev as [Hest Hge]. apply negb_true_iff in Hge.
      unfold untouchable in Hux. apply orb_true_iff in Hux as [Hux|Hux]; [apply orb_true_iff in Hux as [Hux|Hux]|].
      + (* x is local-scoped: it would be the same row as e *)
        assert (x = e).
        { eapply nodup_ids_inj; [exact Hst| | |exact Heq]; apply filter_In; split; try assumption.
          rewrite (live_id x e Heq); exact Hle. }
        subst x. congruence.
      + unfold Model.live in Hle. rewrite <- Heq, Hux in Hle. discriminate.
      + rewrite Heq, Hae in Hux. discriminate.
    - intros u Hin. apply in_issued in Hin as [Hin Hau]. destruct (Hu u Hin) as [Hur Hlu].
      unfold untouchable. rewrite (Hglob u Hur), Hau. unfold Model.live in Hlu.
      apply negb_true_iff in Hlu. rewrite Hlu. reflexivity.
    - intros u x Hin Hx Hux Heq. apply in_issued in Hin as [Hin Hau]. destruct (Hu u Hin) as [Hur Hlu].
      apply In_delete_all in Hx as [Hx _].
      unfold untouchable in Hux. apply orb_true_iff in Hux as [Hux|Hux]; [apply orb_true_iff in Hux as [Hux|Hux]|].
      + apply (Hdisj x Hx Hux).
        * rewrite (live_id x u Heq); exact Hlu.
        * rewrite Heq. apply in_map. apply filter_In. split; assumption.
      + unfold Model.live in Hlu. rewrite <- Heq, Hux in Hlu. discriminate.
      + rewrite Heq, Hau in Hux. discriminate.
  Qed.

  (* ---- C19_idempotent ---- *)
  Theorem idempotent last remote st :
    NoDup (ids (filter live st)) -> NoDup (ids (filter live remote)) -> all_global remote ->
    (forall kb, In kb (content (repl st)) <-> In kb (content (repl remote))) ->
    hash_complete last (repl st) remote ->
    issued (d_del (diff last (view st) remote)) = [] /\ issued (d_ups (diff last (view st) remote)) = [].
  Proof.
    intros Hst Hrem Hglob Heq Hcomp.
    pose proof (nodup_live_view st Hst) as Hview.
    split; unfold Model.issued; apply filter_nil_iff.
    - intros e He. destruct (applies (it_id e)) eqn:Ha; [|reflexivity]. exfalso.
      apply (in_del_iff keqb kltb is_empty same_hash keqb_spec kltb_irrefl kltb_trans kltb_total
               last (view st) remote e Hview Hrem) in He as [Hev Hn].
      apply in_live_view in Hev as [Hest [Hle Hge]].
      assert (Hin : In (it_id e, it_body e) (content (repl st))).
      { unfold content. apply in_map_iff. exists e. split; [reflexivity|]. apply in_repl. auto. }
      apply Heq in Hin. unfold content in Hin. apply in_map_iff in Hin as [y [Hkb Hy]].
      apply in_repl in Hy as [Hyr [Hly _]]. injection Hkb as Hid Hb. apply Hn. rewrite <- Hid.
      apply in_map. apply filter_In. split; assumption.
    - intros y Hy. destruct (applies (it_id y)) eqn:Ha; [|reflexivity]. exfalso.
      apply (in_ups_iff keqb kltb is_empty same_hash keqb_spec kltb_irrefl kltb_trans kltb_total
               last (view st) remote y Hview Hrem) in Hy as [Hyl Hupd].
      apply filter_In in Hyl as [Hyr Hly].
      assert (Hin : In (it_id y, it_body y) (content (repl remote))).
      { unfold content. apply in_map_iff. exists y. split; [reflexivity|]. apply in_repl. auto. }
      apply Heq in Hin. unfold content in Hin. apply in_map_iff in Hin as [x [Hkb Hx]].
      apply in_repl in Hx as [Hxst [Hlx [_ Hgx]]]. injection Hkb as Hid Hb.
      assert (Hxv : In x (filter live (view st))) by (apply in_live_view; auto).
      unfold WalkProofs.upd_needed in Hupd.
      rewrite <- Hid, (findk_in keqb keqb_spec _ x Hview Hxv) in Hupd.
      assert (Hxr : In x (repl st)).
      { apply in_repl. repeat split; [exact Hxst|exact Hlx|rewrite Hid; exact Ha|exact Hgx]. }
      rewrite (Hcomp x y Hxr Hyr Hid Hb) in Hupd. discriminate.
  Qed.

  (* ---- across rounds: what a round leaves is what the next round may assume ---- *)

  (* R' is a later snapshot of the primary than R, which was taken at index ri: whatever R' has not
     modified after ri is in R, unchanged *)
  Definition evolves_above (ri : N) (R R' : list item) : Prop :=
    forall y, In y R' -> (it_mod y <= ri)%N -> In y R.

  Theorem round_reestablishes_consistent stamp ri last remote st R' :
    NoDup (ids (filter live st)) -> NoDup (ids (filter live remote)) -> all_global remote ->
    consistent last (repl st) remote -> hash_sound (repl st) remote ->
    evolves_above ri remote R' ->
    consistent ri (repl (apply_round stamp (diff last (view st) remote) st)) R'.
  Proof.
    intros Hst Hrem Hglob Hc Hs Hev x y Hx Hy Hid Hm.
    pose proof (Hev y Hy Hm) as Hyr.
    pose proof Hx as Hx'. apply in_repl in Hx' as [Hxs [Hlx [Hax Hgx]]].
    assert (Hin : In (it_id y, it_body y) (content (repl remote))).
    { unfold content. apply in_map_iff. exists y. split; [reflexivity|]. apply in_repl.
      repeat split; [exact Hyr|rewrite <- (live_id x y Hid); exact Hlx|rewrite <- Hid; exact Hax|apply Hglob; exact Hyr]. }
    apply (round_converges stamp last remote st Hst Hrem Hglob Hc Hs) in Hin.
    unfold content in Hin. apply in_map_iff in Hin as [x2 [Hkb Hx2]]. injection Hkb as Hid2 Hb2.
    apply in_repl in Hx2 as [Hx2s [Hlx2 _]].
    assert (x2 = x).
    { eapply nodup_ids_inj;
        [apply (nodup_apply_round stamp (diff last (view st) remote) st Hst)| | |congruence];
        apply filter_In; split; eassumption. }
    subst x2. exact Hb2.
  Qed.

  (* the round that follows, on an unchanged primary whose objects are all at or below the returned
     index, writes nothing -- whatever the hash test says (zero hashes, no hash test at all) *)
  Theorem second_round_silent stamp ri last remote st :
    NoDup (ids (filter live st)) -> NoDup (ids (filter live remote)) -> all_global remote ->
    consistent last (repl st) remote -> hash_sound (repl st) remote ->
    (forall y, In y remote -> (it_mod y <= ri)%N) ->
    let st' := apply_round stamp (diff last (view st) remote) st in
    issued (d_del (diff ri (view st') remote)) = [] /\ issued (d_ups (diff ri (view st') remote)) = [].
  Proof.
    intros Hst Hrem Hglob Hc Hs Hm st'. apply idempotent; try assumption.
    - apply nodup_apply_round; exact Hst.
    - apply round_converges; assumption.
    - intros x y _ Hy _ _. unfold Model.need_update. specialize (Hm y Hy). apply N.ltb_ge in Hm.
      rewrite Hm. reflexivity.
  Qed.

  (* two rounds: the second one, run with last := the index the first one returned, converges to a later
     snapshot with no assumption about [last] *)
  Theorem two_rounds stamp stamp' ri last remote st R' :
    NoDup (ids (filter live st)) -> NoDup (ids (filter live remote)) -> all_global remote ->
    consistent last (repl st) remote -> hash_sound (repl st) remote ->
    evolves_above ri remote R' -> NoDup (ids (filter live R')) -> all_global R' ->
    let st' := apply_round stamp (diff last (view st) remote) st in
    hash_sound (repl st') R' ->
    Permutation (content (repl (apply_round stamp' (diff ri (view st') R') st'))) (content (repl R')).
  Proof.
    intros Hst Hrem Hglob Hc Hs Hev Hr' Hg' st' Hs'. apply round_permutation; try assumption.
    - apply nodup_apply_round; exact Hst.
    - apply round_reestablishes_consistent; assumption.
  Qed.

  (* what the round writes carries the primary's hash: the next round's hash test sees it *)
  Lemma restamp_keeps stamp (y : item) :
    it_id (restamp stamp y) = it_id y /\ it_hash (restamp stamp y) = it_hash y /\
    it_body (restamp stamp y) = it_body y /\ it_local (restamp stamp y) = it_local y.
  Proof. repeat split. Qed.

  (* ---- two snapshots of the primary ---- *)
  Notation acl_round_two := (@acl_round_two K H keqb kltb is_empty same_hash applies).

  Lemma acl_round_two_same stamp ri last remote st :
    acl_round_two stamp ri last remote remote st = acl_round stamp ri last remote st.
  Proof. reflexivity. Qed.

  (* the batch read agrees with the list on the objects the round upserts: same round *)
  Theorem two_snapshots_agree stamp ri last remote batch st :
    (let d := diff (effective_last ri last) (view st) remote in
     fetch_updated (ids (d_ups d)) (isort batch) = fetch_updated (ids (d_ups d)) (isort remote)) ->
    acl_round_two stamp ri last remote batch st = acl_round stamp ri last remote st.
  Proof. intros Heq. unfold Model.acl_round_two, Model.acl_round. cbn zeta in Heq. rewrite Heq. reflexivity. Qed.

  (* ---- writes the state store refuses (unique names) ---- *)
  Variable name_of : N -> option N.
  Notation upsert_batch := (@upsert_batch K H keqb name_of).
  Notation name_conflict := (@name_conflict K H keqb name_of).
  Notation holds_name := (@holds_name K H name_of).
  Notation acl_round_store := (@acl_round_store K H keqb kltb is_empty same_hash applies name_of).

  Lemma upsert_batch_some stamp us : forall st st',
    upsert_batch stamp us st = Some st' -> st' = upsert_all stamp us st.
  Proof.
    induction us as [|y us IH]; intros st st'; cbn [Model.upsert_batch Model.upsert_all fold_left].
    - intros Heq. injection Heq as <-. reflexivity.
    - destruct (name_conflict y st); [discriminate|]. apply IH.
  Qed.

  (* every issued write accepted: the round is the idealised one (so C19_round applies to it) *)
  Theorem store_round_accepted stamp ri last remote st st' :
    acl_round_store stamp ri last remote st = (st', true) ->
    st' = acl_round stamp ri last remote st.
  Proof.
    unfold Model.acl_round_store, Model.acl_round.
    destruct (upsert_batch stamp _ _) as [st2|] eqn:E; [|discriminate].
    intros Heq. injection Heq as <-. apply upsert_batch_some in E. exact E.
  Qed.

  (* a refused batch: only the deletions happened *)
  Theorem store_round_refused stamp ri last remote st st' :
    acl_round_store stamp ri last remote st = (st', false) ->
    st' = delete_all (issued (d_del (diff (effective_last ri last) (view st) remote))) st.
  Proof.
    unfold Model.acl_round_store.
    destruct (upsert_batch stamp _ _) as [st2|] eqn:E; [discriminate|].
    intros Heq. injection Heq as <-. reflexivity.
  Qed.

  (* A sufficient condition for acceptance that can be read off the two tables: no upserted object takes
     a name that another id of the secondary (one that survives the deletions) holds, and the upserts'
     names are pairwise different (they are: names are unique in the primary). *)
  Definition name_free (us st : list item) : Prop :=
    forall u x n, In u us -> In x st -> name_of (it_body u) = Some n ->
      it_id x <> it_id u -> holds_name n x = false.

  Definition names_distinct (us : list item) : Prop :=
    forall u v n, In u us -> In v us -> name_of (it_body u) = Some n -> name_of (it_body v) = Some n ->
      it_id u = it_id v.

  Lemma name_conflict_false y st :
    (forall x n, In x st -> name_of (it_body y) = Some n -> it_id x <> it_id y -> holds_name n x = false) ->
    name_conflict y st = false.
  Proof.
    intros Hf. unfold Model.name_conflict. destruct (name_of (it_body y)) as [n|] eqn:E; [|reflexivity].
    destruct (existsb _ st) eqn:Ex; [|reflexivity].
    apply existsb_exists in Ex as [x [Hx Hc]]. apply andb_true_iff in Hc as [Hne Hh].
    apply negb_true_iff in Hne. apply (keqb_false keqb keqb_spec) in Hne.
    rewrite (Hf x n Hx eq_refl Hne) in Hh. discriminate.
  Qed.

  Theorem accepted_when_names_free stamp us : forall st,
    name_free us st -> names_distinct us ->
    upsert_batch stamp us st = Some (upsert_all stamp us st).
  Proof.
    induction us as [|y us IH]; intros st Hfree Hdist; cbn [Model.upsert_batch Model.upsert_all fold_left]; [reflexivity|].
    rewrite name_conflict_false.
    - apply IH.
      + intros u x n Hu Hx Hn Hne. apply In_upsert in Hx as [[Hx _]|Hx].
        * apply (Hfree u x n); [right; exact Hu|exact Hx|exact Hn|exact Hne].
        * subst x. unfold Model.holds_name. cbn [restamp it_body it_id] in *.
          destruct (name_of (it_body y)) as [m|] eqn:Em; [|reflexivity].
          destruct (N.eqb m n) eqn:Emn; [|reflexivity]. apply N.eqb_eq in Emn. subst m.
          exfalso. apply Hne. apply (Hdist y u n); [left; reflexivity|right; exact Hu|exact Em|exact Hn].
      + intros u v n Hu Hv. apply Hdist; right; assumption.
    - intros x n Hx Hn Hne. apply (Hfree y x n); [left; reflexivity|exact Hx|exact Hn|exact Hne].
  Qed.
End RoundProofs.
