(* The three instances of the replication diff (ACL objects, config entries, federation states):
   their key orders satisfy the laws the generic proofs need; the generic theorems specialised to the
   round functions as the code runs them (with the "remote index went backwards" reset, and for ACL
   objects the fetch of the upserts by id); the exact conditions under which an equal secondary is
   not written to, with witnesses where the unconditional statement fails. *)
From Verif Require Import Base.Prelude.
From Verif Require Import Repl.Model.
From Verif Require Import Repl.Order.
From Verif Require Import Repl.WalkProofs.
From Verif Require Import Repl.RoundProofs.
From Coq Require Import Sorting.Permutation.

(* ------------------------------------------------------------------ Go string order *)
Lemma bytes_ltb_irrefl a : bytes_ltb a a = false.
Proof. induction a as [|x a IH]; cbn [bytes_ltb]; [reflexivity|]. rewrite N.ltb_irrefl. exact IH. Qed.

Lemma bytes_cmp_cases a : forall b,
  (bytes_ltb a b = true /\ bytes_ltb b a = false /\ a <> b) \/ a = b \/
  (bytes_ltb b a = true /\ bytes_ltb a b = false /\ a <> b).
Proof.
  induction a as [|x a IH]; intros [|y b]; cbn [bytes_ltb].
  - right; left; reflexivity.
  - left. repeat split; congruence.
  - right; right. repeat split; congruence.
  - destruct (N.ltb x y) eqn:Exy.
    + left. assert (N.ltb y x = false) by (apply N.ltb_ge; apply N.ltb_lt in Exy; lia).
      rewrite H. repeat split. intros Heq. injection Heq as -> _. rewrite N.ltb_irrefl in Exy. discriminate.
    + destruct (N.ltb y x) eqn:Eyx.
      * right; right. repeat split. intros Heq. injection Heq as -> _. rewrite N.ltb_irrefl in Eyx. discriminate.
      * assert (x = y) by (apply N.ltb_ge in Exy, Eyx; lia). subst y.
        destruct (IH b) as [[H1 [H2 H3]]|[H1|[H1 [H2 H3]]]].
        -- left. repeat split; try assumption. congruence.
        -- right; left. congruence.
        -- right; right. repeat split; try assumption. congruence.
Qed.

Lemma bytes_ltb_trans a : forall b c, bytes_ltb a b = true -> bytes_ltb b c = true -> bytes_ltb a c = true.
Proof.
  induction a as [|x a IH]; intros [|y b] [|z c]; cbn [bytes_ltb]; try congruence.
  intros Hab Hbc.
  destruct (N.ltb x y) eqn:Exy.
  - destruct (N.ltb y z) eqn:Eyz.
    + assert (Hxz : N.ltb x z = true) by (apply N.ltb_lt; apply N.ltb_lt in Exy, Eyz; lia). rewrite Hxz. reflexivity.
    + destruct (N.ltb z y) eqn:Ezy; [discriminate|].
      assert (y = z) by (apply N.ltb_ge in Eyz, Ezy; lia). subst z. rewrite Exy. reflexivity.
  - destruct (N.ltb y x) eqn:Eyx; [discriminate|].
    assert (x = y) by (apply N.ltb_ge in Exy, Eyx; lia). subst y.
    destruct (N.ltb x z) eqn:Exz; [reflexivity|].
    destruct (N.ltb z x) eqn:Ezx; [discriminate|].
    eapply IH; eassumption.
Qed.

Lemma bytes_ltb_total a b : bytes_eqb a b = false -> bytes_ltb a b = false -> bytes_ltb b a = true.
Proof.
  intros Hne Hlt. apply bytes_eqb_neq in Hne.
  destruct (bytes_cmp_cases a b) as [[H1 _]|[H1|[H1 _]]]; [congruence|contradiction|exact H1].
Qed.

(* ------------------------------------------------------------------ (kind, name) order *)
Lemma cfg_eqb_spec (a b : ckey) : cfg_eqb a b = true <-> a = b.
Proof.
  destruct a as [a1 a2], b as [b1 b2]. unfold cfg_eqb. cbn [fst snd].
  rewrite andb_true_iff, !bytes_eqb_eq. split; [intros [-> ->]; reflexivity|intros Heq; injection Heq; auto].
Qed.

Lemma cfg_ltb_irrefl a : cfg_ltb a a = false.
Proof. destruct a as [a1 a2]. unfold cfg_ltb. cbn [fst snd]. rewrite !bytes_ltb_irrefl. reflexivity. Qed.

Lemma cfg_ltb_trans a b c : cfg_ltb a b = true -> cfg_ltb b c = true -> cfg_ltb a c = true.
Proof.
  destruct a as [a1 a2], b as [b1 b2], c as [c1 c2]. unfold cfg_ltb. cbn [fst snd].
  destruct (bytes_cmp_cases a1 b1) as [[H1 [H2 _]]|[->|[H1 [H2 _]]]];
  destruct (bytes_cmp_cases b1 c1) as [[H3 [H4 _]]|[->|[H3 [H4 _]]]];
    rewrite ?H1, ?H2, ?H3, ?H4, ?bytes_ltb_irrefl; try congruence.
  - rewrite (bytes_ltb_trans _ _ _ H1 H3). reflexivity.
  - apply bytes_ltb_trans.
Qed.

Lemma cfg_ltb_total a b : cfg_eqb a b = false -> cfg_ltb a b = false -> cfg_ltb b a = true.
Proof.
  destruct a as [a1 a2], b as [b1 b2]. unfold cfg_ltb, cfg_eqb. cbn [fst snd].
  destruct (bytes_cmp_cases a1 b1) as [[H1 [H2 _]]|[->|[H1 [H2 _]]]];
    rewrite ?H1, ?H2, ?bytes_ltb_irrefl, ?bytes_eqb_refl; try congruence.
  cbn [andb]. apply bytes_ltb_total.
Qed.

(* ------------------------------------------------------------------ vocabulary per instance *)
Definition acl_live := @live bytes bytes bytes_is_empty.
Definition acl_repl := @repl bytes bytes bytes_is_empty acl_applies.
Definition acl_untouchable := @untouchable bytes bytes bytes_is_empty acl_applies.
Definition acl_hash_sound := @hash_sound bytes bytes bytes_eqb.
Definition acl_issued := @issued bytes bytes acl_applies.

Definition cfg_live := @live ckey N cfg_is_empty.
Definition cfg_repl := @repl ckey N cfg_is_empty cfg_applies.
Definition cfg_untouchable := @untouchable ckey N cfg_is_empty cfg_applies.
Definition cfg_hash_sound := @hash_sound ckey N cfg_same_hash.
Definition cfg_issued := @issued ckey N cfg_applies.

Definition fed_live := @live bytes unit fed_is_empty.
Definition fed_repl := @repl bytes unit fed_is_empty fed_applies.
Definition fed_issued := @issued bytes unit fed_applies.

(* the hash is a function of the content (what SetHash computes) *)
Definition hash_functional {K H} (L R : list (@item K H)) : Prop :=
  forall x y, In x L -> In y R -> it_id x = it_id y -> it_body x = it_body y -> it_hash x = it_hash y.

(* ------------------------------------------------------------------ ACL *)
Section ACL.
  Let WS := walk_is_set_difference bytes_eqb bytes_ltb bytes_is_empty bytes_eqb
              bytes_eqb_eq bytes_ltb_irrefl bytes_ltb_trans bytes_ltb_total.

  Lemma acl_walk_is_set_difference last (local remote : list acl_item) :
    NoDup (ids (filter acl_live local)) -> NoDup (ids (filter acl_live remote)) ->
    acl_diff last local remote =
      DiffRes (spec_del bytes_eqb (filter acl_live (isort bytes_ltb local)) (filter acl_live remote))
              (spec_ups bytes_eqb bytes_eqb last (filter acl_live local) (filter acl_live (isort bytes_ltb remote)))
              (nempty bytes_is_empty local) (nempty bytes_is_empty remote).
  Proof. exact (WS last local remote). Qed.

  Theorem acl_round_converges stamp ri last (remote st : list acl_item) :
    NoDup (ids (filter acl_live st)) -> NoDup (ids (filter acl_live remote)) -> all_global remote ->
    consistent (effective_last ri last) (acl_repl st) remote -> acl_hash_sound (acl_repl st) remote ->
    Permutation (content (acl_repl (acl_round_m stamp ri last remote st))) (content (acl_repl remote)).
  Proof.
    intros Hst Hrem Hg Hc Hs. unfold acl_round_m.
    rewrite (acl_round_is_round bytes_eqb bytes_ltb bytes_is_empty bytes_eqb acl_applies
               bytes_eqb_eq bytes_ltb_irrefl bytes_ltb_trans bytes_ltb_total); try assumption.
    unfold round.
    apply (round_permutation bytes_eqb bytes_ltb bytes_is_empty bytes_eqb acl_applies
             bytes_eqb_eq bytes_ltb_irrefl bytes_ltb_trans bytes_ltb_total); assumption.
  Qed.

  (* the primary's index went backwards: the round is a full sync, whatever [last] was *)
  Theorem acl_full_sync stamp ri last (remote st : list acl_item) :
    (ri < last)%N -> (forall y, In y remote -> (0 < it_mod y)%N) ->
    NoDup (ids (filter acl_live st)) -> NoDup (ids (filter acl_live remote)) -> all_global remote ->
    acl_hash_sound (acl_repl st) remote ->
    Permutation (content (acl_repl (acl_round_m stamp ri last remote st))) (content (acl_repl remote)).
  Proof.
    intros Hlt Hpos Hst Hrem Hg Hs. apply acl_round_converges; try assumption.
    rewrite effective_last_backwards by exact Hlt. apply consistent_zero; exact Hpos.
  Qed.

  Theorem acl_local_untouched stamp ri last (remote st : list acl_item) :
    NoDup (ids (filter acl_live st)) -> NoDup (ids (filter acl_live remote)) -> all_global remote ->
    (forall x, In x st -> it_local x = true -> acl_live x = true -> ~ In (it_id x) (ids (filter acl_live remote))) ->
    filter acl_untouchable (acl_round_m stamp ri last remote st) = filter acl_untouchable st.
  Proof.
    intros Hst Hrem Hg Hd. unfold acl_round_m.
    rewrite (acl_round_is_round bytes_eqb bytes_ltb bytes_is_empty bytes_eqb acl_applies
               bytes_eqb_eq bytes_ltb_irrefl bytes_ltb_trans bytes_ltb_total); try assumption.
    unfold round.
    apply (local_untouched bytes_eqb bytes_ltb bytes_is_empty bytes_eqb acl_applies bytes_eqb_eq); assumption.
  Qed.

  Lemma acl_hash_complete last (L R : list acl_item) :
    hash_functional L R -> hash_complete bytes_eqb last L R.
  Proof.
    intros Hf x y Hx Hy Hid Hb. unfold need_update. rewrite (Hf x y Hx Hy Hid Hb), bytes_eqb_refl.
    apply andb_false_r.
  Qed.

  Theorem acl_idempotent last (remote st : list acl_item) :
    NoDup (ids (filter acl_live st)) -> NoDup (ids (filter acl_live remote)) -> all_global remote ->
    hash_functional (acl_repl st) remote ->
    Permutation (content (acl_repl st)) (content (acl_repl remote)) ->
    acl_issued (d_del (acl_diff last (view st) remote)) = [] /\
    acl_issued (d_ups (acl_diff last (view st) remote)) = [].
  Proof.
    intros Hst Hrem Hg Hf Hp.
    apply (idempotent bytes_eqb bytes_ltb bytes_is_empty bytes_eqb acl_applies
             bytes_eqb_eq bytes_ltb_irrefl bytes_ltb_trans bytes_ltb_total); try assumption.
    - intros kb. split; apply Permutation_in; [exact Hp|apply Permutation_sym; exact Hp].
    - apply acl_hash_complete; exact Hf.
  Qed.
End ACL.

(* ------------------------------------------------------------------ config entries *)
Section Config.
  Lemma cfg_walk_is_set_difference last (local remote : list cfg_item) :
    NoDup (ids local) -> NoDup (ids remote) ->
    cfg_diff last local remote =
      DiffRes (spec_del cfg_eqb (isort cfg_ltb local) remote)
              (spec_ups cfg_eqb cfg_same_hash last local (isort cfg_ltb remote)) 0 0.
  Proof.
    intros Hl Hr.
    assert (Hall : forall l : list cfg_item, filter cfg_live l = l).
    { intros l. apply (filter_true l). }
    pose proof (walk_is_set_difference cfg_eqb cfg_ltb cfg_is_empty cfg_same_hash
                  cfg_eqb_spec cfg_ltb_irrefl cfg_ltb_trans cfg_ltb_total last local remote) as W.
    fold cfg_live in W. rewrite !Hall in W. unfold cfg_diff. rewrite (W Hl Hr).
    assert (Hne : forall l : list cfg_item, nempty cfg_is_empty l = 0%N).
    { intros l. unfold nempty. replace (filter (fun x => negb (live cfg_is_empty x)) l) with (@nil cfg_item); [reflexivity|].
      symmetry. apply filter_nil_iff. intros x _. reflexivity. }
    rewrite !Hne. reflexivity.
  Qed.

  Theorem cfg_round_converges stamp ri last (remote st : list cfg_item) :
    NoDup (ids st) -> NoDup (ids remote) -> all_global remote ->
    consistent (effective_last ri last) (cfg_repl st) remote -> cfg_hash_sound (cfg_repl st) remote ->
    Permutation (content (cfg_repl (cfg_round_m stamp ri last remote st))) (content (cfg_repl remote)).
  Proof.
    intros Hst Hrem Hg Hc Hs. unfold cfg_round_m, round.
    apply (round_permutation cfg_eqb cfg_ltb cfg_is_empty cfg_same_hash cfg_applies
             cfg_eqb_spec cfg_ltb_irrefl cfg_ltb_trans cfg_ltb_total); try assumption;
      fold cfg_live; change (filter cfg_live ?l) with (filter (fun _ : cfg_item => true) l);
      rewrite filter_true; assumption.
  Qed.

  Theorem cfg_full_sync stamp ri last (remote st : list cfg_item) :
    (ri < last)%N -> (forall y, In y remote -> (0 < it_mod y)%N) ->
    NoDup (ids st) -> NoDup (ids remote) -> all_global remote -> cfg_hash_sound (cfg_repl st) remote ->
    Permutation (content (cfg_repl (cfg_round_m stamp ri last remote st))) (content (cfg_repl remote)).
  Proof.
    intros Hlt Hpos Hst Hrem Hg Hs. apply cfg_round_converges; try assumption.
    rewrite effective_last_backwards by exact Hlt. apply consistent_zero; exact Hpos.
  Qed.

  (* exported-services entries of the secondary (and anything of local scope) stay as they are *)
  Theorem cfg_local_untouched stamp ri last (remote st : list cfg_item) :
    NoDup (ids st) -> all_global remote ->
    (forall x, In x st -> it_local x = true -> ~ In (it_id x) (ids remote)) ->
    filter cfg_untouchable (cfg_round_m stamp ri last remote st) = filter cfg_untouchable st.
  Proof.
    intros Hst Hg Hd. unfold cfg_round_m, round.
    apply (local_untouched cfg_eqb cfg_ltb cfg_is_empty cfg_same_hash cfg_applies cfg_eqb_spec); try assumption;
      fold cfg_live.
    - change (filter cfg_live st) with (filter (fun _ : cfg_item => true) st). rewrite filter_true. exact Hst.
    - intros x Hx Hl _. change (filter cfg_live remote) with (filter (fun _ : cfg_item => true) remote).
      rewrite filter_true. apply Hd; assumption.
  Qed.

  (* "no writes to an equal secondary" needs the hash test to recognise equal content: a zero hash
     (an entry stored before hashes existed) never does *)
  Theorem cfg_idempotent_partial last (remote st : list cfg_item) :
    NoDup (ids st) -> NoDup (ids remote) -> all_global remote ->
    hash_functional (cfg_repl st) remote ->
    (forall x y, In x (cfg_repl st) -> In y remote -> it_id x = it_id y ->
       (it_hash x <> 0%N /\ it_hash y <> 0%N) \/ (it_mod y <= last)%N) ->
    Permutation (content (cfg_repl st)) (content (cfg_repl remote)) ->
    cfg_issued (d_del (cfg_diff last (view st) remote)) = [] /\
    cfg_issued (d_ups (cfg_diff last (view st) remote)) = [].
  Proof.
    intros Hst Hrem Hg Hf Hz Hp.
    apply (idempotent cfg_eqb cfg_ltb cfg_is_empty cfg_same_hash cfg_applies
             cfg_eqb_spec cfg_ltb_irrefl cfg_ltb_trans cfg_ltb_total); try assumption;
      fold cfg_live.
    - change (filter cfg_live st) with (filter (fun _ : cfg_item => true) st). rewrite filter_true. exact Hst.
    - change (filter cfg_live remote) with (filter (fun _ : cfg_item => true) remote). rewrite filter_true. exact Hrem.
    - intros kb. split; apply Permutation_in; [exact Hp|apply Permutation_sym; exact Hp].
    - intros x y Hx Hy Hid Hb. unfold need_update.
      destruct (Hz x y Hx Hy Hid) as [[Hx0 Hy0]|Hm].
      + unfold cfg_same_hash. apply N.eqb_neq in Hx0, Hy0. rewrite Hx0, Hy0. cbn [orb].
        rewrite (Hf x y Hx Hy Hid Hb), N.eqb_refl. apply andb_false_r.
      + apply N.ltb_ge in Hm. rewrite Hm. reflexivity.
  Qed.

  Definition k_svc_a : ckey := ([115;118;99]%N, [97]%N).

  (* ... and without that condition the statement is false: an unhashed entry, equal on both sides,
     modified at the primary after [last] (here last = 0), is written again *)
  Theorem cfg_idempotent_refuted :
    exists last (remote st : list cfg_item),
      NoDup (ids st) /\ NoDup (ids remote) /\ all_global remote /\ hash_functional (cfg_repl st) remote /\
      Permutation (content (cfg_repl st)) (content (cfg_repl remote)) /\
      cfg_issued (d_ups (cfg_diff last (view st) remote)) <> [].
  Proof.
    exists 0%N, [Item k_svc_a 5 0%N 1 false], [Item k_svc_a 3 0%N 1 false].
    repeat split.
    - repeat constructor; intros [].
    - repeat constructor; intros [].
    - intros y [<-|[]]. reflexivity.
    - intros x y [<-|[]] [<-|[]] _ _. reflexivity.
    - apply Permutation_refl.
    - vm_compute. discriminate.
  Qed.
End Config.

(* ------------------------------------------------------------------ federation states *)
Section Fed.
  Theorem fed_round_converges stamp ri last (remote st : list fed_item) :
    NoDup (ids st) -> NoDup (ids remote) -> all_global remote ->
    consistent (effective_last ri last) (fed_repl st) remote ->
    Permutation (content (fed_repl (fed_round_m stamp ri last remote st))) (content (fed_repl remote)).
  Proof.
    intros Hst Hrem Hg Hc. unfold fed_round_m, round.
    apply (round_permutation bytes_eqb bytes_ltb fed_is_empty fed_same_hash fed_applies
             bytes_eqb_eq bytes_ltb_irrefl bytes_ltb_trans bytes_ltb_total); try assumption;
      fold fed_live; try (change (filter fed_live ?l) with (filter (fun _ : fed_item => true) l);
                          rewrite filter_true; assumption).
    intros x y _ _ _ Hs. discriminate.
  Qed.

  (* no hash test at all: an equal secondary is left alone only when nothing is newer than [last] *)
  Theorem fed_idempotent_partial last (remote st : list fed_item) :
    NoDup (ids st) -> NoDup (ids remote) -> all_global remote ->
    (forall y, In y remote -> (it_mod y <= last)%N) ->
    Permutation (content (fed_repl st)) (content (fed_repl remote)) ->
    fed_issued (d_del (fed_diff last (view st) remote)) = [] /\
    fed_issued (d_ups (fed_diff last (view st) remote)) = [].
  Proof.
    intros Hst Hrem Hg Hm Hp.
    apply (idempotent bytes_eqb bytes_ltb fed_is_empty fed_same_hash fed_applies
             bytes_eqb_eq bytes_ltb_irrefl bytes_ltb_trans bytes_ltb_total); try assumption;
      fold fed_live.
    - change (filter fed_live st) with (filter (fun _ : fed_item => true) st). rewrite filter_true. exact Hst.
    - change (filter fed_live remote) with (filter (fun _ : fed_item => true) remote). rewrite filter_true. exact Hrem.
    - intros kb. split; apply Permutation_in; [exact Hp|apply Permutation_sym; exact Hp].
    - intros x y Hx Hy _ _. unfold need_update. specialize (Hm y Hy). apply N.ltb_ge in Hm. rewrite Hm. reflexivity.
  Qed.

  Theorem fed_idempotent_refuted :
    exists last (remote st : list fed_item),
      NoDup (ids st) /\ NoDup (ids remote) /\ all_global remote /\
      Permutation (content (fed_repl st)) (content (fed_repl remote)) /\
      fed_issued (d_ups (fed_diff last (view st) remote)) <> [].
  Proof.
    exists 0%N, [Item [100;99;50]%N 5 tt 1 false], [Item [100;99;50]%N 3 tt 1 false].
    repeat split.
    - repeat constructor; intros [].
    - repeat constructor; intros [].
    - intros y [<-|[]]. reflexivity.
    - apply Permutation_refl.
    - vm_compute. discriminate.
  Qed.
End Fed.

(* ------------------------------------------------------------------ the hypotheses are needed / satisfiable *)

(* Unique ids are needed: with the same id twice in the secondary's list the walk deletes an
   object the primary still has, and the round does not converge. *)
Definition dup_st : list acl_item := [Item [97]%N 2 [1]%N 1 false; Item [97]%N 3 [1]%N 1 false].
Definition dup_remote : list acl_item := [Item [97]%N 2 [1]%N 1 false].

Lemma unique_ids_needed :
  content (acl_repl (acl_round_m 9 5 5 dup_remote dup_st)) = [] /\
  content (acl_repl dup_remote) = [([97]%N, 1%N)].
Proof. split; vm_compute; reflexivity. Qed.

(* A non-trivial state meeting every hypothesis of the round theorem: the secondary holds an
   up-to-date policy, an outdated one, one the primary deleted, a local token and an unmigrated
   object; the primary also has a new object. *)
Definition ex_st : list acl_item :=
  [ Item [98]%N 4 [2]%N 20 false;       (* b : changed at the primary after last *)
    Item [97]%N 3 [1]%N 10 false;       (* a : up to date *)
    Item [100]%N 2 [4]%N 40 false;      (* d : deleted at the primary *)
    Item [108]%N 6 [7]%N 70 true;       (* l : local scope *)
    Item []%N 1 [9]%N 90 false ].       (* unmigrated, empty id *)
Definition ex_remote : list acl_item :=
  [ Item [99]%N 8 [3]%N 30 false; Item [97]%N 3 [1]%N 10 false; Item [98]%N 7 [5]%N 21 false ].

Lemma example_hypotheses :
  NoDup (ids (filter acl_live ex_st)) /\ NoDup (ids (filter acl_live ex_remote)) /\ all_global ex_remote /\
  consistent (effective_last 8 5) (acl_repl ex_st) ex_remote /\ acl_hash_sound (acl_repl ex_st) ex_remote /\
  content (acl_repl (acl_round_m 9 8 5 ex_remote ex_st)) = [([97]%N, 10%N); ([98]%N, 21%N); ([99]%N, 30%N)] /\
  filter acl_untouchable (acl_round_m 9 8 5 ex_remote ex_st) = filter acl_untouchable ex_st.
Proof.
  split; [|split; [|split; [|split; [|split; [|split]]]]].
  - vm_compute. repeat constructor; cbn; intuition discriminate.
  - vm_compute. repeat constructor; cbn; intuition discriminate.
  - intros y Hy. cbn in Hy. intuition (subst; reflexivity).
  - replace (effective_last 8 5) with 5%N by (vm_compute; reflexivity).
    intros x y Hx Hy Hid Hm. vm_compute in Hx. cbn in Hy.
    destruct Hx as [<-|[<-|[<-|[]]]], Hy as [<-|[<-|[<-|[]]]]; cbn in *; try congruence; try lia.
  - intros x y Hx Hy Hid Hm. vm_compute in Hx. cbn in Hy.
    destruct Hx as [<-|[<-|[<-|[]]]], Hy as [<-|[<-|[<-|[]]]]; cbn in *; try congruence;
      vm_compute in Hm; congruence.
  - vm_compute. reflexivity.
  - vm_compute. reflexivity.
Qed.

(* ------------------------------------------------------------------ across rounds, per instance *)
Section AcrossRounds.
  Theorem acl_two_rounds stamp stamp' ri ri' last (remote R' st : list acl_item) :
    NoDup (ids (filter acl_live st)) -> NoDup (ids (filter acl_live remote)) -> all_global remote ->
    consistent (effective_last ri last) (acl_repl st) remote -> acl_hash_sound (acl_repl st) remote ->
    (ri <= ri')%N -> evolves_above ri remote R' ->
    NoDup (ids (filter acl_live R')) -> all_global R' ->
    acl_hash_sound (acl_repl (acl_round_m stamp ri last remote st)) R' ->
    Permutation (content (acl_repl (acl_round_m stamp' ri' ri R' (acl_round_m stamp ri last remote st))))
                (content (acl_repl R')).
  Proof.
    intros Hst Hrem Hg Hc Hs Hle Hev Hr' Hg'. unfold acl_round_m.
    rewrite (acl_round_is_round bytes_eqb bytes_ltb bytes_is_empty bytes_eqb acl_applies
               bytes_eqb_eq bytes_ltb_irrefl bytes_ltb_trans bytes_ltb_total stamp ri last remote st Hst Hrem).
    intros Hs'.
    rewrite (acl_round_is_round bytes_eqb bytes_ltb bytes_is_empty bytes_eqb acl_applies
               bytes_eqb_eq bytes_ltb_irrefl bytes_ltb_trans bytes_ltb_total); try assumption.
    - unfold round. rewrite (effective_last_forward ri' ri Hle).
      apply (two_rounds bytes_eqb bytes_ltb bytes_is_empty bytes_eqb acl_applies
               bytes_eqb_eq bytes_ltb_irrefl bytes_ltb_trans bytes_ltb_total); assumption.
    - unfold round. apply (nodup_apply_round bytes_eqb bytes_is_empty acl_applies bytes_eqb_eq). exact Hst.
  Qed.

  Theorem acl_second_round_silent stamp ri last (remote st : list acl_item) :
    NoDup (ids (filter acl_live st)) -> NoDup (ids (filter acl_live remote)) -> all_global remote ->
    consistent (effective_last ri last) (acl_repl st) remote -> acl_hash_sound (acl_repl st) remote ->
    (forall y, In y remote -> (it_mod y <= ri)%N) ->
    acl_issued (d_del (acl_diff ri (view (acl_round_m stamp ri last remote st)) remote)) = [] /\
    acl_issued (d_ups (acl_diff ri (view (acl_round_m stamp ri last remote st)) remote)) = [].
  Proof.
    intros Hst Hrem Hg Hc Hs Hm. unfold acl_round_m.
    rewrite (acl_round_is_round bytes_eqb bytes_ltb bytes_is_empty bytes_eqb acl_applies
               bytes_eqb_eq bytes_ltb_irrefl bytes_ltb_trans bytes_ltb_total stamp ri last remote st Hst Hrem).
    unfold round.
    apply (second_round_silent bytes_eqb bytes_ltb bytes_is_empty bytes_eqb acl_applies
             bytes_eqb_eq bytes_ltb_irrefl bytes_ltb_trans bytes_ltb_total); assumption.
  Qed.

  Lemma cfg_all_live (l : list cfg_item) : filter cfg_live l = l.
  Proof. apply (filter_true l). Qed.

  Theorem cfg_two_rounds stamp stamp' ri ri' last (remote R' st : list cfg_item) :
    NoDup (ids st) -> NoDup (ids remote) -> all_global remote ->
    consistent (effective_last ri last) (cfg_repl st) remote -> cfg_hash_sound (cfg_repl st) remote ->
    (ri <= ri')%N -> evolves_above ri remote R' -> NoDup (ids R') -> all_global R' ->
    cfg_hash_sound (cfg_repl (cfg_round_m stamp ri last remote st)) R' ->
    Permutation (content (cfg_repl (cfg_round_m stamp' ri' ri R' (cfg_round_m stamp ri last remote st))))
                (content (cfg_repl R')).
  Proof.
    intros Hst Hrem Hg Hc Hs Hle Hev Hr' Hg' Hs'. unfold cfg_round_m, round in *.
    rewrite (effective_last_forward ri' ri Hle).
    apply (two_rounds cfg_eqb cfg_ltb cfg_is_empty cfg_same_hash cfg_applies
             cfg_eqb_spec cfg_ltb_irrefl cfg_ltb_trans cfg_ltb_total); try assumption;
      fold cfg_live; rewrite cfg_all_live; assumption.
  Qed.

  (* after a round, a round on the unchanged primary writes nothing -- even for entries with a zero hash,
     because the returned index is at or above every modify index of the snapshot *)
  Theorem cfg_second_round_silent stamp ri last (remote st : list cfg_item) :
    NoDup (ids st) -> NoDup (ids remote) -> all_global remote ->
    consistent (effective_last ri last) (cfg_repl st) remote -> cfg_hash_sound (cfg_repl st) remote ->
    (forall y, In y remote -> (it_mod y <= ri)%N) ->
    cfg_issued (d_del (cfg_diff ri (view (cfg_round_m stamp ri last remote st)) remote)) = [] /\
    cfg_issued (d_ups (cfg_diff ri (view (cfg_round_m stamp ri last remote st)) remote)) = [].
  Proof.
    intros Hst Hrem Hg Hc Hs Hm. unfold cfg_round_m, round.
    apply (second_round_silent cfg_eqb cfg_ltb cfg_is_empty cfg_same_hash cfg_applies
             cfg_eqb_spec cfg_ltb_irrefl cfg_ltb_trans cfg_ltb_total); try assumption;
      fold cfg_live; rewrite cfg_all_live; assumption.
  Qed.

  Theorem fed_second_round_silent stamp ri last (remote st : list fed_item) :
    NoDup (ids st) -> NoDup (ids remote) -> all_global remote ->
    consistent (effective_last ri last) (fed_repl st) remote ->
    (forall y, In y remote -> (it_mod y <= ri)%N) ->
    fed_issued (d_del (fed_diff ri (view (fed_round_m stamp ri last remote st)) remote)) = [] /\
    fed_issued (d_ups (fed_diff ri (view (fed_round_m stamp ri last remote st)) remote)) = [].
  Proof.
    intros Hst Hrem Hg Hc Hm. unfold fed_round_m, round.
    apply (second_round_silent bytes_eqb bytes_ltb fed_is_empty fed_same_hash fed_applies
             bytes_eqb_eq bytes_ltb_irrefl bytes_ltb_trans bytes_ltb_total); try assumption;
      fold fed_live; try (change (filter fed_live ?l) with (filter (fun _ : fed_item => true) l);
                          rewrite filter_true; assumption).
    intros x y _ _ _ Hs. discriminate.
  Qed.
End AcrossRounds.

(* ------------------------------------------------------------------ where the code departs from the idealised round *)
Ltac small_lists Hx Hy :=
  vm_compute in Hx, Hy;
  repeat (destruct Hx as [<-|Hx]; [|try contradiction]); try contradiction;
  repeat (destruct Hy as [<-|Hy]; [|try contradiction]); try contradiction.

(* (a) a write the state store refuses: two policies (or roles) whose names were swapped at the primary *)
Definition swap_st : list acl_item :=
  [Item [1]%N 3 [11]%N 1048577 false; Item [2]%N 3 [12]%N 2097154 false].     (* id1: name 1, id2: name 2 *)
Definition swap_remote : list acl_item :=
  [Item [1]%N 8 [13]%N 2097155 false; Item [2]%N 9 [14]%N 1048580 false].     (* id1: name 2, id2: name 1 *)

Theorem store_refuses_name_swap :
  NoDup (ids (filter acl_live swap_st)) /\ NoDup (ids (filter acl_live swap_remote)) /\ all_global swap_remote /\
  consistent (effective_last 10 5) (acl_repl swap_st) swap_remote /\ acl_hash_sound (acl_repl swap_st) swap_remote /\
  (* the round fails and leaves the table as it was; so does every retry (Replicator.Run retries with last = 0) *)
  acl_round_store_m 0 10 5 swap_remote swap_st = (swap_st, false) /\
  acl_round_store_m 0 10 0 swap_remote swap_st = (swap_st, false) /\
  (* while the idealised round would have converged *)
  content (acl_repl (acl_round_m 0 10 5 swap_remote swap_st)) = content (acl_repl swap_remote) /\
  content (acl_repl swap_st) <> content (acl_repl swap_remote).
Proof.
  split; [|split; [|split; [|split; [|split; [|split; [|split; [|split]]]]]]].
  - vm_compute. repeat constructor; cbn; intuition discriminate.
  - vm_compute. repeat constructor; cbn; intuition discriminate.
  - intros y Hy. cbn in Hy. intuition (subst; reflexivity).
  - replace (effective_last 10 5) with 5%N by (vm_compute; reflexivity).
    intros x y Hx Hy Hid Hm. small_lists Hx Hy; cbn in *; try congruence; lia.
  - intros x y Hx Hy Hid Hm. small_lists Hx Hy; cbn in *; try congruence; vm_compute in Hm; congruence.
  - vm_compute. reflexivity.
  - vm_compute. reflexivity.
  - vm_compute. reflexivity.
  - vm_compute. discriminate.
Qed.

Theorem acl_store_round_accepted stamp ri last (remote st st' : list acl_item) :
  acl_round_store_m stamp ri last remote st = (st', true) -> st' = acl_round_m stamp ri last remote st.
Proof. apply (store_round_accepted bytes_eqb bytes_ltb bytes_is_empty bytes_eqb acl_applies acl_name_of). Qed.

(* (b) two snapshots: the token batch read is answered from an older snapshot than the list *)
Definition stale_st : list acl_item := [Item [1]%N 5 [1]%N 1 false].
Definition stale_list : list acl_item := [Item [1]%N 10 [2]%N 2 false].    (* what ACL.TokenList shows *)
Definition stale_batch : list acl_item := [Item [1]%N 5 [1]%N 1 false].    (* what ACL.TokenBatchRead returns *)

Theorem stale_batch_read_sticks :
  NoDup (ids (filter acl_live stale_st)) /\ NoDup (ids (filter acl_live stale_list)) /\ all_global stale_list /\
  consistent (effective_last 12 6) (acl_repl stale_st) stale_list /\ acl_hash_sound (acl_repl stale_st) stale_list /\
  (forall y, In y stale_list -> (it_mod y <= 12)%N) /\
  (* round 1 writes the old content and returns index 12; round 2 (one snapshot, last = 12) changes nothing *)
  let st1 := acl_round_two_m 0 12 6 stale_list stale_batch stale_st in
  let st2 := acl_round_m 0 12 12 stale_list st1 in
  content (acl_repl st2) = [([1]%N, 1%N)] /\ content (acl_repl stale_list) = [([1]%N, 2%N)].
Proof.
  split; [|split; [|split; [|split; [|split; [|split; [|split]]]]]].
  - vm_compute. repeat constructor; cbn; intuition discriminate.
  - vm_compute. repeat constructor; cbn; intuition discriminate.
  - intros y Hy. cbn in Hy. intuition (subst; reflexivity).
  - replace (effective_last 12 6) with 6%N by (vm_compute; reflexivity).
    intros x y Hx Hy Hid Hm. small_lists Hx Hy; cbn in *; lia.
  - intros x y Hx Hy Hid Hm. small_lists Hx Hy. vm_compute in Hm. congruence.
  - intros y Hy. cbn in Hy. destruct Hy as [<-|[]]. cbn. lia.
  - vm_compute. reflexivity.
  - vm_compute. reflexivity.
Qed.

Theorem acl_two_snapshots_agree stamp ri last (remote batch st : list acl_item) :
  fetch_updated bytes_eqb (ids (d_ups (acl_diff (effective_last ri last) (view st) remote))) (isort bytes_ltb batch) =
  fetch_updated bytes_eqb (ids (d_ups (acl_diff (effective_last ri last) (view st) remote))) (isort bytes_ltb remote) ->
  acl_round_two_m stamp ri last remote batch st = acl_round_m stamp ri last remote st.
Proof. apply (two_snapshots_agree bytes_eqb bytes_ltb bytes_is_empty bytes_eqb acl_applies). Qed.

(* ------------------------------------------------------------------ more non-vacuity *)
Definition eq_st : list acl_item := [Item [98]%N 4 [2]%N 20 false; Item [97]%N 9 [1]%N 10 false; Item [108]%N 6 [7]%N 70 true].
Definition eq_remote : list acl_item := [Item [97]%N 7 [1]%N 10 false; Item [98]%N 8 [2]%N 20 false].

Lemma example_idempotent_acl :
  NoDup (ids (filter acl_live eq_st)) /\ NoDup (ids (filter acl_live eq_remote)) /\ all_global eq_remote /\
  hash_functional (acl_repl eq_st) eq_remote /\
  Permutation (content (acl_repl eq_st)) (content (acl_repl eq_remote)) /\
  acl_diff 0 (view eq_st) eq_remote = DiffRes [] [] 0 0.
Proof.
  split; [|split; [|split; [|split; [|split]]]].
  - vm_compute. repeat constructor; cbn; intuition discriminate.
  - vm_compute. repeat constructor; cbn; intuition discriminate.
  - intros y Hy. cbn in Hy. intuition (subst; reflexivity).
  - intros x y Hx Hy Hid Hb. small_lists Hx Hy; cbn in *; congruence.
  - vm_compute. apply perm_swap.
  - vm_compute. reflexivity.
Qed.

Definition k_exp_z : ckey := (exported_services, [122]%N).
Definition cex_st : list cfg_item :=
  [Item k_svc_a 3 5%N 1 false; Item k_exp_z 2 6%N 9 false; Item ([115;118;99]%N, [98]%N) 4 0%N 2 false].
Definition cex_remote : list cfg_item :=
  [Item ([115;118;99]%N, [98]%N) 2 0%N 2 false; Item k_svc_a 7 8%N 3 false; Item k_exp_z 9 7%N 4 false].

(* config entries: an outdated entry, an unhashed equal one not newer than last, exported-services entries on
   both sides with different content: hypotheses of C19_round_config, C19_local_untouched_config and (for the
   second round) C19_idempotent_config_partial are met, and the functions compute what the theorems say *)
Lemma example_config :
  NoDup (ids cex_st) /\ NoDup (ids cex_remote) /\ all_global cex_remote /\
  consistent (effective_last 9 5) (cfg_repl cex_st) cex_remote /\ cfg_hash_sound (cfg_repl cex_st) cex_remote /\
  content (cfg_repl (cfg_round_m 0 9 5 cex_remote cex_st)) = [(([115;118;99]%N, [98]%N), 2%N); (k_svc_a, 3%N)] /\
  filter cfg_untouchable (cfg_round_m 0 9 5 cex_remote cex_st) = [Item k_exp_z 2 6%N 9 false] /\
  (forall x y, In x (cfg_repl (cfg_round_m 0 9 5 cex_remote cex_st)) -> In y cex_remote -> it_id x = it_id y ->
     (it_hash x <> 0%N /\ it_hash y <> 0%N) \/ (it_mod y <= 9)%N) /\
  cfg_issued (d_ups (cfg_diff 9 (view (cfg_round_m 0 9 5 cex_remote cex_st)) cex_remote)) = [].
Proof.
  split; [|split; [|split; [|split; [|split; [|split; [|split; [|split]]]]]]].
  - vm_compute. repeat constructor; cbn; intuition discriminate.
  - vm_compute. repeat constructor; cbn; intuition discriminate.
  - intros y Hy. cbn in Hy. intuition (subst; reflexivity).
  - replace (effective_last 9 5) with 5%N by (vm_compute; reflexivity).
    intros x y Hx Hy Hid Hm. small_lists Hx Hy; cbn in *; try congruence; lia.
  - intros x y Hx Hy Hid Hm. small_lists Hx Hy; cbn in *; try congruence; vm_compute in Hm; congruence.
  - vm_compute. reflexivity.
  - vm_compute. reflexivity.
  - intros x y Hx Hy Hid. small_lists Hx Hy; cbn in *; try congruence; right; lia.
  - vm_compute. reflexivity.
Qed.

(* the primary's index went backwards (rebuilt primary): hypotheses of C19_full_sync_acl with a secondary whose
   [last] is useless *)
Lemma example_full_sync :
  (8 < 50)%N /\ (forall y, In y ex_remote -> (0 < it_mod y)%N) /\ acl_hash_sound (acl_repl ex_st) ex_remote /\
  content (acl_repl (acl_round_m 9 8 50 ex_remote ex_st)) = [([97]%N, 10%N); ([98]%N, 21%N); ([99]%N, 30%N)].
Proof.
  split; [lia|split; [|split]].
  - intros y Hy. cbn in Hy. destruct Hy as [<-|[<-|[<-|[]]]]; cbn; lia.
  - intros x y Hx Hy Hid Hm. small_lists Hx Hy; cbn in *; try congruence; vm_compute in Hm; congruence.
  - vm_compute. reflexivity.
Qed.

Definition fex_st : list fed_item := [Item [100;99;50]%N 3 tt 1 false; Item [100;99;51]%N 3 tt 5 false].
Definition fex_remote : list fed_item := [Item [100;99;50]%N 7 tt 2 false; Item [100;99;49]%N 2 tt 3 false].

Lemma example_fed :
  NoDup (ids fex_st) /\ NoDup (ids fex_remote) /\ all_global fex_remote /\
  consistent (effective_last 8 4) (fed_repl fex_st) fex_remote /\
  content (fed_repl (fed_round_m 0 8 4 fex_remote fex_st)) = [([100;99;49]%N, 3%N); ([100;99;50]%N, 2%N)].
Proof.
  split; [|split; [|split; [|split]]].
  - vm_compute. repeat constructor; cbn; intuition discriminate.
  - vm_compute. repeat constructor; cbn; intuition discriminate.
  - intros y Hy. cbn in Hy. intuition (subst; reflexivity).
  - replace (effective_last 8 4) with 4%N by (vm_compute; reflexivity).
    intros x y Hx Hy Hid Hm. small_lists Hx Hy; cbn in *; try congruence; lia.
  - vm_compute. reflexivity.
Qed.
